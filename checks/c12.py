"""C12 — deterministic output, print/parse fixpoint.
Proved (coq/Props/Properties_C12.v): the model printer `pp` (coq/Fix/Printer.v, mirrors
libasn1print/asn1print.c) is inverted by the reference parser on every well-formed
module AST, hence printing is a fixpoint of print/parse.
Observed on the real asn1c built from the working tree (exploration, not proof):
 (a) faithfulness: `asn1c -E t0` == model pp(a), byte for byte, for generated ASTs a
     rendered to source t0 with randomised layout/comments/alternative spellings;
 (b) fixpoint t2 == t1 and acceptance of t1, same generated per-type code for t0 and t1;
 (c) determinism of the generated tree over repeated runs (ASLR on, padded environment);
 (d) per-type files independent of the order of the file list (all permutations);
 (e) print/parse fixpoint over the shipped corpus."""
import sys, os, itertools, hashlib
from concurrent.futures import ThreadPoolExecutor
sys.path.insert(0, os.path.join(os.path.dirname(os.path.abspath(__file__)), "..", "lib"))
sys.path.insert(0, os.path.dirname(os.path.abspath(__file__)))
from vlib import *
import subprocess, re
import c12_gen as G

GEN_OPTS = ["-pdu=all", "-fcompound-names"]


def run_cmd(args, cwd, env=None, timeout=120):
    try:
        p = subprocess.run(args, cwd=cwd, env=env, stdout=subprocess.PIPE, stderr=subprocess.PIPE, timeout=timeout)
        return p.returncode, p.stdout, p.stderr.decode("latin1")[-1500:]
    except subprocess.TimeoutExpired:
        return 999, b"", "timeout"


def asn1c_E(asn1c, cwd, files, extra=(), env=None):
    return run_cmd([asn1c, "-E"] + list(extra) + list(files), cwd, env)


def read_tree(d):
    out = {}
    for root, _, files in os.walk(d):
        for f in files:
            p = os.path.join(root, f)
            rel = os.path.relpath(p, d)
            if os.path.islink(p):
                out[rel] = b"SYMLINK " + os.readlink(p).encode()
            else:
                out[rel] = open(p, "rb").read()
    return out


def per_type(tree):
    """the files generated from the module text: they carry the `From ASN.1 module` header"""
    return {k: v for k, v in tree.items() if b"From ASN.1 module" in v[:400]}


def gen_code(asn1c, skel, cwd, files, env=None, outdir="out"):
    """asn1c -S skel -pdu=all -fcompound-names -D out files…  (cwd-relative names, so that the
    header comment `found in "in/x.asn1"` is the same in every scratch directory)"""
    od = os.path.join(cwd, outdir)
    shutil.rmtree(od, ignore_errors=True)
    os.makedirs(od)
    rc, so, se = run_cmd([asn1c, "-S", skel] + GEN_OPTS + ["-D", outdir] + list(files), cwd, env)
    return rc, (read_tree(od) if rc == 0 else {}), se


def padded_env(n):
    e = dict(os.environ)
    e["A1V_PAD"] = "x" * n
    e["A1V_PAD2"] = "y" * (n // 3 + 1)
    return e


def diff_trees(a, b):
    keys = sorted(set(a) | set(b))
    return [k for k in keys if a.get(k) != b.get(k)]


def first_diff(a, b):
    a = a.decode("latin1") if isinstance(a, bytes) else a
    b = b.decode("latin1") if isinstance(b, bytes) else b
    al, bl = a.split("\n"), b.split("\n")
    for i in range(max(len(al), len(bl))):
        x = al[i] if i < len(al) else "<eof>"
        y = bl[i] if i < len(bl) else "<eof>"
        if x != y:
            return {"line": i + 1, "a": x[:200], "b": y[:200]}
    return None


# ---------------------------------------------------------------------------
# known-finding classifiers (as narrow as the root causes recorded in findings.d/C12.json)

def src_has_imports(text):
    t = strip_comments(text)
    m = re.search(r"\bIMPORTS\b(.*?);", t, flags=re.S)
    return bool(m and m.group(1).strip())


def strip_comments(text):
    text = re.sub(r"/\*.*?\*/", " ", text, flags=re.S)
    out = []
    for line in text.split("\n"):
        # "--" comment ends at the next "--" or at end of line
        res, i, incom = [], 0, False
        while i < len(line):
            if line.startswith("--", i):
                incom = not incom
                i += 2
                continue
            if not incom:
                res.append(line[i])
            i += 1
        out.append("".join(res))
    return "\n".join(out)


def text_has_triple_paren(text):
    """`(((` … `)))` directly nested: Constraint → '(' ElementSetSpec ')' → '(' ElementSetSpec ')'"""
    t = re.sub(r"\s+", "", strip_comments(text))
    return "(((" in t or "SIZE(((" in t


def text_has_double_paren_after_print(t1):
    t = re.sub(r"\s+", "", t1)
    return "((" in t


def text_has_nested_of_constraint(t1):
    """printed text contains an OF type whose element is an OF type carrying a constraint:
    SEQUENCE|SET OF [tag] SEQUENCE|SET (…) OF — asn1c's own parser aborts on it"""
    t = re.sub(r"\s+", " ", t1)
    return bool(re.search(r"\b(SEQUENCE|SET)( SIZE ?\([^{}]*?\)| \([^{}]*?\))? OF( [a-z][A-Za-z0-9-]*)?( \[[A-Z0-9 ]+\]( IMPLICIT| EXPLICIT)?)? (SEQUENCE|SET) ?(\(|SIZE)", t))


# ---------------------------------------------------------------------------
# one generated single-module case (runs in a worker thread)

def case_single(ctx, idx, m, t0, want_code=True):
    asn1c, skel, root = ctx
    d = os.path.join(root, "s%05d" % idx)
    A, B, A2, A3 = (os.path.join(d, x) for x in ("A", "B", "A2", "A3"))
    for x in (A, B, A2, A3):
        os.makedirs(os.path.join(x, "in"))
    res = {"idx": idx, "name": m["name"]}
    f = "in/m.asn1"
    open(os.path.join(A, f), "w").write(t0)
    rc, t1, se = asn1c_E(asn1c, A, [f])
    res["E0"] = (rc, se)
    if rc != 0:
        return res
    res["t1"] = t1
    open(os.path.join(B, f), "wb").write(t1)
    rc, t2, se = asn1c_E(asn1c, B, [f])
    res["E1"] = (rc, se)
    res["t2"] = t2
    # a third application of the cycle
    if rc == 0 and t2 != t1:
        open(os.path.join(A3, f), "wb").write(t2)
        rc3, t3, _ = asn1c_E(asn1c, A3, [f])
        res["t3_eq_t2"] = (rc3 == 0 and t3 == t2)
    if not want_code:
        shutil.rmtree(d, ignore_errors=True)
        return res
    rcA, treeA, seA = gen_code(asn1c, skel, A, [f])
    res["genA"] = (rcA, seA)
    if rcA == 0:
        rcB, treeB, seB = gen_code(asn1c, skel, B, [f])
        res["genB"] = (rcB, seB)
        pa, pb = per_type(treeA), per_type(treeB)
        res["n_per_type"] = len(pa)
        if rcB == 0:
            dd = diff_trees(pa, pb)
            res["same_code_diff"] = dd
            if dd:
                k = dd[0]
                res["same_code_first"] = (k, first_diff(pa.get(k, b""), pb.get(k, b"")))
            res["other_diff_t0_t1"] = [k for k in diff_trees(treeA, treeB) if k not in dd]
        # determinism: again with a padded environment, and once more unpadded in another directory
        open(os.path.join(A2, f), "w").write(t0)
        rc2, tree2, _ = gen_code(asn1c, skel, A2, [f], env=padded_env(3000 + 517 * (idx % 7)))
        open(os.path.join(A3, f), "w").write(t0)
        rc3, tree3, _ = gen_code(asn1c, skel, A3, [f])
        res["det"] = (rc2, rc3, diff_trees(treeA, tree2), diff_trees(treeA, tree3))
        if res["det"][2] or res["det"][3]:
            k = (res["det"][2] + res["det"][3])[0]
            res["det_first"] = (k, first_diff(treeA.get(k, b""), (tree2 if k in res["det"][2] else tree3).get(k, b"")))
        # -E twice as well
        rcx, t1x, _ = asn1c_E(asn1c, A2, [f], env=padded_env(1234))
        res["E_det"] = (rcx == 0 and t1x == t1)
    shutil.rmtree(d, ignore_errors=True)
    return res


def case_multi(ctx, idx, mods, texts, max_perms):
    """mods: list of (module, imports); file i holds module i.  Every permutation of the file list."""
    asn1c, skel, root = ctx
    d = os.path.join(root, "m%05d" % idx)
    names = ["in/f%d.asn1" % i for i in range(len(mods))]
    perms = list(itertools.permutations(range(len(mods))))[:max_perms]
    res = {"idx": idx, "nfiles": len(mods), "nperms": len(perms), "diffs": [], "other": {}, "rcs": []}
    base = None
    for pi, perm in enumerate(perms):
        P = os.path.join(d, "p%d" % pi)
        os.makedirs(os.path.join(P, "in"))
        for i, t in enumerate(texts):
            open(os.path.join(P, names[i]), "w").write(t)
        rc, tree, se = gen_code(asn1c, skel, P, [names[i] for i in perm])
        res["rcs"].append(rc)
        if pi == 0:
            res["gen0"] = (rc, se)
            if rc != 0:
                break
            base = tree
            res["n_per_type"] = len(per_type(tree))
            # determinism of the multi-file run too
            P2 = os.path.join(d, "p0b")
            os.makedirs(os.path.join(P2, "in"))
            for i, t in enumerate(texts):
                open(os.path.join(P2, names[i]), "w").write(t)
            rcb, treeb, _ = gen_code(asn1c, skel, P2, [names[i] for i in perm], env=padded_env(4099))
            res["det"] = (rcb, diff_trees(tree, treeb))
            # the printed form of the whole module set (one text) must be accepted and compile too
            rce, t1, see = asn1c_E(asn1c, P, [names[i] for i in perm])
            res["E"] = (rce, see)
            if rce == 0:
                P3 = os.path.join(d, "p0c")
                os.makedirs(os.path.join(P3, "in"))
                open(os.path.join(P3, "in/all.asn1"), "wb").write(t1)
                rc3, tree3, se3 = gen_code(asn1c, skel, P3, ["in/all.asn1"])
                res["gen_printed"] = (rc3, se3[-300:], sorted(per_type(tree3)) == sorted(per_type(tree)))
            continue
        if rc != 0:
            res["diffs"].append((perm, "rc=%d" % rc, se[-300:]))
            continue
        pa, pb = per_type(base), per_type(tree)
        dd = diff_trees(pa, pb)
        if dd:
            k = dd[0]
            res["diffs"].append((perm, k, first_diff(pa.get(k, b""), pb.get(k, b""))))
        for k in diff_trees(base, tree):
            if k not in dd:
                res["other"][k] = res["other"].get(k, 0) + 1
    shutil.rmtree(d, ignore_errors=True)
    return res


def case_corpus(ctx, idx, path):
    asn1c, skel, root = ctx
    d = os.path.join(root, "c%05d" % idx)
    os.makedirs(d)
    res = {"path": path}
    src = open(path, "rb").read()
    f0 = "t0.asn1"
    open(os.path.join(d, f0), "wb").write(src)
    rc, t1, se = asn1c_E(asn1c, d, [f0])
    res["E0"] = rc
    res["old_syntax"] = "Obsolete X.208 syntax" in se
    if rc != 0:
        shutil.rmtree(d, ignore_errors=True)
        return res
    open(os.path.join(d, "t1.asn1"), "wb").write(t1)
    rc1, t2, se1 = asn1c_E(asn1c, d, ["t1.asn1"])
    res.update(E1=rc1, E1_err=se1[-400:], t1=t1, t2=t2)
    # a second run of -E on t0 must give the same bytes (determinism of the printer)
    rcx, t1x, _ = asn1c_E(asn1c, d, [f0], env=padded_env(2111))
    res["E_det"] = (rcx == 0 and t1x == t1)
    # semantic acceptance: if the original passes -E -F, so must the printed text
    rcf0, _, _ = asn1c_E(asn1c, d, [f0], extra=["-F"])
    res["F0"] = rcf0
    if rcf0 == 0 and rc1 == 0:
        rcf1, _, sef1 = asn1c_E(asn1c, d, ["t1.asn1"], extra=["-F"])
        res["F1"] = rcf1
        res["F1_err"] = sef1[-400:]
    shutil.rmtree(d, ignore_errors=True)
    return res


# ---------------------------------------------------------------------------

def corpus_files():
    out = []
    for dname in ("tests/tests-asn1c-compiler", "examples"):
        dd = os.path.join(REPO_CORPUS, dname)
        if os.path.isdir(dd):
            out += sorted(os.path.join(dd, f) for f in os.listdir(dd) if f.endswith(".asn1"))
    return out


# the corpus is excluded from the scratch copy (vlib excludes tests/ and examples/); it is input
# data, read from the repository given by VERIF_REPO, falling back to /repo when a private
# copy was made without tests/ and examples/ (as the builder guide's rsync line does)
REPO_CORPUS = REPO if os.path.isdir(os.path.join(REPO, "tests", "tests-asn1c-compiler")) else "/repo"


def multi_modules(rng, size):
    """2-4 modules, module i imports some types of modules j < i; one file per module"""
    k = rng.range(2, 4)
    g = G.Gen(rng, size)
    mods, exported = [], []      # exported: (module name, [type names])
    for i in range(k):
        name = "Mm%s%d" % ("abcd"[i], rng.below(90))
        imps, refs = [], []
        for (mn, tns) in exported:
            if rng.chance(2, 3):
                pick = [t for t in tns if rng.chance(1, 2)] or [tns[0]]
                pick = [t for t in pick if t not in refs]
                if pick:
                    imps.append((pick, mn))
                    refs += pick
        m = g.module(name, nass=rng.range(1, 3), ext_refs=refs)
        # type names must be unique across the module set (one C file per type name)
        mods.append((m, imps))
        exported.append((name, [n for n, _ in m["assigns"]]))
    return mods


def main(tier):
    run = Run("C12", tier)
    # findings of this property: the assembled known_findings.json, or (worktree not yet merged) the fragment
    if not run.findings:
        frag = os.path.join(VERIF, "findings.d", "C12.json")
        if os.path.exists(frag):
            run.findings = [f for f in json.load(open(frag)) if f.get("status") == "open"]
    rng = Rng(run.seed)
    quick = tier == "quick"
    # 1. proofs ------------------------------------------------------------
    nthm = ndis = 0
    names, axioms = [], set()
    have_model = os.path.exists(os.path.join(COQ, "Props", "Properties_C12.v"))
    if have_model:
        ok, out = coq_build()
        nthm, ndis, axioms, names, plog = obligations("C12") if ok else (0, 0, set(), [], out)
        gate = grep_gate()
        if not ok or ndis != nthm or gate or nthm == 0:
            run.violation("proof:Properties_C12", {"what": "Coq development does not build or an obligation is open",
                                                   "log_tail": (out if not ok else plog)[-2000:], "grep_gate": gate}, no_input=True)
    # 2. build asn1c from the working tree -----------------------------------
    try:
        asn1c, skel = build_asn1c()
    except BuildError as e:
        run.violation("build:asn1c", {"what": str(e)[-2000:]}, no_input=True)
        return run.finish("proof", (nthm, ndis))
    root = os.path.join(scratch(), "c12")
    os.makedirs(root, exist_ok=True)
    ctx = (asn1c, skel, root)
    pool = ThreadPoolExecutor(max_workers=min(16, NCPU))

    # 3. generated single modules ---------------------------------------------
    nmod = 60 if quick else 600
    singles = []
    g_small, g_big = G.Gen(rng, 2), G.Gen(rng, 4)
    for i in range(nmod):
        g = g_big if (not quick and i % 3 == 0) else (g_big if i % 5 == 0 else g_small)
        m = g.module("Mod%d" % i)
        singles.append((m, G.render(m, rng), "plain"))
    # dedicated witnesses of the recorded findings (kept in every run, so that a fix shows up)
    nw = 4 if quick else 20
    made = 0
    for (m, _, _) in list(singles):
        if made >= nw:
            break
        w = G.wrap_parens(m, rng)
        if w is not None:
            w["name"] = m["name"] + "w"
            singles.append((w, G.render(w, rng), "witness-paren"))
            made += 1
    for i in range(nw):
        k1, k2 = rng.choice(["SEQUENCE OF", "SET OF"]), rng.choice(["SEQUENCE OF", "SET OF"])
        inner = (None, ("INTEGER", []), ("set", [("range", rng.range(0, 5), rng.range(5, 90))]))
        t = (None, (k1, None, (None, (k2, None, inner), None)), None)
        m = {"name": "Nof%d" % i, "tagdef": "", "extimpl": False, "assigns": [("Qnest%d" % i, t)]}
        singles.append((m, G.render(m, rng), "witness-nested-of"))
    futs = [pool.submit(case_single, ctx, i, m, t0) for i, (m, t0, kind) in enumerate(singles)]
    results = [f.result() for f in futs]

    # model side (faithfulness) ----------------------------------------------
    model_pp = {}
    if have_model:
        model = model_build()
        lines = ["c12_pp " + G.ser_module(G.yacc_norm(m)) for (m, _, _) in singles]
        lines += ["c12_rt " + G.ser_module(G.yacc_norm(m)) for (m, _, _) in singles]
        rcm, mo, me = run_lines(model, lines)
        if rcm != 0 or len(mo) != len(lines):
            run.violation("model:driver", {"what": "model driver failed", "stderr": me}, no_input=True)
        else:
            for i in range(len(singles)):
                model_pp[i] = (mo[i], mo[len(singles) + i])

    for i, ((m, t0, kind), r) in enumerate(zip(singles, results)):
        run.case("single:%s" % m["name"])
        run.count("single_" + kind)
        rep = {"module": m["name"], "t0": t0, "kind": kind}
        norm = G.yacc_norm(m)
        deep = G.module_has_deep_paren(norm)       # printed text has `((x))` at a Constraint's top
        rc0, se0 = r["E0"]
        if rc0 != 0:
            run.violation("oracle:generated-module-rejected", dict(rep, what="asn1c -E rejects a generated module", rc=rc0, stderr=se0))
            continue
        t1 = r["t1"]
        # (a) faithfulness, byte for byte
        if i in model_pp:
            want, rt = model_pp[i]
            got = hexs(t1)
            run.count("faithfulness_cases")
            if want != got:
                run.count("model_vs_code_diff")
                try:
                    wtxt = bytes.fromhex(want).decode("latin1")
                except ValueError:
                    wtxt = want
                run.violation("correspondence:Printer.pp_bytes", dict(rep, what="model printer and asn1c -E disagree",
                              first_diff=first_diff(wtxt, t1), model=wtxt[:3000], c=t1.decode("latin1")[:3000], _pending=True, _idx=i))
            # the model's own round trip on this AST (lexer inverse + parser inverse, executed)
            exp_rt = "wf=true lex=true parse=true" if not deep else None
            if deep:
                run.count("model_rt_nonwf")
                if not rt.startswith("wf=false"):
                    run.violation("model:wf-classifier", dict(rep, what="model wf predicate and python classifier disagree", model=rt), no_input=True)
            elif rt != exp_rt:
                run.violation("model:roundtrip", dict(rep, what="executed model: lex(pp_bytes a) = pp a and parse(pp a) = a fails on a well-formed AST", model=rt), no_input=True)
        # (b) fixpoint
        rc1, se1 = r["E1"]
        fix_ok = (rc1 == 0 and r["t2"] == t1)
        run.count("fixpoint_ok" if fix_ok else "fixpoint_fail")
        if not fix_ok:
            txt1 = t1.decode("latin1")
            if rc1 != 0 and text_has_nested_of_constraint(txt1) and "Assertion" in se1:
                run.known_finding("C12-nested-of", m["name"])
            elif rc1 == 0 and deep and r.get("t3_eq_t2"):
                run.known_finding("C12-paren-collapse", m["name"])
            else:
                run.violation("oracle:fixpoint", dict(rep, what="asn1c -E output is not accepted or does not print to itself",
                              rc=rc1, stderr=se1, t1=txt1[:3000], first_diff=first_diff(t1, r["t2"]) if rc1 == 0 else None))
        # same code
        if "genA" in r:
            rcA, seA = r["genA"]
            if rcA != 0:
                run.count("t0_not_compilable")
                run.count("t0_not_compilable:" + (re.sub(r"[0-9]+", "N", (seA.strip().split("\n") or ["?"])[-1])[:60]))
            else:
                run.count("t0_compiled")
                run.count("per_type_files", r.get("n_per_type", 0))
                rcB, seB = r["genB"]
                if rcB != 0:
                    if rc1 != 0 and text_has_nested_of_constraint(t1.decode("latin1")):
                        pass   # already reported above as C12-nested-of
                    else:
                        run.violation("oracle:same-code", dict(rep, what="printed module does not compile although the original does", rc=rcB, stderr=seB, t1=t1.decode("latin1")[:3000]))
                elif r["same_code_diff"]:
                    run.violation("oracle:same-code", dict(rep, what="generated per-type files differ between the module and its printed form",
                                  files=r["same_code_diff"][:10], first=r["same_code_first"], t1=t1.decode("latin1")[:3000]))
                else:
                    run.count("same_code_ok")
                for k in r.get("other_diff_t0_t1", []):
                    run.count("t0_t1_other_file_diff:" + k)
                # (c) determinism
                rc2, rc3, d2, d3 = r["det"]
                if rc2 != 0 or rc3 != 0 or d2 or d3 or not r["E_det"]:
                    run.violation("oracle:determinism", dict(rep, what="repeated runs of asn1c on the same input differ (padded environment / other directory)",
                                  rcs=[rc2, rc3], files=(d2 + d3)[:10], first=r.get("det_first"), E_same=r["E_det"]))
                else:
                    run.count("determinism_ok")
    for i in (0, len(singles) // 2):
        m, t0, kind = singles[i]
        run.sample({"module": m["name"], "t0": t0[:400], "t1": results[i].get("t1", b"").decode("latin1")[:400]})

    # 4. multi-module sets: file-order independence ------------------------------
    nsets = 12 if quick else 80
    sets = []
    for i in range(nsets):
        mods = multi_modules(rng, 2)
        texts = [G.render(m, rng, imports=imps) for (m, imps) in mods]
        sets.append((mods, texts))
    futs = [pool.submit(case_multi, ctx, i, mods, texts, 24) for i, (mods, texts) in enumerate(sets)]
    for (mods, texts), f in zip(sets, futs):
        r = f.result()
        run.case("multi:%s" % "+".join(m["name"] for m, _ in mods))
        run.count("multi_sets_%d_files" % r["nfiles"])
        rep = {"files": texts}
        rc0, se0 = r["gen0"]
        if rc0 != 0:
            run.count("multi_not_compilable")
            continue
        run.count("multi_permutations", r["nperms"])
        run.count("multi_per_type_files", r.get("n_per_type", 0))
        if r["diffs"]:
            run.violation("oracle:file-order", dict(rep, what="per-type files depend on the order of the input file list", diffs=[list(map(str, x)) for x in r["diffs"][:5]]))
        else:
            run.count("file_order_ok")
        for k, n in r["other"].items():
            run.count("file_order_other_file_diff:" + k, n)
        rcb, db = r["det"]
        if rcb != 0 or db:
            run.violation("oracle:determinism", dict(rep, what="repeated multi-file runs differ", files=db[:10]))
        rce, see = r["E"]
        has_imports = any(imps for _, imps in mods)
        if rce != 0:
            run.violation("oracle:generated-module-rejected", dict(rep, what="asn1c -E rejects a generated module set", stderr=see))
        else:
            rc3, se3, same_names = r["gen_printed"]
            if rc3 != 0 and has_imports and "Unknown" in se3:
                run.known_finding("C12-imports-dropped", "multi")
                run.count("multi_printed_known:C12-imports-dropped")
            elif rc3 != 0 or not same_names:
                run.violation("oracle:same-code", dict(rep, what="printed form of a compilable module set does not compile to the same set of per-type files", stderr=se3))
            else:
                run.count("multi_printed_compiles")

    # 5. shipped corpus ------------------------------------------------------
    files = corpus_files()
    if quick:
        files = rng.shuffle(files)[:45]
    futs = [pool.submit(case_corpus, ctx, i, p) for i, p in enumerate(files)]
    for p, f in zip(files, futs):
        r = f.result()
        rel = os.path.relpath(p, REPO_CORPUS)
        if r["E0"] != 0:
            run.count("corpus_not_standalone")
            continue
        src = open(p, "r", errors="replace").read()
        # the property ranges over modern syntax: X.208 leftovers (ANY [DEFINED BY], unnamed
        # components — asn1c itself warns "Obsolete X.208 syntax") are outside the quantifier;
        # decided on the input's features, not on the outcome
        if r["old_syntax"] or re.search(r"\bANY\b", strip_comments(src)):
            run.count("corpus_old_syntax_excluded")
            continue
        run.case("corpus:" + rel)
        run.count("corpus_parsed")
        t1 = r["t1"].decode("latin1")
        rep = {"file": rel, "replay_cmd": "asn1c -E %s > t1; asn1c -E t1 > t2; cmp t1 t2" % rel}
        if not r["E_det"]:
            run.violation("oracle:determinism", dict(rep, what="asn1c -E printed different text on a second run"))
        if r["E1"] != 0 or r["t2"] != r["t1"]:
            cls = classify_corpus_fixpoint(src, t1, r)
            if cls:
                run.known_finding(cls, rel)
                run.count("corpus_known:" + cls)
            else:
                run.violation("oracle:corpus-fixpoint", dict(rep, what="printed corpus module is not accepted or does not print to itself",
                              rc=r["E1"], stderr=r["E1_err"], first_diff=first_diff(r["t1"], r["t2"]) if r["E1"] == 0 else None))
        else:
            run.count("corpus_fixpoint_ok")
        if r.get("F0") == 0 and "F1" in r:
            if r["F1"] != 0:
                if src_has_imports(src):
                    run.known_finding("C12-imports-dropped", rel)
                    run.count("corpus_known:C12-imports-dropped")
                else:
                    run.violation("oracle:corpus-accepted", dict(rep, what="original passes asn1c -E -F, its printed form does not", stderr=r["F1_err"]))
            else:
                run.count("corpus_semantic_ok")

    # pending correspondence disagreements: did the oracle find a failing input for them?
    bad_oracle = {v.get("module") for v in run.violations if v["kind"].startswith("oracle:")}
    for v in run.violations:
        if v.pop("_pending", False):
            v.pop("_idx", None)
            v["no_failing_input_found"] = v.get("module") not in bad_oracle

    aslr = open("/proc/sys/kernel/randomize_va_space").read().strip() if os.path.exists("/proc/sys/kernel/randomize_va_space") else "?"
    tb = ["Coq 8.16.1 kernel", "axioms under Print Assumptions: " + (", ".join(sorted(axioms)) or "none (Closed under the global context)"),
          "extraction: ExtrOcamlBasic only; OCaml 4.13.1; ocaml/drv_c12.ml (AST reader)",
          "checks/c12.py + checks/c12_gen.py: generator, renderer, yacc_norm (the constraint-tree shape yacc builds), file comparison, finding classifiers",
          "asn1c built by vlib.build_asn1c() from the working tree; kernel.randomize_va_space=" + aslr,
          "determinism / file-order / same-code / corpus fixpoint are observations of the C process on the generated cases, not theorems"]
    return run.finish("proof", (nthm, ndis), trusted_base=tb,
                      checker_cmd="make -C /verif all && coqc -Q coq A1 coq/Props/Properties_C12.v",
                      extra_cov={"theorems": names,
                                 "rule": "a case = one generated module (random AST of the modelled algebra rendered with random layout, comments, UNION/INTERSECTION spellings) or one multi-file module set (all permutations of the file list) or one shipped corpus file",
                                 "observed_not_proved": ["determinism (3 runs per module, padded environment, ASLR=" + aslr + ")", "file-order independence", "same generated code for t0 and asn1c -E t0", "corpus fixpoint"],
                                 "traces_validated_against_impl": run.dist.get("faithfulness_cases", 0)},
                      assumptions=["the yacc grammar is not modelled; the reference parser is tied to asn1c only through -E outputs",
                                   "per-type files = generated files carrying the `From ASN.1 module` header; Makefile.am.libasncodec / pdu_collection.c listing order under file permutation is recorded, not compared",
                                   "generation runs use -pdu=all -fcompound-names"])


def classify_corpus_fixpoint(src, t1, r):
    """returns the id of the recorded finding whose root-cause predicate the file satisfies, else None"""
    if r["E1"] != 0 and "Assertion" in r["E1_err"] and text_has_nested_of_constraint(t1):
        return "C12-nested-of"
    if r["E1"] == 0 and text_has_triple_paren(src) and text_has_double_paren_after_print(t1):
        return "C12-paren-collapse"
    return None


if __name__ == "__main__":
    sys.exit(main(sys.argv[1] if len(sys.argv) > 1 else "quick"))
