"""C01 — encode-then-decode returns the same value in every transfer syntax.
Theorems: coq/Props/Properties_C01.v (DER/BER round trip of the codec model).
Tie, two layers:
 (model layer) generated modules of the modelled algebra (lib/modgen.py): the C
   round trip in all five syntaxes, the C decoders on the model's bytes, and
   transcoding chains, each compared with the extracted model;
 (wide layer) modules over the whole type algebra (lib/widegen.py) with values
   from asn_random_fill: the property evaluated on the implementation alone."""
import sys, os, re, time
sys.path.insert(0, os.path.join(os.path.dirname(os.path.abspath(__file__)), "..", "lib"))
from vlib import *
from modcorpus import *
from concurrent.futures import ThreadPoolExecutor
import c02 as C02
import ext_layer            # extensibility layer (lib/ext_layer.py, notes/design/EXT.md)
import setdef_layer         # SET / DEFAULT layer (lib/setdef_layer.py, notes/design/SetDef.md)
import primb_layer          # restricted character strings (lib/primb_layer.py, notes/design/PrimB.md)
import prima_layer          # ENUMERATED / BIT STRING layer (lib/prima_layer.py, notes/design/PrimA.md)
import c01_dflt             # DEFAULT components x extension additions (lib/c01_dflt.py, coq/Rt/DefaultRt.v)
import c01_width            # INTEGER (lb..ub), both bounds on the OER/PER width boundaries (lib/c01_width.py; model: coq/Rt/Oer.v oer_int_ct)

SYNS = ["der", "cper", "coer", "xer", "cxer"]
TIMES = {}
# The wide layer: lib/widefind.py = AST-returning generator over the wide algebra + the classifier of the known
# defects met there (triage: notes/design/C01-wide.md); harness/moddrv_wide.inc = its driver commands.
import widefind
WIDE, WIDE_FEATURES = True, widefind.FEATURES


def classify_rt(run, m, tn, line, out, typetext, tainted):
    """one `rt` result line -> violations / known findings.  typetext: ASN.1 text of the module (wide layer)"""
    for part in out.split():
        if "=" not in part:
            run.violation("oracle:roundtrip", {"what": "unexpected driver output", "module": m["text"], "command_line": line, "c": out})
            return
        syn, st = part.split("=", 1)
        run.count("rt_%s_%s" % (syn, st.split(":")[0]))
        if st == "OK":
            continue
        mt = re.match(r"DEC:OK:(\d+)/(\d+)$", st)
        if syn == "xer" and mt and int(mt.group(1)) + 1 == int(mt.group(2)):
            run.known_finding("C01-xer-trailing-newline", line)
            continue
        if syn in ("cper", "coer") and st == "ENCFAIL:ENOENT" and re.search(r"\bSET\s*\{", typetext):
            run.known_finding("C01-set-no-per-oer", line)
            continue
        if syn == "coer" and st == "CMP" and tainted.get("wide_fixed_int"):
            run.known_finding("C01-wide-integer-compare", line)
            continue
        if syn == "cper" and st.startswith("ENCFAIL") and tainted.get("semi_lb"):
            run.known_finding("C01-uper-semiconstrained-lb", line)
            continue
        run.violation("oracle:roundtrip(%s)" % syn,
                      {"what": "encode-then-decode does not return the value: " + st, "module": m["text"], "type": tn,
                       "command_line": line, "c": out})


def has_semi_lb(tree):
    k = tree[0]
    if k == "i":
        return tree[2] is not None and tree[2] != 0 and tree[3] is None
    if k == "s":
        return any(has_semi_lb(x) for x in tree[2])
    if k == "c":
        return any(has_semi_lb(x) for x in tree[1])
    if k in ("q", "t"):
        return has_semi_lb(tree[3])
    if k in ("x", "?"):
        return has_semi_lb(tree[-1])
    return False


def wide_fixed_int(tree):
    """INTEGER kept as INTEGER_t (bounds beyond 32 bit) with a fixed OER width"""
    k = tree[0]
    if k == "i":
        lo, hi, ext = tree[2], tree[3], tree[4]
        return lo is not None and hi is not None and not ext and (hi > 2**32 - 1 or lo < -2**31)
    if k == "s":
        return any(wide_fixed_int(x) for x in tree[2])
    if k == "c":
        return any(wide_fixed_int(x) for x in tree[1])
    if k in ("q", "t"):
        return wide_fixed_int(tree[3])
    if k in ("x", "?"):
        return wide_fixed_int(tree[-1])
    return False


def wide_one(m, seeds, nvals):
    """one wide module: values from asn_random_fill that pass the DEEP constraint walk (`wfill`), the round-trip
    battery on each (`wrt`); a command that kills or hangs the driver is re-run per syntax (`rt1`).
    Returns (stats, [(typename, value, facts, syntax, status, stderr, command)])"""
    stats, res = {}, []

    def cnt(k, n=1):
        stats[k] = stats.get(k, 0) + n
    if m.get("fixed_values"):       # the hand-made boundary module: values given as DER, validated by the same deep walk
        lines = ["facts %s der %s" % (tn, v) for tn in sorted(m["fixed_values"]) for v in m["fixed_values"][tn]]
        outs, ev = widefind.run_robust(m["exe"], lines)
        outs = ["OK %s ck=0 %s" % (l.split()[3], o) if o.startswith("dck=") else o for l, o in zip(lines, outs)]
        for l, o in zip(lines, outs):
            if " dck=0 " not in o:
                res.append((l.split()[1], l.split()[3], "-", "der", "BOUNDARY-VALUE-REJECTED:" + o.replace(" ", "_"), "", l))
    else:
        lines = ["wfill %s %d %d" % (tn, seeds.below(100000), seeds.choice([8, 32, 64, 200])) for tn, _ in m["defs"] for _ in range(nvals)]
        # after one hang of asn_random_fill on a type the remaining draws for that type are skipped
        outs, ev = widefind.run_robust(m["exe"], lines, line_timeout=5, hang_key=lambda l: l.split()[1])
    # a driver death or hang inside asn_random_fill (assertion `range < intmax_max' on INTEGER (0..9223372036854775807); unbounded
    # self-recursion on recursive types) is a defect of the value SOURCE, not of a codec: the value is unusable
    cnt("wide_fill_crash", len([e for e in ev if e[1] != "EXIT"]))
    vals = {}
    for l, o in zip(lines, outs):
        f = o.split()
        if len(f) == 5 and f[0] == "OK" and f[1] != "ENCFAIL" and f[2] == "ck=0" and f[3] == "dck=0":
            vals[(l.split()[1], f[1])] = f[4].split("=", 1)[1]
        elif len(f) == 5 and f[0] == "OK" and f[1] == "ENCFAIL" and f[3] == "dck=0":
            res.append((l.split()[1], "", f[4].split("=", 1)[1], "der", "FILL-ENCFAIL", "", l))   # valid value, DER encoder fails
        else:
            cnt("wide_value_unusable")
    keys = sorted(vals)
    l2 = ["wrt %s der %s" % k for k in keys]
    outs, ev = widefind.run_robust(m["exe"], l2)
    evd = {i: (kind, err) for i, kind, rc, err in ev if kind != "EXIT"}
    for i, kind, rc, err in ev:
        if kind == "EXIT":
            res.append((keys[-1][0] if keys else "-", "", "-", "all", "EXIT", err, "(driver exit status %s after the last command: leak report)" % rc))
    for i, (k, l, o) in enumerate(zip(keys, l2, outs)):
        tn, v = k
        facts = vals[k]
        cnt("wide_rt")
        if i in evd:
            l3 = ["rt1 %s der %s %s" % (tn, v, s) for s in SYNS]
            o3, ev3 = widefind.run_robust(m["exe"], l3)
            e3 = {j: (kind, err) for j, kind, rc, err in ev3 if kind != "EXIT"}
            parts = []
            for j, (s, oo) in enumerate(zip(SYNS, o3)):
                if j in e3:
                    res.append((tn, v, facts, s, e3[j][0], e3[j][1], l3[j]))
                else:
                    parts.append(oo)
            if not e3:      # died only when the five ran together
                res.append((tn, v, facts, "all", evd[i][0], evd[i][1], l))
        else:
            parts = [p for p in o.split() if not p.startswith(("dck=", "facts="))]
        for part in parts:
            if "=" not in part:
                res.append((tn, v, facts, "?", "BADOUT:" + part, "", l))
                continue
            syn, st = part.split("=", 1)
            if st.startswith("NL:"):
                res.append((tn, v, facts, syn, "NL", "", l))
                st = st[3:]
            cnt("rt_%s_%s" % (syn, st.split(":")[0]))
            if st != "OK":
                res.append((tn, v, facts, syn, st, "", l))
    return stats, res, l2, outs[:1]


def wide_layer(run, wmods, wrng, tier):
    built = [m for m in wmods if m.get("exe")]
    run.count("wide_module_not_built", len(wmods) - len(built))     # C10's business (and its findings); not a C01 statement
    for m in wmods:
        if m.get("fixed_values") and not m.get("exe"):               # ... except for the hand-made module, which is known to build
            run.violation("build:module", {"what": "the hand-made boundary module of the wide layer was rejected or its code does not compile", "module": m["text"],
                                           "asn1c_out": (m.get("asn1c_out") or "")[-1200:], "build_log": (m.get("build_log") or "")[-1200:]})
    subs = [Rng(wrng.next()) for _ in built]
    nvals = 12 if tier == "quick" else 16
    with ThreadPoolExecutor(max_workers=8) as ex:
        results = list(ex.map(lambda a: wide_one(a[0], a[1], nvals), zip(built, subs)))
    for m, (stats, res, cases, first) in zip(built, results):
        for k, n in stats.items():
            run.count(k, n)
        for l in cases:
            run.case(m["name"] + ":" + l)
        for tn, v, facts, syn, st, err, cmd in res:
            fid = widefind.classify(m, tn, syn, st, err, [] if facts in ("-", "") else facts.split(","))
            if fid:
                run.known_finding(fid, cmd)
            else:
                kind = "crash:C01-wide(%s)" % syn if st in ("CRASH", "HANG", "EXIT") else "oracle:roundtrip-wide(%s)" % syn
                run.violation(kind, {"what": "wide layer: encode-then-decode does not return the value: " + st, "module": m["text"], "type": tn,
                                     "type_text": widefind.render(m["asts"][tn]) if tn in m["asts"] else None, "value_der": v, "value_facts": facts,
                                     "syntax": syn, "status": st, "command_line": cmd, "stderr_tail": err[-6500:],
                                     "replay": "build the module with harness/moddrv.c + harness/moddrv_wide.inc (lib/modbuild.build_modules(moddrv_extra=...)) and feed the command line"})
        if cases:
            run.sample({"wide_module": m["text"][:300], "cmd": cases[0][:120], "c": first[0] if first else None})


def main(tier):
    run = Run("C01", tier)
    rng = Rng(run.seed)
    ok, out = coq_build()
    nthm, ndis, axioms, names, plog = obligations("C01") if ok else (0, 0, set(), [], out)
    gate = grep_gate()
    if not ok or ndis != nthm or gate:
        run.violation("proof:Properties_C01", {"what": "Coq development does not build or an obligation is open",
                                               "log_tail": (out if not ok else plog)[-2000:], "grep_gate": gate}, no_input=True)
    try:
        nm, nt, nv = (10, 5, 6) if tier == "quick" else (50, 6, 12)
        mods, cases = build_corpus(run, rng, nm, nt, nv, tier)
        t0 = time.time()
        wbmods, wbcases = c01_width.corpus(run, rng, tier)      # the directed width-boundary modules go through the same model tie
        mods, cases = mods + wbmods, cases + wbcases
        TIMES["width_build_s"] = round(time.time() - t0, 1)
        wmods = []
        if WIDE:
            wrng = Rng(rng.next())
            wmods = [widefind.boundary_module(), widefind.boundary_module_alpha(), widefind.boundary_module_xer()] + widefind.generate(wrng, 14 if tier == "quick" else 60, 5)
            t0 = time.time()
            build_modules(wmods, tag="wide", moddrv_extra=widefind.EXTRA)
            TIMES["wide_build_s"] = round(time.time() - t0, 1)
    except BuildError as e:
        run.violation("build", {"what": str(e)[-2500:]}, no_input=True)
        return run.finish("proof", (nthm, ndis))
    model = model_build()
    # ------------------------------------------------------------ model layer
    bm = by_module(cases)
    for m in mods:
        if not m.get("exe"):
            run.violation("build:module", {"what": "a valid generated module was rejected or its code does not compile", "module": m["text"],
                                           "asn1c_out": m.get("asn1c_out", "")[-1200:], "build_log": m.get("build_log", "")[-1200:]})
            continue
        cs = bm.get(m["name"], [])
        tm = time.time()
        # (a) the round trip on the C, all five syntaxes
        lines = ["rt %s der %s" % (c["tn"], c["der"]) for c in cs]
        out = run_mod(run, m, lines, "C01-rt")
        for c, l, o in zip(cs, lines, out):
            run.case(l)
            tree = m["trees"][c["tn"]]
            tainted = {"semi_lb": has_semi_lb(tree), "wide_fixed_int": wide_fixed_int(tree)}
            classify_rt(run, m, c["tn"], l, o, "", tainted)
        # (b) the C decoders on the model's bytes vs the model's decoders
        lines, meta = [], []
        for c in cs:
            for s, key in (("ber", "der"), ("uper", "uper"), ("oer", "oer")):
                if c[key] == "NONE":
                    continue
                if len(c[key]) > 6000 and rng.chance(9, 10):
                    continue          # the model's reference decoders are slow on very long values: keep a few
                lines.append("dec %s %s %s" % (c["tn"], s, c[key]))
                meta.append((c, s, key))
        out = run_mod(run, m, lines, "C01-dec")
        mlines = ["%sdec %s%s %s" % ("ber" if s == "ber" else s, "0 " if s == "uper" else "", c["ts"], c[key]) for (c, s, key) in meta]
        rcm, mout, _ = run_lines(model, mlines, timeout=1200)
        for (c, s, key), l, o, mo in zip(meta, lines, out, mout):
            run.case(l)
            run.count("dec_" + s)
            f = o.split()
            exp = "OK %d %s ck=" % (len(c[key]) // 2, c["der"])
            mf = mo.split()
            model_ok = (mf[0] == "OK" and int(mf[1]) == len(c[key]) // 2 and mf[2] == c["vs"])
            if not (o.startswith(exp)):
                run.violation("correspondence:Rt.%s_dec" % s,
                              {"what": "C decoder on the model's encoding: wrong code, consumed count or value", "module": m["text"],
                               "type": c["tn"], "model_type": c["ts"], "value": c["vs"], "command_line": l, "c": o, "expected_prefix": exp, "model": mo})
            elif not model_ok and "t" not in c["ts"]:
                run.violation("model:Rt.%s_dec" % s, {"what": "the model's own decoder does not return the value it encoded (model defect)",
                                                     "model_type": c["ts"], "value": c["vs"], "model": mo}, no_input=True)
        # (c) transcoding chains on the C
        pairs = [(a, b) for a in SYNS for b in SYNS if a != b]
        if tier == "quick":
            pairs = [pairs[rng.below(len(pairs))] for _ in range(6)]
        sub = cs if tier != "quick" else cs[:12]
        if m.get("c01_width"):
            pairs, sub = (m.get("chain_pairs") or [(a, b) for a in SYNS for b in SYNS if a != b]), cs
        l1 = []
        for c in sub:
            for (a, b) in pairs:
                l1.append(("xcode %s der %s %s" % (c["tn"], c["der"], a), c, a, b))
        o1 = run_mod(run, m, [x[0] for x in l1], "C01-x1")
        l2 = []
        for (l, c, a, b), o in zip(l1, o1):
            if o.startswith("OK "):
                l2.append(("xcode %s %s %s %s" % (c["tn"], a, o.split()[1], b), c, a, b))
        o2 = run_mod(run, m, [x[0] for x in l2], "C01-x2")
        l3 = []
        for (l, c, a, b), o in zip(l2, o2):
            run.case(l)
            run.count("chain")
            if o.startswith("OK "):
                l3.append(("xcode %s %s %s der" % (c["tn"], b, o.split()[1]), c, a, b, l))
            elif o.startswith("ENCFAIL") and b in ("cper",) and has_semi_lb(m["trees"][c["tn"]]):
                run.known_finding("C01-uper-semiconstrained-lb", l)
            else:
                run.violation("oracle:transcode", {"what": "transcoding %s -> %s failed: %s" % (a, b, o), "module": m["text"], "type": c["tn"],
                                                   "value": c["vs"], "command_line": l, "c": o})
        o3 = run_mod(run, m, [x[0] for x in l3], "C01-x3")
        for (l, c, a, b, l_prev), o in zip(l3, o3):
            if o != "OK " + c["der"]:
                run.violation("oracle:transcode", {"what": "value changed by transcoding der -> %s -> %s -> der" % (a, b), "module": m["text"],
                                                   "type": c["tn"], "value": c["vs"], "command_line": l, "c": o, "expected": "OK " + c["der"]})
        if cs:
            run.sample({"type": cs[0]["ts"], "value": cs[0]["vs"][:80], "rt": "rt %s der %s" % (cs[0]["tn"], cs[0]["der"][:60])})
        if m.get("c01_width"):
            TIMES["width_run_s"] = round(TIMES.get("width_run_s", 0) + time.time() - tm, 1)
    c01_width.check_oer(run, wbmods, wbcases, run_mod)
    # ------------------------------------------------------------ wide layer
    t0 = time.time()
    wide_layer(run, wmods, wrng if wmods else rng, tier)
    TIMES["wide_run_s"] = round(time.time() - t0, 1)
    ext_layer.run_c01(run, rng, tier)
    setdef_layer.run_c01(run, rng, tier)
    primb_layer.run_c01(run, rng, tier)
    prima_layer.run_c01(run, rng, tier)
    c01_dflt.run(run, rng, tier)
    tb = ["Coq 8.16.1 kernel; vm_compute for the Example", "axioms under Print Assumptions: " + (", ".join(sorted(axioms)) or "none (Closed under the global context)"),
          "extraction: ExtrOcamlBasic only; OCaml 4.13.1", "lib/modgen.py (generator, independent X.680 tagging), lib/widefind.py (wide generator, classifier predicates of the known findings), harness/moddrv.c + harness/moddrv_wide.inc (the rt/wrt battery is the property evaluated in C; deep constraint walk; value-level facts), gcc + ASan/UBSan",
          "values of the wide layer come from the library's own asn_random_fill"]
    return run.finish("proof", (nthm, ndis), trusted_base=tb,
                      checker_cmd="make -C /verif all && coqc -Q coq A1 coq/Props/Properties_C01.v",
                      extra_cov={"theorems": names, "modules": len(mods), "wide_modules": len(wmods), "wide_times": TIMES,
                                 "rule": "one case = one driver command (round-trip battery over 5 syntaxes, decoder on model bytes, or one transcoding chain); distinct command lines",
                                 "traces_validated_against_impl": run.cov["evaluations"]},
                      assumptions=["theorems cover DER/BER of the modelled algebra; UPER/OER/XER round trips and all types outside the algebra are covered by the tie only (partial)",
                                   "wide-layer values are those asn_random_fill produces that pass every constraint function at every node (integers within +-65537 or at a bound, 33 fixed REALs, a few times)"])


if __name__ == "__main__":
    sys.exit(main(sys.argv[1] if len(sys.argv) > 1 else "quick"))
