"""C05 — chunked decoding equals one-shot decoding (BER, OER, XER).
Theorems: coq/Props/Properties_C05.v (generic chunk independence of coherent
machines, prefix => MORE for the reference BER decoder on DER, the primitive
BER machine and the tag-chain machine of ber_check_tags, coherent for every chain).
Tie: for the module corpus (lib/modcorpus.py), a module of multi-tag chains and
a hand-written module with extensions/strings: every encoding (DER, BER
variants with indefinite / long-form lengths and segmented OCTET STRINGs, OER,
BASIC and CANONICAL XER) is decoded one-shot and in chunks by the C built from
/repo — every 2-chunk split point, sampled k-chunk schedules, 1/2/3-byte
feeding — re-presenting the unconsumed bytes as the manual prescribes; the
results (code, total consumed, DER of the value) must coincide and every proper
prefix must give RC_WMORE with consumed <= prefix length.  The one-shot result
is also compared with the extracted reference decoders, and the extracted
restartable machines with the C on the shapes they model.
Second layer (lib/c05x_util.py, coq/Rt/ResumeX.v): XER documents the library's
encoder never writes (every character in any valid reference form, comments,
attributes, prolog, empty-element forms) for one PDU per string type, with the
expected value computed in Python; extensible SEQUENCEs decoded by OLDER versions
of the type (unknown additions) in BER / OER / XER; the extracted reader of XER
text bodies (entref_step) and OER open-type skipper (skip_step, skips_step)
against the C: first call on every prefix, value under feeding.
Third layer (lib/c05w_util.py, coq/Rt/ResumeT.v): module MT5 of members / alternatives /
elements that tag a REFERENCE in place (tag_mode -1 / +1 in the member table, read back from
the running code); every definite/indefinite combination per level of each multi-tag chain,
long forms per level, invalid renderings (verdict must agree); ber_check_tags and
ber_decode_primitive themselves with tag_mode x last_tag_form against the extracted
chainm_step / primm_step and against their own one-shot run."""
import sys, os, re
sys.path.insert(0, os.path.join(os.path.dirname(os.path.abspath(__file__)), "..", "lib"))
from vlib import *
from modcorpus import *
import c05_util as U
import c05x_util as X
import c05w_util as W
import c05v_util as V
import ext_layer

EXTRA = os.path.join(HARNESS, "moddrv_c05.inc")


def run_mod_par(run, m, lines, name, timeout=1500):
    """run_mod for long batches of independent commands: the lines are dealt round-robin to up to 8 driver processes
    that run side by side; the answers come back in the order of the lines (deterministic).  A crash costs the rest of
    that process's share only."""
    k = min(8, len(lines) // 40)
    if k <= 1:
        return run_mod(run, m, lines, name, timeout=timeout)
    from concurrent.futures import ThreadPoolExecutor
    parts = [lines[i::k] for i in range(k)]
    with ThreadPoolExecutor(k) as ex:
        res = list(ex.map(lambda part: run_lines(m["exe"], part, timeout=timeout, env=SAN_ENV), parts))
    out = [None] * len(lines)
    for i, (part, (rc, o, err)) in enumerate(zip(parts, res)):
        if rc != 0 or len(o) != len(part):
            bad = part[len(o)] if len(o) < len(part) else None
            run.violation("crash:" + name, {"what": "moddrv died (rc=%s): sanitizer report, abort or signal" % rc,
                                            "module": m["text"], "command_line": bad, "stderr_tail": err[-2500:]})
            o = o + ["CRASH"] * (len(part) - len(o))
        out[i::k] = o
    return out


def parse_sweep(o):
    """sweep output -> dict or None"""
    m = re.match(r"(\S+) (\d+) (\S+) n=(\d+) pts=(\d+) badsplit=(\S+) badprefix=(\S+)$", o)
    if not m:
        return None
    bs = [] if m.group(6) == "-" else [x.split(":") for x in m.group(6).split(",")]
    bp = [] if m.group(7) == "-" else [x.split(":") for x in m.group(7).split(",")]
    return {"rc": m.group(1), "consumed": int(m.group(2)), "der": m.group(3), "n": int(m.group(4)), "pts": int(m.group(5)),
            "badsplit": [(int(a), b, int(c), d == "1") for a, b, c, d in bs], "badprefix": [(int(a), b, int(c)) for a, b, c in bp]}


def encodings_of_case(c, m, rng, tier):
    """-> list of dict(syn, label, hex, variant|None)"""
    out = []
    tree = m["trees"].get(c["tn"])
    der = bytes.fromhex(c["der"])
    if tree is not None:
        for name, bs, v in U.ber_variants(tree, der, rng, nrand=1 if tier == "quick" else 3):
            out.append({"syn": "ber", "label": name, "hex": bs.hex(), "v": v})
    else:
        for name, bs, v in U.ber_variants_blind(der, rng):
            out.append({"syn": "ber", "label": name, "hex": bs.hex(), "v": v})
    if m["name"] == "MC5" and c["tn"] == "U" and c["der"] == "a5073005a703020105":
        # the design-round witness: an indefinite outer tag around a definite SEQUENCE.  One-shot RC_FAIL is the C03
        # mixed-forms defect (open); a restarted chain check must say RC_FAIL as well
        v = U.Variant(rng, 0, 0, 0)
        v.chains = [(0, [2, 4], True, True)]
        out.append({"syn": "ber", "label": "mixed-witness", "hex": "a5803005a7030201050000", "v": v, "expect_oneshot_fail": True, "mixed_chain": True})
    if c.get("oer") and c["oer"] != "NONE":
        out.append({"syn": "oer", "label": "oer", "hex": c["oer"], "v": None})
    for key in ("xer", "cxer"):
        if c.get(key):
            out.append({"syn": "xer", "label": key, "hex": c[key], "v": None})
    # XER text the encoder never writes (lib/c05x_util.py): references in every form, comments, attributes, prolog
    for label, doc in c.get("xdocs", []):
        out.append({"syn": "xer", "label": label, "hex": doc.hex(), "v": None, "light": True})
    # distinct byte strings only
    seen, res = set(), []
    for e in out:
        k = (e["syn"], e["hex"])
        if k in seen or not e["hex"] or e["hex"] == "-":        # an empty encoding (OER NULL) has no split point
            continue
        seen.add(k)
        res.append(e)
    return res


def classify(run, m, c, e, line, o, sw):
    """one sweep result -> violations / known findings.  Returns True when the encoding is well-behaved one-shot."""
    syn, n = e["syn"], sw["n"]
    replay = {"module": m["text"], "type": c["tn"], "model_type": c.get("ts"), "value": c.get("vs"), "syntax": syn, "variant": e["label"],
              "command_line": line[:4000], "c": o[:1500]}
    xer_nl = (syn == "xer" and e["label"].split(":")[0] == "xer" and e["hex"].endswith("0a") and sw["rc"] == "OK" and sw["consumed"] == n - 1)
    full = sw["rc"] == "OK" and (sw["consumed"] == n or xer_nl) and sw["der"] == c["der"]
    if not full:
        # a valid encoding that the one-shot decoder does not take back: C03/C01 territory; recorded, and the
        # chunked runs must still agree with the one-shot
        run.count("oneshot_not_ok_%s_%s" % (syn, e["label"]))
        if not e.get("expect_oneshot_fail"):
            run.violation("oracle:oneshot(%s)" % syn, dict(replay, what="a valid encoding is not decoded one-shot to the value with full consumption (expected OK %d %s)" % (n, c["der"])))
    # ---- 2-chunk splits
    for (s, rc, total, dereq) in sw["badsplit"]:
        if e.get("fail_code_only") and sw["rc"] == "FAIL" and rc == "FAIL":
            # an input the one-shot call REJECTS (third layer: contradicting lengths; forms mixed in one chain, open C03 defect): the
            # property speaks of encodings; what can be asked here is the same verdict, not the octet count of a rejected input
            # (a nested decoder reports its own count on RC_FAIL, without what its member had taken before starving)
            continue
        run.violation("oracle:split(%s)" % syn, dict(replay, what="fed as [0,%d)+[%d,%d): %s consumed %d value-equal=%s; one-shot: %s consumed %d"
                                                     % (s, s, n, rc, total, dereq, sw["rc"], sw["consumed"]), split=s))
    # ---- proper prefixes
    for (p, rc, cons) in sw["badprefix"]:
        if not full and cons <= p:
            continue          # (a count beyond the window is never acceptable)
        if xer_nl and p == n - 1 and rc == "OK" and cons == n - 1:
            run.known_finding("C05-xer-trailing-newline-prefix", line)
            continue
        run.violation("oracle:prefix(%s)" % syn, dict(replay, what="the proper prefix of %d octets gives %s consumed %d (RC_WMORE with consumed <= %d expected)" % (p, rc, cons, p), prefix=p))
    return full


def sweep_items(run, m, items, rng, quick, name):
    """items: [(case, encoding)] of one module -> sweep + classification + two feeding schedules each"""
    lines = []
    for (cc, e) in items:
        n = len(e["hex"]) // 2
        # (thorough: the base corpus sweeps up to 3000 points per encoding; here there are ten times as many encodings)
        maxpts = (400 if n <= 3000 else 80) if quick else (600 if n <= 6000 else 200)
        lines.append("sweep %s %s %s %d %d" % (cc["tn"], e["syn"], e["hex"], maxpts, rng.below(2**31)))
    o = run_mod_par(run, m, lines, name, timeout=1500)
    res, feeds = [], []
    for (cc, e), line, r in zip(items, lines, o):
        run.case(line)
        sw = parse_sweep(r)
        res.append(sw)
        if sw is None:
            if r != "CRASH":
                run.violation("oracle:sweep", {"what": "unexpected driver output", "module": m["text"], "command_line": line[:3000], "c": r[:500]})
            continue
        run.count("enc_%s_%s" % (e["syn"], e["label"]))
        run.count("splits", sw["pts"])
        classify(run, m, cc, e, line, r, sw)
        if sw["n"] <= 3000:
            for sc in ["1*", ",".join(map(str, U.schedules(rng, sw["n"], 1)[0]))]:
                feeds.append((cc, e, sw, sc, "feed %s %s %s %s" % (cc["tn"], e["syn"], e["hex"], sc)))
    o = run_mod_par(run, m, [x[4] for x in feeds], name + "-feed", timeout=1500)
    for (cc, e, sw, sc, line), r in zip(feeds, o):
        run.case(line)
        run.count("sched_" + ("rep" if "*" in sc else "k") + "_feed")
        got = r.split()
        if len(got) == 4 and (got[0], int(got[1]), got[2]) == (sw["rc"], sw["consumed"], sw["der"]):
            continue
        if len(got) == 4 and e.get("fail_code_only") and sw["rc"] == "FAIL" and got[0] == "FAIL":
            continue
        if r != "CRASH":
            run.violation("oracle:schedule(%s)" % e["syn"], {"what": "schedule %s: %s; one-shot: %s %d %s" % (sc[:80], r[:200], sw["rc"], sw["consumed"], sw["der"][:80]),
                                                            "module": m["text"], "type": cc["tn"], "syntax": e["syn"], "variant": e["label"], "command_line": line[:4000]})
    return res


def shifted(entries, start):
    """model prefix entries (M3,O9,..) moved by `start` octets"""
    return ["%s%d" % (x[0], int(x[1:]) + start) for x in entries]


def ext_part(run, model, xmods, rng, tier):
    """extensible SEQUENCEs read by an older version of the type (unknown trailing additions): BER variants, OER, XER of the
    sender's value, decoded by the reader in every 2-chunk split / prefix / schedules; then ResumeX.skips_step against the
    first call of SEQUENCE_decode_oer on every prefix (readers that know no addition: phase 4 sees all of them)"""
    quick = tier == "quick"
    cases = X.ext_cases(xmods, rng, tier)
    lines = []
    for c in cases:
        lines += ["xder %s %s" % (c["x"]["ety"], c["vs"]), "xoer %s %s" % (c["x"]["ety"], c["vs"])]
    out = ext_layer.model_lines(model, lines, "c05-enc")
    for i, c in enumerate(cases):
        c["der"], c["oer"] = out[2 * i], out[2 * i + 1]
    cases = [c for c in cases if c["der"] != "NONE" and c["oer"] != "NONE"]
    lines, slots = [], []
    for c in cases:
        # (a component-less SEQUENCE { ... } is generated non-extensible: finding C01/C02/C03-ext-empty-sequence-not-extensible)
        c["rd"] = [{"tn": rn, "x": c["m"]["x"][rn]} for rn in c["readers"] if not ext_layer.degenerate(c["m"]["x"][rn])]
        for rd in c["rd"]:
            lines.append("xtruncv %d %s %s" % (rd["x"]["nadd"], c["x"]["ety"], c["vs"]))
            slots.append((rd, "tvs"))
    for (rd, k), o in zip(slots, ext_layer.model_lines(model, lines, "c05-trunc")):
        rd[k] = o
    lines, slots = [], []
    for c in cases:
        for rd in c["rd"]:
            e2 = rd["x"]["ety"]
            for k, l in (("xder", "xder %s %s" % (e2, rd["tvs"])), ("oer1", "xoerdec 1 %s %s" % (e2, c["oer"]))):
                lines.append(l)
                slots.append((rd, k))
            if rd["x"]["nadd"] == 0:
                lines.append("xoer %s %s" % (e2, rd["tvs"]))
                slots.append((rd, "oer_root"))
    for (rd, k), o in zip(slots, ext_layer.model_lines(model, lines, "c05-read")):
        rd[k] = o
    bym = {}
    for c in cases:
        bym.setdefault(c["m"]["name"], []).append(c)
    for m in xmods:
        cs = bym.get(m["name"], [])
        if not cs or not m.get("exe"):
            continue
        lines = []
        for c in cs:
            lines += ["xcode %s der %s xer" % (c["tn"], c["der"]), "xcode %s der %s cxer" % (c["tn"], c["der"])]
        o = run_mod(run, m, lines, "C05-ext-xer")
        items, ties = [], []
        for i, c in enumerate(cs):
            run.count("ext_" + c["cat"].split(":")[0])
            xer = [bytes.fromhex(r.split()[1]) if r.startswith("OK ") else None for r in o[2 * i:2 * i + 2]]
            tree = X.ext_tree(c["x"])
            try:
                bers = U.ber_variants(tree, bytes.fromhex(c["der"]), rng, nrand=1 if quick else 2)
            except (ValueError, AssertionError, IndexError):
                bers = [("der", bytes.fromhex(c["der"]), None)]
                run.count("ext_ber_variants_unavailable")
            readers = c["rd"] + [{"tn": c["tn"], "x": c["x"], "tvs": c["vs"], "xder": c["der"], "self": True}]
            for rd in readers:
                if rd["xder"] == "NONE":
                    continue
                cc = {"tn": rd["tn"], "der": rd["xder"], "ts": rd["x"]["ety"], "vs": rd["tvs"]}
                kind = "self" if rd.get("self") else "old"
                run.count("ext_reader_" + kind)
                seen = set()
                for name, bs, v in bers:
                    if bs in seen or (rd.get("self") and name not in ("der", "indef")):
                        continue
                    seen.add(bs)
                    items.append((cc, {"syn": "ber", "label": "ber:%s:%s" % (kind, name), "hex": bs.hex(), "v": v}))
                if not rd.get("self") and rd["oer1"] != "OK %d %s" % (len(c["oer"]) // 2, rd["tvs"]) and "t" not in rd["x"]["ety"]:
                    run.violation("model:Ext.ext_oer_dec", {"what": "the standard reading of the extensibility model does not return the known part of the value: %s" % rd["oer1"][:300],
                                                            "model_type": rd["x"]["ety"], "value": rd["tvs"][:2000], "oer": c["oer"][:3000]}, no_input=True)
                items.append((cc, {"syn": "oer", "label": "oer:" + kind, "hex": c["oer"], "v": None}))
                for lab, doc in zip(("xer", "cxer"), xer):
                    if doc is None:
                        continue
                    a, b = ("<%s>" % c["tn"]).encode(), ("</%s>" % c["tn"]).encode()
                    if not doc.startswith(a) or doc.rfind(b) < 0:
                        continue
                    k = doc.rfind(b)
                    doc2 = ("<%s>" % rd["tn"]).encode() + doc[len(a):k] + ("</%s>" % rd["tn"]).encode() + doc[k + len(b):]
                    items.append((cc, {"syn": "xer", "label": "%s:%s" % (lab, kind), "hex": doc2.hex(), "v": None}))
                # phase 4 against the extracted loop
                if rd.get("oer_root") and rd["oer_root"] != "NONE" and len(c["oer"]) <= 800:
                    oer = bytes.fromhex(c["oer"])
                    p0 = len(rd["oer_root"]) // 2
                    if p0 + 2 <= len(oer) and oer[p0] < 128 and oer[0] & 0x80:
                        ln, unused = oer[p0], oer[p0 + 1] & 7
                        bits = "".join(format(b, "08b") for b in oer[p0 + 2:p0 + 1 + ln])
                        bits = bits[:len(bits) - unused] if unused else bits
                        ties.append((cc, c["oer"], p0 + 1 + ln, bits))
        sweep_items(run, m, items, rng, quick, "C05-ext-sweep")
        if ties:
            co = run_mod(run, m, ["prefixes %s oer %s" % (cc["tn"], h) for (cc, h, st, bits) in ties], "C05-ext-prefixes")
            ml = ["skipspfx 1 %s %s" % (bits or "0", h[2 * st:] or "-") for (cc, h, st, bits) in ties]
            rcm, mo, me = run_lines(model, ml, timeout=600)
            if rcm != 0 or len(mo) != len(ml):
                raise RuntimeError("model driver failed (skipspfx): %s %s" % (rcm, me))
            for i, ((cc, h, st, bits), cr) in enumerate(zip(ties, co)):
                run.case(ml[i])
                run.count("model_skipspfx")
                got = cr.split(",")[st:]
                m1 = shifted(mo[i].split(","), st)
                if got == m1:
                    continue
                bad = [j for j in range(min(len(got), len(m1))) if got[j] != m1[j]][:1]
                run.violation("correspondence:ResumeX.skips_step", {"what": "the first call of SEQUENCE_decode_oer on the prefixes that reach into the unknown additions (from octet %d on) and the extracted phase-4 loop disagree, first at prefix %s: C %s, model %s"
                                                                    % (st, (st + bad[0]) if bad else "?", ",".join(got)[:300], ",".join(m1)[:300]),
                                                                    "module": m["text"], "type": cc["tn"], "command_line": ml[i][:3000], "c_command": "prefixes %s oer %s" % (cc["tn"], h[:3000])},
                              no_input=not any(x.startswith(("X", "O")) for x in got[:-1]))


def setext_part(run, vm, rng, tier):
    """fourth layer (lib/c05v_util.py): extensible SETs / CHOICE of the hand-written module MV5 read by older versions of the
    type; the newer sender's BER (member orders x TLV forms) and XER; expected value computed in Python; every 2-chunk split,
    every proper prefix, 1-octet feeding and a random schedule"""
    items = []
    for cc, encs in V.cases(rng, tier):
        run.count("setext_values")
        for e in encs:
            items.append((cc, e))
    sweep_items(run, vm, items, rng, tier == "quick", "C05-setext-sweep")


def tagmode_part(run, model, tm, rng, tier, have_model_t=True):
    """third layer: members / alternatives / elements that tag a REFERENCE in place (tag_mode -1 / +1 in the member table).
    (1) the member tables of the running code say what the module text demands; (2) every value in BER with every
    definite/indefinite combination per level of each multi-tag chain, long forms per level, contradicting lengths: sweep of
    every split + 1-octet feeding + a schedule; one-shot against the reference decoder; (3) ber_check_tags itself with
    tag_mode -1/0/+1 and last_tag_form -1/0/1 against the extracted ResumeT.chainm_step."""
    quick = tier == "quick"
    # ---- (1) member tables
    exp = W.expected_modes(tm)
    names = [n for n in exp if exp[n]]
    o = run_mod(run, tm, ["mtab %s" % n for n in names], "C05-mtab")
    for n, r in zip(names, o):
        run.case("mtab " + n)
        f = r.split()
        rows = [x.split(":") for x in f[1:]]
        byname = {x[0]: x for x in rows if len(x) == 5}
        for (mn, mode, ref) in exp[n]:
            got = byname.get(mn or "-")
            want_tags = ".".join(map(str, W.own_tags(tm["trees"][ref]))) or "-"
            run.count("tagmode_member_%+d" % mode)
            if got is None or int(got[2]) != mode or got[3] != ref or got[4] != want_tags:
                run.violation("model:tagmode-table", {"what": "member table of %s, member %s: tag_mode/type/tags %s; the module text demands tag_mode %+d on %s (tags %s)"
                                                      % (n, mn, got, mode, ref, want_tags), "module": tm["text"], "command_line": "mtab " + n, "c": r[:600]}, no_input=True)
    # ---- (2) values and their renderings
    vals = W.directed_values(tm, rng, quick)
    cases = [{"mod": tm, "tn": tn, "ts": model_str(tm["trees"][tn]), "vs": val_str(v)} for tn, v in vals]
    rcm, mo, me = run_lines(model, ["der %s %s" % (c["ts"], c["vs"]) for c in cases], timeout=600)
    if rcm != 0 or len(mo) != len(cases):
        raise RuntimeError("model driver failed (tagmode der): %s %s" % (rcm, me))
    items = []
    for c, d in zip(cases, mo):
        c["der"] = d
        if d == "NONE":
            continue
        run.count("tagmode_values_" + c["tn"])
        tree = tm["trees"][c["tn"]]
        der = bytes.fromhex(d)
        seen = set()
        for name, bs, v in U.ber_variants(tree, der, rng, nrand=1 if quick else 3):
            if bs not in seen:
                seen.add(bs)
                items.append((c, {"syn": "ber", "label": "tm:" + name, "hex": bs.hex(), "v": v}))
        for label, bs, v, fl in W.level_variants(tree, der, rng, quick):
            if bs in seen:
                continue
            seen.add(bs)
            e = {"syn": "ber", "label": "tm:" + label.split(":")[0].rstrip("0123456789"), "full_label": label, "hex": bs.hex(), "v": v}
            if fl["mixed"] or fl["invalid"]:
                e["expect_oneshot_fail"] = e["fail_code_only"] = True
                e["mixed_chain" if fl["mixed"] else "invalid"] = True
            items.append((c, e))
    res = sweep_items(run, tm, items, rng, quick, "C05-tagmode-sweep")
    ml, meta = [], []
    for (c, e), sw in zip(items, res):
        if sw is None:
            continue
        if e.get("mixed_chain"):
            run.count("tagmode_mixed_oneshot_" + sw["rc"])
        if e.get("invalid"):
            run.count("tagmode_invalid_oneshot_" + sw["rc"])
        if U.restart_positions(e["v"]):
            run.count("tagmode_enc_multi_tag_chain")
        if e.get("expect_oneshot_fail") or e["v"].segmented or len(e["hex"]) > 1200:
            continue
        ml.append("berdec %s %s" % (c["ts"], e["hex"]))
        meta.append((c, e, sw))
    rcm, mo, me = run_lines(model, ml, timeout=1200)
    if rcm != 0 or len(mo) != len(ml):
        raise RuntimeError("model driver failed (tagmode berdec): %s %s" % (rcm, me))
    for (c, e, sw), l, r in zip(meta, ml, mo):
        run.case(l)
        run.count("model_berdec")
        f = r.split()
        exp_ok = f[0] == "OK" and int(f[1]) == sw["n"] and f[2] == c["vs"]
        c_ok = sw["rc"] == "OK" and sw["consumed"] == sw["n"] and sw["der"] == c["der"]
        if exp_ok != c_ok and "t" not in c["ts"]:
            run.violation("correspondence:Rt.berdec", {"what": "one-shot C decoder and the reference decoder of the model disagree", "model_type": c["ts"], "value": c["vs"],
                                                       "command_line": l[:3000], "model": r[:300], "c": "%s %d %s" % (sw["rc"], sw["consumed"], sw["der"][:200])}, no_input=True)
    if not have_model_t:
        return
    # ---- (3) ber_check_tags with tag_mode / last_tag_form against the extracted machine
    cl, ml = [], []
    for ref in ("Inner", "In2", "In3", "Ch", "POct2", "In4"):
        tags = W.own_tags(tm["trees"][ref])
        for mode in (1, 0, -1):
            if mode != 1 and not tags:
                continue
            for ltf in (1, -1, 0):
                for label, bs in W.chain_inputs(tags, mode, ltf, rng, quick):
                    n = len(bs)
                    if label[0] in "fw":
                        scs = [str(n)] + [str(s) for s in range(1, min(n, 14 if quick else 40))] + ["1*", "2*"]
                    else:
                        scs = [str(n), "1*", "%d" % rng.range(1, max(1, n - 1)), ",".join(map(str, U.schedules(rng, n, 1)[0]))]
                    for sc in scs:
                        cl.append("ctagm %s %d %d %s %s" % (ref, mode, ltf, bs.hex(), sc))
                        ml.append("chainfeedm 0 %d %d %s %s %s" % (mode, ltf, ",".join(map(str, tags)) or "-", bs.hex(), sc))
                    run.count("tagmode_chain_inputs_mode%+d" % mode)
    # ber_decode_primitive under a tag_mode (INTEGER referenced with 1 and 2 own tags) against ResumeT.primm_step
    pcl, pml = [], []
    for ref in ("PInt", "PInt2"):
        tags = W.own_tags(tm["trees"][ref])
        for mode in (1, 0, -1):
            for label, bs in W.chain_inputs(tags, mode, 0, rng, quick):
                n = len(bs)
                if label[0] in "fw":
                    scs = [str(n)] + [str(s) for s in range(1, n)] + ["1*", "2*"]
                else:
                    scs = [str(n), "1*", "%d" % rng.range(1, max(1, n - 1)), ",".join(map(str, U.schedules(rng, n, 1)[0]))]
                for sc in scs:
                    pcl.append("pdecm %s %d %s %s" % (ref, mode, bs.hex(), sc))
                    pml.append("primfeedm %d %s %s %s" % (mode, ",".join(map(str, tags)), bs.hex(), sc))
    pco = run_mod_par(run, tm, pcl, "C05-pdecm")
    rcm, pmo, me = run_lines(model, pml, timeout=1200)
    if rcm != 0 or len(pmo) != len(pml):
        raise RuntimeError("model driver failed (primfeedm): %s %s" % (rcm, me))
    pone = {}
    for c_, m_, cr, mr in zip(pcl, pml, pco, pmo):
        run.case(m_)
        run.count("model_primfeedm")
        f = c_.split()
        key = tuple(f[1:4])
        if f[4] == str(len(f[3]) // 2):
            pone[key] = cr
        if cr != mr:
            run.violation("correspondence:ResumeT.primm_step", {"what": "ber_decode_primitive (tag_mode %s) fed in chunks and the extracted machine disagree: C %s, model %s" % (f[2], cr[:200], mr[:200]),
                                                                "command_line": m_[:3000], "c_command": c_[:3000]}, no_input=(cr == pone.get(key)))
        if key in pone and cr != pone[key] and cr != "CRASH":
            run.violation("oracle:prim-restart(ber)", {"what": "ber_decode_primitive (tag_mode %s) fed %s: %s; one-shot: %s" % (f[2], f[4][:60], cr[:200], pone[key][:200]),
                                                       "c_command": c_[:3000], "command_line": c_[:3000]})
    co = run_mod_par(run, tm, cl, "C05-ctagm")
    rcm, mo, me = run_lines(model, ml, timeout=1200)
    if rcm != 0 or len(mo) != len(ml):
        raise RuntimeError("model driver failed (chainfeedm): %s %s" % (rcm, me))
    # a C that differs from the machine: does it behave like the restart test keyed on tagno (ResumeT.KTagno, refuted for tag_mode +1)?
    diff = [i for i in range(len(cl)) if co[i] != mo[i] and co[i] != "CRASH"][:60]
    tagno_like = {}
    if diff:
        rck, ko, ke = run_lines(model, ["chainfeedm 1 " + ml[i].split(" ", 2)[2] for i in diff], timeout=600)
        if rck == 0 and len(ko) == len(diff):
            tagno_like = {ml[i]: (ko[j] == co[i]) for j, i in enumerate(diff)}
    oneshot = {}
    for c_, m_, cr, mr in zip(cl, ml, co, mo):
        run.case(m_)
        run.count("model_chainfeedm")
        f = c_.split()
        key = tuple(f[1:5])
        if f[5] == str(len(f[4]) // 2):
            oneshot[key] = cr
        if cr != mr:
            run.violation("correspondence:ResumeT.chainm_step", {"what": "ber_check_tags (tag_mode %s, last_tag_form %s) fed in chunks and the extracted machine disagree: C %s, model %s"
                                                                 % (f[2], f[3], cr[:200], mr[:200]) +
                                                                 ("; the C answers what the machine with the restart test keyed on tagno answers (ResumeT.KTagno, C05_chainm_tagno_refuted)" if tagno_like.get(m_) else ""),
                                                                 "command_line": m_[:3000], "c_command": c_[:3000]},
                          no_input=(cr == oneshot.get(key)))
        if key in oneshot and cr != oneshot[key] and cr != "CRASH":
            # the oracle on the C alone: every schedule delivers the whole input, so the run must end like the one-shot run:
            # code, consumed, and the context handed to the caller (ctx->left = length or minus the number of 00 00 pairs owed)
            run.violation("oracle:chain-restart(ber)", {"what": "ber_check_tags (tag_mode %s, last_tag_form %s) fed %s: %s; one-shot: %s" % (f[2], f[3], f[5][:60], cr[:200], oneshot[key][:200]),
                                                        "c_command": c_[:3000], "command_line": c_[:3000]})


OPEN_TYPES = ["00", "0141", "05aabbccddee", "7f" + "11" * 127, "8180" + "22" * 128, "81ff" + "33" * 255, "820100" + "44" * 256, "820003aabbcc", "8400000002beef",
              "80", "8100", "8105aabbccddee", "83000000", "89000000000000000001aa", "8901000000000000000000", "887fffffffffffffffaa", "88ffffffffffffffff", "8a00000000000000000001aa",
              "ff", "85", "8200"]


def skip_tie(run, model, m, rng):
    """oer_open_type_skip itself against ResumeX.skip_step: every prefix, 1- and 2-octet feeding, a random schedule"""
    hs = OPEN_TYPES + ["%s%s" % (bytes([k]).hex(), rng.bytes(k).hex()) for k in (rng.range(1, 100), rng.range(1, 127))]
    hs += [h + "a5a5" for h in hs[:9]]          # something follows the open type
    cl, ml = [], []
    for h in hs:
        n = len(h) // 2
        scs = ["1*", "2*", ",".join(map(str, U.schedules(rng, n, 1)[0]))]
        cl += ["oskippfx " + h] + ["oskip %s %s" % (h, sc) for sc in scs]
        ml += ["skipspfx 1 1 " + h] + ["skipfeed 1 %s %s" % (h, sc) for sc in scs]
    co = run_mod(run, m, cl, "C05-oskip")
    rcm, mo, me = run_lines(model, ml, timeout=600)
    if rcm != 0 or len(mo) != len(ml):
        raise RuntimeError("model driver failed (skipfeed): %s %s" % (rcm, me))
    for i, h in enumerate(hs):
        c4, m1 = co[4 * i:4 * i + 4], mo[4 * i:4 * i + 4]
        run.case("oskip " + h)
        run.count("model_skipfeed", 4)
        if c4 == m1:
            continue
        # a window that answers RC_OK with a count beyond it is a failing input of the prefix clause in itself
        run.violation("correspondence:ResumeX.skip_step", {"what": "oer_open_type_skip and the extracted step disagree on the open type %s (every prefix; 1*, 2*, a schedule): C %s, model %s"
                                                           % (h[:80], " | ".join(c4)[:400], " | ".join(m1)[:400]),
                                                           "command_line": ml[4 * i][:3000], "c_command": cl[4 * i][:3000]}, no_input=not any("X" in x or "OVER" in x for x in c4))


def entref_tie(run, model, sm, scases, rng, quick):
    """the text readers of MS5 against ResumeX.entref_step: for documents <T>body</T> (no comment inside) the first call on
    every prefix (consumed count), the value under 1-octet feeding and a schedule; plus text only the library accepts
    (a bare '&'): the model says what it stands for"""
    docs = []
    for c in scases:
        if c["kind"] not in ("utf8", "ascii", "bmp", "ucs4", "time"):
            continue
        for label, d in c["xdocs"]:
            if label.split(":")[1] in X.MODES and d.startswith(("<%s>" % c["tn"]).encode()) and len(d) <= 300:
                docs.append((c, d, False))
    rng.shuffle(docs)
    docs = docs[:150 if quick else 1500]
    for tn, body, d in X.lenient_docs():
        docs.append(({"tn": tn, "kind": "utf8", "der": None}, d, True))
    cl, ml = [], []
    for (c, d, len_) in docs:
        tn = c["tn"]
        body = d[len(tn) + 2:len(d) - len(tn) - 3]
        sc = ",".join(map(str, U.schedules(rng, len(d), 1)[0]))
        cl += ["prefixes %s xer %s" % (tn, d.hex()), "feed %s xer %s 1*" % (tn, d.hex()), "feed %s xer %s %s" % (tn, d.hex(), sc), "sweep %s xer %s 400 1" % (tn, d.hex())]
        ml += ["entpfx %s3c" % body.hex(), "entfeed %s3c 1*" % body.hex()]
    co = run_mod(run, sm, cl, "C05-entref")
    rcm, mo, me = run_lines(model, ml, timeout=600)
    if rcm != 0 or len(mo) != len(ml):
        raise RuntimeError("model driver failed (entfeed): %s %s" % (rcm, me))
    for i, (c, d, len_) in enumerate(docs):
        tn = c["tn"]
        op = len(tn) + 2
        nb = len(d) - 2 * op - 1
        cp, cf1, cf2, csw = co[4 * i:4 * i + 4]
        mp, mf = mo[2 * i].split(","), mo[2 * i + 1].split()
        run.case(ml[2 * i])
        run.count("model_entpfx")
        run.count("entref_lenient" if len_ else "entref_docs")
        rp = {"type": tn, "document": d.decode("utf-8", "replace"), "command_line": ml[2 * i], "c_command": cl[4 * i]}
        got = cp.split(",")
        # windows that end inside the text: RC_WMORE and the model's count; with the '<' of the closing tag: all of the text
        want = ["M%d" % (op + int(x[1:])) for x in mp[:nb + 1]] + ["M%d" % (op + int(mp[nb + 1][1:]))]
        if mf[0] != "OK" or mp[nb + 1][0] != "O":
            run.violation("model:ResumeX.entref_step", dict(rp, what="the extracted reader does not accept the text: %s" % mo[2 * i + 1][:200]), no_input=True)
            continue
        if got[op:op + nb + 2] != want:
            bad = [j for j in range(nb + 2) if got[op + j:op + j + 1] != want[j:j + 1]][:1]
            run.violation("correspondence:ResumeX.entref_step", dict(rp, what="first call on the prefixes that end inside the text: C %s, model %s (first difference at prefix %d)"
                                                                     % (",".join(got[op:op + nb + 2])[:400], ",".join(want)[:400], op + (bad[0] if bad else 0))), no_input=True)
        # the value: OK, all consumed, the string the model reads
        text = bytes.fromhex(mf[2]) if mf[2] != "-" else b""
        if c["kind"] in ("bmp", "ucs4"):
            try:
                text = text.decode("utf-8").encode("utf-16-be" if c["kind"] == "bmp" else "utf-32-be")
            except UnicodeError:
                continue
        der = X.tlv(X.UTAG[tn], text).hex()
        if c["der"] is not None and der != c["der"]:
            run.violation("model:ResumeX.entref_step", dict(rp, what="the extracted reader reads another string than the one the document was written for: %s, expected %s" % (der, c["der"])), no_input=True)
        for r in (cf1, cf2):
            f = r.split()
            if len(f) != 4 or (f[0], f[1], f[2]) != ("OK", str(len(d)), der):
                run.violation("correspondence:ResumeX.entref_step", dict(rp, what="fed in chunks the C answers %s; the extracted reader: OK %d %s" % (r[:200], len(d), der)), no_input=not len_)
        sw = parse_sweep(csw)
        if len_ and sw is not None:
            # chunked = one-shot on the text only the library accepts (not a valid encoding: no value / prefix oracle)
            run.count("splits", sw["pts"])
            for (s_, rc, total, dereq) in sw["badsplit"]:
                run.violation("oracle:split(xer)", dict(rp, what="fed as [0,%d)+[%d,%d): %s consumed %d value-equal=%s; one-shot: %s consumed %d" % (s_, s_, sw["n"], rc, total, dereq, sw["rc"], sw["consumed"])))


def main(tier):
    run = Run("C05", tier)
    rng = Rng(run.seed)
    ok, out = coq_build()
    nthm, ndis, axioms, names, plog = obligations("C05") if ok else (0, 0, set(), [], out)
    gate = grep_gate()
    if not ok or ndis != nthm or gate or nthm == 0:
        run.violation("proof:Properties_C05", {"what": "Coq development does not build or an obligation is open",
                                               "log_tail": (out if not ok else plog)[-2000:], "grep_gate": gate}, no_input=True)
    quick = tier == "quick"
    try:
        nm, nt, nv = (7, 5, 4) if quick else (28, 6, 8)
        mods, cases = build_corpus(run, rng, nm, nt, nv, tier, tag="c05", moddrv_extra=EXTRA)
        cm, wm, sm = U.chain_module(), U.wide_module(), X.string_module()
        # the second layer draws from streams of its own: the corpus above stays what it was
        rng_s, rng_b, rng_t = Rng(run.seed * 1000003 + 51), Rng(run.seed * 1000003 + 52), Rng(run.seed * 1000003 + 54)
        tmod = W.tagmode_module()
        vmod = V.module()
        xmods = X.ext_modules(Rng(run.seed * 1000003 + 53), tier)
        build_modules([cm, wm, sm, tmod, vmod] + xmods, tag="c05x", moddrv_extra=EXTRA)
        model = model_build()
    except BuildError as e:
        run.violation("build", {"what": str(e)[-2500:]}, no_input=True)
        return run.finish("proof", (nthm, ndis))
    for m in mods + [cm, wm, sm, tmod, vmod] + xmods:
        if not m.get("exe"):
            run.violation("build:module", {"what": "a valid module was rejected or its code does not compile", "module": m["text"],
                                           "asn1c_out": m.get("asn1c_out", "")[-1200:], "build_log": m.get("build_log", "")[-1200:]})
    # ---- cases of the chain module (model algebra: DER and OER from the model)
    ccases = []
    if cm.get("exe"):
        for tn, _ in cm["defs"]:
            tree = cm["trees"][tn]
            seen = set()
            for _ in range(4 if quick else 10):
                vs = val_str(value(tree, rng))
                if vs not in seen:
                    seen.add(vs)
                    ccases.append({"mod": cm, "tn": tn, "ts": model_str(tree), "vs": vs})
        ccases.append({"mod": cm, "tn": "U", "ts": model_str(cm["trees"]["U"]), "vs": "S{I5;}"})
        rcm, mo, me = run_lines(model, ["der %s %s" % (c["ts"], c["vs"]) for c in ccases] + ["oer %s %s" % (c["ts"], c["vs"]) for c in ccases], timeout=600)
        for i, c in enumerate(ccases):
            c["der"], c["oer"] = mo[i], mo[len(ccases) + i]
        ccases = [c for c in ccases if c["der"] != "NONE"]
    # ---- cases of the hand-written wide module: values from asn_random_fill
    wcases = []
    if wm.get("exe"):
        lines = []
        for tn, _ in wm["defs"]:
            for k in range(6 if quick else 20):
                lines.append("rfill %s %d %d" % (tn, rng.below(100000), rng.choice([4, 8, 16, 40])))
        o = run_mod(run, wm, lines, "C05-rfill")
        seen = set()
        for l, r in zip(lines, o):
            f = r.split()
            if len(f) == 3 and f[0] == "OK" and f[1] != "ENCFAIL" and f[2] == "ck=0" and (l.split()[1], f[1]) not in seen:
                seen.add((l.split()[1], f[1]))
                wcases.append({"mod": wm, "tn": l.split()[1], "der": f[1], "wide": True})
            else:
                run.count("wide_value_unusable")
        # the design-round witness value of the OER defect: { a 7, b 9, c "hello" }
        wcases.append({"mod": wm, "tn": "Ext1", "der": "300d800107810109820568656c6c6f", "wide": True})
        o = run_mod(run, wm, ["xcode %s der %s oer" % (c["tn"], c["der"]) for c in wcases], "C05-woer")
        for c, r in zip(wcases, o):
            c["oer"] = r.split()[1] if r.startswith("OK ") else None
    # ---- cases of the string module: hand-written values (DER computed in Python) and XER documents
    scases = []
    if sm.get("exe"):
        scases = X.string_cases(rng_s, tier, run.seed)
        for c in scases:
            c["mod"], c["wide"] = sm, True
            run.count("xdoc_values_" + c["kind"])
        o = run_mod(run, sm, ["xcode %s der %s oer" % (c["tn"], c["der"]) for c in scases], "C05-soer")
        for c, r in zip(scases, o):
            c["oer"] = r.split()[1] if r.startswith("OK ") else None
    wcases = wcases + scases
    allcases = [c for c in cases if len(c["der"]) <= (6000 if quick else 140000)] + ccases + wcases
    run.count("cases_dropped_long", len(cases) - len([c for c in cases if len(c["der"]) <= (6000 if quick else 140000)]))
    bm = by_module(allcases)
    nenc = 0
    for m in mods + [cm, wm, sm]:
        if not m.get("exe"):
            continue
        cs = bm.get(m["name"], [])
        # XER text from the C encoder
        lines = []
        for c in cs:
            lines += ["xcode %s der %s xer" % (c["tn"], c["der"]), "xcode %s der %s cxer" % (c["tn"], c["der"])]
        o = run_mod(run, m, lines, "C05-xer")
        for i, c in enumerate(cs):
            c["xer"] = o[2 * i].split()[1] if o[2 * i].startswith("OK ") else None
            c["cxer"] = o[2 * i + 1].split()[1] if o[2 * i + 1].startswith("OK ") else None
            if not c["xer"] or not c["cxer"]:
                run.count("xer_encode_failed")
        # encodings, sweeps
        sweeps, feeds = [], []
        for c in cs:
            for e in encodings_of_case(c, m, rng, tier):
                n = len(e["hex"]) // 2
                maxpts = (400 if n <= 3000 else 80) if quick else (3000 if n <= 6000 else 300)
                e["exhaustive"] = n - 1 <= maxpts
                sweeps.append((c, e, "sweep %s %s %s %d %d" % (c["tn"], e["syn"], e["hex"], maxpts, rng.below(2**31))))
                scheds = ["1*", "2*", "3*"] + [",".join(map(str, sz)) for sz in U.schedules(rng, n, 2 if quick else 6)]
                if n > 3000:
                    scheds = scheds[2:]
                if e.get("light"):
                    scheds = ["1*", scheds[3]]
                for sc in scheds:
                    feeds.append((c, e, sc, "feed %s %s %s %s" % (c["tn"], e["syn"], e["hex"], sc)))
                    if e.get("light"):
                        continue
                    if "*" not in sc:
                        feeds.append((c, e, sc, "chunk %s %s %s %s" % (c["tn"], e["syn"], e["hex"], sc)))
                    elif n <= 250 and sc == "1*":
                        feeds.append((c, e, sc, "chunk %s %s %s %s" % (c["tn"], e["syn"], e["hex"], ",".join(["1"] * n))))
        o = run_mod_par(run, m, [x[2] for x in sweeps], "C05-sweep", timeout=1500)
        oneshot = {}
        for (c, e, line), r in zip(sweeps, o):
            run.case(line)
            nenc += 1
            sw = parse_sweep(r)
            if sw is None:
                if r != "CRASH":
                    run.violation("oracle:sweep", {"what": "unexpected driver output", "module": m["text"], "command_line": line[:3000], "c": r[:500]})
                continue
            run.count("enc_%s_%s" % (e["syn"], e["label"]))
            run.count("splits", sw["pts"])
            run.count("exhaustive_2split_encodings" if e["exhaustive"] else "sampled_2split_encodings")
            if e["syn"] == "ber" and e.get("v") is not None:
                if U.restart_positions(e["v"]):
                    run.count("enc_ber_multi_tag_chain")
                if e["v"].segmented_tagged:
                    run.count("enc_ber_segmented_under_tag")
            classify(run, m, c, e, line, r, sw)
            oneshot[(c["tn"], e["syn"], e["hex"])] = sw
            if len(run.cov["samples"]) < 10 and nenc % 97 == 1:
                run.sample({"cmd": line[:160], "c": r[:160]})
        # k-chunk schedules, n-byte feeding: both implementations of the discipline
        o = run_mod_par(run, m, [x[3] for x in feeds], "C05-feed", timeout=1500)
        for (c, e, sc, line), r in zip(feeds, o):
            run.case(line)
            run.count("sched_" + ("rep" if "*" in sc else "k") + "_" + line.split()[0])
            got = r.split()
            if (c["tn"], e["syn"], e["hex"]) not in oneshot or len(got) != 4:
                if r != "CRASH":
                    run.violation("oracle:feed", {"what": "unexpected driver output", "module": m["text"], "command_line": line[:3000], "c": r[:500]})
                continue
            sw = oneshot[(c["tn"], e["syn"], e["hex"])]
            if (got[0], int(got[1]), got[2]) == (sw["rc"], sw["consumed"], sw["der"]):
                continue
            run.violation("oracle:schedule(%s)" % e["syn"],
                          {"what": "schedule %s: %s; one-shot: %s %d %s" % (sc[:80], r[:200], sw["rc"], sw["consumed"], sw["der"][:80]),
                           "module": m["text"], "type": c["tn"], "syntax": e["syn"], "variant": e["label"], "command_line": line[:4000]})
        # ---- the one-shot result against the extracted reference decoders
        ml, meta = [], []
        for c in cs:
            if c.get("wide"):
                continue
            for (c2, e, line) in [x for x in sweeps if x[0] is c]:
                if len(e["hex"]) > 1200 or e.get("expect_oneshot_fail"):
                    continue
                if e["syn"] == "ber" and not e["v"].segmented:
                    ml.append("berdec %s %s" % (c["ts"], e["hex"]))
                    meta.append((c, e))
                elif e["syn"] == "oer":
                    ml.append("oerdec %s %s" % (c["ts"], e["hex"]))
                    meta.append((c, e))
        # ---- the extracted machines and the More/Fail reference decoder against the C
        m3, meta3 = [], []
        for (c, e, line) in sweeps:
            if c.get("wide") or e["syn"] != "ber" or e["v"].segmented or len(e["hex"]) > 400:
                continue
            sw = oneshot.get((c["tn"], e["syn"], e["hex"]))
            if sw is None:
                continue
            n = sw["n"]
            tree = m["trees"][c["tn"]]
            # (a) ber_dec3 on the whole encoding and on sampled proper prefixes
            for pl in ([] if e.get("expect_oneshot_fail") else sorted(set([n] + [rng.below(n) for _ in range(3)]))):
                m3.append("berdec3 %s %s" % (c["ts"], e["hex"][:2 * pl] or "-"))
                meta3.append(("dec3", c, e, sw, pl))
            # (b) the primitive machine under the schedules the C was fed with
            if tree[0] in "bnio" and not e.get("expect_oneshot_fail"):
                for (c2, e2, sc, fl) in feeds:
                    if c2 is c and e2 is e and fl.startswith("feed "):
                        m3.append("primfeed %d %s %s" % (tree[1], e["hex"], sc))
                        meta3.append(("prim", c, e, sw, fl))
            # (c) the tag-chain machine against ber_check_tags itself (harness command `ctags`), on the chain of
            # tags of a constructed type: one-shot, every cut up to the end of the chain, 1- and 2-byte feeding
            tags, t = [], tree
            while t[0] == "x":
                tags.append(t[1])
                t = t[2]
            if t[0] in "sqt" and e["v"].chains:
                tags.append(t[1])
                st, ends, ind, kc = [x for x in e["v"].chains if x[0] == 0][0]
                if len(ends) == len(tags):
                    for sc in [str(n)] + ["%d" % sp for sp in range(1, min(n, ends[-1] + 2))] + ["1*", "2*"]:
                        m3.append("chainfeed %s %s %s" % (",".join(map(str, tags)), e["hex"], sc))
                        meta3.append(("chain", c, e, sw, "ctags %s %s %s" % (c["tn"], e["hex"], sc)))
        if m3:
            rcm, mo3, me = run_lines(model, m3, timeout=1200)
            if rcm != 0 or len(mo3) != len(m3):
                raise RuntimeError("model driver failed (C05 machines): %s %s" % (rcm, me))
            feedres = {fl: r for (c2, e2, sc, fl), r in zip(feeds, o)}
            cl = [x for (kind, c, e, sw, x) in meta3 if kind == "chain"]
            ctres = dict(zip(cl, run_mod(run, m, cl, "C05-ctags"))) if cl else {}
            for (kind, c, e, sw, x), l, r in zip(meta3, m3, mo3):
                run.case(l)
                run.count("model_" + l.split()[0])
                bad = None
                if kind == "dec3":
                    n = sw["n"]
                    if x == n:
                        c_res = "OK %d" % sw["consumed"] if sw["rc"] == "OK" else sw["rc"]
                        m_res = " ".join(r.split()[:2]) if r.startswith("OK") else r
                        if r.startswith("OK") and r.split()[2] != c["vs"] and "t" not in c["ts"]:
                            bad = "value"
                    else:
                        bp = [b for b in sw["badprefix"] if b[0] == x]
                        c_res = bp[0][1] if bp else "MORE"
                        m_res = r.split()[0]
                    if c_res != m_res:
                        bad = "code"
                    if bad:
                        run.violation("correspondence:Resume.ber_dec3", {"what": "the More/Fail reference decoder and the C disagree on a prefix of %d octets (%s): C %s, model %s" % (x, bad, c_res, r[:200]),
                                                                      "model_type": c["ts"], "command_line": l[:3000]}, no_input=True)
                elif kind == "prim":
                    cr = feedres.get(x, "").split()
                    mr = r.split()
                    der = bytes.fromhex(c["der"])
                    cont = der[U.read_tl(der, 0)[4]:].hex() or "-"
                    okc = len(cr) == 4 and cr[0] == mr[0] and cr[1] == mr[1] and (cr[0] != "OK" or (cr[2] == c["der"] and mr[2] == cont))
                    if not okc:
                        run.violation("correspondence:Resume.prim_step", {"what": "the primitive machine fed in chunks and the C disagree: C %s, model %s" % (" ".join(cr)[:200], r[:200]),
                                                                        "model_type": c["ts"], "command_line": l[:3000], "c_command": x[:3000]}, no_input=True)
                elif kind == "chain":
                    run.case(x)
                    run.count("c_ctags")
                    cr = ctres.get(x, "")
                    if cr != r:
                        # a disagreement on RC_OK/RC_FAIL/consumed is a failing input of the property only if the
                        # chunked run also differs from the one-shot run of the C (then oracle:split reports it)
                        run.violation("correspondence:Resume.chain_step", {"what": "ber_check_tags fed in chunks and the tag-chain machine disagree: C %s, model %s" % (cr[:200], r[:200]),
                                                                         "model_type": c["ts"], "command_line": l[:3000], "c_command": x[:3000]}, no_input=True)
        if ml:
            rcm, mo, me = run_lines(model, ml, timeout=1200)
            for (c, e), l, r in zip(meta, ml, mo):
                run.case(l)
                run.count("model_" + l.split()[0])
                sw = oneshot.get((c["tn"], e["syn"], e["hex"]))
                f = r.split()
                if sw is None:
                    continue
                exp_ok = f[0] == "OK" and int(f[1]) == sw["n"] and f[2] == c["vs"]
                c_ok = sw["rc"] == "OK" and sw["consumed"] == sw["n"] and sw["der"] == c["der"]
                if exp_ok != c_ok and "t" not in c["ts"]:
                    run.violation("correspondence:Rt.%s" % l.split()[0], {"what": "one-shot C decoder and the reference decoder of the model disagree",
                                                                        "model_type": c["ts"], "value": c["vs"], "command_line": l[:3000], "model": r[:300], "c": "%s %d %s" % (sw["rc"], sw["consumed"], sw["der"][:200])},
                                  no_input=True)
    # ---- second layer: older readers of extensible types; the extracted steps of Rt/ResumeX.v against the C
    import time as _time
    t_layer = _time.time()
    try:
        ext_part(run, model, xmods, rng_b, tier)
        if tmod.get("exe"):
            t_tm = _time.time()
            tagmode_part(run, model, tmod, rng_t, tier, have_model_t=not os.environ.get("C05_SKIP_T"))
            run.count("third_layer_tagmode_wall_s", int(_time.time() - t_tm))
        if vmod.get("exe"):
            t_v = _time.time()
            setext_part(run, vmod, Rng(run.seed * 1000003 + 55), tier)
            run.count("fourth_layer_setext_wall_s", int(_time.time() - t_v))
        if sm.get("exe"):
            skip_tie(run, model, sm, rng_b)
            entref_tie(run, model, sm, scases, rng_s, quick)
    except (RuntimeError, BuildError) as e:
        run.violation("build", {"what": str(e)[-2500:]}, no_input=True)
    run.count("second_layer_ext_and_ties_wall_s", int(_time.time() - t_layer))
    if os.environ.get("C05_DEBUG"):
        for v in run.violations:
            log("DBG %s | %s | %s %s | %s | %s" % (v["kind"], v.get("what", "")[:300], v.get("type"), v.get("variant"), v.get("command_line", "")[:200], v.get("c", "")[:300]))
    tb = ["Coq 8.16.1 kernel; vm_compute for refuted witnesses and Examples",
          "axioms under Print Assumptions: " + (", ".join(sorted(axioms)) or "none (Closed under the global context)"),
          "extraction: ExtrOcamlBasic only; OCaml 4.13.1",
          "harness/moddrv_c05.inc (feeding discipline, sweep of split points) and harness/moddrv.c `chunk` (second implementation of the discipline); lib/c05_util.py (BER variants derived along the type, classifier predicates)",
          "lib/modgen.py (generator, independent X.680 tagging); XER text of the generated corpus and the wide module's values come from the C itself (xer_encode, asn_random_fill)",
          "lib/c05w_util.py (module MT5, expected member tag modes, per-level BER renderings, header chains for ber_check_tags)",
          "lib/c05x_util.py (values, DER and XER documents of the string module MS5, written independently of the C); lib/extgen.py, lib/ext_layer.py model batches and coq/Rt/Ext.v (expected value of an older reader of an extensible type)",
          "gcc + ASan/UBSan; every window is an exact-size heap block"]
    return run.finish("proof", (nthm, ndis), trusted_base=tb,
                      checker_cmd="make -C /verif all && coqc -Q coq A1 coq/Props/Properties_C05.v",
                      extra_cov={"theorems": names, "modules": len(mods) + 2, "encodings": nenc,
                                 "rule": "one case = one driver command: a sweep (one encoding: one-shot + every/sampled 2-chunk split + every such proper prefix), one chunk schedule through one implementation of the feeding discipline, or one reference-decoder line; distinct command lines",
                                 "traces_validated_against_impl": run.cov["evaluations"]},
                      assumptions=["machines proved coherent: primitive BER decoder (also under a member's tag_mode), tag-chain check (any number of tags, every tag_mode and last_tag_form), XER text-body reader (entity references), OER open-type skipper and its phase-4 loop; SEQUENCE/SET OF/CHOICE bodies, constructed-string stack, the XML tokenizer and the other OER and XER decoders are covered by the tie only (partial)",
                                   "split points are exhaustive for encodings up to the tier's bound (quick 400, thorough 3000 octets), sampled beyond"])


if __name__ == "__main__":
    sys.exit(main(sys.argv[1] if len(sys.argv) > 1 else "quick"))
