"""C16 — INTEGER and REAL conversion helpers (leaf).  The REAL half lives in
checks/c16_real.py and is called from main() below.
Theorems: coq/Props/Properties_C16.v.  Tie: harness/leafdrv (C, built from
/repo/skeletons with ASan+UBSan) vs ocaml/modeldrv (extracted model) on the same
command lines; property oracle evaluated on the C outputs."""
import sys, os
sys.path.insert(0, os.path.join(os.path.dirname(os.path.abspath(__file__)), "..", "lib"))
from vlib import *
import c16_real

I63, U64 = 2**63, 2**64


def gen_ints(rng, tier):
    vals = set()
    for k in range(0, 65):
        for s in (1, -1):
            for d in (-2, -1, 0, 1, 2):
                vals.add(s * 2**k + d)
    for k in range(0, 9):
        for d in (-1, 0, 1):
            vals.add(256**k // 2 + d)
            vals.add(-(256**k // 2) + d)
    n = 400 if tier == "quick" else 20000
    for _ in range(n):
        bits = rng.range(1, 64)
        v = rng.below(2**bits)
        vals.add(v)
        vals.add(-v)
    return sorted(vals)


def gen_octets(rng, tier):
    out = []
    out.append(b"")
    for a in range(256):
        out.append(bytes([a]))
    step = 1 if tier == "thorough" else 1
    for a in range(0, 256, step):
        for b in range(256):
            out.append(bytes([a, b]))
    pre = [b"\x00\x7f", b"\x00\x80", b"\xff\x7f", b"\xff\x80", b"\x00\x00", b"\xff\xff", b"\x7f", b"\x80", b"\x01", b"\xfe",
           b"\x00\x00\x00\x7f", b"\x00\x00\x00\x80", b"\xff\xff\xff\x80", b"\xff\xff\xff\x7f"]
    reps = 6 if tier == "quick" else 200
    for n in range(3, 13):
        for p in pre:
            if len(p) > n:
                continue
            for _ in range(reps):
                out.append(p + rng.bytes(n - len(p)))
            out.append(p + b"\x00" * (n - len(p)))
            out.append(p + b"\xff" * (n - len(p)))
    return out


def gen_numerals(rng, tier):
    out = []
    lims = [I63 - 1, I63, I63 + 1, U64 - 1, U64, U64 + 1, (I63 - 1) // 10, (U64 - 1) // 10, 0, 1, 9, 10]
    for k in range(0, 22):
        lims += [10**k - 1, 10**k, 10**k + 1]
    for d in range(10):
        lims += [((I63 - 1) // 10) * 10 + d, ((U64 - 1) // 10) * 10 + d, ((I63 - 1) // 10) * 100 + d]
    n = 100 if tier == "quick" else 5000
    for _ in range(n):
        lims.append(rng.below(10 ** rng.range(1, 22)))
    for v in lims:
        for sign in ("", "+", "-"):
            for z in (0, 1, 3):
                for tail in ("", " ", "x", ".", "/", ":", "\x00", "\xff", "-", "+"):
                    if tail and not rng.chance(1, 3) and tier == "quick":
                        continue
                    out.append((sign + "0" * z + str(v) + tail).encode("latin1"))
    out += [b"", b"+", b"-", b"+-", b"-+", b"--1", b"+ 1", b" 1", b"x", b"-x", b"+x", b"0", b"-0", b"+0", b"00", b"/", b":"]
    return out


def in_range(fn, v):
    if fn in ("imax", "long"):
        return -I63 <= v < I63
    return 0 <= v < U64


def main(tier):
    run = Run("C16", tier)
    rng = Rng(run.seed)
    # 1. proofs
    ok, out = coq_build()
    nthm, ndis, axioms, names, plog = obligations("C16") if ok else (0, 0, set(), [], out)
    gate = grep_gate()
    if not ok or ndis != nthm or gate:
        run.violation("proof:Properties_C16", {"what": "Coq development does not build or an obligation is open",
                                               "log_tail": (out if not ok else plog)[-2000:], "grep_gate": gate}, no_input=True)
    # 2. tie
    model = model_build()
    try:
        cdrv = build_leafdrv()
    except BuildError as e:
        run.violation("build:leafdrv", {"what": str(e)[-2000:]}, no_input=True)
        return run.finish("proof", (nthm, ndis))

    ints = gen_ints(rng, tier)
    octs = gen_octets(rng, tier)
    nums = gen_numerals(rng, tier)
    cases = []   # (line, kind, payload)
    for v in ints:
        if -I63 <= v < I63:
            cases.append(("imax2I %d" % v, "x2I", ("imax", v)))
            cases.append(("long2I %d" % v, "x2I", ("long", v)))
        if 0 <= v < U64:
            cases.append(("umax2I %d" % v, "x2I", ("umax", v)))
            cases.append(("ulong2I %d" % v, "x2I", ("ulong", v)))
    for b in octs:
        for fn in ("imax", "long", "umax", "ulong"):
            if len(b) == 2 and tier == "quick" and fn in ("long", "ulong") and b[0] % 8:
                continue
            cases.append(("I2%s %s" % (fn, hexs(b)), "I2x", (fn, b)))
    for s in nums:
        for fn in ("strtoimax", "strtol", "strtoumax", "strtoul"):
            cases.append(("%s %s" % (fn, hexs(s)), "strtox", (fn, s)))
    lines = [c[0] for c in cases]
    mo, co = correspond(run, "leaf-C16", lines, model, cdrv)

    # 3. faithfulness (model vs code) + first oracle pass
    q2 = []   # second-phase queries on C outputs
    for (line, kind, pl), m, c in zip(cases, mo, co):
        run.case(line, nontrivial=True)
        run.count(kind)
        if m != c:
            run.count("model_vs_code_diff")
            pl_s = repr(pl)
            run.violation("correspondence:IntegerConv(%s)" % line.split()[0],
                          {"what": "model and C disagree", "command_line": line, "model": m, "c": c, "_pending": True})
        if kind == "x2I" and c not in ("FAIL", "CRASH"):
            q2.append((line, pl, c))
    run.sample({"cmd": lines[0], "model": mo[0], "c": co[0]})
    run.sample({"cmd": lines[len(lines) // 2], "model": mo[len(lines) // 2], "c": co[len(lines) // 2]})
    run.sample({"cmd": lines[-1], "model": mo[-1], "c": co[-1]})

    # property oracle, x2I: stored octets minimal, denote v, and come back as v
    spec_lines, c_lines = [], []
    for line, (fn, v), h in q2:
        spec_lines += ["spec_twos " + h, "spec_minimal " + h]
        c_lines.append("I2%s %s" % (fn, h))
    _, so, _ = run_lines(model, spec_lines)
    _, bo, _ = run_lines(cdrv, c_lines, env=SAN_ENV)
    for i, (line, (fn, v), h) in enumerate(q2):
        tw, mn, back = int(so[2 * i]), so[2 * i + 1], bo[i]
        good = (tw == v and mn == "true" and back == "OK %d" % v)
        if good:
            continue
        if fn == "ulong" and v >= I63:
            run.known_finding("C16-ulong-signed", line)
            continue
        run.violation("oracle:x2I", {"what": "stored octets are not the minimal two's-complement form of v, or do not convert back to v",
                                     "command_line": line, "c_octets": h, "twos_value": tw, "minimal": mn, "back": back})
    # property oracle, I2x: range error exactly when the value does not fit
    spec_lines = ["spec_twos " + hexs(pl[1]) for (line, kind, pl) in cases if kind == "I2x"]
    _, so, _ = run_lines(model, spec_lines)
    j = 0
    for (line, kind, pl), c in zip(cases, co):
        if kind != "I2x":
            continue
        fn, b = pl
        tw = int(so[j]); j += 1
        if len(b) == 0:
            exp = "OK 0"   # empty contents: the property text is silent; the code answers 0
        else:
            exp = ("OK %d" % tw) if in_range(fn, tw) else "ERANGE"
        run.count("I2x_" + ("inrange" if exp != "ERANGE" else "erange"))
        if c == exp:
            continue
        if fn in ("umax", "ulong") and tw < 0 and c.startswith("OK"):
            run.known_finding("C16-umax-negative", line)
            continue
        run.violation("oracle:I2x", {"what": "range error not reported exactly when the value does not fit", "command_line": line,
                                     "expected": exp, "c": c})
    # property oracle, strtox: accepts exactly the in-range numerals
    for (line, kind, pl), c in zip(cases, co):
        if kind != "strtox":
            continue
        fn, s = pl
        txt = s.decode("latin1")
        i = 0
        neg = False
        if txt[:1] in "+-" and txt[:1] != "":
            neg = txt[0] == "-"; i = 1
        jx = i
        while jx < len(txt) and txt[jx] in "0123456789":
            jx += 1
        if jx == i:
            continue   # no digits: not a numeral, statement silent (covered by model-vs-code)
        unsigned = fn in ("strtoumax", "strtoul")
        if unsigned and neg:
            exp = "INVAL"
        else:
            v = int(txt[i:jx]) * (-1 if neg else 1)
            okr = in_range("umax" if unsigned else "imax", v)
            st = "OK" if jx == len(txt) else "EXTRA"
            exp = "%s %d %d" % (st, jx, v) if okr else "RANGE"
        run.count("strtox_" + exp.split()[0])
        if c == exp or (exp == "RANGE" and c.startswith("RANGE ")):
            continue
        run.violation("oracle:strtox", {"what": "decimal parser does not accept exactly the in-range numerals", "command_line": line,
                                        "text": txt, "expected": exp, "c": c})
    # REAL half: asn_double2REAL / asn_REAL2double (checks/c16_real.py)
    n_real = c16_real.real_part(run, model, cdrv, tier, rng)
    # disagreements for which the oracle found no failing input stay violations (no-failing-input-found)
    oracle_lines = {v.get("command_line") for v in run.violations if v["kind"].startswith("oracle:")}
    for v in run.violations:
        if v.pop("_pending", False):
            v["no_failing_input_found"] = v["command_line"] not in oracle_lines
    # report disagreements that come with a failing input first (only the first 20 replays are written)
    run.violations.sort(key=lambda v: (bool(v.get("no_failing_input_found")), not v["kind"].startswith("oracle:")))
    tb = ["Coq 8.16.1 kernel + vm_compute (refuted witnesses only)", "axioms under Print Assumptions: " + (", ".join(sorted(axioms)) or "none (Closed under the global context)"),
          "extraction: ExtrOcamlBasic only; OCaml 4.13.1; zarith for decimal I/O in driver.ml",
          "harness/leafdrv.c, ocaml/driver.ml, checks/c16.py (generators, oracle in Python big integers)",
          "gcc + ASan/UBSan build of /repo/skeletons/*.c", "LP64 data model"] + c16_real.TRUSTED
    return run.finish("proof", (nthm, ndis), trusted_base=tb,
                      checker_cmd="make -C /verif all && coqc -Q coq A1 coq/Props/Properties_C16.v",
                      extra_cov={"theorems": names, "rule": "boundary-exhaustive +-2^k+-{0,1,2}, all octet strings of length <= 2, sign/strip-boundary prefixes x random tails up to 12 octets, numerals around 10^k and each limit with leading zeros/signs/trailers; a case is one command line, all distinct",
                                 "traces_validated_against_impl": len(lines) + n_real,
                                 "real_half": c16_real.THEOREMS_NOTE,
                                 "real_rule": "doubles: every biased exponent 0..2047 x fractions {0, 1, 2^52-1, 2^k, patterns driving each mstop 0..6 and each make-odd shift 0..7, random}, both signs, NaN patterns; REAL octets: every first octet x short tails, every sign/base/scale/exponent-length code with exponents at the subnormal/normal/overflow boundaries and mantissas of 1..80 bits, subnormal rounding ties, exact encodings truncated at every length, 100..200-octet mantissas"},
                      assumptions=["model of skeletons/INTEGER.c is hand-written; tied by differential run only on the generated cases",
                                   "NULL arguments (EINVAL) and allocation failure paths are not modelled"] + c16_real.ASSUMPTIONS)


if __name__ == "__main__":
    sys.exit(main(sys.argv[1] if len(sys.argv) > 1 else "quick"))
