"""C06 — canonical encodings depend only on the abstract value.
Theorems: coq/Props/Properties_C06.v (sorting is permutation-invariant, DER and UPER of
the codec model do not depend on the order of SET OF members at any depth, the INTEGER
strip loop yields the unique minimal form; OER refuted).
Tie, the representation mutator: pairs of in-memory structures denoting the same value
are built on the C side (different BER/XER inputs, or harness/moddrv_c06.inc `mutate`
changing the structure in memory) and the four canonical encoders (DER, CANONICAL-XER,
canonical UPER, canonical OER) must give byte-identical output; for the modelled algebra
the C output is also compared with the extracted model on the permuted value.
 (i)   SET OF permutations (model layer: generated modules; all permutations when small)
 (ii)  INTEGER sign-extension padding on -fwide-types builds (INTEGER_t)
 (iii) DEFAULT explicit vs absent (hand-written modules)
 (iv)  garbage in the unused bits of BIT STRING (in memory: the BER decoder masks them)
 (iv') compare_struct of INTEGER_t follows the values (padding ignored, numeric order)
 (v)   decode-from-variant: long-form / indefinite lengths, constructed OCTET STRING,
       padded INTEGER contents, XER with white space and comments.
 (vi)  canonical order against length fragmentation: SET OF lists at every 16K fragment
       boundary (16383 .. 81921 members) in ascending / descending / generated / rotated /
       shuffled memory orders (`lset` of moddrv_c06.inc; model tied on the sorted order)
 (viii) time types: one instant (+ fraction) stored in every spelling X.680 46/47 allows (seconds / minutes omitted,
       offsets, local time under three TZ, decimal comma, trailing zeros, second 60), stand-alone and inside SEQUENCE /
       SET OF / SEQUENCE OF / CHOICE / EXPLICIT tag; oracle = X.690 11.7 / 11.8 computed in python from the instant
       (lib/c06_time.py); GeneralizedTime_encode_der tied to the extracted Leaf/GTimeCanon.gt_canon.
 (vii) SET OF members with different leading tags and lengths (CHOICE over the four tag
       classes, ANY), DEFAULT components of extension additions in every explicit/absent
       combination (generated extensible SEQUENCEs)."""
import sys, os
sys.path.insert(0, os.path.join(os.path.dirname(os.path.abspath(__file__)), "..", "lib"))
from vlib import *
from modgen import *
from modbuild import *
from modcorpus import run_mod
from c06_util import *
from c06_time import *
import c02 as C02
import prima_layer          # ENUMERATED / BIT STRING layer (lib/prima_layer.py, notes/design/PrimA.md)
import zlib

INC = os.path.join(HARNESS, "moddrv_c06.inc")
SYNS = ("der", "cxer", "cper", "coer")


def parse_canon(line):
    """'der=.. cxer=.. cper=.. coer=.. [k=v]' -> dict, or None for DECFAIL/CRASH/BAD"""
    if not line.startswith("der="):
        return None
    d = {}
    for part in line.split():
        k, _, v = part.partition("=")
        d[k] = v
    return d


class BiasRng:
    """the shared generator with SET OF made frequent (modgen.Gen draws the constructor from a fixed list)"""
    def __init__(self, r):
        self.r = r

    def choice(self, xs):
        if xs == ["seq", "seq", "choice", "seqof", "setof"]:
            xs = ["seq", "choice", "seqof", "setof", "setof", "setof"]
        return self.r.choice(xs)

    def __getattr__(self, n):
        return getattr(self.r, n)


def setof_module(name="MS6"):
    """hand-made definitions: SET OF over every element kind, nested through named types, with SIZE constraints"""
    I = lambda lo=None, hi=None, ext=False: {"k": "int", "con": (lo, hi, ext) if (lo, hi, ext) != (None, None, False) else None}
    so = lambda el, con=None, tag=None: {"k": "setof", "con": con, "el": el, "tag": tag}
    defs = [
        ("A1", so(I())),
        ("A2", so({"k": "oct", "con": None})),
        ("A3", so({"k": "bool"})),
        ("A4", so({"k": "null"})),
        ("A5", so(I(0, 255), (0, 4, False))),
        ("A6", so(I(0, 7, True), (1, 2, True))),
        ("A7", so({"k": "seq", "ms": [("a", I(), False), ("b", {"k": "oct", "con": None}, True), ("c", {"k": "bool"}, True)]})),
        ("A8", so({"k": "choice", "ms": [("a", I(), False), ("b", {"k": "bool"}, False), ("c", {"k": "oct", "con": (0, 4, False)}, False)]})),
        ("A9", so({"k": "ref", "ref": "A1"})),
        ("A10", so({"k": "ref", "ref": "A7"}, (0, 3, False))),
        ("A11", {"k": "seq", "ms": [("x", {"k": "ref", "ref": "A1"}, False), ("y", {"k": "ref", "ref": "A2"}, True), ("z", {"k": "ref", "ref": "A9"}, False)]}),
        ("A12", {"k": "seqof", "con": None, "el": {"k": "ref", "ref": "A5"}}),
        ("A13", so(I(-70000, 70000))),
        ("A14", so({"k": "oct", "con": (2, 2, False)})),
        ("A15", so(I(), None, ("APPLICATION", 3, None))),
        ("A16", {"k": "choice", "ms": [("s", {"k": "ref", "ref": "A1"}, False), ("q", {"k": "seqof", "con": None, "el": I()}, False)]}),
    ]
    env = dict(defs)
    trees = {n: resolve(t, "AUTOMATIC", env) for n, t in defs}
    return {"name": name, "default": "AUTOMATIC", "defs": defs, "trees": trees, "text": module_text(name, "AUTOMATIC", defs)}


def tagged_setof_module(name="MS7"):
    """SET OF CHOICE whose alternatives begin with tags of all four classes, long tag numbers, an EXPLICIT tag and
    encodings of different lengths: the members are ordered by their complete encodings (leading tag first)"""
    I = lambda tag=None, con=None: {"k": "int", "con": con, "tag": tag}
    so = lambda el, con=None: {"k": "setof", "con": con, "el": el, "tag": None}
    c1 = {"k": "choice", "ms": [("u", I(), False), ("a", I(("APPLICATION", 1, None)), False), ("c", I(("CONTEXT", 1, None)), False),
                                ("p", I(("PRIVATE", 1, None)), False), ("h", I(("PRIVATE", 1000, None)), False),
                                ("o", {"k": "oct", "con": None, "tag": ("CONTEXT", 2, None)}, False), ("b", {"k": "bool", "tag": ("APPLICATION", 7, None)}, False)]}
    c2 = {"k": "choice", "ms": [("e", I(("CONTEXT", 0, "EXPLICIT")), False), ("u", {"k": "oct", "con": None}, False), ("n", {"k": "null"}, False),
                                ("s", {"k": "seq", "ms": [("x", I(("CONTEXT", 0, None)), True), ("y", {"k": "bool", "tag": ("CONTEXT", 1, None)}, True)]}, False)]}
    c3 = {"k": "choice", "ms": [("a", {"k": "bool"}, False), ("b", I(None, (0, 255, False)), False), ("c", {"k": "null"}, False)]}
    defs = [("C1", so(c1)), ("C2", so(c2)), ("C3", so(c3, (0, 8, False))), ("E1", c1), ("C5", so({"k": "ref", "ref": "C1"})),
            ("C6", {"k": "seq", "ms": [("n", I(), False), ("m", {"k": "ref", "ref": "C1"}, False)]})]
    defs = [d for d in defs if d[0] != "E1"]
    env = dict(defs)
    trees = {n: resolve(t, "IMPLICIT", env) for n, t in defs}
    return {"name": name, "default": "IMPLICIT", "defs": defs, "trees": trees, "text": module_text(name, "IMPLICIT", defs)}


def tagged_setof_values():
    """directed values for MS7: leading octets 0x80 and more apart (02 / 81 / c1), three-cycles under a comparison by
    subtraction, tag of three octets, members of different lengths, equal members"""
    ch = lambda i, v: ("C", i, v)
    L = lambda *xs: ("L", list(xs))
    c1 = [L(ch(0, 5), ch(2, 5)), L(ch(0, 5), ch(3, 5)), L(ch(0, 5), ch(2, 5), ch(3, 5)), L(ch(0, 5), ch(1, 5), ch(2, 5), ch(3, 5)),
          L(ch(4, 5), ch(3, 5), ch(0, 5)), L(ch(5, b""), ch(5, b"\0"), ch(0, 0)), L(ch(0, 128), ch(0, -128), ch(0, 5)),
          L(ch(2, 256), ch(0, 1), ch(6, True), ch(1, 0)), L(ch(0, 5), ch(0, 5), ch(3, 5)), L(ch(5, bytes(130)), ch(5, bytes(127)), ch(3, 0))]
    c2 = [L(ch(0, 5), ch(1, b"\5"), ch(2, None)), L(ch(3, ("S", [("_",), ("_",)])), ch(3, ("S", [("!", 1), ("_",)])), ch(3, ("S", [("_",), ("!", True)])), ch(0, 0)),
          L(ch(1, b""), ch(1, b"\0"), ch(1, b"\0\0"))]
    c3 = [L(ch(0, False), ch(1, 0), ch(2, None)), L(ch(0, True), ch(1, 128), ch(1, 64), ch(2, None)), L(ch(2, None), ch(2, None), ch(0, True)),
          L(ch(1, 255), ch(1, 0), ch(0, False), ch(0, True))]
    return {"C1": c1, "C2": c2, "C3": c3, "C5": [L(c1[2], c1[0]), L(c1[4], c1[1], c1[8])], "C6": [("S", [7, c1[3]])]}


def distinctive_value(tn, tree, rng):
    """values for MS6: member lists with duplicates, prefixes of each other, different lengths"""
    v = value(tree, rng)
    return v


# ---------------------------------------------------------------- (i) + (v): the modelled algebra

def model_layer(run, rng, tier, model):
    nm, nt, nv = (8, 5, 5) if tier == "quick" else (40, 6, 10)
    g = Gen(BiasRng(rng))
    mods = [setof_module("MS6"), tagged_setof_module("MS7")] + [g.module("M%d" % i, nt) for i in range(nm)]
    directed = {"MS7": tagged_setof_values()}
    build_modules(mods, tag="c06m", moddrv_extra=INC)
    cases = []
    for m in mods:
        if not m.get("exe"):
            run.violation("build:module", {"what": "a valid generated module was rejected or its code does not compile", "module": m["text"],
                                           "asn1c_out": m.get("asn1c_out", "")[-1200:], "build_log": m.get("build_log", "")[-1200:]})
            continue
        for tn, _t in m["defs"]:
            tree = m["trees"][tn]
            n = nv + (4 if m["name"] == "MS6" else 0)
            seen = set()
            dvals = directed.get(m["name"], {}).get(tn, [])
            for v in dvals + [None] * n:
                if v is None:
                    v = value(tree, rng)
                else:
                    run.count("model_directed_value")
                vs = val_str(v)
                if vs in seen:
                    continue
                seen.add(vs)
                cases.append({"mod": m, "tn": tn, "tree": tree, "ts": model_str(tree), "v": v, "vs": vs})
    # the representations of each value: as generated, every/sampled SET OF permutation
    nperm = 3 if tier == "quick" else 8
    reps = []          # (case, kind, value)
    for c in cases:
        reps.append((c, "asis", c["v"]))
        for pv in permuted_values(c["tree"], c["v"], rng, nperm):
            reps.append((c, "perm", pv))
    lines = []
    for c, kind, v in reps:
        s = val_str(v)
        lines += ["der %s %s" % (c["ts"], s), "uper 0 %s %s" % (c["ts"], s), "oer %s %s" % (c["ts"], s)]
    rcm, mo, me = run_lines(model, lines, timeout=1200)
    if rcm != 0 or len(mo) != len(lines):
        raise RuntimeError("model driver failed: %s %s" % (rcm, me))
    mres = [mo[3 * i:3 * i + 3] for i in range(len(reps))]
    # model-side statement of the theorems on these cases: der / uper equal across representations
    first = {}
    for (c, kind, v), (d, u, o) in zip(reps, mres):
        key = id(c)
        if key not in first:
            first[key] = (d, u)
            c["mder"], c["muper"] = d, u
        elif first[key] != (d, u):
            run.violation("model:setof_order", {"what": "extracted model: DER/UPER differ between two orders of SET OF members (contradicts C06_der_setof_order_irrelevant / C06_uper_setof_order_irrelevant)",
                                                "type": c["ts"], "value": c["vs"], "other": val_str(v)}, no_input=True)
    cases = [c for c in cases if c.get("mder", "NONE") != "NONE"]
    reps2 = [(r, mr) for r, mr in zip(reps, mres) if r[0].get("mder", "NONE") != "NONE"]
    # C side, per module
    bymod = {}
    for r, mr in reps2:
        bymod.setdefault(r[0]["mod"]["name"], []).append((r, mr))
    style_kw = dict(indef=25, longlen=25, intpad=30, consoct=40)
    nvar = 2 if tier == "quick" else 5
    for m in mods:
        if not m.get("exe"):
            continue
        items = bymod.get(m["name"], [])
        lines, meta = [], []
        done_ref = set()
        for (c, kind, v), mr in items:
            if id(c) not in done_ref:
                done_ref.add(id(c))
                lines.append("canon %s ber %s" % (c["tn"], c["mder"]))         # reference: the DER (sorted) form
                meta.append((c, "ref", None, None))
                lines.append("canon2 %s ber %s" % (c["tn"], c["mder"]))
                meta.append((c, "again", None, None))
                if has_setof(c["tree"]):
                    for op in ("rev", "rot"):
                        lines.append("mutate %s ber %s %s" % (c["tn"], c["mder"], op))
                        meta.append((c, "mem-" + op, None, None))
                # (v) BER variants of the value as generated
                for _ in range(nvar):
                    st = Style(rng, **style_kw)
                    b = ber_of(c["tree"], c["v"], st)
                    if st.used:
                        lines.append("canon %s ber %s" % (c["tn"], b.hex()))
                        meta.append((c, "bervar", mr, "+".join(sorted(st.used))))
                lines.append("xcode %s ber %s xer" % (c["tn"], ber_of(c["tree"], c["v"]).hex()))
                meta.append((c, "getxer", mr, None))
            lines.append("canon %s ber %s" % (c["tn"], ber_of(c["tree"], v).hex()))
            meta.append((c, kind, mr, v))
        out = run_mod(run, m, lines, "C06-model-layer")
        # second round: XER variants need the C's own XER text
        xl, xmeta = [], []
        for (c, kind, mr, extra), l, o in zip(meta, lines, out):
            if kind == "getxer" and o.startswith("OK "):
                text = bytes.fromhex(o[3:]).decode("utf-8", "replace") if o[3:] != "-" else ""
                for _ in range(nvar):
                    t2, changed = xer_variant(text, rng)
                    if changed:
                        xl.append("canon %s xer %s" % (c["tn"], t2.encode().hex()))
                        xmeta.append((c, "xervar", mr, None))
        xout = run_mod(run, m, xl, "C06-model-layer-xer") if xl else []
        ref, asis = {}, {}
        allres = list(zip(meta, lines, out)) + list(zip(xmeta, xl, xout))
        for (c, kind, mr, extra), l, o in allres:
            if kind == "asis":
                asis[id(c)] = parse_canon(o)
        for (c, kind, mr, extra), l, o in allres:
            if kind == "getxer":
                continue
            run.case(l)
            run.count("model_" + kind)
            r = parse_canon(o)
            base = {"module": m["text"], "type": c["tn"], "model_type": c["ts"], "value": c["vs"], "command_line": l, "c": o}
            if kind == "ref":
                if r is None:
                    if explicit_unsigned_member(m, dict(m["defs"])[c["tn"]]):
                        run.known_finding("C02-explicit-tag-unsigned-member", l)
                        continue
                    run.violation("correspondence:Rt.der", dict(base, what="the C does not decode the model's DER"), no_input=True)
                    continue
                ref[id(c)] = r
                if r["der"] != c["mder"]:
                    run.violation("correspondence:Rt.der", dict(base, what="C DER differs from the model", model=c["mder"]), no_input=True)
                continue
            rr = ref.get(id(c))
            if kind in ("bervar", "xervar"):
                # the variants carry the members in the order of the value as generated: compare with that representation
                rr = asis.get(id(c))
            if rr is None:
                continue
            if r is None:
                if kind in ("bervar", "xervar"):
                    run.count("variant_not_decoded")       # acceptance of variants is C03's statement
                    continue
                run.violation("oracle:decode", dict(base, what="a permuted DER-form input is not decoded"))
                continue
            if kind == "again" and r.get("again") != "1":
                run.violation("oracle:encoder-mutates", dict(base, what="running the canonical encoders twice on one structure gives different output"))
            # faithfulness: model on the very representation (der/uper/oer of the permuted value)
            if kind in ("asis", "perm") and mr is not None:
                md, mu, mo_ = mr
                exp = {"der": md, "cper": mu, "coer": mo_}
                for s in ("der", "cper", "coer"):
                    e = exp[s]
                    got = r[s]
                    if e == "NONE":
                        okf = got.startswith("!")
                    else:
                        if s == "cper":
                            e = uper_bytes(e)
                        okf = (got == e)
                    if not okf:
                        run.violation("correspondence:Rt.%s" % s, dict(base, what="C encoder output differs from the model on this representation", syntax=s, model=e),
                                      no_input=(rr[s] == got))
            # the property oracle: identical canonical output for every representation of the value
            for s in SYNS:
                run.count("cmp_" + s)
                if r[s] == rr[s]:
                    continue
                if s == "coer" and has_setof(c["tree"]) and kind in ("asis", "perm", "mem-rev", "mem-rot") and setof_only_difference(kind, mr, r, rr, c):
                    run.known_finding("C06-oer-setof-order", l)
                    continue
                run.violation("oracle:canonical(%s)" % s, dict(base, what="two representations of one value give different %s output" % s.upper(),
                                                             kind=kind, detail=extra if isinstance(extra, str) else None,
                                                             reference_input=c["mder"] if kind not in ("bervar", "xervar") else ber_of(c["tree"], c["v"]).hex(),
                                                             reference=rr[s], got=r[s]))
        for c in [x for x in cases if x["mod"] is m][:2]:
            run.sample({"type": c["ts"], "value": c["vs"][:80], "der": c["mder"][:60]})
    return mods


def explicit_unsigned_member(mod, t):
    """known open defect C02-explicit-tag-unsigned-member (tag written twice, the correct encoding rejected): a
    SEQUENCE/CHOICE member with a manual EXPLICIT tag whose INTEGER gets unsigned specifics — seen here also
    for a semi-constrained `(0..MAX)`, not only for 2^31 <= ub < 2^32"""
    if t is None:
        return False
    env = dict(mod["defs"])
    k = t["k"]
    if k == "ref":
        return explicit_unsigned_member(mod, env[t["ref"]])
    if k in ("seq", "choice"):
        for _n, mt, _o in t["ms"]:
            tag = mt.get("tag")
            c = mt.get("con")
            if mt["k"] == "int" and tag and (tag[2] == "EXPLICIT" or (tag[2] is None and mod["default"] == "EXPLICIT")) \
               and c and c[0] is not None and c[0] >= 0 and (c[1] is None or c[1] >= 2**31):
                return True
            if explicit_unsigned_member(mod, mt):
                return True
        return False
    if k in ("seqof", "setof"):
        return explicit_unsigned_member(mod, t["el"])
    return False


def uper_bytes(bits_hex):
    return bits_hex


def setof_only_difference(kind, mr, r, rr, c):
    """narrow predicate of C06-oer-setof-order: the type has a SET OF, DER/CXER/CPER agree with the
    reference, and (when the model saw this representation) the C's COER is exactly the model's OER of
    the members in memory order"""
    if any(r[s] != rr[s] for s in ("der", "cxer", "cper")):
        return False
    if kind in ("asis", "perm") and mr is not None:
        return mr[2] == r["coer"]
    return len(r["coer"]) == len(rr["coer"]) and sorted(r["coer"]) == sorted(rr["coer"])



# ---------------------------------------------------------------- (vi): long SET OF lists against length fragmentation

LONG_ELEM = {"LA": ("int", 256, False), "LB": ("bool", 2, False), "LC": ("int", 256, False), "LD": ("bool", 2, False), "LE": ("bool", 2, False),
             "LO": ("oct:2", 65536, True), "LS": ("ostr:7", 1 << 40, False)}


def long_module(name="ML6"):
    I8 = {"k": "int", "con": (0, 255, False)}
    B = {"k": "bool"}
    so = lambda el, con=None: {"k": "setof", "con": con, "el": el, "tag": None}
    defs = [("LA", so(I8)), ("LB", so(B)), ("LC", so(I8, (0, 70000, False))), ("LD", so(B, (0, 3, True))), ("LE", so(B, (0, 65535, False))),
            ("LO", so({"k": "oct", "con": (2, 2, False)})), ("LS", so({"k": "oct", "con": None}))]
    env = dict(defs)
    trees = {n: resolve(t, "AUTOMATIC", env) for n, t in defs}
    return {"name": name, "default": "AUTOMATIC", "defs": defs, "trees": trees, "text": module_text(name, "AUTOMATIC", defs)}


def long_plan(rng, tier):
    """(type, n, a, b, m): directed fragment / length-form boundaries first, random after"""
    odd = lambda: 2 * rng.below(128) + 1
    plan = []
    la = [127, 128, 16383, 16384, 16385, 32767, 32768, 32769, 49152, 49153, 65535, 65536, 65537, 81921]
    if tier != "quick":
        la += [2, 129, 21845, 21846, 16386, 49151, 65538, 81919, 81920, 98304, 98305, 131073]
    for n in la:
        plan.append(("LA", n, odd(), rng.below(256), 256))
    for n in [16384, 16385, 65537] + ([32769, 49153, 81921] if tier != "quick" else []):
        plan.append(("LB", n, 1, rng.below(2), 2))
    for n in [16385, 65536, 70000] + ([65535, 65537] if tier != "quick" else []):
        plan.append(("LC", n, odd(), rng.below(256), 256))
    for n in [4, 16385, 32769] + ([16384, 65537] if tier != "quick" else []):
        plan.append(("LD", n, 1, rng.below(2), 2))
    for n in [16385, 65535]:
        plan.append(("LE", n, 1, rng.below(2), 2))
    for n in [16385, 32769] + ([65537] if tier != "quick" else []):
        plan.append(("LO", n, 2 * rng.below(30000) + 1, rng.below(65536), 65536))
    # members that are themselves fragmented (OCTET STRING of 16K octets and more): a = step of the lengths, b = the shortest
    plan += [("LS", 5, 1, 16382, 1 << 40), ("LS", 4, 16384, 0, 1 << 40), ("LS", 3, 1, 65535, 1 << 40), ("LS", 6, 126, 1, 1 << 40)]
    for _ in range(2 if tier == "quick" else 8):
        tn = rng.choice(["LA", "LA", "LB", "LC", "LO"])
        n = 16385 + rng.below(70000 - 16385 if tn == "LC" else 74000)
        m = LONG_ELEM[tn][1]
        plan.append((tn, n, 2 * rng.below(m // 2) + 1, rng.below(m), 1 + rng.below(m)))
    return plan


def parse_lset(o):
    """'n=.. der=len:crc cxer=.. cper=.. coer=.. [derhex=.. cperhex=.. coerhex=..]' -> dict | None"""
    if not o.startswith("n="):
        return None
    d = {}
    for part in o.split():
        k, _, v = part.partition("=")
        d[k] = v
    return d


def digest(b):
    return "%d:%08x" % (len(b), zlib.crc32(b) & 0xffffffff)


def long_layer(run, rng, tier, model):
    m = long_module()
    build_modules([m], tag="c06l", moddrv_extra=INC)
    if not m.get("exe"):
        run.violation("build:module", {"what": "the module of long SET OF types was rejected or its code does not compile", "module": m["text"],
                                       "asn1c_out": m.get("asn1c_out", "")[-1200:], "build_log": m.get("build_log", "")[-1200:]}, no_input=True)
        return
    plan = long_plan(rng, tier)
    nshuf = 1 if tier == "quick" else 3
    cases = []
    for tn, n, a, b, mm in plan:
        elem, _m, fixed = LONG_ELEM[tn]
        orders = ["asc", "gen", "desc"]
        if n > 2:
            orders.append("rot:%d" % (1 + rng.below(n - 1)))
        if n > 16384:
            orders.append("rot:16384")        # exactly one fragment moved from the front to the back
        orders += ["shuf:%d" % (1 + rng.below(1 << 30)) for _ in range(nshuf)]
        cases.append({"tn": tn, "n": n, "abm": (a, b, mm), "elem": elem, "fixed": fixed, "orders": orders, "ts": model_str(m["trees"][tn]),
                      "lines": ["lset %s %s %d %d %d %d %s%s" % (tn, elem, n, a, b, mm, o, " full" if o == "asc" else "") for o in orders]})
    nproc = 6
    cost = lambda c: c["n"] * (300 if c["tn"] == "LS" else 1) + 2000
    # the model on the sorted representation (insertion sort is linear there; its value for any other order: the theorems)
    mb = spread(cases, nproc, cost)
    mlines = []
    for idx in mb:
        ls = []
        for i in idx:
            c = cases[i]
            vs = lset_model_value(c["elem"], lset_values(c["n"], *c["abm"], "asc"))
            ls += ["der %s %s" % (c["ts"], vs), "uper 0 %s %s" % (c["ts"], vs), "oer %s %s" % (c["ts"], vs)]
        mlines.append(ls)
    mres = par_lines(model, mlines, unlimited_stack=True, workdir=scratch())
    for idx, ls, (rc, out, err) in zip(mb, mlines, mres):
        if rc != 0 or len(out) != len(ls):
            raise RuntimeError("model driver failed on the long lists: rc=%s %s" % (rc, err[-500:]))
        for j, i in enumerate(idx):
            cases[i]["model"] = out[3 * j:3 * j + 3]
    cb = spread(cases, nproc, lambda c: cost(c) * len(c["orders"]))
    clines = [[l for i in idx for l in cases[i]["lines"]] for idx in cb]
    cres = par_lines(m["exe"], clines, env=SAN_ENV, workdir=scratch())
    for idx, ls, (rc, out, err) in zip(cb, clines, cres):
        if rc != 0 or len(out) != len(ls):
            if out and rc != 0 and "coer=" not in out[-1] and not out[-1].startswith(("DECFAIL", "BAD")):
                out = out[:-1]                      # a dying process can leave a partial last line
            bad = ls[len(out)] if len(out) < len(ls) else None
            run.violation("crash:C06-long-lists", {"what": "moddrv died (rc=%s): sanitizer report, abort or signal" % rc, "module": m["text"],
                                                   "command_line": bad, "stderr_tail": err[-2500:]})
            out = out + ["CRASH"] * (len(ls) - len(out))
        k = 0
        for i in idx:
            cases[i]["out"] = out[k:k + len(cases[i]["lines"])]
            k += len(cases[i]["lines"])
    for c in cases:
        tn, n = c["tn"], c["n"]
        frag = "n<16K" if n < 16384 else "n=%dx16K%+d" % (round(n / 16384), n - 16384 * round(n / 16384)) if abs(n - 16384 * round(n / 16384)) <= 2 else "n>16K"
        ref = None
        for order, l, o in zip(c["orders"], c["lines"], c["out"]):
            run.case(l)
            run.count("long_%s_%s" % (tn, order.split(":")[0]))
            run.count("long_" + frag)
            r = parse_lset(o)
            base = {"module": m["text"], "type": tn, "model_type": c["ts"], "members": n, "order": order, "command_line": l, "c": o[:400],
                    "value": "member k = (%d*k + %d) mod %d as %s" % (c["abm"] + (c["elem"],))}
            if r is None or r.get("n") != str(n):
                run.violation("oracle:decode", dict(base, what="a valid BER SET OF of %d members is not decoded (or the count is wrong)" % n), no_input=(order != "asc"))
                continue
            if order == "asc":
                ref = r
                md, mu, mo = c["model"]
                for syn, e in (("der", md), ("cper", mu), ("coer", mo)):
                    got = r.get(syn + "hex", "")
                    okf = got.startswith("!") if e == "NONE" else got == e
                    if not okf:
                        run.violation("correspondence:Rt.%s" % syn, dict(base, what="C encoder output differs from the model on the sorted long list (%s)" % syn,
                                                                         syntax=syn, model=e[:200], c=got[:200], model_digest=None if e == "NONE" else digest(bytes.fromhex(e)),
                                                                         c_digest=r.get(syn)), no_input=True)
                run.sample({"type": c["ts"], "members": n, "cper": r.get("cper"), "der": r.get("der")})
                continue
            if ref is None:
                continue
            for syn in SYNS:
                run.count("cmp_" + syn)
                if r.get(syn) == ref.get(syn):
                    continue
                if syn == "coer" and r["coer"] == digest(lset_coer(c["elem"], c["fixed"], lset_values(n, *c["abm"], order))):
                    # exactly the members in memory order after the quantity: the open finding, whatever the other encoders do
                    run.known_finding("C06-oer-setof-order", l)
                    continue
                run.violation("oracle:canonical(%s)" % syn, dict(base, what="two memory orders of the members of one SET OF value give different %s output (length:crc32)" % syn.upper(),
                                                                 kind="long-" + order, reference_input=c["lines"][0], reference=ref.get(syn), got=r.get(syn)))
    return m


def frag_spec_layer(run, rng, tier, model):
    """spec side of coq/Rt/CanonicalFrag.v: the extracted frag_whole / frag_each with a small fragment unit against the
    wording of X.691 11.9 / 22.1 written in python (members of one width, so that the padded key is injective)"""
    lines, exp = [], []
    for _ in range(60 if tier == "quick" else 400):
        K = rng.choice([1, 2, 3, 4, 5, 8])
        w = 1 + rng.below(9)
        n = rng.choice([0, 1, K - 1, K, K + 1, 2 * K, 2 * K + 1, 3 * K + 1, 4 * K, 4 * K + 1, 5 * K + 1, 9 * K + 2, rng.below(12 * K + 1)])
        items = [format(rng.below(1 << w), "0%db" % w) for _ in range(max(n, 0))]
        arg = ",".join(items) or "-"
        lines += ["fragwhole %d %s" % (K, arg), "frageach %d %s" % (K, arg)]
        exp += [py_fragments(K, items), py_fragments(K, items, True)]
    rc, out, err = run_lines(model, lines, timeout=300)
    if rc != 0 or len(out) != len(lines):
        raise RuntimeError("model driver failed (frag): %s %s" % (rc, err[-500:]))
    for l, o, e in zip(lines, out, exp):
        run.case(l)
        run.count("spec_" + l.split()[0])
        if o != (e or "-"):
            run.violation("spec:CanonicalFrag", {"what": "the extracted fragment loop disagrees with X.691 11.9 / 22.1 written in python", "command_line": l, "model": o, "expected": e}, no_input=True)


# ---------------------------------------------------------------- (ii) (iii) (iv): hand-written modules

def ival(z, pad=0):
    c = int_octets(z)
    return (b"\xff" if z < 0 else b"\0") * pad + c


def groups_wint(rng, tier):
    """(type, kind, [inputs]) — inputs of one group denote one value; the first is the canonical one"""
    out = []
    n = 4 if tier == "quick" else 12
    pool = [0, 1, 5, -1, -5, 127, 128, 255, 256, -128, -129, 65535, 70000, -70000, 2**31 - 1, 2**31, 2**32, 2**63 - 1, -2**63, 2**64 - 1, 2**64, 2**80 + 12345, -(2**71) - 3]
    def pick(lo=None, hi=None, k=n):
        c = [z for z in pool if (lo is None or z >= lo) and (hi is None or z <= hi)]
        return [rng.choice(c) for _ in range(k)] + [c[0], c[-1]]
    pads = lambda: [1, 2, 1 + rng.below(4)]
    for tn, lo, hi in (("I", None, None), ("IC", 0, 255), ("IN", -70000, 70000), ("IS", 0, None), ("IE", 0, 7), ("IE", None, None)):
        for z in pick(lo, hi):
            out.append((tn, "intpad", [uni(2, ival(z))] + [uni(2, ival(z, p)) for p in pads()], z))
    # directed: the two ends of the strip loop's test -- minimal contents beginning with 80 (after ff) and with 00 80 / 7f (after 00),
    # at every width up to nine octets; ff 7f.. and 00 ff.. where nothing may be stripped
    edge = []
    for w in (1, 2, 3, 4, 8, 9):
        edge += [-(1 << (8 * w - 1)), -(1 << (8 * w - 1)) + 1, (1 << (8 * w - 1)), (1 << (8 * w - 1)) - 1, -(1 << (8 * w - 1)) - 1]
    for z in (edge if tier != "quick" else edge[:10] + [rng.choice(edge[10:]) for _ in range(6)]):
        out.append(("I", "intpad", [uni(2, ival(z))] + [uni(2, ival(z, p)) for p in (1, 2 + rng.below(2))], z))
        if rng.chance(1, 3):
            out.append(("SI", "intpad", [uni(16, ctx(0, ival(z, p)) + ctx(1, ival(7, p)), True) for p in (0, 1, 3)], (z, 7, None)))
    for _ in range(n):
        a, b = rng.choice(pool), rng.choice([0, 7, 255])
        cs = [None, 3, 200][rng.below(3)]
        def si(pa, pb, pc):
            body = ctx(0, ival(a, pa)) + ctx(1, ival(b, pb)) + (ctx(2, ival(cs, pc)) if cs is not None else b"")
            return uni(16, body, True)
        out.append(("SI", "intpad", [si(0, 0, 0), si(1, 0, 0), si(0, 2, 0), si(1, 1, 3)], (a, b, cs)))
        zs = [rng.choice(pool) for _ in range(1 + rng.below(3))]
        for tn, tagn in (("LI", 16), ("TI", 17)):
            items = sorted([uni(2, ival(z)) for z in zs]) if tn == "TI" else [uni(2, ival(z)) for z in zs]
            # the same members, padded, in the same order
            pad_items = []
            for it in items:
                z = int.from_bytes(it[2:], "big", signed=True)
                pad_items.append(uni(2, ival(z, 1 + rng.below(2))))
            out.append((tn, "intpad", [uni(tagn, b"".join(items), True), uni(tagn, b"".join(pad_items), True)], tuple(zs)))
        z = rng.choice(pool)
        out.append(("CI", "intpad", [ctx(0, ival(z)), ctx(0, ival(z, 2))], z))
    return out


def groups_default(rng, tier):
    out = []
    z = ctx(3, b"")
    T = lambda n, c: ctx(n, c)
    # DS: a INTEGER DEFAULT 5, b BOOLEAN DEFAULT TRUE, c INTEGER (0..255) DEFAULT 7, z NULL
    out.append(("DS", "default-int", [uni(16, z, True), uni(16, T(0, b"\x05") + z, True), uni(16, T(2, b"\x07") + z, True),
                                      uni(16, T(0, b"\x05") + T(2, b"\x07") + z, True), uni(16, T(0, b"\0\x05") + z, True)], "a=5,c=7"))
    out.append(("DS", "default-bool-01", [uni(16, z, True), uni(16, T(1, b"\x01") + z, True)], "b=TRUE as 01"))
    out.append(("DS", "default-bool-ff", [uni(16, z, True), uni(16, T(1, b"\xff") + z, True), uni(16, T(0, b"\x05") + T(1, b"\xff") + T(2, b"\x07") + z, True)], "b=TRUE as ff"))
    for a in (0, 6, 300):
        out.append(("DS", "default-int", [uni(16, T(0, ival(a)) + z, True), uni(16, T(0, ival(a)) + T(2, b"\x07") + z, True)], "a=%d" % a))
    # DX: z BOOLEAN, ..., a INTEGER DEFAULT 5, b BOOLEAN DEFAULT TRUE   (extension additions)
    zz = T(0, b"\xff")
    out.append(("DX", "default-ext-int", [uni(16, zz, True), uni(16, zz + T(1, b"\x05"), True)], "ext a=5"))
    out.append(("DX", "default-ext-bool-01", [uni(16, zz, True), uni(16, zz + T(2, b"\x01"), True)], "ext b=TRUE as 01"))
    out.append(("DX", "default-ext-bool-ff", [uni(16, zz, True), uni(16, zz + T(2, b"\xff"), True)], "ext b=TRUE as ff"))
    out.append(("DX", "default-ext-int", [uni(16, zz + T(1, b"\x06"), True), uni(16, zz + T(1, b"\0\x06"), True)], "ext a=6"))
    # DE: e ENUMERATED DEFAULT green(1), z BOOLEAN
    out.append(("DE", "default-enum", [uni(16, T(1, b"\xff"), True), uni(16, T(0, b"\x01") + T(1, b"\xff"), True)], "e=green"))
    out.append(("DE", "default-enum", [uni(16, T(0, b"\x02") + T(1, b"\xff"), True), uni(16, T(0, b"\0\x02") + T(1, b"\xff"), True)], "e=blue"))
    # DN: i SEQUENCE { a DEFAULT 5 }, l SEQUENCE OF SEQUENCE { a DEFAULT 3, z BOOLEAN }
    el = lambda a, zb: uni(16, (T(0, ival(a)) if a is not None else b"") + T(1, zb), True)
    out.append(("DN", "default-int", [uni(16, ctx(0, b"", True) + ctx(1, b"", True), True), uni(16, ctx(0, T(0, b"\x05"), True) + ctx(1, b"", True), True)], "i.a=5"))
    out.append(("DN", "default-int", [uni(16, ctx(0, b"", True) + ctx(1, el(None, b"\xff") + el(4, b"\0"), True), True),
                                      uni(16, ctx(0, T(0, b"\x05"), True) + ctx(1, el(3, b"\xff") + el(4, b"\0"), True), True)], "l[0].a=3"))
    return out


def groups_bits(rng, tier):
    """(type, kind, input, [mutate ops]) — BIT STRING noise is applied in memory"""
    out = []
    n = 6 if tier == "quick" else 20
    blobs = []
    def bs(nbits):
        nb = (nbits + 7) // 8
        unused = nb * 8 - nbits
        data = bytearray(rng.bytes(nb))
        if nb:
            data[-1] &= (0xff << unused) & 0xff
            if rng.chance(1, 4):
                data[-1] = 0            # the used bits of the last octet all zero (BIT_STRING_encode_oer boundary)
        blobs.append(bytes([unused]) + bytes(data))
        return blobs[-1]
    noise = lambda: "bits:%02x" % (1 + rng.below(255))
    def add(tn, b, ops):
        out.append((tn, b, ops, list(blobs)))
        del blobs[:]
    for _ in range(n):
        k = 1 + rng.below(30)
        add("B", uni(3, bs(k)), [noise(), "bits:ff"])
        add("BV", uni(3, bs(1 + rng.below(20))), [noise(), "bits:ff"])
        add("BE", uni(3, bs(rng.choice([4, 4, 3, 9, 13]))), [noise(), "bits:ff"])
        add("BF", uni(3, bs(4)), [noise(), "bits:ff", "bits:01"])
        add("SB", uni(16, ctx(0, bs(k)) + (ctx(1, bs(12)) if rng.chance(1, 2) else b""), True), [noise(), "bits:ff"])
        items = [uni(3, bs(1 + rng.below(12))) for _ in range(1 + rng.below(3))]
        add("TB", uni(17, b"".join(sorted(items)), True), [noise(), "bits:ff", "rev", "rot," + noise()])
        add("CB", ctx(0, bs(k)), [noise(), "bits:ff"])
    return out


WIDE_FINDINGS = {
    # kind-prefix, syntax  -> finding id, extra predicate(name of build, group)
}


def classify_hand(build, tn, kind, s, z, j=None, r=None, rr=None):
    """known findings of the hand-written layer, by the narrowest description implemented here"""
    if kind in ("default-bool-ff", "default-ext-bool-ff") and s in ("der", "cper", "coer"):
        return "C06-default-boolean-true-octet"
    if kind in ("default-ext", "default-root") and isinstance(z, dict) and j in z.get("ff", ()) and s in ("der", "cper", "coer"):
        return "C06-default-boolean-true-octet"      # this input writes a BOOLEAN DEFAULT TRUE component as the octet ff
    if kind == "setof-perm" and s == "coer" and r is not None and all(r[x] == rr[x] for x in ("der", "cxer", "cper")) \
       and not r[s].startswith("!") and len(r[s]) == len(rr[s]) and sorted(bytes.fromhex(r[s])) == sorted(bytes.fromhex(rr[s])):
        return "C06-oer-setof-order"                 # same octets in another order, the three sorting encoders agree
    return None


def wide_beyond_64(z):
    zs = []
    def walk(x):
        if isinstance(x, int):
            zs.append(x)
        elif isinstance(x, tuple):
            for y in x:
                walk(y)
    walk(z)
    return any(not (-2**63 <= x < 2**63) for x in zs)


def hand_layer(run, rng, tier, model):
    builds = {}
    dxtypes = dx_directed() + [dx_random(rng, i) for i in range(3 if tier == "quick" else 12)]
    gx = [g for tn, ms in dxtypes for g in dgroups(tn, ms, rng, 6 if tier == "quick" else 10)]
    gs = sany_groups(rng, tier)
    for bname, opts in (("wide", ("-fcompound-names", "-fwide-types")), ("native", ("-fcompound-names",))):
        mods = [hand_module("WINT", WIDE_INT, WIDE_INT_TYPES), hand_module("DDEF", DEFAULTS, DEFAULTS_TYPES), hand_module("BBIT", BITS, BITS_TYPES),
                hand_module("DDX", dx_module(dxtypes), [tn for tn, _ms in dxtypes]), hand_module("SANY", SANY, SANY_TYPES)]
        build_modules(mods, tag="c06" + bname, opts=opts, moddrv_extra=INC)
        for m in mods:
            if not m.get("exe"):
                run.violation("build:module", {"what": "hand-written module rejected or its code does not compile (%s)" % bname, "module": m["text"],
                                               "asn1c_out": m.get("asn1c_out", "")[-1200:], "build_log": m.get("build_log", "")[-1200:]}, no_input=True)
        builds[bname] = {m["name"]: m for m in mods}
    gw, gd, gb = groups_wint(rng, tier), groups_default(rng, tier), groups_bits(rng, tier)
    # the model of DEFAULT elision (coq/Rt/CanonicalDefault.v) on every input of the generated extensible SEQUENCEs
    mlines, mkeys = [], []
    for gi, (tn, kind, inputs, z) in enumerate(gx):
        ety, dr, da = dx_model(z["ms"])
        for j, stored in enumerate(z["assign"]):
            vs = dx_model_value(z["ms"], stored)
            mlines += ["dder %s %s %s %s" % (dr, da, ety, vs), "duper 0 %s %s %s %s" % (dr, da, ety, vs), "doer %s %s %s %s" % (dr, da, ety, vs)]
            mkeys.append((gi, j))
    rcm, mo, me = run_lines(model, mlines, timeout=600)
    if rcm != 0 or len(mo) != len(mlines):
        raise RuntimeError("model driver failed (DEFAULT layer): %s %s" % (rcm, me[-800:]))
    dxmodel = {k: mo[3 * i:3 * i + 3] for i, k in enumerate(mkeys)}
    for (gi, j), (d, u, o) in dxmodel.items():
        if (d, u, o) != tuple(dxmodel[(gi, 0)]):
            run.violation("model:default_elision", {"what": "extracted model: DER/UPER/OER differ between two ways of storing the DEFAULT components of one value (contradicts C06_default_*_representation_independent)",
                                                    "type": dx_model(gx[gi][3]["ms"])[0], "command_line": mlines[3 * mkeys.index((gi, j))]}, no_input=True)
    for bname, ms in builds.items():
        # ---- INTEGER padding and DEFAULT: groups of inputs
        for mname, groups in (("WINT", gw), ("DDEF", gd), ("DDX", gx), ("SANY", gs)):
            m = ms[mname]
            if not m.get("exe"):
                continue
            lines, meta = [], []
            for gi, (tn, kind, inputs, z) in enumerate(groups):
                for j, b in enumerate(inputs):
                    lines.append("canon %s ber %s" % (tn, b.hex()))
                    meta.append((gi, j))
                if kind == "intpad" and bname == "wide":
                    lines.append("mutate %s ber %s ipad:%d" % (tn, inputs[0].hex(), 1 + rng.below(3)))
                    meta.append((gi, -1))
            out = run_mod(run, m, lines, "C06-hand-" + mname)
            ref = {}
            for (gi, j), l, o in zip(meta, lines, out):
                tn, kind, inputs, z = groups[gi]
                run.case(bname + " " + l)
                run.count("%s_%s" % (bname, kind))
                r = parse_canon(o)
                base = {"module": m["text"], "asn1c_options": bname, "type": tn, "kind": kind, "value": repr(z), "command_line": l, "c": o}
                if isinstance(z, dict) and "spelled" in z and j >= 0:
                    base["spelled_out"] = z["spelled"][j]
                if j == 0:
                    if r is None:
                        if wide_beyond_64(z) and bname == "native":
                            run.count("native_out_of_range")
                            continue
                        if tn in ("IC", "IN", "IS", "IE") or True:
                            # the canonical input itself is not decodable: not a C06 matter unless every input is valid for the type
                            run.violation("oracle:decode", dict(base, what="canonical input of a group is not decoded"), no_input=True)
                        continue
                    ref[gi] = r
                rr = ref.get(gi)
                if rr is None:
                    continue
                if r is None:
                    run.violation("oracle:decode", dict(base, what="a non-canonical BER form of a decodable value is not decoded (C03), so C06 cannot be evaluated here"), no_input=True)
                    continue
                if mname == "DDX" and j not in z["ff"]:
                    # faithfulness: the C on this very representation against the model (an input that writes a DEFAULT TRUE as ff
                    # is the open finding C06-default-boolean-true-octet: the model's BOOLEAN has no octet)
                    for s, e in zip(("der", "cper", "coer"), dxmodel[(gi, j)]):
                        run.count("model_default_" + s)
                        if (r[s].startswith("!") if e == "NONE" else r[s] == e):
                            continue
                        run.violation("correspondence:CanonicalDefault.%s" % s, dict(base, what="C encoder output differs from the model of DEFAULT elision on this representation",
                                                                                      syntax=s, model=e, model_type=dx_model(z["ms"])[0], stored=dx_model_value(z["ms"], z["assign"][j])),
                                      no_input=(rr[s] == r[s]))
                if j == -1 and r.get("sites") == "0" and tn not in ("IC", "IN"):      # constrained types stay native long under -fwide-types
                    run.violation("harness:mutate", dict(base, what="in-memory INTEGER padding found no INTEGER_t to pad"), no_input=True)
                for s in SYNS:
                    run.count("cmp_" + s)
                    if r[s] == rr[s]:
                        continue
                    fid = classify_hand(bname, tn, kind, s, z, j, r, rr)
                    if fid:
                        run.known_finding(fid, l)
                        continue
                    run.violation("oracle:canonical(%s)" % s, dict(base, what="two representations of one value give different %s output" % s.upper(),
                                                                 reference_input=groups[gi][2][0].hex(), reference=rr[s], got=r[s]))
        # ---- BIT STRING noise in memory
        m = ms["BBIT"]
        if m.get("exe"):
            lines, meta = [], []
            for gi, (tn, b, ops, blobs) in enumerate(gb):
                lines.append("canon %s ber %s" % (tn, b.hex()))
                meta.append((gi, None))
                for op in ops:
                    lines.append("mutate %s ber %s %s" % (tn, b.hex(), op))
                    meta.append((gi, op))
            out = run_mod(run, m, lines, "C06-hand-BBIT")
            ref = {}
            nsites = 0
            for (gi, op), l, o in zip(meta, lines, out):
                tn, b, ops, blobs = gb[gi]
                run.case(bname + " " + l)
                run.count("%s_bitnoise" % bname)
                r = parse_canon(o)
                base = {"module": m["text"], "asn1c_options": bname, "type": tn, "kind": "bitnoise", "command_line": l, "c": o}
                if r is None:
                    run.violation("oracle:decode", dict(base, what="valid BIT STRING input not decoded"), no_input=True)
                    continue
                if op is None:
                    ref[gi] = r
                    continue
                rr = ref.get(gi)
                if rr is None:
                    continue
                nsites += int(r.get("sites", "0"))
                for s in SYNS:
                    run.count("cmp_" + s)
                    if r[s] == rr[s]:
                        continue
                    if s == "coer" and tn == "TB" and ("rev" in op or "rot" in op) and all(r[x] == rr[x] for x in ("der", "cxer")):
                        run.known_finding("C06-oer-setof-order", l)
                        continue
                    run.violation("oracle:canonical(%s)" % s, dict(base, what="two representations of one value give different %s output" % s.upper(),
                                                                 reference=rr[s], got=r[s]))
            if nsites == 0:
                run.violation("harness:mutate", {"what": "the in-memory BIT STRING mutator changed nothing"}, no_input=True)
        # ---- compare_struct on INTEGER_t: decided by the values, not by their representations
        m = ms["WINT"]
        if m.get("exe") and bname == "wide":
            lines, meta = [], []
            for (tn, kind, inputs, z) in gw:
                if kind == "intpad" and tn in ("I", "IS", "IE", "SI", "LI", "TI", "CI"):
                    for b in inputs[1:]:
                        lines.append("cmp %s ber %s ber %s" % (tn, inputs[0].hex(), b.hex()))
                        meta.append(("equal", 0, z))
                        lines.append("cmp %s ber %s ber %s" % (tn, b.hex(), inputs[0].hex()))
                        meta.append(("equal", 0, z))
            pool = [0, 1, -1, 2, -2, 127, 128, -128, -129, 255, 256, -255, -256, -257, 32767, -32768, -32769, 65535, -65536, 2**63, -2**63, -2**63 - 1, 2**64, -(2**71) - 3, 2**80]
            mlines = []
            for _ in range(60 if tier == "quick" else 400):
                a, b = rng.choice(pool), rng.choice(pool)
                if rng.chance(1, 3):
                    b = a + rng.choice([-1, 1, 256, -256])
                ca, cb = ival(a, rng.below(3)), ival(b, rng.below(3))
                lines.append("cmp I ber %s ber %s" % (uni(2, ca).hex(), uni(2, cb).hex()))
                meta.append(("order", (a > b) - (a < b), (a, b)))
                mlines.append("intcmp %s %s" % (ca.hex(), cb.hex()))
            out = run_mod(run, m, lines, "C06-compare")
            # faithfulness: the extracted model of INTEGER_compare on the same contents octets
            rcm, mo, me = run_lines(model, mlines, timeout=300)
            if rcm != 0 or len(mo) != len(mlines):
                run.violation("model:driver", {"what": "model driver failed (intcmp)", "rc": rcm, "stderr": me[-1500:]}, no_input=True)
                mo = []
            for ml, r, l, o in zip(mlines, mo, lines[len(lines) - len(mlines):], out[len(out) - len(mlines):]):
                run.case(ml)
                run.count("model_intcmp")
                if r != o.strip():
                    run.violation("correspondence:CanonicalCompare.int_compare", {"what": "INTEGER_compare and its model disagree: C %s, model %s" % (o[:40], r[:40]),
                                                                                 "command_line": ml, "c_command": l, "asn1c_options": bname}, no_input=True)
            for (what, exp, z), l, o in zip(meta, lines, out):
                run.case(bname + " " + l)
                run.count("compare_" + what)
                if o.strip() != str(exp):
                    run.violation("oracle:compare(%s)" % what, {"module": m["text"], "asn1c_options": bname, "value": repr(z), "command_line": l, "c": o, "expected": str(exp),
                                                              "what": "compare_struct of two INTEGER_t does not follow their values (equal values in different representations must compare equal, different values in the numeric order)"})
    return builds


# ---------------------------------------------------------------- (viii) time types in every spelling

TIME_TZS = (0, 19800, -18000)


def time_cases(rng, tier):
    """[] of (type, value, tz): the representation dimension of GeneralizedTime / UTCTime"""
    quick = tier == "quick"
    cases = []
    gpool, upool = [], []            # (t, frac, spellings)
    for i, (t, frac) in enumerate(GT_DIRECTED):
        sps = gt_spellings(t, frac, rng, full=(not quick or i < 5), tzs=TIME_TZS)
        gpool.append((t, frac, sps))
    for _ in range(30 if quick else 300):
        t, frac = random_gt(rng)
        gpool.append((t, frac, gt_spellings(t, frac, rng, full=False, tzs=TIME_TZS)))
    for i, t in enumerate(UT_DIRECTED):
        upool.append((t, "", ut_spellings(t, rng, full=(not quick or i < 4), tzs=TIME_TZS)))
    for _ in range(12 if quick else 120):
        t = random_ut(rng)
        upool.append((t, "", ut_spellings(t, rng, full=False, tzs=TIME_TZS)))

    def pick_tz(sp):
        return sp["tz"] if sp["tz"] is not None else rng.choice(TIME_TZS)

    # top level: every spelling (directed values), a sample of the others
    for kind, tn, pool, ndir in (("gt", "G", gpool, len(GT_DIRECTED)), ("ut", "U", upool, len(UT_DIRECTED))):
        for i, (t, frac, sps) in enumerate(pool):
            chosen = sps
            cap = (10**9 if i < 5 else 40) if i < ndir else 12
            if quick and len(sps) > cap:
                # the directed forms (one of each zone form x precision) first, random after
                seen, first, rest = set(), [], []
                for sp in sps:
                    key = sp["form"]
                    (first if key not in seen else rest).append(sp)
                    seen.add(key)
                rng.shuffle(first)
                rng.shuffle(rest)
                chosen = (first + rest)[:cap]
            cases.append((tn, leaf(kind, t, frac, {"text": canon_gt(t, frac) if kind == "gt" else canon_ut(t), "form": "canonical", "tz": None}), rng.choice(TIME_TZS)))
            for sp in chosen:
                cases.append((tn, leaf(kind, t, frac, sp), pick_tz(sp)))

    # the same inside SEQUENCE / SET OF / SEQUENCE OF / CHOICE / EXPLICIT tag
    def draw(kind, tz, canonical=False):
        t, frac, sps = rng.choice(gpool if kind == "gt" else upool)
        if kind == "gt" and rng.chance(1, 4):
            t, frac, sps = gpool[rng.below(3)]            # the values whose minutes / seconds can be omitted
        ok = [sp for sp in sps if sp["tz"] in (None, tz)]
        if canonical or not ok:
            return leaf(kind, t, frac, {"text": canon_gt(t, frac) if kind == "gt" else canon_ut(t), "form": "canonical", "tz": None})
        return leaf(kind, t, frac, rng.choice(ok))

    def value(ty, tz, canonical=False):
        k = ty[0]
        if k in ("gt", "ut"):
            return draw(k, tz, canonical)
        if k == "seq":
            return [value(mt, tz, canonical) for _n, mt in ty[1]]
        if k in ("setof", "seqof"):
            n = rng.choice([0, 1, 2, 2, 3, 3, 4, 6])
            es = [value(ty[1], tz, canonical) for _ in range(n)]
            if k == "setof" and n >= 2 and ty[1][0] in ("gt", "ut") and rng.chance(1, 2):
                # the same instant twice in two spellings, and a neighbour whose verbatim text sorts the other way
                a = es[0]
                kind = ty[1][0]
                sps = [sp for (t, f, sps_) in (gpool if kind == "gt" else upool) if (t, f) == (a["t"], a["frac"]) for sp in sps_ if sp["tz"] in (None, tz)]
                if sps and not canonical:
                    es[1] = leaf(kind, a["t"], a["frac"], rng.choice(sps))
            rng.shuffle(es)
            return es
        if k == "choice":
            i = rng.below(len(ty[1]))
            return (i, value(ty[1][i][1], tz, canonical))
        if k == "expl":
            return value(ty[2], tz, canonical)

    per = 50 if quick else 400
    for tn in ("SG", "LG", "LU", "QG", "CG", "EG", "NS"):
        for _ in range(per):
            tz = rng.choice(TIME_TZS)
            cases.append((tn, value(TYPES[tn], tz, canonical=rng.chance(1, 10)), tz))
    return cases


def time_layer(run, rng, tier, model):
    m = hand_module("TTIME", TIME_MODULE, TIME_TYPES)
    build_modules([m], tag="c06time", opts=("-fcompound-names",), moddrv_extra=INC)
    if not m.get("exe"):
        run.violation("build:module", {"what": "the time module is rejected or its code does not compile", "module": m["text"],
                                       "asn1c_out": m.get("asn1c_out", "")[-1200:], "build_log": m.get("build_log", "")[-1200:]}, no_input=True)
        return
    cases = time_cases(rng, tier)
    batches, metas = [], []
    for tz in TIME_TZS:
        lines, meta = ["settz " + tz_string(tz)], [None]
        for tn, v, ctz in cases:
            if ctz != tz:
                continue
            lines.append("canon %s ber %s" % (tn, enc_der(TYPES[tn], v, "input").hex()))
            meta.append((tn, v, "ber"))
            if tn in ("G", "U", "SG", "LG", "CG") and rng.chance(1, 4):
                lines.append("canon %s xer %s" % (tn, enc_xer(TYPES[tn], v, "input", tn).hex()))
                meta.append((tn, v, "xer"))
        # compare_struct: two spellings of one value are equal, different values in the order of (instant, fraction)
        for tn in ("G", "U"):
            pool = [v for t_, v, ctz in cases if ctz == tz and t_ == tn]
            byval = {}
            for lf in pool:
                byval.setdefault((lf["t"], lf["frac"]), []).append(lf)
            pairs = []
            for key in sorted(byval):
                lfs = byval[key]
                for _ in range(min(4 if tier == "quick" else 12, len(lfs) - 1)):
                    pairs.append((rng.choice(lfs), rng.choice(lfs)))
            for _ in range(60 if tier == "quick" else 600):
                if pool:
                    pairs.append((rng.choice(pool), rng.choice(pool)))
            for a, b in pairs:
                lines.append("cmp %s ber %s ber %s" % (tn, enc_der(TYPES[tn], a, "input").hex(), enc_der(TYPES[tn], b, "input").hex()))
                meta.append(("cmp", tn, a, b))
        batches.append(lines)
        metas.append(meta)
    outs = par_lines(m["exe"], batches, env=SAN_ENV)
    mlines, mexp = [], []
    nform = set()
    for tz, lines, meta, (rc, out, err) in zip(TIME_TZS, batches, metas, outs):
        if rc != 0 or len(out) != len(lines):
            bad = lines[len(out)] if len(out) < len(lines) else None
            run.violation("crash:C06-time", {"what": "moddrv died (rc=%s): sanitizer report, abort or signal" % rc, "module": m["text"], "command_line": bad,
                                             "TZ": tz_string(tz), "stderr_tail": err[-2500:]})
            out = out + ["CRASH"] * (len(lines) - len(out))
        for l, me, o in zip(lines, meta, out):
            if me is None:
                continue
            if me[0] == "cmp":
                _c, tn, a, b = me
                run.case("TZ=%s %s" % (tz_string(tz), l))
                want = value_order(a, b)
                run.count("time_compare_%s_%s" % (tn, "equal" if want == 0 else "order"))
                if tn == "G" and a["t"] == b["t"] and not (unreadable(a) or unreadable(b)):
                    # faithfulness: the fraction branch of GeneralizedTime_compare against the extracted frac_cmp_c
                    mlines.append("gtfraccmp %d %d %d %d" % (c_fraction(a["text"]) + c_fraction(b["text"])))
                    mexp.append(("cmp", o.strip(), l, tz))
                if o.strip() == str(want):
                    continue
                if unreadable(a) or unreadable(b):
                    # the reader answers the error value: the comparison falls back to "invalid sorts first" / the stored octets
                    run.known_finding("C06-gt-fraction-of-hour-minute" if not (a["t"] == -1 or b["t"] == -1) else "C17-time-minus-one", "TZ=%s %s" % (tz_string(tz), l))
                    continue
                # (C06-gt-compare-fraction-digits is fixed, C06-fix-9: unequal digit counts are no excuse any more)
                run.violation("oracle:compare(%s)" % ("equal" if want == 0 else "order"),
                              {"module": m["text"], "type": tn, "TZ": tz_string(tz), "command_line": l, "c": o, "expected": str(want), "a": {k: a[k] for k in ("t", "frac", "text", "form")},
                               "b": {k: b[k] for k in ("t", "frac", "text", "form")}, "tree_arithmetic_replayed": str(tree_compare(a, b)),
                               "what": "compare_struct of two time values does not follow (instant, fraction): equal values in different spellings must compare equal, different values in their order"})
                continue
            tn, v, insyn = me
            ls = leaves(TYPES[tn], v)
            run.case("TZ=%s %s" % (tz_string(tz), l))
            run.count("time_%s_%s" % (tn, insyn))
            for lf in ls:
                run.count("timeform_" + lf["kind"] + "_" + lf["form"].replace("/", "_"))
                nform.add((lf["kind"], lf["form"]))
            base = {"module": m["text"], "type": tn, "TZ": tz_string(tz), "command_line": l, "c": o, "replay_note": "send `settz %s` to moddrv before the command line" % tz_string(tz),
                    "leaves": [{k: lf[k] for k in ("kind", "t", "frac", "text", "form", "canon")} for lf in ls]}
            r = parse_canon(o)
            if r is None:
                if insyn == "xer":
                    run.count("variant_not_decoded")
                    continue
                run.violation("oracle:decode", dict(base, what="a time value in a form of X.680 46/47 is not decoded from BER"), no_input=True)
                continue
            for s in SYNS:
                run.count("cmp_" + s)
                want = enc(s, tn, v, "oracle")
                got = r[s]
                if got == want:
                    continue
                tree = enc(s, tn, v, "tree")
                if got.startswith("!") and s in ("der", "cxer") and any(lf["t"] == -1 for lf in ls):
                    # asn_GT2time_frac / asn_UT2time answer the error value for t = -1
                    run.known_finding("C17-time-minus-one", "TZ=%s %s" % (tz_string(tz), l))
                    continue
                if (got.startswith("!") and tree.startswith("!")) or got == tree:
                    ids = time_findings(tn, v, s)
                    if ids:
                        run.known_finding(ids[0], "TZ=%s %s" % (tz_string(tz), l))
                        continue
                run.violation("oracle:canonical(%s)" % s, dict(base, what="a time value stored in a non-canonical spelling is not encoded as X.690 11.7 / 11.8 prescribe for the instant "
                                                                             "(python oracle), and the output is not what the recorded findings of the unchanged tree explain",
                                                             syntax=s, expected=want, expected_of_unchanged_tree=tree, got=got))
            # faithfulness: GeneralizedTime_encode_der against the extracted canonicaliser, leaf by leaf on the top-level type
            if tn == "G" and insyn == "ber":
                mlines.append("gtcanon %s %d" % (ls[0]["text"].encode().hex(), tz))
                mexp.append((r["der"], base, ls[0]))
            if tn == "U" and insyn == "ber":
                mlines.append("utcanon %s %d" % (ls[0]["text"].encode().hex(), tz))
                mexp.append((None, base, ls[0]))
                mlines.append("utder %s %d" % (ls[0]["text"].encode().hex(), tz))
                mexp.append(("utder", r["der"], base, ls[0]))
    rcm, mo, me_ = run_lines(model, mlines, timeout=600)
    if rcm != 0 or len(mo) != len(mlines):
        run.violation("model:driver", {"what": "model driver failed (time layer)", "rc": rcm, "stderr": me_[-1500:]}, no_input=True)
        mo = []
    for ml, o, ex in zip(mlines, mo, mexp):
        run.case(ml)
        o = o.strip()
        if ex[0] == "cmp":
            run.count("model_gtfraccmp")
            if o != ex[1]:
                run.violation("correspondence:CanonicalTime.frac_cmp_c", {"what": "GeneralizedTime_compare on two values of one instant differs from the extracted model of its fraction branch",
                                                                          "model": o, "c": ex[1], "model_command": ml, "command_line": ex[2], "TZ": tz_string(ex[3])}, no_input=True)
            continue
        if ex[0] == "utder":
            # faithfulness: UTCTime_encode_der against the extracted ut_der (canonical, or the stored text when asn_UT2time does not read it)
            run.count("model_utder")
            _, cder, base, lf = ex
            if cder != _tl_hex(0x17, o):
                run.violation("correspondence:CanonicalTime.ut_der", dict(base, what="UTCTime_encode_der differs from the extracted model (asn_UT2time, then asn_time2UT with force_gmt; "
                                                                                      "the stored text when the reader answers the error value)",
                                                                          model=o, model_command=ml), no_input=(cder == enc("der", "U", lf, "oracle")))
            continue
        cder, base, lf = ex
        if cder is not None:
            run.count("model_gtcanon")
            want = "!" if o == "FAIL" else _tl_hex(0x18, o)
            if (cder.startswith("!") and want == "!") or cder == want:
                continue
            exp = enc("der", "G", lf, "oracle")
            run.violation("correspondence:CanonicalTime.gt_canon", dict(base, what="GeneralizedTime_encode_der differs from the extracted model of the canonicaliser (asn_GT2time_frac, then asn_time2GT_frac with force_gmt)",
                                                                         model=o, model_command=ml), no_input=(cder == exp))
        else:
            # spec side: the canonicaliser of UTCTime (asn_UT2time + asn_time2UT) against the python oracle
            run.count("spec_utcanon")
            want = "FAIL" if lf["t"] == -1 else lf["canon"].encode().hex()
            if o != want:
                run.violation("model:ut_canon", dict(base, what="extracted ut_canon differs from X.690 11.8 (python)", model=o, expected=want, model_command=ml), no_input=True)
    if len(nform) < 40:
        run.violation("harness:time-forms", {"what": "the spelling generator produced only %d distinct (kind, form) classes" % len(nform)}, no_input=True)


def _tl_hex(tag, content_hex):
    n = len(content_hex) // 2
    assert n < 128
    return "%02x%02x%s" % (tag, n, content_hex)


def main(tier):
    run = Run("C06", tier)
    rng = Rng(run.seed)
    ok, out = coq_build()
    nthm, ndis, axioms, names, plog = obligations("C06") if ok else (0, 0, set(), [], out)
    gate = grep_gate()
    if not ok or ndis != nthm or gate:
        run.violation("proof:Properties_C06", {"what": "Coq development does not build or an obligation is open",
                                               "log_tail": (out if not ok else plog)[-2000:], "grep_gate": gate}, no_input=True)
    try:
        model = model_build()
        only = os.environ.get("C06_ONLY", "").split(",") if os.environ.get("C06_ONLY") else None      # development aid: run some layers only
        mods = model_layer(run, rng, tier, model) if not only or "model" in only else []
        if not only or "long" in only:
            long_layer(run, rng, tier, model)
            frag_spec_layer(run, rng, tier, model)
        if not only or "hand" in only:
            hand_layer(run, rng, tier, model)
        if not only or "time" in only:
            time_layer(run, rng, tier, model)
    except BuildError as e:
        run.violation("build", {"what": str(e)[-2500:]}, no_input=True)
        return run.finish("proof", (nthm, ndis))
    tb = ["Coq 8.16.1 kernel; vm_compute for refuted witnesses and Examples", "axioms under Print Assumptions: " + (", ".join(sorted(axioms)) or "none (Closed under the global context)"),
          "extraction: ExtrOcamlBasic only; OCaml 4.13.1", "lib/modgen.py (generator, effective tags), lib/c06_util.py (BER writer, permutations, XER variants, hand-written modules)",
          "harness/moddrv.c + harness/moddrv_c06.inc (in-memory mutator walks the structure through the descriptor tables); lib/modbuild.py; gcc + ASan/UBSan",
          "qsort is modelled as insertion sort: the theorems show the result does not depend on which sorting algorithm is used only where the order is antisymmetric on the keys"]
    prima_layer.run_c06(run, rng, tier)
    # violations with a failing input first (vlib prints one line per kind among the first 20)
    run.violations.sort(key=lambda v: (bool(v.get("no_failing_input_found")), v["kind"].startswith("correspondence")))
    if os.environ.get("C06_DEBUG"):
        import collections
        cnt = collections.Counter((v["kind"], v.get("asn1c_options"), v.get("kind_of_group", v.get("type"))) for v in run.violations)
        for k, n in sorted(cnt.items(), key=repr):
            ex = [v for v in run.violations if (v["kind"], v.get("asn1c_options"), v.get("kind_of_group", v.get("type"))) == k][0]
            log("DBG %d x %s | %s | %s" % (n, k, ex.get("command_line", "")[:160], ex.get("c", "")[:200]))
    return run.finish("proof", (nthm, ndis), trusted_base=tb,
                      checker_cmd="make -C /verif all && coqc -Q coq A1 coq/Props/Properties_C06.v",
                      extra_cov={"theorems": names, "modules": len(mods),
                                 "rule": "one case = (module, type, one representation of a value); compared: the four canonical encodings against those of the reference representation, and DER/UPER/OER against the extracted model on that representation",
                                 "traces_validated_against_impl": run.cov["evaluations"]},
                      assumptions=["DEFAULT, BIT STRING, wide INTEGER_t and CANONICAL-XER are outside the modelled algebra: tie only (oracle on the C alone)",
                                   "acceptance of the non-canonical input forms is C03's statement; a variant the decoder refuses is counted, not judged",
                                   "the model of the encoders is hand-written; tied by differential run on generated cases only"])


if __name__ == "__main__":
    sys.exit(main(sys.argv[1] if len(sys.argv) > 1 else "quick"))
