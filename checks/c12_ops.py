"""C12, round 4: two case families of checks/c12.py.

 (k) constraint operators: every operator of asn1c's constraint grammar (asn1p_y.y: ElementSetSpecs, ALL EXCEPT, unions,
     intersections, EXCEPT, parenthesised element sets, SIZE / FROM / WITH COMPONENT around a Constraint, `...` with and without
     additions, serial constraints; leaves: values, ranges, MIN/MAX, contained subtypes with and without INCLUDES, cstrings,
     PATTERN) in random nestings, plus directed text for WITH COMPONENTS, CONTAINING, CONSTRAINED BY, table constraints.
     Oracle (on the C alone): `asn1c -E` iterated FOUR times (t1..t4): every text accepted, t2 == t1, t3 == t2, t4 == t3, and the
     sizes must not grow (growth is a violation of its own kind even where every text is accepted).  Model (coq/Fix/ConstrOps.v):
     the printed line of every type == model print(model parse(source tokens)).
 (l) module identity: 2-3 editions of one module name told apart by their OBJECT IDENTIFIER, IMPORTS with the OID of each
     edition, without OID, with a stale OID, with the right OID under a wrong name, from two editions at once, `Module.value`
     references, an edition without OID; every order of the file list: exit status, diagnostics class, printed text and
     constraints per module, per-type files must not depend on the order.  Model (coq/Fix/ModuleLookup.v): the edition the C
     resolves the import through == lookup_full for that order."""
import os, re, itertools, shutil, subprocess

# ------------------------------------------------------------------------------------------------ helpers
def run_cmd(args, cwd, env=None, timeout=120):
    try:
        p = subprocess.run(args, cwd=cwd, env=env, stdout=subprocess.PIPE, stderr=subprocess.PIPE, timeout=timeout)
        return p.returncode, p.stdout, p.stderr.decode("latin1")[-1500:]
    except subprocess.TimeoutExpired:
        return 999, b"", "timeout"


def read_tree(d):
    out = {}
    for root, _, files in os.walk(d):
        for f in files:
            p = os.path.join(root, f)
            if not os.path.islink(p):
                out[os.path.relpath(p, d)] = open(p, "rb").read()
    return out


def per_type(tree):
    return {k: v for k, v in tree.items() if b"From ASN.1 module" in v[:400]}


def gen_code(asn1c, skel, cwd, files, outdir="out"):
    od = os.path.join(cwd, outdir)
    shutil.rmtree(od, ignore_errors=True)
    os.makedirs(od)
    rc, so, se = run_cmd([asn1c, "-S", skel, "-pdu=all", "-fcompound-names", "-D", outdir] + list(files), cwd)
    return rc, (per_type(read_tree(od)) if rc == 0 else {}), se


# ------------------------------------------------------------------------------------------------ (k) constraint operators
# node kinds of libasn1parser/asn1p_constr.h and the marker by which a printed text shows that the kind was reached
ACT_KINDS = [
    ("ACT_EL_TYPE", "modelled (leaf)"), ("ACT_EL_VALUE", "modelled (leaf)"), ("ACT_EL_RANGE", "modelled (leaf)"),
    ("ACT_EL_LLRANGE", "unreachable: asn1p_l.l never returns '<'"), ("ACT_EL_RLRANGE", "unreachable: asn1p_l.l never returns '<'"),
    ("ACT_EL_ULRANGE", "unreachable: asn1p_l.l never returns '<'"),
    ("ACT_EL_EXT", "modelled"), ("ACT_CT_SIZE", "modelled"), ("ACT_CT_FROM", "modelled"), ("ACT_CT_WCOMP", "modelled"),
    ("ACT_CT_WCOMPS", "oracle only (directed text)"), ("ACT_CT_CTDBY", "oracle only (directed text)"),
    ("ACT_CT_CTNG", "oracle only (directed text)"), ("ACT_CT_PATTERN", "modelled (leaf)"),
    ("ACT_CA_SET", "modelled"), ("ACT_CA_CRC", "oracle only (directed text)"), ("ACT_CA_CSV", "modelled"),
    ("ACT_CA_UNI", "modelled"), ("ACT_CA_INT", "modelled"), ("ACT_CA_EXC", "modelled"), ("ACT_CA_AEX", "modelled"),
]
NOT_IN_GRAMMAR = ["exception `!` inside a constraint (syntax error)", "ENCODED BY (token only, no rule)", "SETTINGS (no token)",
                  "`<` in a value range (no lexeme)", "`a EXCEPT b EXCEPT c` (non-associative, syntax error)"]

PRE = ["SIZE", "FROM", "WITH COMPONENT"]


class OpsGen:
    """random trees over the source grammar of asn1p_y.y; a tree is rendered to (source words, model tokens)"""

    def __init__(self, rng):
        self.rng = rng

    def atom(self):
        r = self.rng
        k = r.range(0, 13)
        a, b = r.range(0, 40), r.range(41, 99)
        if k == 0: return ("%d" % a, "%d" % a, "ACT_EL_VALUE")
        if k == 1: return ("-%d" % b, "-%d" % b, "ACT_EL_VALUE")
        if k == 2: return ("%d..%d" % (a, b), "%d..%d" % (a, b), "ACT_EL_RANGE")
        if k == 3: return ("MIN..%d" % a, "MIN..%d" % a, "ACT_EL_RANGE")
        if k == 4: return ("%d..MAX" % a, "%d..MAX" % a, "ACT_EL_RANGE")
        if k == 5: return ("MIN .. MAX", "MIN..MAX", "ACT_EL_RANGE")
        if k == 6: return ("Base", " Base", "ACT_EL_TYPE")
        if k == 7: return ("INCLUDES Base", " Base", "ACT_EL_TYPE")
        if k == 8: return ('"a%d"' % a, '"a%d"' % a, "ACT_EL_VALUE")
        if k == 9: return ('"a".."f"', '"a".."f"', "ACT_EL_RANGE")
        if k == 10: return ('PATTERN "x%d"' % a, 'PATTERN "x%d"' % a, "ACT_CT_PATTERN")
        if k == 11: return ("lim", "lim", "ACT_EL_VALUE")
        if k == 12: return ("'%02X'H" % a, "'%02X'H" % a, "ACT_EL_VALUE")
        return ("%d..lim" % a, "%d..lim" % a, "ACT_EL_RANGE")

    # each function returns a tree; trees: ('atom', src, printed, kind) ('par', ess) ('pre', kw, spec) ('aex', el) ('exc', a, b)
    # ('uni', [..]) ('int', [..]) ('ext',) ('csv', [..])
    def elements(self, d):
        r = self.rng
        k = r.range(0, 9)
        if d <= 0 or k < 4:
            return ("atom",) + self.atom()
        if k < 7:
            e = self.ess(d - 1)
            while e[0] == "par":          # `((x))` is the recorded C12-paren-collapse: witnesses of it live in section 3
                e = e[1]
            return ("par", e)
        return ("pre", r.choice(PRE), self.spec(d - 1))

    def ie(self, d):
        a = self.elements(d)
        if self.rng.range(0, 4) == 0:
            return ("exc", a, self.elements(d))
        return a

    def inters(self, d):
        n = self.rng.choice([1, 1, 1, 2, 2, 3])
        l = [self.ie(d) for _ in range(n)]
        return l[0] if n == 1 else ("int", l)

    def unions(self, d):
        n = self.rng.choice([1, 1, 2, 2, 3, 4])
        l = [self.inters(d) for _ in range(n)]
        return l[0] if n == 1 else ("uni", l)

    def ess(self, d):
        if self.rng.range(0, 5) == 0:
            return ("aex", self.elements(d))
        return self.unions(d)

    def spec(self, d):
        k = self.rng.range(0, 11)
        if k == 0:
            return ("ext",)
        s = self.ess(d)
        if k == 1:
            return ("csv", [s, ("ext",)])
        if k == 2:
            return ("csv", [s, ("ext",), self.ess(d)])
        return s

    def many(self, d):
        n = self.rng.choice([1, 1, 1, 2, 3])
        out = []
        for _ in range(n):
            s = self.spec(d)
            out.append(s)
        return out


def ops_render(tree_list, rng):
    """-> (source text of the serial constraints, model tokens, list of printed atom texts, set of kinds)"""
    src, toks, atoms, kinds = [], [], [], set()

    def w(s, t):
        src.append(s)
        if t:
            toks.append(t)

    def go(t):
        k = t[0]
        if k == "atom":
            atoms.append(t[2])
            kinds.add(t[3])
            w(t[1], "A%d" % (len(atoms) - 1))
        elif k == "ext":
            kinds.add("ACT_EL_EXT")
            w("...", "DOTS")
        elif k == "par":
            kinds.add("ACT_CA_SET")
            w("(", "L"); go(t[1]); w(")", "R")
        elif k == "pre":
            kinds.add({"SIZE": "ACT_CT_SIZE", "FROM": "ACT_CT_FROM", "WITH COMPONENT": "ACT_CT_WCOMP"}[t[1]])
            w(t[1], "P%d" % PRE.index(t[1]))
            w("(", "L"); go(t[2]); w(")", "R")
        elif k == "aex":
            kinds.add("ACT_CA_AEX")
            w("ALL", "ALL"); w("EXCEPT", "EXC"); go(t[1])
        elif k == "exc":
            kinds.add("ACT_CA_EXC")
            go(t[1]); w("EXCEPT", "EXC"); go(t[2])
        elif k in ("uni", "int", "csv"):
            kinds.add({"uni": "ACT_CA_UNI", "int": "ACT_CA_INT", "csv": "ACT_CA_CSV"}[k])
            for i, e in enumerate(t[1]):
                if i:
                    if k == "uni": w(rng.choice(["|", "|", "UNION"]), "BAR")
                    elif k == "int": w(rng.choice(["^", "^", "INTERSECTION"]), "CAR")
                    else: w(",", "COM")
                go(e)
    for s in tree_list:
        kinds.add("ACT_CA_SET")
        w("(", "L"); go(s); w(")", "R")
    text = ""
    for s in src:
        text += s + rng.choice([" ", " ", "  ", "\n   ", " -- c --\n ", " /* c */ "])
    return text.strip(), toks, atoms, kinds


DIRECTED_TREES = None


def directed_trees():
    """every operator in every operand position of every other operator once, the same in every run"""
    A = lambda s, p=None, k="ACT_EL_VALUE": ("atom", s, p or s, k)
    one, rg, ty = A("1"), A("2..9", None, "ACT_EL_RANGE"), A("Base", " Base", "ACT_EL_TYPE")
    inc = A("INCLUDES Base", " Base", "ACT_EL_TYPE")
    pat, st = A('PATTERN "ab"', None, "ACT_CT_PATTERN"), A('" "')
    par = lambda x: ("par", x)
    out = [
        [("aex", one)], [("aex", par(("uni", [A("13"), A("60..63", None, "ACT_EL_RANGE")])))],
        [("pre", "FROM", ("aex", st))], [("pre", "FROM", ("aex", st)), ("pre", "SIZE", A("1..32", None, "ACT_EL_RANGE"))],
        [("exc", par(rg), par(("uni", [A("2"), A("4")])))], [("exc", rg, A("5"))],
        [("aex", par(("aex", one)))], [("aex", par(("exc", rg, one)))], [("csv", [("aex", one), ("ext",)])],
        [("csv", [("aex", par(rg)), ("ext",), ("aex", one)])], [("aex", ("pre", "SIZE", one))], [("aex", ty)], [("aex", inc)],
        [("uni", [one, ("int", [rg, ("exc", ty, one)]), pat])], [("int", [("exc", one, rg), ("exc", par(one), par(rg))])],
        [("uni", [par(("aex", one)), par(("aex", rg))])], [("pre", "WITH COMPONENT", ("aex", one))],
        [("pre", "WITH COMPONENT", ("pre", "SIZE", ("csv", [rg, ("ext",)])))], [("ext",)], [("csv", [rg, ("ext",)])],
        [("csv", [rg, ("ext",), A("20..30", None, "ACT_EL_RANGE")])], [("csv", [rg, ("ext",)]), one],
        [rg, ("csv", [one, ("ext",)]), ("aex", one)], [par(rg)], [par(("aex", one)), par(one)],
        [("pre", "SIZE", par(one))], [("pre", "FROM", par(("uni", [st, A('"a".."f"', None, "ACT_EL_RANGE")])))],
        [("exc", ("pre", "FROM", st), ("pre", "FROM", A('"c"')))], [("int", [("pre", "SIZE", rg), ("pre", "FROM", st)])],
        [("uni", [inc, ty, one])], [("exc", par(("int", [rg, rg])), par(("uni", [one, par(("exc", one, one))])))],
    ]
    return out


def ops_module(name, rng, n, depth, directed=False):
    g = OpsGen(rng)
    trees = directed_trees() if directed else [g.many(depth) for _ in range(n)]
    lines = ["%s DEFINITIONS ::= BEGIN" % name, "Base ::= INTEGER (0..100)", "lim INTEGER ::= 7"]
    types = []
    kinds = set()
    for i, t in enumerate(trees):
        text, toks, atoms, ks = ops_render(t, rng)
        kinds |= ks
        tn = "T%d" % i
        lines.append("%s ::= INTEGER %s" % (tn, text))
        types.append({"name": tn, "toks": toks, "atoms": atoms, "src": text})
    lines.append("END")
    return {"name": name, "text": "\n".join(lines) + "\n", "types": types, "kinds": kinds, "family": "ops-directed" if directed else "ops-random"}


def ops_text_modules(rng):
    """directed TEXT for the operators outside the model: they are semantically valid, so the same-code clause applies too"""
    a, b, c = rng.range(1, 9), rng.range(10, 40), rng.range(41, 90)
    m1 = """OpsText DEFINITIONS AUTOMATIC TAGS ::= BEGIN
Base ::= INTEGER (0..%(c)d)
NotZero ::= INTEGER (ALL EXCEPT 0)
NoRes ::= INTEGER (ALL EXCEPT (%(a)d | %(b)d..%(c)d))
Word ::= IA5String (FROM (ALL EXCEPT " ")) (SIZE (1..%(b)d))
Odd ::= INTEGER ((1..9) EXCEPT (2 | 4 | 6 | 8))
Exc ::= INTEGER (1..%(b)d EXCEPT %(a)d)
Mix ::= INTEGER (1 | 2 ^ 3 EXCEPT 4 | 5)
Kw ::= INTEGER (1 UNION 2 INTERSECTION 3)
Inc ::= INTEGER (INCLUDES Base)
Cst ::= INTEGER (Base | %(c)d0)
Ex1 ::= INTEGER (1..%(b)d, ...)
Ex2 ::= INTEGER (1..%(a)d, ..., %(b)d..%(c)d)
Ex3 ::= INTEGER (ALL EXCEPT %(a)d, ...)
Rng ::= INTEGER (1..%(a)d | MIN..0 | %(c)d..MAX)
Sz ::= OCTET STRING (SIZE(1..%(a)d) ^ SIZE(2..%(b)d))
Al ::= IA5String (SIZE(1..4) ^ FROM("a".."z") | SIZE(%(a)d))
Al2 ::= IA5String (FROM ("a" | "b") EXCEPT FROM("c"))
Pat ::= IA5String (PATTERN "a%(a)d")
Lst ::= SEQUENCE OF INTEGER
Wc ::= Lst (WITH COMPONENT (1..%(a)d))
Wc2 ::= Lst (WITH COMPONENT (ALL EXCEPT %(a)d))
Rec ::= SEQUENCE { a INTEGER, b BOOLEAN OPTIONAL, c INTEGER OPTIONAL }
Wcs ::= Rec (WITH COMPONENTS { a (1..%(a)d), b PRESENT, c ABSENT })
Wcp ::= Rec (WITH COMPONENTS { ..., a (ALL EXCEPT %(a)d) , b OPTIONAL})
Cnt ::= OCTET STRING (CONTAINING Rec)
Ctd ::= OCTET STRING (CONSTRAINED BY { -- comment -- Rec })
Ser ::= INTEGER (1..%(c)d)(2..%(b)d)
Par ::= INTEGER ((1..%(a)d) | (%(b)d..%(c)d))
Aex2 ::= INTEGER (ALL EXCEPT (ALL EXCEPT %(a)d))
Ser2 ::= INTEGER (1..%(c)d, ...)(2..%(b)d)
Fr ::= SEQUENCE { seq NotZero, code NoRes DEFAULT 1, tag Word OPTIONAL, ... }
END
""" % {"a": a, "b": b, "c": c}
    m2 = """OpsClass DEFINITIONS AUTOMATIC TAGS ::= BEGIN
FUN ::= CLASS { &id INTEGER UNIQUE, &Type } WITH SYNTAX { &Type IDENTIFIED BY &id }
f1 FUN ::= { INTEGER IDENTIFIED BY 1 }
f2 FUN ::= { BOOLEAN IDENTIFIED BY %(a)d0 }
Funs FUN ::= { f1 | f2 }
Msg ::= SEQUENCE { id FUN.&id ({Funs}), val FUN.&Type ({Funs}{@id}) }
Msg2 ::= SEQUENCE { id FUN.&id ({Funs}), val SEQUENCE OF FUN.&Type ({Funs}{@id}) }
END
""" % {"a": a}
    mk = lambda n, t, ks: {"name": n, "text": t, "types": [], "kinds": set(ks), "family": "ops-text"}
    return [mk("OpsText", m1, ["ACT_CT_WCOMPS", "ACT_CT_CTDBY", "ACT_CT_CTNG", "ACT_CT_WCOMP", "ACT_CA_AEX", "ACT_CA_EXC", "ACT_CT_PATTERN"]),
            mk("OpsClass", m2, ["ACT_CA_CRC"])]


KIND_MARKERS = {"ACT_CT_WCOMPS": "WITH COMPONENTS {", "ACT_CT_CTDBY": "CONSTRAINED BY", "ACT_CT_CTNG": "CONTAINING", "ACT_CA_CRC": "{Funs}{@",
                "ACT_CA_AEX": "ALL EXCEPT", "ACT_CA_EXC": " EXCEPT ", "ACT_CT_WCOMP": "WITH COMPONENT (", "ACT_CT_PATTERN": "PATTERN ",
                "ACT_CA_UNI": " | ", "ACT_CA_INT": " ^ ", "ACT_CA_CSV": ",...", "ACT_EL_EXT": "...", "ACT_CT_SIZE": "SIZE(", "ACT_CT_FROM": "FROM("}

NROUNDS = 4


def case_ops(ctx, idx, m, want_code):
    """t1 = -E source, t(i+1) = -E t(i), four rounds; code from the source and from t1 when asked for"""
    asn1c, skel, root = ctx
    d = os.path.join(root, "o%05d" % idx)
    os.makedirs(os.path.join(d, "in"), exist_ok=True)
    res = {"rounds": []}
    cur = m["text"].encode("latin1")
    for i in range(NROUNDS):
        f = "in/r%d.asn1" % i
        open(os.path.join(d, f), "wb").write(cur)
        rc, so, se = run_cmd([asn1c, "-E", f], d)
        res["rounds"].append((rc, so, se))
        if rc != 0:
            break
        cur = so
    if want_code and res["rounds"][0][0] == 0:
        for tag, txt in (("A", m["text"].encode("latin1")), ("B", res["rounds"][0][1])):
            P = os.path.join(d, tag, "in")
            os.makedirs(P, exist_ok=True)
            open(os.path.join(P, "m.asn1"), "wb").write(txt)
            rc, tree, se = gen_code(asn1c, skel, os.path.join(d, tag), ["in/m.asn1"])
            res["gen" + tag] = (rc, tree, se)
    shutil.rmtree(d, ignore_errors=True)
    return res


def ops_expected_lines(m, model_out):
    """model output (one hex string per type: print(parse(tokens)) with #k# for atom k) -> expected `-E` line per type"""
    exp = {}
    for t, mo in zip(m["types"], model_out):
        if not mo.startswith("OK "):
            exp[t["name"]] = (None, mo)
            continue
        _, wf, hx = mo.split(" ")
        s = bytes.fromhex(hx).decode("latin1") if hx != "-" else ""
        s = re.sub(r"#(\d+)#", lambda mm: t["atoms"][int(mm.group(1))], s)
        exp[t["name"]] = ("%s ::= INTEGER %s" % (t["name"], s), wf)
    return exp


def eval_ops(run, m, r, model_out):
    rep = {"module": m["name"], "family": m["family"], "t0": m["text"][:3000]}
    run.case("ops:%s" % m["name"])
    run.count("ops_modules:" + m["family"])
    rounds = r["rounds"]
    rc0, t1, se0 = rounds[0]
    if rc0 != 0:
        run.violation("oracle:generated-module-rejected", dict(rep, what="asn1c -E rejects a generated constraint-operator module", rc=rc0, stderr=se0))
        return
    txt1 = t1.decode("latin1")
    for k in m["kinds"]:
        mk = KIND_MARKERS.get(k)
        if mk is None or mk in txt1:
            run.count("act_kind_reached:" + k)
        else:
            run.violation("harness:kind-marker", dict(rep, what="the printed text does not show the node kind the case was generated for", kind=k), no_input=True)
    # model vs C, line by line
    if model_out is not None:
        exp = ops_expected_lines(m, model_out)
        got = {}
        for ln in txt1.split("\n"):
            mm = re.match(r"^(T\d+) ::= ", ln)
            if mm:
                got[mm.group(1)] = ln
        for t in m["types"]:
            want, wf = exp[t["name"]]
            run.count("ops_model_cases")
            if want is None:
                run.violation("correspondence:ConstrOps.parse", dict(rep, what="the model parser refuses tokens asn1c accepts", type=t["name"], src=t["src"], model=wf))
            elif want != got.get(t["name"]):
                run.violation("correspondence:ConstrOps.print", dict(rep, what="model print(parse(tokens)) and asn1c -E disagree", type=t["name"], src=t["src"],
                                                                   model=want, c=got.get(t["name"])))
            elif wf != "wf=true":
                run.violation("model:wf-classifier", dict(rep, what="generated constraint is outside the well-formed trees of the theorem", type=t["name"], src=t["src"]), no_input=True)
    # the oracle: iterate, compare bytes and sizes
    sizes = [len(x[1]) for x in rounds if x[0] == 0]
    bad = None
    for i in range(1, NROUNDS):
        if len(rounds) <= i or rounds[i][0] != 0:
            bad = ("oracle:fixpoint", "round %d: the printed text of round %d is not accepted" % (i + 1, i), rounds[min(i, len(rounds) - 1)][2])
            break
        if rounds[i][1] != rounds[i - 1][1]:
            grow = len(rounds[i][1]) > len(rounds[i - 1][1])
            bad = ("oracle:fixpoint-growth" if grow else "oracle:fixpoint",
                   "print(parse(t%d)) != t%d%s" % (i, i, " and the text grows with every round" if grow else ""), "")
            break
    if bad is None and any(sizes[i] > sizes[i - 1] for i in range(1, len(sizes))):
        bad = ("oracle:fixpoint-growth", "sizes grow", "")
    if bad:
        i = min(len(rounds) - 1, NROUNDS - 1)
        a = rounds[max(0, i - 1)][1].decode("latin1").split("\n")
        b = rounds[i][1].decode("latin1").split("\n")
        fd = next(({"line": j + 1, "a": x[:200], "b": y[:200]} for j, (x, y) in enumerate(zip(a, b)) if x != y), None)
        run.violation(bad[0], dict(rep, what=bad[1], stderr=bad[2], sizes=sizes, first_diff=fd, t1=txt1[:3000]))
    else:
        run.count("ops_fixpoint_x%d_ok" % NROUNDS)
    if "genA" in r:
        rcA, treeA, seA = r["genA"]
        rcB, treeB, seB = r["genB"]
        if rcA != 0:
            run.violation("harness:ops-text-not-compilable", dict(rep, what="directed operator text does not compile", stderr=seA), no_input=True)
        elif rcB != 0:
            run.violation("oracle:same-code", dict(rep, what="printed module does not compile although the original does", stderr=seB, t1=txt1[:3000]))
        else:
            diff = sorted(k for k in set(treeA) | set(treeB) if treeA.get(k) != treeB.get(k))
            if diff:
                run.violation("oracle:same-code", dict(rep, what="generated per-type files differ between the module and its printed form", files=diff[:10], t1=txt1[:3000]))
            else:
                run.count("ops_same_code_ok")
                run.count("ops_per_type_files", len(treeA))


# ------------------------------------------------------------------------------------------------ (l) module identity
MI_SHAPES = ["oid-selects", "oid-selects-3", "no-oid-shared", "no-oid-unique", "stale-oid", "oid-wrong-name", "two-clauses", "dotted-with-clause",
             "dotted-no-clause", "dotted-two-clauses", "oidless-edition", "valref-aid", "same-oid-twice", "unique-with-oids", "stale-oid-unique"]


def oid_txt(arcs, named):
    names = ["iso", "org(3)", "dod(6)", "internet(1)", "private(4)", "enterprise(1)"]
    if named and arcs[:6] == [1, 3, 6, 1, 4, 1]:
        return "{ " + " ".join(names + [str(a) for a in arcs[6:]]) + " }"
    return "{ " + " ".join(str(a) for a in arcs) + " }"


def modid_set(rng, idx, shape=None):
    """-> {"shape", "files": [(fname, text)], "mods": [(name, oid or None, id)], "imps": [(name, oid or None)], "query": (name, oid or None),
           "values": {id: V}, "expect": ...}.  `id` is the position in "mods"; the edition the import resolves through is observed as the
           value V of `lim` that reaches `UserT ::= INTEGER (0..lim)`."""
    shape = shape or rng.choice(MI_SHAPES)
    base = [1, 3, 6, 1, 4, 1, 9363, 40 + idx % 50]
    k = 3 if shape in ("oid-selects-3", "dotted-two-clauses") or (shape not in ("oid-selects",) and rng.range(0, 3) == 0) else 2
    cname = "Common%d" % idx
    vals = rng.shuffle([rng.range(3, 30) * 10 + j for j in range(6)])
    definer = rng.below(k)                 # the edition that defines `lim` itself; the others pass on Lim<e>.lim
    if shape == "unique-with-oids":
        names = ["%sE%d" % (cname, e) for e in range(k)]
    else:
        names = [cname] * k
    oids = [base + [e + 1] for e in range(k)]
    if shape == "oidless-edition":
        oids[rng.below(k)] = None
    if shape == "same-oid-twice":
        oids[1] = oids[0]
    files, mods, values = [], [], {}
    named = rng.range(0, 1) == 0      # one spelling per set: `{ iso org(3) .. }` and `{ 1 3 .. }` are different OIDs for asn1c (observation)
    for e in range(k):
        hdr = "%s %s" % (names[e], oid_txt(oids[e], named) if oids[e] else "")
        if e == definer:
            body = "EXPORTS lim, Ed%dT;\nlim INTEGER ::= %d\nEd%dT ::= INTEGER (0..%d)\n" % (e, vals[e], e, e + 1)
        else:
            body = "EXPORTS lim, Ed%dT;\nIMPORTS lim FROM Lim%dx%d;\nEd%dT ::= INTEGER (0..%d)\n" % (e, idx, e, e, e + 1)
        files.append(("ed%d.asn1" % e, "%s DEFINITIONS AUTOMATIC TAGS ::= BEGIN\n%sEND\n" % (hdr.strip(), body)))
        mods.append((names[e], oids[e], e))
        values[e] = vals[e]
    for e in range(k):
        if e != definer:
            files.append(("lim%d.asn1" % e, "Lim%dx%d DEFINITIONS ::= BEGIN\nEXPORTS ALL;\nlim INTEGER ::= %d\nEND\n" % (idx, e, vals[e])))
    j = rng.below(k)
    uoid = base + [90]
    imps, ref = [], "lim"
    if shape in ("oid-selects", "oid-selects-3", "oidless-edition", "same-oid-twice"):
        imps = [(names[j], oids[j] or base + [77])]
    elif shape == "unique-with-oids":
        imps = [(names[j], oids[j] if rng.range(0, 2) else None)]
    elif shape in ("no-oid-shared", "no-oid-unique"):
        if shape == "no-oid-unique":
            # one module of that name only: drop the other editions from the set
            files = [f for f in files if f[0] in ("ed%d.asn1" % j, "lim%d.asn1" % j)]
            mods = [m for m in mods if m[2] == j]
        imps = [(cname, None)]
    elif shape == "stale-oid":
        imps = [(cname, base + [55])]
    elif shape == "stale-oid-unique":
        # one module of that name, asked for with an OID it does not carry: not found, the name does not help
        files = [f for f in files if f[0] in ("ed%d.asn1" % j, "lim%d.asn1" % j)]
        mods = [m for m in mods if m[2] == j]
        imps = [(cname, base + [55])]
    elif shape == "oid-wrong-name":
        imps = [("Other%d" % idx, oids[j])]
    elif shape == "valref-aid":
        imps = [(cname, "aidref")]
    elif shape == "two-clauses":
        j2 = (j + 1) % k
        imps = [(cname, oids[j]), (cname, oids[j2])]
    elif shape == "dotted-with-clause":
        imps = [(cname, oids[j])]
        ref = cname + ".lim"
    elif shape == "dotted-no-clause":
        imps = []
        ref = cname + ".lim"
    elif shape == "dotted-two-clauses":
        imps = [(cname, oids[j]), (cname, oids[(j + 1) % k])]
        ref = cname + ".lim"
    clauses = []
    for ci, (n, o) in enumerate(imps):
        sym = "lim" if ci == 0 and not ref.startswith(cname + ".") else "Ed%dT" % ([m[2] for m in mods if m[1] == o] or [0])[0]
        if ref.startswith(cname + ".") and ci == 0:
            sym = "Ed%dT" % ([m[2] for m in mods if m[1] == o] or [0])[0]
        aid = "" if o is None else ("commonAid" if o == "aidref" else oid_txt(o, named))
        clauses.append("%s FROM %s %s" % (sym, n, aid))
    utext = "User%d %s DEFINITIONS AUTOMATIC TAGS ::= BEGIN\n" % (idx, oid_txt(uoid, False))
    if clauses:
        utext += "IMPORTS " + "\n        ".join(c.strip() for c in clauses) + ";\n"
    if shape == "valref-aid":
        utext += "commonAid OBJECT IDENTIFIER ::= %s\n" % oid_txt(oids[j], False)
    utext += "UserT ::= INTEGER (0..%s)\nUserS ::= SEQUENCE (SIZE(0..%s)) OF BOOLEAN\nEND\n" % (
        ref if not ref.startswith(cname + ".") else "lim", ref if not ref.startswith(cname + ".") else "lim")
    if ref.startswith(cname + "."):
        # `(0..Module.value)` is accepted as an upper bound (a lower bound of that form is a syntax error in asn1c)
        utext = utext.replace("(0..lim)", "(0..%s)" % ref)
    files.append(("user.asn1", utext))
    # what the model is asked: the name and OID the C hands to asn1f_lookup_module for the reference to `lim`
    if ref.startswith(cname + "."):
        query = (cname, None)
    else:
        query = imps[0] if imps else (cname, None)
    return {"shape": shape, "files": files, "mods": mods, "imps": imps, "query": query, "values": values, "idx": idx, "cname": cname}


def split_modules(text):
    """printed `-E -F` text -> {header line: block}: the blocks come in command-line order, their content must not depend on it"""
    out = {}
    cur, key = [], None
    for ln in text.split("\n"):
        if key is None:
            if ln.strip():
                key = ln.strip()
                cur = [ln]
        else:
            cur.append(ln)
            if ln.strip() == "END":
                out[key] = "\n".join(cur)
                key = None
    if key is not None:
        out[key + " (unterminated)"] = "\n".join(cur)
    return out


def diag_class(se, fnames):
    """diagnostics class: FATAL / WARNING lines without file names, line numbers, sorted"""
    out = []
    for ln in se.split("\n"):
        if ln.startswith("FATAL") or ln.startswith("WARNING") or "parse error" in ln or "Cannot" in ln:
            if "standard modules" in ln:
                continue
            for f in fnames:
                ln = ln.replace(f, "<file>")
            ln = re.sub(r"\bin/", "", ln)
            ln = re.sub(r"line \d+", "line N", ln)
            ln = re.sub(r":\d+", ":N", ln)
            out.append(ln.strip())
    return sorted(set(out))


def case_modid(ctx, idx, ms, max_perms=24):
    asn1c, skel, root = ctx
    d = os.path.join(root, "i%05d" % idx)
    fn = ["in/" + f for f, _ in ms["files"]]
    texts = {"in/" + f: t for f, t in ms["files"]}
    n = len(fn)
    perms = list(itertools.permutations(range(n)))
    if len(perms) > max_perms:
        # every relative order of the editions and the user module, the Lim modules spread deterministically
        keyf = [i for i, f in enumerate(fn) if not f.startswith("in/lim")]
        limf = [i for i, f in enumerate(fn) if f.startswith("in/lim")]
        perms = []
        for pi, p in enumerate(itertools.permutations(keyf)):
            l = list(p)
            for li, x in enumerate(limf):
                l.insert((pi + 2 * li + idx) % (len(l) + 1), x)
            perms.append(tuple(l))
        perms = perms[:max_perms]
    res = {"perms": []}
    for pi, perm in enumerate(perms):
        P = os.path.join(d, "p%d" % pi)
        os.makedirs(os.path.join(P, "in"), exist_ok=True)
        for f, t in texts.items():
            open(os.path.join(P, f), "w").write(t)
        files = [fn[i] for i in perm]
        rcE, so, seE = run_cmd([asn1c, "-E", "-F", "-print-constraints"] + files, P)
        rcG, tree, seG = gen_code(asn1c, skel, P, files)
        txt = so.decode("latin1")
        mm = re.search(r"^UserT ::= INTEGER \(0\.\.(\d+)\)", txt, re.M)
        res["perms"].append({"perm": perm, "files": files, "rcE": rcE, "rcG": rcG, "blocks": split_modules(txt) if rcE == 0 else {},
                             "tree": tree, "diagE": diag_class(seE, [os.path.basename(f) for f in fn]),
                             "diagG": diag_class(seG, [os.path.basename(f) for f in fn]), "lim": int(mm.group(1)) if mm else None,
                             "seE": seE[-600:]})
    shutil.rmtree(d, ignore_errors=True)
    return res


def modid_model_line(ms, perm, variant="C"):
    """c12_lookup C|L NMODS (name oid|- id).. NIMPS (name oid|-).. QNAME QOID|-   (modules in command-line order)"""
    nm = {}
    def nid(s):
        return nm.setdefault(s, len(nm) + 1)
    def ot(o):
        return "-" if o is None else ".".join(str(a) for a in o)
    fn = [f for f, _ in ms["files"]]
    order = []
    for i in perm:
        f = fn[i]
        if f.startswith("ed"):
            e = int(f[2:-5])
            order.extend(m for m in ms["mods"] if m[2] == e)
    w = [variant, str(len(order))]
    for (n, o, e) in order:
        w += [str(nid(n)), ot(o), str(e)]
    imps = [(n, o) for (n, o) in ms["imps"] if o != "aidref"]
    w.append(str(len(imps)))
    for (n, o) in imps:
        w += [str(nid(n)), ot(o)]
    qn, qo = ms["query"]
    w += [str(nid(qn)), ot(qo if qo != "aidref" else None)]
    return "c12_lookup " + " ".join(w)


def eval_modid(run, ms, r, model_out):
    rep = {"shape": ms["shape"], "files": dict(ms["files"])}
    run.case("modid:%d:%s" % (ms["idx"], ms["shape"]))
    run.count("modid_sets:" + ms["shape"])
    P = r["perms"]
    run.count("modid_orders", len(P))
    inv = {v: e for e, v in ms["values"].items()}
    # model vs C: the edition the reference resolves through, per order
    if model_out is not None and ms["shape"] != "valref-aid":
        for p, mo in zip(P, model_out):
            run.count("modid_model_cases")
            if p["rcE"] != 0:
                got = "FAIL"
            elif p["lim"] is None:
                got = "?"
            else:
                got = "FOUND %s" % inv.get(p["lim"], "?")
            # the C's phase 1 refuses some sets before any lookup (same OID twice, same name without OIDs): accepted=false
            want = mo
            if mo.startswith("REFUSED") or mo in ("NOTFOUND", "AMBIG"):
                want = "FAIL"
            if want != got:
                run.violation("correspondence:ModuleLookup.lookup_full", dict(rep, what="the module an import resolves through: model and asn1c disagree",
                              order=p["files"], model=mo, c=got, stderr=p["seE"]))
                break
            run.count("modid_model:" + mo.split(" ")[0])
    # the oracle: nothing may depend on the order
    ref = P[0]
    why = None
    for p in P[1:]:
        if (p["rcE"] == 0) != (ref["rcE"] == 0) or (p["rcG"] == 0) != (ref["rcG"] == 0):
            why = ("exit status", {"a": [ref["rcE"], ref["rcG"]], "b": [p["rcE"], p["rcG"]]})
        elif p["diagE"] != ref["diagE"] or p["diagG"] != ref["diagG"]:
            why = ("diagnostics", {"a": ref["diagE"] + ref["diagG"], "b": p["diagE"] + p["diagG"]})
        elif p["blocks"] != ref["blocks"]:
            k = next(k for k in sorted(set(p["blocks"]) | set(ref["blocks"])) if p["blocks"].get(k) != ref["blocks"].get(k))
            a, b = ref["blocks"].get(k, "").split("\n"), p["blocks"].get(k, "").split("\n")
            fd = next(({"a": x, "b": y} for x, y in zip(a, b) if x != y), {"a": len(a), "b": len(b)})
            why = ("printed module text / constraints of " + k, fd)
        elif p["tree"] != ref["tree"]:
            ks = sorted(k for k in set(p["tree"]) | set(ref["tree"]) if p["tree"].get(k) != ref["tree"].get(k))
            why = ("per-type files", {"files": ks[:8]})
        if why:
            run.violation("oracle:file-order", dict(rep, what="module identity: %s depends on the order of the module files" % why[0],
                          order_a=ref["files"], order_b=p["files"], detail=why[1], stderr_a=ref["seE"], stderr_b=p["seE"]))
            return
    run.count("modid_order_independent")
    run.count("modid_outcome:" + ("ok" if ref["rcE"] == 0 else "refused"))
