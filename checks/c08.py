"""C08 — asn_check_constraints returns 0 exactly for the structures that satisfy the
value / SIZE / permitted-alphabet constraints of the ASN.1 source; on failure -1 with a
bounded, terminated message naming a type; it terminates.
Theorems: coq/Props/Properties_C08.v over coq/Rt/Constraints.v (generated leaf checkers,
walkers, message clamp).  Tie: generated modules (lib/modgen.py, constraints made
non-extensible, unions and EXCEPT added by lib/c08_util.py) plus a hand-made boundary
module: valid values, every single-position violation on each side of each bound, and
several at once, transported as DER; `chk T der <hex> <errbufsize>` of harness/moddrv.c
against the extracted model (faithfulness) and against the Spec (oracle).  A hand-written
module of restricted strings and BIT STRINGs is checked against a Python reading of the
Spec only (the model has no strings)."""
import sys, os, subprocess, time
sys.path.insert(0, os.path.join(os.path.dirname(os.path.abspath(__file__)), "..", "lib"))
from vlib import *
from modcorpus import run_mod
from modbuild import build_modules
from modgen import Gen, model_str, val_str
import c08_util as U
import c08_wide as W
import c08_alpha as A
import c08_prod as P
import c08_open as OP

MODDRV_EXTRA = os.path.join(HARNESS, "moddrv_c08.inc")
BUILTIN_NAMES = ["INTEGER", "OCTET STRING", "BOOLEAN", "NULL", "SEQUENCE", "SEQUENCE OF", "SET OF", "CHOICE", "SET", "REAL",
                 "IA5String", "PrintableString", "NumericString", "VisibleString", "UTF8String", "BIT STRING", "ENUMERATED",
                 "BMPString", "UniversalString", "UTCTime", "GeneralizedTime"]

# compiler flag sets the generated checkers are observed under: (tag, asn1c options, -fwide-types?, share of the cases run)
# (tag, asn1c options, -fwide-types?, which modules, 1/share of the non-valid cases run)
FLAGSETS_QUICK = [
    ("cn", ("-fcompound-names",), False, "all", 1),
    ("wide", ("-fcompound-names", "-fwide-types"), True, "main", 1),
    ("plain", (), False, "lite", 3),
    ("bare", ("-fcompound-names", "-no-gen-PER", "-no-gen-OER"), False, "lite", 3),
    ("widebare", ("-fwide-types", "-no-gen-PER", "-no-gen-OER"), True, "lite", 3),
    ("indirect", ("-fcompound-names", "-findirect-choice"), False, "choice", 1),       # constructed CHOICE alternatives stored by pointer
]
# the flag sets module MA0 (permitted alphabets) is compiled under: with PER (code2value emitted) and without
ALPHA_FLAGSETS = ("cn", "bare", "noper")
FLAGSETS_THOROUGH = [
    ("cn", ("-fcompound-names",), False, "all", 1),
    ("wide", ("-fcompound-names", "-fwide-types"), True, "main", 1),
    ("plain", (), False, "lite", 1),
    ("noper", ("-fcompound-names", "-no-gen-PER"), False, "main", 3),
    ("nooer", ("-fcompound-names", "-no-gen-OER"), False, "main", 3),
    ("widebare", ("-fwide-types", "-no-gen-PER", "-no-gen-OER"), True, "lite", 1),
    ("indirect", ("-fcompound-names", "-findirect-choice"), False, "choice", 1),
    ("indirectwide", ("-fcompound-names", "-findirect-choice", "-fwide-types"), True, "choice", 2),
]


def module_names(m):
    names = set(BUILTIN_NAMES)
    for n, t in m["defs"]:
        names.add(n)
        stack = [t] if t else []
        while stack:
            x = stack.pop()
            for mn, mt, _o in x.get("ms", []):
                names.add(mn)
                stack.append(mt)
            if "el" in x:
                stack.append(x["el"])
    names.update(["a", "b", "c"])
    names.update(m.get("names", []))
    return names


def names_type(msg, names, complete):
    """the message starts with `<name>: ` for a type name of the module, or (clamped) with a prefix of one"""
    for n in names:
        full = n + ": "
        if msg.startswith(full) or (not complete and full.startswith(msg)):
            return True
    return False


def type_cases(t, tn, env, rng, tier):
    """[(label, value)] for one type definition"""
    nvalid = 3 if tier == "quick" else 6
    top = U.base_of(t, env)
    out, seen = [], set()

    def add(label, v):
        s = val_str(v)
        if s not in seen:
            seen.add(s)
            out.append((label, v))

    bases = []
    for _ in range(nvalid):
        v = U.valid_value(top, rng, env)
        add("valid", v)
        bases.append(v)
    cap = 24 if tier == "quick" else 80
    for bi, b in enumerate(bases[:2]):
        muts = U.mutations(top, b, env, rng)
        if len(muts) > cap:
            muts = rng.shuffle(muts)[:cap]
        for path, desc, new in muts:
            add("one:" + desc, U.replace(top, b, env, path, new))
        # several violations at once, at unrelated positions
        for _ in range(3):
            if len(muts) < 2:
                break
            pick = []
            for mu in rng.shuffle(muts):
                if all(U.disjoint(mu[0], q[0]) for q in pick):
                    pick.append(mu)
                if len(pick) == 3:
                    break
            if len(pick) >= 2:
                v = b
                for path, desc, new in pick:
                    v = U.replace(top, v, env, path, new)
                add("several:%d" % len(pick), v)
    return out


def boundary_cases(t, tn, env, rng, tier):
    """[(label, value)] for a type of a systematic boundary module: for every constraint site of the type
    the values at, just inside and just outside every edge, and far ones; everything else valid"""
    top = U.base_of(t, env)
    out, seen = [], set()
    for d, v in [("valid", U.valid_value(top, rng, env))] + U.sites(top, env, rng):
        s = val_str(v)
        if s not in seen:
            seen.add(s)
            out.append(("valid" if d == "valid" else "edge:" + d, v))
    return out


# ---------------------------------------------------------------- the message path
def parse_chkx(line):
    """-> (ret, L, full message, null-call ret, [(size, ret, errlen, strlen, flags, text)]) or None"""
    f = line.split()
    if len(f) < 4 or f[0] not in ("0", "-1") or not f[3].startswith("null:"):
        return None
    try:
        ret, L = f[0], int(f[1])
        full = bytes.fromhex(f[2]).decode("latin1") if f[2] != "-" else ""
        sweep = []
        for x in f[4:]:
            size, r, el, sl, flags, hx = x.split(":")
            sweep.append((int(size), r, int(el), int(sl), flags, bytes.fromhex(hx).decode("latin1") if hx != "-" else ""))
        return ret, L, full, f[3][5:], sweep
    except ValueError:
        return None


def check_messages(run, line, parsed, clamp_need, names, replay):
    """the oracle on the error-message path, for every buffer size of the sweep
    {0,1,2,L-2,L-1,L,L+1,L+2,128,256} (L = length of THIS message): verdict independent of the buffer;
    size 0 / no buffer: nothing touched; else 0 <= *errlen < size, errbuf[*errlen] == 0, strlen == *errlen,
    the text is the prefix of the full message, nothing written after the NUL nor outside the buffer;
    the message names a type.  Returns the (size, L, errlen) triples to compare with the model's clamp."""
    ret, L, full, nullret, sweep = parsed
    problems = []
    if nullret != ret:
        problems.append("verdict without an error buffer (%s) differs from the verdict with one (%s)" % (nullret, ret))
    if ret == "-1" and len(full) != L:
        problems.append("reference call: *errlen %d but strlen %d" % (L, len(full)))
    if ret == "-1" and not names_type(full, names, True):
        problems.append("message does not start with the name of a type of the module")
    want_sizes = set(x for x in [0, 1, 2, L - 2, L - 1, L, L + 1, L + 2, 128, 256] if x >= 0)
    if set(x[0] for x in sweep) != want_sizes:
        problems.append("harness: size sweep %s differs from %s" % (sorted(x[0] for x in sweep), sorted(want_sizes)))
    for size, r, el, sl, flags, text in sweep:
        where = "size %d (L=%d): " % (size, L)
        if r != ret:
            problems.append(where + "return value %s depends on the error buffer size (reference %s)" % (r, ret))
        if "C" not in flags:
            problems.append(where + "bytes before or beyond the buffer were written")
        if size == 0:
            if "Z" not in flags:
                problems.append(where + "*errlen changed although the buffer has no room")
            continue
        if ret == "0":
            if sl != -1 or el != size:
                problems.append(where + "buffer or *errlen touched although the check succeeded (errlen %d, NUL at %d)" % (el, sl))
            continue
        if not (0 <= el < size):
            problems.append(where + "*errlen %d is not inside [0, size)" % el)
        if "N" not in flags:
            problems.append(where + "no NUL at errbuf[*errlen]")
        if sl != el:
            problems.append(where + "strlen(errbuf) %d differs from *errlen %d" % (sl, el))
        if sl >= 0 and text != full[:sl]:
            problems.append(where + "the text is not a prefix of the full message")
        if el != min(L, size - 1):
            problems.append(where + "*errlen %d is not min(L, size-1) = %d" % (el, min(L, size - 1)))
        if "T" not in flags:
            problems.append(where + "bytes after the terminating NUL were written")
        if sl >= 0 and not names_type(text, names, complete=(sl == L)):
            problems.append(where + "message does not start with the name of a type of the module")
        clamp_need.append((size, L, el, line))
    for p in problems[:4]:
        run.violation("oracle:errmsg", dict(replay, what=p, command_line=line, full_message=full, sweep=str(sweep)[:900]))
    run.count("errbuf_sizes_checked", len(sweep))


def check_clamp_model(run, model, clamp_need):
    """faithfulness of the model of _asn_i_ctfailcb: *errlen for every (size, vsnprintf return) pair met"""
    pairs = sorted(set((s, L) for s, L, _e, _l in clamp_need))
    if not pairs:
        return
    rc, co, ce = run_lines(model, ["c08clamp %d %d" % p for p in pairs], timeout=300)
    if rc != 0 or len(co) != len(pairs):
        raise RuntimeError("model driver failed on c08clamp: %s %s" % (rc, ce))
    want = dict(zip(pairs, co))
    bad = 0
    for s, L, el, line in clamp_need:
        w = want[(s, L)]
        if w == "NONE" or int(w.split()[0]) != el:
            bad += 1
            if bad <= 3:
                run.violation("correspondence:Rt.Constraints.ctfail_clamp", {"what": "*errlen %d differs from the model's clamp (%s) for buffer size %d, message length %d" % (el, w, s, L),
                                                                              "command_line": line})
    run.count("clamp_pairs_vs_model", len(pairs))


_model_cache = {}


def model_eval(model, wide, cases, der_check):
    """fills mres / spec / repr / safe (and mder for a share) of every case from the extracted model"""
    w = "1" if wide else "0"
    ml, idx = [], []
    for c in cases:
        key = (w, c["cty"], c["vs"])
        if key in _model_cache:
            continue
        _model_cache[key] = None
        idx.append(key)
        ml += ["c08chk %s %s %s" % (w, c["cty"], c["vs"]), "spec_c08sat %s %s" % (c["cty"], c["vs"]), "c08repr %s %s %s" % (w, c["cty"], c["vs"])]
    ctys = sorted(set(c["cty"] for c in cases if (w, c["cty"]) not in _model_cache))
    ml += ["c08safe %s %s" % (w, t) for t in ctys]
    ders = [c for c in cases if der_check(c) and ("der", c["ts"], c["vs"]) not in _model_cache]
    ml += ["der %s %s" % (c["ts"], c["vs"]) for c in ders]
    if ml:
        rc, mo, me = run_lines(model, ml, timeout=1200)
        if rc != 0 or len(mo) != len(ml):
            raise RuntimeError("model driver failed: %s %s" % (rc, me))
        for i, key in enumerate(idx):
            _model_cache[key] = mo[3 * i:3 * i + 3]
        off = 3 * len(idx)
        for i, t in enumerate(ctys):
            _model_cache[(w, t)] = mo[off + i]
        off += len(ctys)
        for i, c in enumerate(ders):
            _model_cache[("der", c["ts"], c["vs"])] = mo[off + i]
    for c in cases:
        c["mres"], c["spec"], c["repr"] = _model_cache[(w, c["cty"], c["vs"])]
        c["safe"] = _model_cache[(w, c["cty"])]
        c["mder"] = _model_cache.get(("der", c["ts"], c["vs"]))


def module_cases(m, rng, tier):
    env = dict(m["defs"])
    cases = []
    gen = boundary_cases if m.get("boundary") else type_cases
    for tn, t in m["defs"]:
        cty = U.def_cty(tn, env)
        ts = model_str(m["trees"][tn])
        for label, v in gen(t, tn, env, rng, tier):
            v = U.canon_value(m["trees"][tn], v)
            cases.append({"tn": tn, "t": t, "cty": cty, "ts": ts, "v": v, "vs": val_str(v), "label": label})
    return cases


def model_layer(run, rng, tier, model, m, cases, flag, clamp_need):
    """one module compiled under one flag set: C vs model (faithfulness), C vs Spec (the property), message path"""
    tag, opts, wide, _which, share = flag
    if not m.get("exe"):
        run.violation("build:module", {"what": "a valid generated module was rejected or its code does not compile (asn1c %s)" % " ".join(opts), "module": m["text"][:6000],
                                       "asn1c_out": m.get("asn1c_out", "")[-1500:], "build_log": m.get("build_log", "")[-1500:]})
        return
    env = dict(m["defs"])
    names = module_names(m)
    if share > 1:
        cases = [c for i, c in enumerate(cases) if c["label"] == "valid" or (i + run.seed) % share == 0]
    have = set(n for n, _t in m["defs"])
    cases = [dict(c) for c in cases if c["tn"] in have]
    nder = [0]

    def der_check(c):
        if not U.all_int64(c["v"]):
            return False
        nder[0] += 1
        return (not m.get("boundary")) or nder[0] % 8 == 0

    model_eval(model, wide, cases, der_check)
    live = []
    for c in cases:
        c["der"] = U.py_der(m["trees"][c["tn"]], c["v"]).hex()
        if c["mder"] is not None and c["mder"] != c["der"]:
            run.violation("harness:der", {"what": "the Python DER encoder and the model's differ", "type": c["ts"], "value": c["vs"][:300], "python": c["der"][:300], "model": c["mder"][:300]}, no_input=True)
            continue
        if c["mres"].startswith("EXN") or c["spec"].startswith("EXN"):
            run.violation("model:front-end", {"what": "model driver could not evaluate a generated case", "type": c["cty"], "value": c["vs"][:300], "model": [c["mres"], c["spec"], c["repr"]]}, no_input=True)
            continue
        if c["repr"] != "true":
            run.count("skipped_not_representable_in_C_type")
            continue
        live.append(c)
    lines = []
    for c in live:
        lines += ["xcode %s der %s der" % (c["tn"], c["der"]), "chkx %s der %s" % (c["tn"], c["der"])]
    lines += ["chke %s der %s" % (c["tn"], c["der"]) for c in live]          # exact-size buffers last: an overrun aborts the driver
    try:
        out = run_mod(run, m, lines, "C08-chk[%s]" % tag, timeout=600)
    except subprocess.TimeoutExpired:
        run.violation("oracle:termination", {"what": "asn_check_constraints driver run did not finish within 600 s", "module": m["text"][:3000]})
        return
    run.count("flagset_%s_cases" % tag, len(live))
    for i, c in enumerate(live):
        o = out[2 * i:2 * i + 2]
        oe = out[2 * len(live) + i]
        line = lines[2 * i + 1]
        replay = {"module": m["text"] if len(m["text"]) < 5000 else "(module %s, %d bytes; type text below)" % (m["name"], len(m["text"])),
                  "type_text": "%s ::= %s" % (c["tn"], U.ctype_text(c["t"]))[:1500], "asn1c_options": " ".join(opts),
                  "type": c["tn"], "model_type": c["cty"][:1500], "value": c["vs"][:600], "case": c["label"], "der": c["der"][:400]}
        if o[0] != "OK " + c["der"]:
            run.count("skipped_transport_not_identity")      # the decoder/encoder pair does not hold this value (C01/C03's business)
            continue
        run.case(tag + " " + line[:300])
        run.count(c["label"].split(":")[0])
        if c["label"].startswith("one:"):
            run.count("bound_" + c["label"][4:])
        parsed = parse_chkx(o[1])
        if parsed is None:
            run.violation("oracle:chk", dict(replay, what="unexpected driver output", command_line=line, c=o[1][:600]))
            continue
        ret, L, full, _nr, _sw = parsed
        if not oe.startswith("%s %d EXACT" % (ret, L)) and oe != "CRASH":
            run.violation("oracle:chk", dict(replay, what="exact-buffer run disagrees with the guarded run", command_line=line, c=[o[1][:300], oe[:300]]))
        # (i) faithfulness: the model of the generated checker and walkers
        m_ok = c["mres"] == "OK"
        kind_ok = True
        if ret == "-1" and not m_ok:
            kind = c["mres"].split()[1]
            kind_ok = {"constraint": "constraint failed", "toolarge": "value too large", "absent": "absent", "noalt": "no CHOICE element"}.get(kind, "") in full
        spec_ok = c["spec"] == "true"
        viol = U.violated(U.base_of(c["t"], env), c["v"], env, slot=(c["t"]["k"] == "ref" or bool(c["t"].get("via"))))
        if (len(viol) == 0) != spec_ok:
            run.violation("oracle:self", dict(replay, what="the Python reading of the Spec and the Coq Spec disagree (harness defect)", python=str(viol)[:400], coq=c["spec"]), no_input=True)
            continue
        if (ret == "0") != m_ok or not kind_ok:
            bad = (ret == "0") != spec_ok
            run.violation("correspondence:Rt.Constraints.check", dict(replay, what="asn_check_constraints and the model disagree" + (" (and the C contradicts the Spec)" if bad else ""),
                                                                       command_line=line, c=o[1][:300], model=c["mres"], spec=c["spec"], message=full), no_input=not bad)
            continue
        # (ii) the property itself on the C
        if (ret == "0") != spec_ok:
            if c["safe"] == "true":
                run.violation("oracle:theorem-contradicted", dict(replay, what="model = C differs from the Spec inside the region check_exact covers (harness or proof defect)", c=o[1][:300]), no_input=True)
            elif ret == "0" and all(ex for _p, _w, ex in viol):
                for _p, _w, ex in viol:
                    run.known_finding(ex[-1], line)
            elif ret == "-1" and "value too large" in full and U.wide_open_leaf(U.base_of(c["t"], env), c["v"], env):
                run.known_finding("C08-wide-open-range-rejects", line)
            else:
                run.violation("oracle:check_exact", dict(replay, what="asn_check_constraints returned %s for a value that %s the constraints" % (ret, "satisfies" if spec_ok else "violates"),
                                                         command_line=line, c=o[1][:300], violated=str(viol)[:600], message=full))
        # (iii) the message, for every buffer size of the sweep
        check_messages(run, line, parsed, clamp_need, names, replay)
    if live:
        c = live[len(live) // 2]
        run.sample({"flags": " ".join(opts), "type": c["cty"][:200], "value": c["vs"][:80], "case": c["label"], "model": c["mres"], "spec": c["spec"]})


def string_contents(rng, base, size, frm):
    """[(label, content bytes, unused bits)]"""
    out = []
    if base == "BIT STRING":
        ns = set()
        for a, b in size:
            ns.update([a - 1, a, a + 1, b, b + 1] if b is not None else [a - 1, a, a + 9])
        for n in sorted(x for x in ns if x >= 0):
            nb = (n + 7) // 8
            un = (8 * nb - n) if nb else 0
            out.append(("bits:%d" % n, (bytes([0xff] * (nb - 1)) + bytes([(0xff << un) & 0xff])) if nb else b"", un))   # DER: unused bits are zero
        out.append(("bits:empty-octets", b"", 0))
        return out
    if base == "UTF8String":
        allowed = sorted(frm[1]) if frm else [ord("a"), ord("Z"), 0xe9, 0x20ac, 0x1f600]
        other = [ord("A"), 0xe9, 0x20ac] if frm else []
        enc = lambda cps: "".join(chr(c) for c in cps).encode("utf-8")
        lens = set([0, 1, 2, 3, 4, 5])
        for n in sorted(lens):
            out.append(("len:%d" % n, enc([rng.choice(allowed) for _ in range(n)]), 0))
        for bad in other:
            for n in (1, 3):
                for pos in sorted(set([0, n // 2, n - 1])):
                    cps = [rng.choice(allowed) for _ in range(n)]
                    cps[pos] = bad
                    out.append(("badchar:%x@%d/%d" % (bad, pos, n), enc(cps), 0))
        out.append(("broken:ff", b"a\xffb", 0))
        out.append(("broken:truncated", b"ab\xe2\x82", 0))
        out.append(("broken:overlong", b"\xc0\x80", 0))
        return out
    builtin = U.BUILTIN[base]
    allowed = sorted(builtin & frm[1]) if frm else sorted(builtin)
    outside_builtin = [c for c in (0x40, 0x2d, 0x41, 0x7f, 0x80, 0xe1, 0x00, 0x1f, 0x2a) if c not in builtin]
    outside_from = [c for c in sorted(builtin) if frm and c not in frm[1]][:3]
    lens = set([0, 1, 2, 3])
    for a, b in size:
        lens.update([max(a - 1, 0), a, a + 1] + ([b, b + 1] if b is not None else []))
    for n in sorted(lens):
        out.append(("len:%d" % n, bytes(rng.choice(allowed) for _ in range(n)), 0))
    valid_n = [n for n in sorted(lens) if n >= 1 and (not size or U.in_parts(size, n))][:2] or [1]
    for bad in outside_builtin[:4] + outside_from:
        for n in valid_n + [max(valid_n) + (0 if not size else 0)]:
            for pos in sorted(set([0, n // 2, n - 1])):
                bs = bytearray(rng.choice(allowed) for _ in range(n))
                bs[pos] = bad
                out.append(("badchar:%02x@%d/%d" % (bad, pos, n), bytes(bs), 0))
    # several: wrong size and a bad character
    if size and outside_builtin:
        hi = max((b for _, b in size if b is not None), default=None)
        if hi is not None:
            bs = bytearray(rng.choice(allowed) for _ in range(hi + 1))
            bs[0] = outside_builtin[0]
            out.append(("several", bytes(bs), 0))
    return out


def string_cases(rng):
    cases = []
    for tn, base, size, frm in U.STRING_TYPES:
        seen = set()
        for label, content, unused in string_contents(rng, base, size, frm):
            der = U.string_der(base, content, unused).hex()
            if der in seen:
                continue
            seen.add(der)
            bad = U.string_spec(base, size, frm, content, unused)
            known = None
            if base == "UTF8String" and bad == ["from"] and frm and "|" not in frm[0]:
                known = "C08-utf8-from-unchecked"
            cases.append({"tn": tn, "label": label, "der": der, "bad": bad, "known": known, "what": "%s %s" % (base, label)})
    # the SEQUENCE of strings: member b has no constraint of its own
    for a, b, c in [(b"ab", b"12", b"xy"), (b"", b"12", b"xy"), (b"ab@", b"12", b"xy"), (b"ab", b"1a", b"xy"), (b"ab", b"12", b"xz"),
                    (b"abcd", b"12", b"xz"), (b"ab", b"1-", b"q")]:
        der = U.tlv(16 * 4, True, U.tlv(19 * 4, False, a) + U.tlv(18 * 4, False, b) + U.tlv(22 * 4, False, c)).hex()
        bad = []
        if U.string_spec("PrintableString", [(1, 3)], None, a):
            bad.append("a")
        if U.string_spec("NumericString", [], None, b):
            bad.append("b")
        if U.string_spec("IA5String", [], ("", set(b"xy")), c):
            bad.append("c")
        cases.append({"tn": "XS", "label": "seq", "der": der, "bad": bad, "known": None,
                      "what": "XS %r %r %r" % (a, b, c)})
    return cases


def oracle_layer(run, xm, cases, name, opts, clamp_need):
    """a hand-written / generated module outside the model's algebra: C against the Python reading of the Spec.
    case: tn, label, der, bad (names of the violated constraints), known (finding id that excuses an acceptance
    of this invalid value, or None), what"""
    if not xm.get("exe"):
        run.violation("build:module", {"what": "module %s was rejected or its code does not compile (asn1c %s)" % (xm["name"], " ".join(opts)), "module": xm["text"][:6000],
                                       "asn1c_out": xm.get("asn1c_out", "")[-1500:], "build_log": xm.get("build_log", "")[-1500:]})
        return
    names = module_names(xm)
    lines = []
    for c in cases:
        lines += ["xcode %s der %s der" % (c["tn"], c["der"]), "chkx %s der %s" % (c["tn"], c["der"])]
    lines += ["chke %s der %s" % (c["tn"], c["der"]) for c in cases]
    try:
        out = run_mod(run, xm, lines, name, timeout=600)
    except subprocess.TimeoutExpired:
        run.violation("oracle:termination", {"what": "driver run did not finish within 600 s", "module": xm["text"][:3000]})
        return
    nrun = 0
    shown = 0
    for i, c in enumerate(cases):
        o = out[2 * i:2 * i + 2]
        line = lines[2 * i + 1]
        replay = {"module": xm["text"] if len(xm["text"]) < 5000 else "(module %s)" % xm["name"], "type_text": c.get("text", ""), "asn1c_options": " ".join(opts),
                  "type": c["tn"], "case": c["what"], "der": c["der"][:600], "violated": c["bad"]}
        if o[0] != "OK " + c["der"]:
            run.count(name + "_skipped_transport_not_identity:" + c["label"].split(":")[0])
            if c.get("must_transport"):
                run.violation("harness:transport", dict(replay, what="a value the harness relies on does not survive DER -> structure -> DER", c=o[0][:300]), no_input=True)
            continue
        nrun += 1
        run.case(name + " " + line[:300])
        run.count(name + "_" + c["label"].split(":")[0])
        parsed = parse_chkx(o[1])
        if parsed is None:
            run.violation("oracle:chk", dict(replay, what="unexpected driver output", command_line=line, c=o[1][:600]))
            continue
        ret, L, full, _nr, _sw = parsed
        want = "-1" if c["bad"] else "0"
        if ret != want:
            if c["known"] and ret == "0":
                run.known_finding(c["known"], line)
            elif c.get("known_reject") and ret == "-1":
                run.known_finding(c["known_reject"], line)
            else:
                shown += 1
                if shown <= 6:           # vlib writes the first 20 violations of a run: leave room for the other layers
                    run.violation("oracle:check_exact(%s)" % {"C08-strings": "strings", "C08-builtin": "builtin", "C08-sets": "sets", "C08-ptr": "ptr"}.get(name, "wide"),
                                  dict(replay, what="asn_check_constraints returned %s, the constraints say %s" % (ret, want), command_line=line, c=o[1][:300], message=full))
                else:
                    run.count(name + "_further_mismatches_not_listed")
        check_messages(run, line, parsed, clamp_need, names, replay)
    run.count(name + "_cases", nrun)
    if len(cases) > 3:
        run.sample({"oracle_case": cases[3]["what"], "der": cases[3]["der"][:80], "violated": cases[3]["bad"]})


# ---------------------------------------------------------------- permitted alphabets (coq/Rt/Alphabet.v, lib/c08_alpha.py)
def alphabet_layer(run, model, am, sites, where, acases, tag, opts, clamp_need, share=1):
    """module MA0 under one flag set:
    (a) the emitted table / code2value / loop text, parsed, against the extracted model (`c08atab`) and, independently,
        against the alphabet computed by lib/c08_alpha.py (cell != 0 <=> member, cell = rank, whole rows, code2value);
    (b) asn_check_constraints on the values against the model (`c08achk` and the SIZE model) and against the Spec;
    (c) the message path, as everywhere."""
    if not am.get("exe"):
        run.violation("build:module", {"what": "module %s was rejected or its code does not compile (asn1c %s)" % (am["name"], " ".join(opts)), "module": am["text"][:6000],
                                       "asn1c_out": am.get("asn1c_out", "")[-1500:], "build_log": am.get("build_log", "")[-1500:]})
        return
    per = "-no-gen-PER" not in opts
    sl = [sites[k] for k in sorted(sites)]
    ml = ["c08atab %s %d %s" % (s.kind, 1 if s.got_size else 0, A.alpha_s(s.canon)) for s in sl] + ["c08awf %s" % A.alpha_s(s.canon) for s in sl]
    rc, mo, me = run_lines(model, ml, timeout=600)
    if rc != 0 or len(mo) != len(ml):
        raise RuntimeError("model driver failed on c08atab: %s %s" % (rc, me))
    nbad = {"text": 0, "table": 0}
    for i, s in enumerate(sl):
        tn, fn = where[s.id]
        replay = {"asn1c_options": " ".join(opts), "site": s.id, "type_text": s.text, "shape": s.why, "alphabet": A.alpha_s(s.canon),
                  "generated_file": tn + ".c", "function": fn}
        if mo[len(sl) + i] != "true" or mo[i].startswith("EXN"):
            run.violation("harness:alphabet", dict(replay, what="the generator handed a non-canonical alphabet to the model", model=[mo[i][:200], mo[len(sl) + i]]), no_input=True)
            continue
        e = A.parse_emitted(os.path.join(am["dir"], tn + ".c"), fn)
        want = A.model_line(mo[i], per, s.km)
        run.count("alphabet_sites_" + want.split()[0].lower())
        run.count("alphabet_top_mod16_%d" % (s.canon[-1][1] % 16) if want.startswith("TABLE") else "alphabet_range_sites")
        if e["mode"] == "MISSING":
            run.violation("oracle:alphabet_text", dict(replay, what="the generated checker of this type was not found / not understood: " + e.get("why", "")), no_input=True)
            continue
        got = A.emitted_line(e, per)
        probs = A.table_oracle(s, e, per) if e["mode"] == "TABLE" else []
        if e.get("unit", {"u": "1"}.get(s.kind, s.kind)) != {"u": "1"}.get(s.kind, s.kind) and e["mode"] in ("TABLE", "RANGE"):
            probs.append("the loop reads %s-octet units, the type has %s" % (e.get("unit"), s.kind))
        if got != want:
            nbad["text"] += 1
            if nbad["text"] <= 4:
                run.violation("correspondence:Rt.Alphabet.table_of_alphabet", dict(replay, what="the emitted permitted-alphabet code differs from the model's" + (" (and the table contradicts the alphabet: %s)" % probs[0] if probs else ""),
                                                                                   c=got[:1500], model=want[:1500]), no_input=not probs)
        if probs:
            nbad["table"] += 1
            if nbad["table"] <= 4:
                run.violation("oracle:alphabet_table", dict(replay, what="; ".join(probs)[:900], c=got[:1500]))
        run.case("%s table %s %s" % (tag, s.id, A.alpha_s(s.canon)))
    tick("alphabet %s: emitted text of %d sites compared" % (tag, len(sl)))
    if share > 1:          # a second flag set: the text comparison above is complete, the values are thinned out
        acases = [c for i, c in enumerate(acases) if c["label"] in ("highest", "lowest+highest") or (i + run.seed) % share == 0]
    # (b) the values
    keys, ql = [], []
    for c in acases:
        s = sites[c["sid"]]
        if c["units"] is None:          # not a string of the type (odd octet count): Spec only
            c["mk"] = None
            continue
        k1 = ("achk", s.kind, s.got_size, A.alpha_s(s.canon), ",".join(map(str, c["units"])) or "-")
        k2 = ("size", U.parts_s(s.size), c["nchars"])
        for k in (k1, k2):
            if k not in _model_cache:
                _model_cache[k] = None
                keys.append(k)
                ql.append("c08achk %s %d %s %s" % (k[1], 1 if k[2] else 0, k[3], k[4]) if k[0] == "achk" else "c08chk 0 o[%s] O%s;" % (k[1], "00" * k[2]))
        c["mk"] = (k1, k2)
    if ql:
        rc, mo, me = run_lines(model, ql, timeout=900)
        if rc != 0 or len(mo) != len(ql):
            raise RuntimeError("model driver failed on c08achk: %s %s" % (rc, me))
        for k, o in zip(keys, mo):
            _model_cache[k] = o
    tick("alphabet %s: model evaluated %d queries" % (tag, len(ql)))
    names = module_names(am)
    lines = []
    for c in acases:
        lines += ["xcode %s der %s der" % (c["tn"], c["der"]), "chkx %s der %s" % (c["tn"], c["der"])]
    lines += ["chke %s der %s" % (c["tn"], c["der"]) for c in acases]
    try:
        out = run_mod(run, am, lines, "C08-alphabet[%s]" % tag, timeout=600)
    except subprocess.TimeoutExpired:
        run.violation("oracle:termination", {"what": "driver run did not finish within 600 s", "module": am["text"][:3000]})
        return
    tick("alphabet %s: C ran %d cases" % (tag, len(acases)))
    nrun = 0
    shown = {"corr": 0, "spec": 0}
    for i, c in enumerate(acases):
        s = sites[c["sid"]]
        o = out[2 * i:2 * i + 2]
        oe = out[2 * len(acases) + i]
        line = lines[2 * i + 1]
        replay = {"module": "(module %s, %d bytes; type text below)" % (am["name"], len(am["text"])), "type_text": c["text"], "asn1c_options": " ".join(opts), "type": c["tn"],
                  "site": s.id, "site_text": s.text, "alphabet": A.alpha_s(s.canon), "case": c["what"], "der": c["der"][:600], "violated": c["bad"]}
        if o[0] != "OK " + c["der"]:
            run.count("C08-alphabet_skipped_transport_not_identity:" + c["label"])
            continue
        nrun += 1
        run.case(tag + " " + line[:300])
        run.count("alphabet_" + c["label"])
        parsed = parse_chkx(o[1])
        if parsed is None:
            run.violation("oracle:chk", dict(replay, what="unexpected driver output", command_line=line, c=o[1][:600]))
            continue
        ret, L, full, _nr, _sw = parsed
        if not oe.startswith("%s %d EXACT" % (ret, L)) and oe != "CRASH":
            run.violation("oracle:chk", dict(replay, what="exact-buffer run disagrees with the guarded run", command_line=line, c=[o[1][:300], oe[:300]]))
        ma, ms = (_model_cache[c["mk"][0]], _model_cache[c["mk"][1]]) if c["mk"] else ("false" if c["bad"] else "true", "OK")
        if ma not in ("true", "false") or not (ms == "OK" or ms.startswith("FAIL")):
            run.violation("model:front-end", dict(replay, what="model driver could not evaluate a generated case", model=[ma, ms]), no_input=True)
            continue
        m_ok = (ma == "true") and ms == "OK"
        spec_ok = not c["bad"]
        if (ret == "0") != m_ok or (ret == "-1" and "constraint failed" not in full):
            bad = (ret == "0") != spec_ok
            shown["corr"] += 1
            if shown["corr"] <= 6:
                run.violation("correspondence:Rt.Alphabet.alpha_check", dict(replay, what="asn_check_constraints and the model disagree" + (" (and the C contradicts the Spec)" if bad else ""),
                                                                          command_line=line, c=o[1][:300], model="alphabet loop %s, SIZE %s" % (ma, ms), message=full), no_input=not bad)
            continue
        if (ret == "0") != spec_ok:
            if c["known"] and ret == "0":
                run.known_finding(c["known"], line)
            else:
                shown["spec"] += 1
                if shown["spec"] <= 6:
                    run.violation("oracle:check_exact(alphabet)", dict(replay, what="asn_check_constraints returned %s for a value that %s the constraints (the model agrees with the C: model or proof defect)" % (ret, "violates" if c["bad"] else "satisfies"),
                                                                       command_line=line, c=o[1][:300], message=full), no_input=False)
        check_messages(run, line, parsed, clamp_need, names, replay)
    run.count("C08-alphabet_cases", nrun)
    if acases:
        c = acases[len(acases) // 3]
        run.sample({"alphabet_case": c["what"][:200], "der": c["der"][:80], "violated": c["bad"]})



# ---------------------------------------------------------------- producers (lib/c08_prod.py, coq/Rt/ConstraintsSet.v)
PRODUCERS = ("ber", "xer", "oer", "uper", "hb0", "hb1")


def producer_layer(run, model, xm, cases, name, opts, wide):
    """`chkp`: the same abstract value produced by ber_decode, by XER / OER / UPER decode of the library's own encoding and
    "by assignment" (every _presence_map cleared / all set): one verdict, one message, and the verdict of the Spec.
    Cases with a model type (SETs over the model's algebra) are also compared with the extracted `c08set`."""
    if not xm.get("exe"):
        return            # reported by the oracle layer of the same module
    lines = ["chkp %s %s" % (c["tn"], c["der"]) for c in cases]
    try:
        out = run_mod(run, xm, lines, name, timeout=600)
    except subprocess.TimeoutExpired:
        run.violation("oracle:termination", {"what": "producer sweep did not finish within 600 s", "module": xm["text"][:3000]})
        return
    mq = [(i, c) for i, c in enumerate(cases) if c.get("cty")]
    mlines = []
    for _i, c in mq:
        nmemb = len(split_members(c["mval"]))
        for mp in ("dec", "hb", "1" * nmemb):
            mlines.append("c08set %s %s %s %s" % ("1" if wide else "0", c["cty"], c["mval"], mp))
    mo = []
    if mlines:
        rc, mo, me = run_lines(model, mlines, timeout=300)
        if rc != 0 or len(mo) != len(mlines):
            raise RuntimeError("model driver failed on c08set: %s %s" % (rc, me))
    mres = {i: mo[3 * k:3 * k + 3] for k, (i, _c) in enumerate(mq)}
    shown = {"prod": 0, "spec": 0, "corr": 0}
    nrun = 0
    for i, c in enumerate(cases):
        o = out[i]
        f = o.split()
        replay = {"module": xm["text"] if len(xm["text"]) < 5000 else "(module %s)" % xm["name"], "type_text": c.get("text", ""), "asn1c_options": " ".join(opts),
                  "type": c["tn"], "case": c["what"], "der": c["der"][:600], "violated": c["bad"], "command_line": lines[i], "c": o[:400]}
        if not f or f[0] not in ("0", "-1"):
            run.count(name + "_skipped:" + (f[0] if f else "empty"))
            continue
        got = dict(x.split("=", 1) for x in f[1:] if "=" in x)
        nrun += 1
        run.case(name + " " + lines[i][:300])
        v0 = f[0]
        problems = []
        for p in PRODUCERS:
            r = got.get(p, "?")
            if r[:1] in ("E", "D", "N", "?"):
                run.count("%s_%s_unavailable:%s" % (name, p, r[:1]))
                if p in ("ber", "hb0", "hb1"):
                    problems.append("producer %s: %s (the structure no longer encodes to the same DER)" % (p, r))
                continue
            run.count("%s_%s_verdicts" % (name, p))
            verdict, same = r[:-1], r[-1] == "="
            if verdict != v0:
                problems.append("asn_check_constraints returned %s for the structure produced by %s and %s for the BER-decoded one (the Spec says %s)"
                                % (verdict, p, v0, "-1" if c["bad"] else "0"))
            elif not same:
                problems.append("the message for the structure produced by %s differs from the BER-decoded one's" % p)
        if problems:
            shown["prod"] += 1
            if shown["prod"] <= 5:
                run.violation("oracle:producer_independent", dict(replay, what="; ".join(problems)[:900]))
            else:
                run.count(name + "_further_mismatches_not_listed")
        # v0 itself against the Spec is the oracle layer's business (known findings are attributed there)
        if i in mres:
            for p, m in zip(("ber", "hb0", "hb1"), mres[i]):
                r = got.get(p, "?")
                if r[:1] in ("E", "D", "N", "?"):
                    continue
                if (r[:-1] == "0") != (m == "OK"):
                    bad = (r[:-1] == "0") != (not c["bad"])
                    shown["corr"] += 1
                    if shown["corr"] <= 4:
                        run.violation("correspondence:Rt.ConstraintsSet.set_constraint",
                                      dict(replay, what="SET_constraint on the structure produced by %s and the model disagree%s" % (p, " (and the C contradicts the Spec)" if bad else ""),
                                           model_type=c["cty"], model_value=c["mval"], model=m), no_input=not bad)
            run.count("set_structures_vs_model")
    run.count(name + "_cases", nrun)


def split_members(mv):
    """top-level members of an S{...} value string"""
    body, out, depth, cur = mv[2:-1], [], 0, ""
    i = 0
    while i < len(body):
        ch = body[i]
        cur += ch
        if ch == "{":
            depth += 1
        elif ch == "}":
            depth -= 1
            if depth == 0:
                out.append(cur)
                cur = ""
        elif depth == 0:
            if ch in "TFN_":
                out.append(cur)
                cur = ""
            elif ch == ";":
                out.append(cur)
                cur = ""
        i += 1
    return out


def utf8_leaf_layer(run, model, strings):
    """UTF8String_length / _constraint / _to_wcs of the unchanged skeleton against the extracted model of
    UTF8String__process, and against the independent scanner (lib/c08_prod.u8_scan)"""
    cdrv = build_leafdrv()
    lines = P.utf8_leaf_lines(strings)
    rc, mo, me = run_lines(model, lines, timeout=300)
    if rc != 0 or len(mo) != len(lines):
        raise RuntimeError("model driver failed on u8len: %s %s" % (rc, me))
    rc, co, ce = run_lines(cdrv, lines, timeout=300, env=SAN_ENV)
    if rc != 0 or len(co) != len(lines):
        run.violation("crash:C08-utf8-leaf", {"what": "the leaf driver died (rc=%s) after %d of %d lines" % (rc, len(co), len(lines)), "stderr": ce[-1500:],
                                               "command_line": lines[len(co)] if len(co) < len(lines) else ""})
        return
    nbad = {"corr": 0, "spec": 0}
    for line, m, c in zip(lines, mo, co):
        run.case("leaf " + line)
        run.count("utf8_leaf_" + line.split()[0])
        prob = P.utf8_leaf_oracle(line, c)
        if m != c:
            nbad["corr"] += 1
            if nbad["corr"] <= 4:
                run.violation("correspondence:Leaf.Utf8.process", {"what": "UTF8String.c and the model disagree" + (" (and the C contradicts the octets: %s)" % prob if prob else ""),
                                                                    "command_line": line, "c": c, "model": m}, no_input=not prob)
        elif prob:
            nbad["spec"] += 1
            if nbad["spec"] <= 4:
                run.violation("oracle:utf8_length", {"what": prob + " (the model agrees with the C: model or proof defect)", "command_line": line, "c": c})
    run.count("utf8_leaf_lines", len(lines))


def pointer_layer(run, xm, cases, tag, opts, clamp_need):
    """module MR0 (lib/c08_open.py): constraints written on members that are stored by pointer, C against the Python
    evaluation of every constraint at every nesting position.  Self-check: the generated member tables really hold the
    by-pointer alternatives the module was written for (else the layer would test nothing and say so)."""
    oracle_layer(run, xm, cases, "C08-ptr", opts, clamp_need)
    if not xm.get("exe"):
        return
    ptr = OP.pointer_members(xm)
    want = {"RF": ["not"], "RN": ["n"], "RS": ["v", "kids", "next", "o"]}
    if "-findirect-choice" in opts:
        want.update({"RF": ["and", "or", "not"], "RG": ["pair", "lst"], "RL": ["a", "b", "c", "e"], "RN": ["m", "n"]})
    for tn, ms in sorted(want.items()):
        got = [x.split(".")[-1].lower() for x in ptr.get(tn, [])]          # asn1c capitalises and / or / not (C++ tokens)
        run.count("pointer_members_%s" % tag, len(got))
        missing = [x for x in ms if x not in got]
        if missing:
            run.violation("harness:pointer-members", {"what": "module MR0 under `%s`: members %s of %s are expected to be stored by pointer, the generated table has ATF_POINTER on %s only"
                                                             % (" ".join(opts), missing, tn, got), "module": xm["text"]}, no_input=True)


def tick(what):
    if os.environ.get("VERIF_DEBUG"):
        log("[c08 %.1fs] %s" % (time.time() - T0, what))


def main(tier):
    run = Run("C08", tier)
    rng = Rng(run.seed)
    ok, out = coq_build()
    nthm, ndis, axioms, names, plog = obligations("C08") if ok else (0, 0, set(), [], out)
    gate = grep_gate()
    if not ok or ndis != nthm or gate:
        run.violation("proof:Properties_C08", {"what": "Coq development does not build or an obligation is open",
                                               "log_tail": (out if not ok else plog)[-2000:], "grep_gate": gate}, no_input=True)
    try:
        model = model_build()
        g = Gen(rng)
        nm, nt = (8, 5) if tier == "quick" else (40, 6)
        hand = U.boundary_module("MC0")
        bmods = U.boundary_modules(rng, tier) + [OP.open_union_module(rng, tier)]
        rm, rcases = OP.ptr_module(rng, tier)
        gmods = [U.decorate_module(g.module("M%d" % i, nt), rng) for i in range(nm)]
        xm = U.string_module("MX0")
        cases = {m["name"]: module_cases(m, rng, tier) for m in [hand] + bmods + gmods}
        scases = string_cases(rng)
        wm, wcases = W.wide_module(rng)
        am, asites, awhere, acases = A.alpha_module(rng, tier)
        um, ucases, ustrings = P.strings_module(rng, tier)
        pm, pcases = P.producer_module(rng)
        utf8_leaf_layer(run, model, ustrings)
        tick("utf8 leaf tie")
        clamp_need = []
        nmods = 0
        flagsets = FLAGSETS_QUICK if tier == "quick" else FLAGSETS_THOROUGH
        for flag in flagsets:
            tag, opts, wide, which, share = flag
            # the modgen modules and the hand-made one reuse member names and need -fcompound-names;
            # the systematic ones are compiled under every flag set
            sel = {"all": [hand] + bmods + gmods, "main": [hand] + bmods + gmods[:2], "boundary": bmods,
                   "lite": [U.lite_module(m) for m in bmods], "choice": [OP.choice_part(m) for m in [hand] + bmods]}[which]
            sel = [dict(m) for m in sel]
            xs = [dict(xm), dict(wm), dict(pm)] if which in ("all", "main") else []
            if which in ("all", "choice"):
                xs.append(dict(rm))          # members stored by pointer: recursive types, and everything constructed under -findirect-choice
            if tag == "cn":
                xs.append(dict(um))          # strings do not depend on -fwide-types
            if tag in ALPHA_FLAGSETS:
                xs.append(dict(am))
            tick("build " + tag)
            A.build_latin1(build_modules, sel + xs, tag="c08_" + tag, opts=opts, moddrv_extra=MODDRV_EXTRA)
            tick("built " + tag)
            nmods += len(sel) + len(xs)
            for m in sel:
                model_layer(run, rng, tier, model, m, cases[m["name"]], flag, clamp_need)
                tick("ran %s %s" % (tag, m["name"]))
            for x in xs:
                if x["name"] == xm["name"]:
                    oracle_layer(run, x, scases, "C08-strings", opts, clamp_need)
                elif x["name"] == am["name"]:
                    alphabet_layer(run, model, x, asites, awhere, acases, tag, opts, clamp_need, share=1 if tag == "cn" else 3)
                elif x["name"] == um["name"]:
                    oracle_layer(run, x, ucases, "C08-builtin", opts, clamp_need)
                    producer_layer(run, model, x, [c for i, c in enumerate(ucases) if tier != "quick" or (i + run.seed) % 3 == 0 or c["tn"] in ("UT", "UM")],
                                   "C08-producers(builtin)", opts, wide)
                elif x["name"] == rm["name"]:
                    pointer_layer(run, x, rcases, tag, opts, clamp_need)
                elif x["name"] == pm["name"]:
                    oracle_layer(run, x, pcases, "C08-sets", opts, clamp_need)
                    producer_layer(run, model, x, pcases, "C08-producers(sets)", opts, wide)
                else:
                    oracle_layer(run, x, wcases, "C08-wide", opts, clamp_need)
                    if tag == "cn":
                        producer_layer(run, model, x, [c for c in wcases if (c["tn"][:2] in ("WS", "WT", "WC", "WD", "WQ") or c["label"] in ("int", "list")) and "REAL" not in c.get("text", "")],
                                       "C08-producers(wide)", opts, wide)
                tick("ran %s %s" % (tag, x["name"]))
        check_clamp_model(run, model, clamp_need)
        kinds = {}
        for v in run.violations:
            kinds[v["kind"]] = kinds.get(v["kind"], 0) + 1
        tick("violations by kind: %s" % kinds)
    except (BuildError, RuntimeError) as e:
        run.violation("build", {"what": str(e)[-2500:]}, no_input=True)
        return run.finish("proof", (nthm, ndis))
    tb = ["Coq 8.16.1 kernel; vm_compute for refuted witnesses and Examples", "axioms under Print Assumptions: " + (", ".join(sorted(axioms)) or "none (Closed under the global context)"),
          "extraction: ExtrOcamlBasic only; OCaml 4.13.1; ocaml/drv_c08.ml (parser of the cty / value strings)",
          "lib/modgen.py (modules, independent X.680 tagging for the DER transport), lib/c08_util.py (decoration with unions/EXCEPT, cty strings, value and violation generators, Python reading of the Spec used to attribute mismatches to known findings, string oracle)",
          "harness/moddrv.c + harness/moddrv_c08.inc (`chkx`: canary-guarded buffers, `chke`: exact-size malloc under ASan), lib/modbuild.py; gcc + ASan/UBSan", "values reach the C as DER through ber_decode; a case is used only if DER -> structure -> DER is the identity",
          "vsnprintf's contract (the model of the buffer is stated over it; the text is compared with the message obtained in a 4096-byte buffer)",
          "lib/c08_open.py (module MBU: overlapping unions by shape x relation x order; module MR0: recursive types / -findirect-choice with its own DER encoder and Python reading of the Spec at every nesting position; reader of ATF_POINTER in the generated member tables)"]
    return run.finish("proof", (nthm, ndis), trusted_base=tb,
                      checker_cmd="make -C /verif all && coqc -Q coq A1 coq/Props/Properties_C08.v",
                      extra_cov={"theorems": names, "modules": nmods, "flag_sets": [" ".join(f[1]) or "(none)" for f in flagsets],
                                 "rule": "one case = (flag set, module, type, value), each run with the error-buffer sizes {0,1,2,L-2..L+2,128,256} around the length L of its own message; values: valid, at / just inside / just outside every edge of every constraint at each position, far, several violations at once; distinct",
                                 "traces_validated_against_impl": run.cov["evaluations"]},
                      assumptions=["constraints are non-extensible; value, SIZE (OCTET STRING, SEQUENCE OF, SET OF) and EXCEPT over the modelled algebra; strings/BIT STRING are covered by the tie only",
                                   "absent mandatory members and a CHOICE without alternative cannot be transported as DER and are covered by the model only",
                                   "the model of the generated checker is hand-written; tied by differential run on generated cases only"])


if __name__ == "__main__":
    sys.exit(main(sys.argv[1] if len(sys.argv) > 1 else "quick"))
