"""C08 — asn_check_constraints returns 0 exactly for the structures that satisfy the
value / SIZE / permitted-alphabet constraints of the ASN.1 source; on failure -1 with a
bounded, terminated message naming a type; it terminates.
Theorems: coq/Props/Properties_C08.v over coq/Rt/Constraints.v (generated leaf checkers,
walkers, message clamp).  Tie: generated modules (lib/modgen.py, constraints made
non-extensible, unions and EXCEPT added by lib/c08_util.py) plus a hand-made boundary
module: valid values, every single-position violation on each side of each bound, and
several at once, transported as DER; `chk T der <hex> <errbufsize>` of harness/moddrv.c
against the extracted model (faithfulness) and against the Spec (oracle).  A hand-written
module of restricted strings and BIT STRINGs is checked against a Python reading of the
Spec only (the model has no strings)."""
import sys, os, subprocess
sys.path.insert(0, os.path.join(os.path.dirname(os.path.abspath(__file__)), "..", "lib"))
from vlib import *
from modcorpus import run_mod
from modbuild import build_modules
from modgen import Gen, model_str, val_str
import c08_util as U

SIZES = [512, 0, 1, 2, 8, 64, 128]
BUILTIN_NAMES = ["INTEGER", "OCTET STRING", "BOOLEAN", "NULL", "SEQUENCE", "SEQUENCE OF", "SET OF", "CHOICE", "SET",
                 "IA5String", "PrintableString", "NumericString", "VisibleString", "UTF8String", "BIT STRING", "ENUMERATED"]


def module_names(m):
    names = set(BUILTIN_NAMES)
    for n, t in m["defs"]:
        names.add(n)
        stack = [t] if t else []
        while stack:
            x = stack.pop()
            for mn, mt, _o in x.get("ms", []):
                names.add(mn)
                stack.append(mt)
            if "el" in x:
                stack.append(x["el"])
    names.update(["a", "b", "c"])
    return names


def names_type(msg, names, complete):
    """the message starts with `<name>: ` for a type name of the module, or (clamped) with a prefix of one"""
    for n in names:
        full = n + ": "
        if msg.startswith(full) or (not complete and full.startswith(msg)):
            return True
    return False


def type_cases(t, tn, env, rng, tier):
    """[(label, value)] for one type definition"""
    nvalid = 3 if tier == "quick" else 6
    top = U.base_of(t, env)
    out, seen = [], set()

    def add(label, v):
        s = val_str(v)
        if s not in seen:
            seen.add(s)
            out.append((label, v))

    bases = []
    for _ in range(nvalid):
        v = U.valid_value(top, rng, env)
        add("valid", v)
        bases.append(v)
    cap = 24 if tier == "quick" else 80
    for bi, b in enumerate(bases[:2]):
        muts = U.mutations(top, b, env, rng)
        if len(muts) > cap:
            muts = rng.shuffle(muts)[:cap]
        for path, desc, new in muts:
            add("one:" + desc, U.replace(top, b, env, path, new))
        # several violations at once, at unrelated positions
        for _ in range(3):
            if len(muts) < 2:
                break
            pick = []
            for mu in rng.shuffle(muts):
                if all(U.disjoint(mu[0], q[0]) for q in pick):
                    pick.append(mu)
                if len(pick) == 3:
                    break
            if len(pick) >= 2:
                v = b
                for path, desc, new in pick:
                    v = U.replace(top, v, env, path, new)
                add("several:%d" % len(pick), v)
    return out


def check_message(run, m, line, size, f, full, clamp, names, replay):
    """on failure: errlen, NUL and text of the message written into a buffer of `size` bytes"""
    ret, errlen, nul_ok, hx = f[0], int(f[1]), f[2], f[3]
    msg = bytes.fromhex(hx).decode("latin1") if hx != "-" else ""
    want = clamp.get((size, len(full)))
    problems = []
    if size >= 1 and errlen > size - 1:
        problems.append("errlen %d exceeds buffer size-1 (%d)" % (errlen, size - 1))
    if nul_ok != "1":
        problems.append("no NUL at errbuf[errlen] / inside the buffer")
    if want is not None and want != "NONE" and int(want.split()[0]) != errlen:
        problems.append("errlen %d differs from the model's clamp (%s)" % (errlen, want))
    if msg != full[:errlen]:
        problems.append("message is not the clamped prefix of the full message")
    if not names_type(msg, names, complete=(len(msg) == len(full))):
        problems.append("message does not start with the name of a type of the module")
    for p in problems:
        run.violation("oracle:errmsg", dict(replay, what=p, command_line=line, c=" ".join(f), message=msg, full_message=full))


def model_layer(run, rng, tier, model, mods, clamp):
    for m in mods:
        if not m.get("exe"):
            run.violation("build:module", {"what": "a valid generated module was rejected or its code does not compile", "module": m["text"],
                                           "asn1c_out": m.get("asn1c_out", "")[-1500:], "build_log": m.get("build_log", "")[-1500:]})
            continue
        env = dict(m["defs"])
        names = module_names(m)
        cases = []
        for tn, t in m["defs"]:
            cty = U.def_cty(tn, env)
            ts = model_str(m["trees"][tn])
            for label, v in type_cases(t, tn, env, rng, tier):
                cases.append({"tn": tn, "t": t, "cty": cty, "ts": ts, "v": v, "vs": val_str(v), "label": label})
        ml = []
        for c in cases:
            ml += ["der %s %s" % (c["ts"], c["vs"]), "c08chk %s %s" % (c["cty"], c["vs"]), "spec_c08sat %s %s" % (c["cty"], c["vs"]),
                   "c08repr %s %s" % (c["cty"], c["vs"]), "c08safe %s" % c["cty"]]
        rc, mo, me = run_lines(model, ml, timeout=1200)
        if rc != 0 or len(mo) != len(ml):
            raise RuntimeError("model driver failed: %s %s" % (rc, me))
        live = []
        for i, c in enumerate(cases):
            c["der"], c["mres"], c["spec"], c["repr"], c["safe"] = mo[5 * i:5 * i + 5]
            pd = U.py_der(m["trees"][c["tn"]], c["v"]).hex()
            if U.all_int64(c["v"]) and pd != c["der"]:
                run.violation("harness:der", {"what": "the Python DER encoder and the model's differ", "type": c["ts"], "value": c["vs"], "python": pd, "model": c["der"]}, no_input=True)
                continue
            c["der"] = pd
            if c["der"] == "NONE" or c["mres"].startswith("EXN") or c["spec"].startswith("EXN"):
                run.violation("model:front-end", {"what": "model driver could not evaluate a generated case", "type": c["cty"], "value": c["vs"], "model": mo[5 * i:5 * i + 5]}, no_input=True)
                continue
            if c["repr"] != "true":
                run.count("skipped_not_representable_in_C_type")
                continue
            live.append(c)
        lines = []
        for c in live:
            lines.append("xcode %s der %s der" % (c["tn"], c["der"]))
            for s in SIZES:
                lines.append("chk %s der %s %d" % (c["tn"], c["der"], s))
        try:
            out = run_mod(run, m, lines, "C08-chk", timeout=600)
        except subprocess.TimeoutExpired:
            run.violation("oracle:termination", {"what": "asn_check_constraints driver run did not finish within 600 s", "module": m["text"]})
            continue
        per = 1 + len(SIZES)
        for i, c in enumerate(live):
            o = out[per * i:per * i + per]
            line = lines[per * i + 1]
            replay = {"module": m["text"], "type": c["tn"], "model_type": c["cty"], "value": c["vs"], "case": c["label"], "der": c["der"][:400]}
            if o[0] != "OK " + c["der"]:
                run.count("skipped_transport_not_identity")      # the decoder/encoder pair does not hold this value (C01/C03's business)
                continue
            run.case(line[:300])
            run.count(c["label"].split(":")[0])
            if c["label"].startswith("one:"):
                run.count("bound_" + c["label"][4:])
            fs = [x.split() for x in o[1:]]
            if any(len(f) != 4 or f[0] not in ("0", "-1") for f in fs):
                run.violation("oracle:chk", dict(replay, what="unexpected driver output", command_line=line, c=o))
                continue
            rets = set(f[0] for f in fs)
            if len(rets) != 1:
                run.violation("oracle:errbuf-changes-verdict", dict(replay, what="return value depends on the error buffer size", c=o))
            ret = fs[0][0]
            full = bytes.fromhex(fs[0][3]).decode("latin1") if fs[0][3] != "-" else ""
            # (i) faithfulness: the model of the generated checker and walkers
            m_ok = c["mres"] == "OK"
            kind_ok = True
            if ret == "-1" and not m_ok:
                kind = c["mres"].split()[1]
                kind_ok = {"constraint": "constraint failed", "toolarge": "value too large", "absent": "absent", "noalt": "no CHOICE element"}.get(kind, "") in full
            spec_ok = c["spec"] == "true"
            viol = U.violated(U.base_of(c["t"], env), c["v"], env, slot=(c["t"]["k"] == "ref"))
            if (len(viol) == 0) != spec_ok:
                run.violation("oracle:self", dict(replay, what="the Python reading of the Spec and the Coq Spec disagree (harness defect)", python=str(viol)[:400], coq=c["spec"]), no_input=True)
                continue
            if (ret == "0") != m_ok or not kind_ok:
                bad = (ret == "0") != spec_ok
                run.violation("correspondence:Rt.Constraints.check", dict(replay, what="asn_check_constraints and the model disagree" + (" (and the C contradicts the Spec)" if bad else ""),
                                                                           command_line=line, c=o[1], model=c["mres"], spec=c["spec"], message=full), no_input=not bad)
                continue
            # (ii) the property itself on the C
            if (ret == "0") != spec_ok:
                if c["safe"] == "true":
                    run.violation("oracle:theorem-contradicted", dict(replay, what="model = C differs from the Spec inside the region check_exact covers (harness or proof defect)", c=o[1]), no_input=True)
                elif ret == "0" and all(ex for _p, _w, ex in viol):
                    for _p, _w, ex in viol:
                        run.known_finding(ex[-1], line)
                elif ret == "-1" and "value too large" in full and U.wide_open_leaf(U.base_of(c["t"], env), c["v"], env):
                    run.known_finding("C08-wide-open-range-rejects", line)
                else:
                    run.violation("oracle:check_exact", dict(replay, what="asn_check_constraints returned %s for a value that %s the constraints" % (ret, "satisfies" if spec_ok else "violates"),
                                                             command_line=line, c=o[1], violated=str(viol)[:600], message=full))
            # (iii) the message
            if ret == "-1":
                if len(full) >= SIZES[0] - 1:
                    run.notes.append("message longer than the reference buffer")
                for s, f in zip(SIZES[1:], fs[1:]):
                    if s == 0:
                        continue
                    check_message(run, m, line, s, f, full, clamp, names, replay)
                check_message(run, m, line, SIZES[0], fs[0], full, clamp, names, replay)
        if live:
            c = live[len(live) // 2]
            run.sample({"type": c["cty"], "value": c["vs"][:80], "case": c["label"], "model": c["mres"], "spec": c["spec"]})


def string_contents(rng, base, size, frm):
    """[(label, content bytes, unused bits)]"""
    out = []
    if base == "BIT STRING":
        ns = set()
        for a, b in size:
            ns.update([a - 1, a, a + 1, b, b + 1] if b is not None else [a - 1, a, a + 9])
        for n in sorted(x for x in ns if x >= 0):
            nb = (n + 7) // 8
            un = (8 * nb - n) if nb else 0
            out.append(("bits:%d" % n, (bytes([0xff] * (nb - 1)) + bytes([(0xff << un) & 0xff])) if nb else b"", un))   # DER: unused bits are zero
        out.append(("bits:empty-octets", b"", 0))
        return out
    if base == "UTF8String":
        allowed = sorted(frm[1]) if frm else [ord("a"), ord("Z"), 0xe9, 0x20ac, 0x1f600]
        other = [ord("A"), 0xe9, 0x20ac] if frm else []
        enc = lambda cps: "".join(chr(c) for c in cps).encode("utf-8")
        lens = set([0, 1, 2, 3, 4, 5])
        for n in sorted(lens):
            out.append(("len:%d" % n, enc([rng.choice(allowed) for _ in range(n)]), 0))
        for bad in other:
            for n in (1, 3):
                for pos in sorted(set([0, n // 2, n - 1])):
                    cps = [rng.choice(allowed) for _ in range(n)]
                    cps[pos] = bad
                    out.append(("badchar:%x@%d/%d" % (bad, pos, n), enc(cps), 0))
        out.append(("broken:ff", b"a\xffb", 0))
        out.append(("broken:truncated", b"ab\xe2\x82", 0))
        out.append(("broken:overlong", b"\xc0\x80", 0))
        return out
    builtin = U.BUILTIN[base]
    allowed = sorted(builtin & frm[1]) if frm else sorted(builtin)
    outside_builtin = [c for c in (0x40, 0x2d, 0x41, 0x7f, 0x80, 0xe1, 0x00, 0x1f, 0x2a) if c not in builtin]
    outside_from = [c for c in sorted(builtin) if frm and c not in frm[1]][:3]
    lens = set([0, 1, 2, 3])
    for a, b in size:
        lens.update([max(a - 1, 0), a, a + 1] + ([b, b + 1] if b is not None else []))
    for n in sorted(lens):
        out.append(("len:%d" % n, bytes(rng.choice(allowed) for _ in range(n)), 0))
    valid_n = [n for n in sorted(lens) if n >= 1 and (not size or U.in_parts(size, n))][:2] or [1]
    for bad in outside_builtin[:4] + outside_from:
        for n in valid_n + [max(valid_n) + (0 if not size else 0)]:
            for pos in sorted(set([0, n // 2, n - 1])):
                bs = bytearray(rng.choice(allowed) for _ in range(n))
                bs[pos] = bad
                out.append(("badchar:%02x@%d/%d" % (bad, pos, n), bytes(bs), 0))
    # several: wrong size and a bad character
    if size and outside_builtin:
        hi = max((b for _, b in size if b is not None), default=None)
        if hi is not None:
            bs = bytearray(rng.choice(allowed) for _ in range(hi + 1))
            bs[0] = outside_builtin[0]
            out.append(("several", bytes(bs), 0))
    return out


def string_layer(run, rng, tier, xm, clamp):
    if not xm.get("exe"):
        run.violation("build:module", {"what": "the string module was rejected or its code does not compile", "module": xm["text"],
                                       "asn1c_out": xm.get("asn1c_out", "")[-1500:], "build_log": xm.get("build_log", "")[-1500:]})
        return
    names = module_names(xm)
    cases = []
    for tn, base, size, frm in U.STRING_TYPES:
        seen = set()
        for label, content, unused in string_contents(rng, base, size, frm):
            der = U.string_der(base, content, unused).hex()
            if der in seen:
                continue
            seen.add(der)
            bad = U.string_spec(base, size, frm, content, unused)
            known = None
            if base == "UTF8String" and bad == ["from"] and frm and "|" not in frm[0]:
                known = "C08-utf8-from-unchecked"
            cases.append({"tn": tn, "label": label, "der": der, "bad": bad, "known": known, "what": "%s %s" % (base, label)})
    # the SEQUENCE of strings: member b has no constraint of its own
    for a, b, c in [(b"ab", b"12", b"xy"), (b"", b"12", b"xy"), (b"ab@", b"12", b"xy"), (b"ab", b"1a", b"xy"), (b"ab", b"12", b"xz"),
                    (b"abcd", b"12", b"xz"), (b"ab", b"1-", b"q")]:
        der = U.tlv(16 * 4, True, U.tlv(19 * 4, False, a) + U.tlv(18 * 4, False, b) + U.tlv(22 * 4, False, c)).hex()
        bad = []
        if U.string_spec("PrintableString", [(1, 3)], None, a):
            bad.append("a")
        if U.string_spec("NumericString", [], None, b):
            bad.append("b")
        if U.string_spec("IA5String", [], ("", set(b"xy")), c):
            bad.append("c")
        cases.append({"tn": "XS", "label": "seq", "der": der, "bad": bad, "known": "C08-sequence-early-return" if bad == ["c"] else None,
                      "what": "XS %r %r %r" % (a, b, c)})
    lines = []
    for c in cases:
        lines.append("xcode %s der %s der" % (c["tn"], c["der"]))
        for s in SIZES:
            lines.append("chk %s der %s %d" % (c["tn"], c["der"], s))
    try:
        out = run_mod(run, xm, lines, "C08-strings", timeout=600)
    except subprocess.TimeoutExpired:
        run.violation("oracle:termination", {"what": "driver run did not finish within 600 s", "module": xm["text"]})
        return
    per = 1 + len(SIZES)
    for i, c in enumerate(cases):
        o = out[per * i:per * i + per]
        line = lines[per * i + 1]
        replay = {"module": xm["text"], "type": c["tn"], "case": c["what"], "der": c["der"], "violated": c["bad"]}
        if o[0] != "OK " + c["der"]:
            run.count("string_skipped_transport_not_identity")
            continue
        run.case(line)
        run.count("string_" + c["label"].split(":")[0])
        fs = [x.split() for x in o[1:]]
        if any(len(f) != 4 or f[0] not in ("0", "-1") for f in fs):
            run.violation("oracle:chk", dict(replay, what="unexpected driver output", command_line=line, c=o))
            continue
        if len(set(f[0] for f in fs)) != 1:
            run.violation("oracle:errbuf-changes-verdict", dict(replay, what="return value depends on the error buffer size", c=o))
        ret = fs[0][0]
        full = bytes.fromhex(fs[0][3]).decode("latin1") if fs[0][3] != "-" else ""
        want = "-1" if c["bad"] else "0"
        if ret != want:
            if c["known"] and ret == "0":
                run.known_finding(c["known"], line)
            else:
                run.violation("oracle:check_exact(strings)", dict(replay, what="asn_check_constraints returned %s, the constraints say %s" % (ret, want),
                                                                  command_line=line, c=o[1], message=full))
        if ret == "-1":
            for s, f in zip(SIZES, fs):
                if s:
                    check_message(run, xm, line, s, f, full, clamp, names, replay)
    run.sample({"string_case": cases[3]["what"], "der": cases[3]["der"], "violated": cases[3]["bad"]})


def main(tier):
    run = Run("C08", tier)
    rng = Rng(run.seed)
    ok, out = coq_build()
    nthm, ndis, axioms, names, plog = obligations("C08") if ok else (0, 0, set(), [], out)
    gate = grep_gate()
    if not ok or ndis != nthm or gate:
        run.violation("proof:Properties_C08", {"what": "Coq development does not build or an obligation is open",
                                               "log_tail": (out if not ok else plog)[-2000:], "grep_gate": gate}, no_input=True)
    try:
        model = model_build()
        g = Gen(rng)
        nm, nt = (8, 5) if tier == "quick" else (40, 6)
        mods = [U.boundary_module("MC0")] + [U.decorate_module(g.module("M%d" % i, nt), rng) for i in range(nm)]
        xm = U.string_module("MX0")
        build_modules(mods + [xm], tag="c08")
        # the message clamp of the model for every (buffer size, vsnprintf return value) the run can meet
        q = [(s, v) for s in SIZES for v in range(0, 700)]
        rc, co, ce = run_lines(model, ["c08clamp %d %d" % p for p in q], timeout=300)
        clamp = dict(zip(q, co))
        model_layer(run, rng, tier, model, mods, clamp)
        string_layer(run, rng, tier, xm, clamp)
    except (BuildError, RuntimeError) as e:
        run.violation("build", {"what": str(e)[-2500:]}, no_input=True)
        return run.finish("proof", (nthm, ndis))
    tb = ["Coq 8.16.1 kernel; vm_compute for refuted witnesses and Examples", "axioms under Print Assumptions: " + (", ".join(sorted(axioms)) or "none (Closed under the global context)"),
          "extraction: ExtrOcamlBasic only; OCaml 4.13.1; ocaml/drv_c08.ml (parser of the cty / value strings)",
          "lib/modgen.py (modules, independent X.680 tagging for the DER transport), lib/c08_util.py (decoration with unions/EXCEPT, cty strings, value and violation generators, Python reading of the Spec used to attribute mismatches to known findings, string oracle)",
          "harness/moddrv.c (`chk`), lib/modbuild.py; gcc + ASan/UBSan", "values reach the C as DER through ber_decode; a case is used only if DER -> structure -> DER is the identity",
          "vsnprintf's return-length contract (the clamp is modelled over its return value; the text is compared with the message obtained in a 512-byte buffer)"]
    return run.finish("proof", (nthm, ndis), trusted_base=tb,
                      checker_cmd="make -C /verif all && coqc -Q coq A1 coq/Props/Properties_C08.v",
                      extra_cov={"theorems": names, "modules": len(mods) + 1,
                                 "rule": "one case = (module, type, value) run with 7 error-buffer sizes; values: valid, each bound of each constraint at each position violated alone on each side, several at once; distinct",
                                 "traces_validated_against_impl": run.cov["evaluations"]},
                      assumptions=["constraints are non-extensible; value, SIZE (OCTET STRING, SEQUENCE OF, SET OF) and EXCEPT over the modelled algebra; strings/BIT STRING are covered by the tie only",
                                   "absent mandatory members and a CHOICE without alternative cannot be transported as DER and are covered by the model only",
                                   "the model of the generated checker is hand-written; tied by differential run on generated cases only"])


if __name__ == "__main__":
    sys.exit(main(sys.argv[1] if len(sys.argv) > 1 else "quick"))
