"""C18 — open types governed by an information object set.
Theorems: coq/Props/Properties_C18.v over coq/Rt/OpenType.v (selector, DER/BER of
a frame SEQUENCE { id, open-type members }, table compilation).
Tie: generated CLASS / object-set modules (lib/c18_util.py) compiled by the asn1c
of the working tree; per module
 (T) the generated selector, called through the member table (`sel`), against the
     model's select on the compiled table (faithfulness) and on the set as written
     (oracle);
 (D) valid frames: the model's DER / UPER are the transport; C decode, re-encode in
     every syntax, round-trip battery; mismatches: identifier without a row,
     identifier of row i with the value of row j (BER, UPER, XER), bit flips and
     truncations; everything under ASan/UBSan/LSan, the driver restarted after a crash;
 (C) the emitted table itself: the `asn_IOS_*_rows[]` cells and the `asn_VAL_*` constants are
     read back from the generated C and every identifier cell VALUE is compared with the
     object set as written (Python's own reading) and with the model's emitted table
     (OpenTypeCell.emit_table), under every option set that changes the representation of
     the table or of the identifier member (`long` / INTEGER_t cells);
 every module under several option sets; identifiers at the boundaries of each representation,
 and for every row identifier the NON-row identifiers a truncated, sign-flipped or
 re-interpreted cell would answer to."""
import sys, os, re, json
sys.path.insert(0, os.path.join(os.path.dirname(os.path.abspath(__file__)), "..", "lib"))
from vlib import *
from modbuild import *
from c18_util import *
from c18w_util import DIRECTED_SHAPES, random_shape, zero_module
from c18w_util import shape_module as frame_shape_module
import c18w_layer
import c18v_layer
from c18v_util import big_module

EXTRA = os.path.join(HARNESS, "moddrv_c18.inc")

PROBES = {
    # build-level defects of the class/object-set support, outside the generator's shape
    "C18-builtin-row-type": """PB1 DEFINITIONS AUTOMATIC TAGS ::= BEGIN
  MY-CLASS ::= CLASS { &id INTEGER UNIQUE, &Type } WITH SYNTAX { ID &id TYPE &Type }
  MySet MY-CLASS ::= { { ID 1 TYPE INTEGER } | { ID 2 TYPE R2 } }
  R2 ::= OCTET STRING
  Frame ::= SEQUENCE { id MY-CLASS.&id({MySet}), value MY-CLASS.&Type({MySet}{@id}) }
END
""",
    "C18-duplicate-row-type": """PB2 DEFINITIONS AUTOMATIC TAGS ::= BEGIN
  MY-CLASS ::= CLASS { &id INTEGER UNIQUE, &Type } WITH SYNTAX { ID &id TYPE &Type }
  MySet MY-CLASS ::= { { ID 1 TYPE R1 } | { ID 2 TYPE R1 } }
  R1 ::= OCTET STRING
  Frame ::= SEQUENCE { id MY-CLASS.&id({MySet}), value MY-CLASS.&Type({MySet}{@id}) }
END
""",
    "C18-duplicate-value-constant": """PB3 DEFINITIONS AUTOMATIC TAGS ::= BEGIN
  OC ::= CLASS { &id INTEGER UNIQUE, &Type, &prio INTEGER OPTIONAL } WITH SYNTAX { IDENT &id KIND &Type [PRIO &prio] }
  MySet OC ::= { { IDENT 5 KIND R1 PRIO 5 } | { IDENT 2 KIND R2 } }
  R1 ::= INTEGER
  R2 ::= BOOLEAN
  Frame ::= SEQUENCE { id OC.&id({MySet}), value OC.&Type({MySet}{@id}) }
END
""",
}


# run-time probe: an OPTIONAL open-type member (ATF_POINTER), a shape the generator does not emit
PR1 = """PR1 DEFINITIONS ::= BEGIN
  MY-CLASS ::= CLASS { &id INTEGER UNIQUE, &Type } WITH SYNTAX { ID &id TYPE &Type }
  Int ::= INTEGER
  Boo ::= BOOLEAN
  MySet MY-CLASS ::= { { ID 1 TYPE Int } | { ID 2 TYPE Boo } }
  Frame ::= SEQUENCE { id MY-CLASS.&id({MySet}), val2 [1] MY-CLASS.&Type({MySet}{@id}) OPTIONAL, tail [2] INTEGER OPTIONAL }
END
"""
PR1_CASES = [("3003020101", True), ("3008020101a203020109", True),            # open type absent
             ("3008020101a103020105", False), ("3008020102a1030101ff", False),   # present: row 1 (INTEGER 5), row 2 (TRUE)
             ("300d020101a103020105a203020109", False)]
NULLCONT = re.compile(r"SEGV on unknown address 0x0000000000[0-9a-f]{2} .*\n(.*\n){0,12}?.*OPEN_TYPE_ber_get")


def probe_optional_open_type(run, p):
    """finding C18-optional-open-type-null-container: OPEN_TYPE_ber_get computes the inner value's address from the NULL
    container pointer of an ATF_POINTER member.  Known while the decoder dies exactly that way; a clean DER round trip is
    the repaired behaviour; anything else is a violation."""
    lines = ["dec Frame ber " + h for h, _ in PR1_CASES]
    outs, crashes, leak = run_resilient(p["exe"], lines)
    for i, ((h, absent), l, o) in enumerate(zip(PR1_CASES, lines, outs)):
        run.case(l)
        if o.startswith("OK %d %s ck=0" % (len(h) // 2, h)):
            run.count("probe_optional_open_type_" + ("absent_ok" if absent else "present_ok"))
        elif o == "CRASH" and not absent and NULLCONT.search(crashes.get(i, "")):
            run.known_finding("C18-optional-open-type-null-container", l)
        else:
            run.violation("crash:optional-open-type" if o == "CRASH" else "oracle:opentype_roundtrip(optional)",
                          {"module": PR1, "command_line": l, "c": o, "what": "a valid frame with an OPTIONAL open-type member is not decoded and re-encoded",
                           "stderr_tail": crashes.get(i, "")[-2500:]})
    if leak is not None:
        run.violation("leak:optional-open-type", {"module": PR1, "what": "sanitizer report at exit", "stderr_tail": leak[-2500:]})


# the identifier member AFTER the open-type member (X.681 does not fix an order)
PR2 = """PR2 DEFINITIONS AUTOMATIC TAGS ::= BEGIN
  MY-CLASS ::= CLASS { &id INTEGER UNIQUE, &Type } WITH SYNTAX { ID &id TYPE &Type }
  MySet MY-CLASS ::= { { ID 0 TYPE R1 } | { ID 5 TYPE R2 } | { ID 200 TYPE R3 } }
  Frame ::= SEQUENCE { value MY-CLASS.&Type({MySet}{@id}), id MY-CLASS.&id({MySet}) }
  R1 ::= INTEGER
  R2 ::= BOOLEAN
  R3 ::= OCTET STRING
END
"""
# (encoding, True = a valid frame / False = identifier and value do not belong together)
PR2_CASES = [("ber", "3008a003020107810100", True), ("ber", "3008a0030101ff810105", True), ("ber", "300aa00504037a7a7a810200c8", True),
             ("ber", "3008a003020107810105", False), ("ber", "3008a0030101ff810100", False), ("ber", "3008a003020107810107", False),
             ("uper", "0201070100", True), ("uper", "01800105", True), ("uper", "0201070105", False)]

# an identifier field whose range constraint gives the identifier member another C representation than the cells
PR4 = """PR4 DEFINITIONS AUTOMATIC TAGS ::= BEGIN
  MY-CLASS ::= CLASS { &id INTEGER (0..65535) UNIQUE, &Type } WITH SYNTAX { ID &id TYPE &Type }
  MySet MY-CLASS ::= { { ID 0 TYPE R1 } | { ID 5 TYPE R2 } | { ID 200 TYPE R3 } }
  Frame ::= SEQUENCE { id MY-CLASS.&id({MySet}), n INTEGER (0..255), value MY-CLASS.&Type({MySet}{@id}) }
  R1 ::= INTEGER
  R2 ::= BOOLEAN
  R3 ::= OCTET STRING
END
"""
PR4_CASES = [("ber", "300b800105810100a2030101ff", True), ("ber", "300b800105810101a2030101ff", True), ("ber", "300b800100810109a203020107", True),
             ("ber", "300c800200c8810101a20304017a", True), ("uper", "0005010180", True), ("ber", "300b800105810101a203020107", False),
             ("ber", "300b800107810101a2030101ff", False)]
REPMIS = re.compile(r"(SEGV on unknown address 0x0*(5|c8|7)\b|INTEGER\.c:\d+:\d+: runtime error: load of null pointer)(.*\n){0,8}?.*INTEGER_compare")

# the frame written inline (an anonymous SEQUENCE member holding the identifier and the open type)
PR3 = """PR3 DEFINITIONS AUTOMATIC TAGS ::= BEGIN
  MY-CLASS ::= CLASS { &id INTEGER UNIQUE, &Type } WITH SYNTAX { ID &id TYPE &Type }
  MySet MY-CLASS ::= { { ID 0 TYPE R1 } | { ID 5 TYPE R2 } | { ID 200 TYPE R3 } }
  Frame ::= SEQUENCE { pre BOOLEAN, inner SEQUENCE { id MY-CLASS.&id({MySet}), value MY-CLASS.&Type({MySet}{@.id}) } }
  R1 ::= INTEGER
  R2 ::= BOOLEAN
  R3 ::= OCTET STRING
END
"""
PR3_CASES = [("300d8001ffa108800105a1030101ff", True), ("300d8001ffa108800100a103020107", True), ("300d8001ffa108800105a103020101", False),
             ("300d8001ffa108800107a103020101", False)]


# a row type that closes a type cycle: asn1c makes that ALTERNATIVE of the open-type CHOICE a pointer member (ATF_POINTER)
PR5 = """PR5 DEFINITIONS AUTOMATIC TAGS ::= BEGIN
  MY-CLASS ::= CLASS { &id INTEGER UNIQUE, &Type } WITH SYNTAX { ID &id TYPE &Type }
  MySet MY-CLASS ::= { { ID 1 TYPE R1 } | { ID 2 TYPE Frame } }
  Frame ::= SEQUENCE { id MY-CLASS.&id({MySet}), value MY-CLASS.&Type({MySet}{@id}) }
  R1 ::= INTEGER
END
"""
# (encoding, input, DER of the value or None = must be refused)
PR5_DER1, PR5_DER2 = "300f800102a10a3008800101a103020105", "3016800102a111300f800102a10a3008800101a103020107"
PR5_CASES = [("ber", PR5_DER1, PR5_DER1), ("ber", PR5_DER2, PR5_DER2), ("uper", "0102050101020105", PR5_DER1), ("oer", "0102050101020105", PR5_DER1),
             ("xer", "3c4672616d653e3c69643e323c2f69643e3c76616c75653e3c4672616d653e3c69643e313c2f69643e3c76616c75653e3c52313e353c2f52313e3c2f76616c75653e3c2f4672616d653e3c2f76616c75653e3c2f4672616d653e", PR5_DER1), ("ber", "3008800101a103020105", "3008800101a103020105"),
             ("ber", "300f800101a10a3008800101a103020105", None), ("ber", "300f800102a10a3008800101a1030101ff", None),   # row 1 holding a Frame; inner row 1 holding a BOOLEAN
             ("ber", "300f800102a10a3008800101a1030201", None), ("uper", "01020501010201", None), ("oer", "0102050101020205", None)]


def probe_recursive_row(run, p):
    """a row type that refers back to the frame (finding C18-pointer-alternative-slot, fixed): the selected alternative is a
    pointer member, the decoder of the row type must get the address of that pointer and allocate; valid frames come back,
    broken ones are refused without a sanitizer report"""
    run.case(p["fs"] + " build PR5")
    if not p.get("exe"):
        run.violation("build:module", {"what": "the probe module with a recursive row type does not build", "module": PR5, "options": p["opts"],
                                       "asn1c_rc": p.get("asn1c_rc"), "asn1c_out": p.get("asn1c_out", "")[-1500:], "build_log": p.get("build_log", "")[-1500:]})
        return
    lines = ["dec Frame %s %s" % (s, h) for s, h, _ in PR5_CASES]
    outs, crashes, leak = run_resilient(p["exe"], lines)
    for i, ((s, h, der), l, o) in enumerate(zip(PR5_CASES, lines, outs)):
        run.case(p["fs"] + " " + l)
        good = o.startswith("OK %d %s ck=0" % (len(h) // 2, der)) if der else o.startswith(("FAIL", "MORE"))
        if good:
            run.count("probe_recursive_row_" + ("valid_ok" if der else "broken_refused"))
        else:
            run.violation("crash:recursive-row-type" if o == "CRASH" else "oracle:opentype_roundtrip(recursive row type)",
                          {"module": PR5, "options": p["opts"], "command_line": l, "c": o, "expected": ("OK .. " + der) if der else "FAIL/MORE",
                           "what": "open type whose selected alternative is a pointer member (recursive row type): valid frame not returned / broken frame not refused",
                           "stderr_tail": crashes.get(i, "")[-2000:]})
    if leak is not None:
        run.violation("leak:recursive-row-type", {"module": PR5, "what": "sanitizer report at exit", "stderr_tail": leak[-2500:]})


def probe_id_after_open_type(run, p):
    """findings C18-identifier-after-open-type (the selector runs before the identifier member is decoded: it sees the
    zero-initialised member) and C18-integer-compare-empty-null (with INTEGER_t identifiers that member is an empty INTEGER_t,
    and INTEGER_compare reads a->buf[0] of it)."""
    lines = ["dec Frame %s %s" % (s, h) for s, h, _ in PR2_CASES]
    outs, crashes, leak = run_resilient(p["exe"], lines)
    for i, ((s, h, valid), l, o) in enumerate(zip(PR2_CASES, lines, outs)):
        run.case(p["fs"] + " " + l)
        ok = o.startswith("OK %d " % (len(h) // 2))
        if o == "CRASH":
            if True:
                run.violation("crash:identifier-after-open-type", {"module": PR2, "options": p["opts"], "command_line": l, "what": "decoder crashed",
                                                                   "stderr_tail": crashes.get(i, "")[-2500:]})
        elif valid and ok and (s != "ber" or o.split()[2] == h):
            run.count("probe_id_after_valid_ok")
        elif not valid and not ok and o.startswith(("FAIL", "MORE")):
            run.count("probe_id_after_mismatch_fails")
        elif o.startswith(("OK", "FAIL", "MORE")):
            # a valid frame refused, or a mismatch accepted: the recorded defect (the row of identifier 0 is always taken)
            run.known_finding("C18-identifier-after-open-type", l)
        else:
            run.violation("oracle:identifier-after-open-type", {"module": PR2, "options": p["opts"], "command_line": l, "c": o, "what": "unexpected driver output"})
    if leak is not None:
        run.violation("leak:identifier-after-open-type", {"module": PR2, "what": "sanitizer report at exit", "stderr_tail": leak[-2500:]})


def rep_mismatch(p):
    """the generated selector reads the identifier member as a (unsigned) long while the cells are INTEGER_t, or the reverse"""
    try:
        tables, sels = parse_ioc_tables(os.path.join(p["dir"], "Frame.c"))
    except (OSError, KeyError, IndexError, ValueError):
        return False
    for mem, (tname, ccol, fcol, vtype) in sels.items():
        t = tables.get(tname)
        if not t or not t["cells"]:
            continue
        ct = t["cells"][0][ccol]["ctype"]
        if ct in ("long", "unsigned long", "INTEGER_t") and (ct == "INTEGER_t") != (vtype not in ("long", "unsigned long")):
            return True
    return False


def probe_rep_mismatch(run, p):
    """finding C18-identifier-representation-mismatch; a clean refusal by asn1c is the (proposed) repaired behaviour"""
    run.case(p["fs"] + " build PR4")
    if p.get("asn1c_rc") == 70 and "different C representations" in p.get("asn1c_out", ""):
        run.count("probe_rep_mismatch_refused")
        return
    if not p.get("exe"):
        run.violation("build:module", {"what": "the probe module with a constrained identifier field does not build", "module": PR4, "options": p["opts"],
                                       "asn1c_rc": p.get("asn1c_rc"), "asn1c_out": p.get("asn1c_out", "")[-1500:], "build_log": p.get("build_log", "")[-1500:]})
        return
    mis = rep_mismatch(p)
    lines = ["dec Frame %s %s" % (s, h) for s, h, _ in PR4_CASES]
    outs, crashes, leak = run_resilient(p["exe"], lines)
    for i, ((s, h, valid), l, o) in enumerate(zip(PR4_CASES, lines, outs)):
        run.case(p["fs"] + " " + l)
        ok = o.startswith("OK %d " % (len(h) // 2)) and (s != "ber" or o.split()[2] == h)
        if (valid and ok) or (not valid and o.startswith(("FAIL", "MORE"))):
            run.count("probe_rep_mismatch_" + ("valid_ok" if valid else "mismatch_fails"))
        elif mis and ((o == "CRASH" and REPMIS.search(crashes.get(i, ""))) or (valid and o.startswith(("FAIL", "MORE")))):
            run.known_finding("C18-identifier-representation-mismatch", l)
        else:
            run.violation("crash:constrained-identifier" if o == "CRASH" else "oracle:opentype_roundtrip(constrained identifier)",
                          {"module": PR4, "options": p["opts"], "command_line": l, "c": o, "what": "frame with a constrained identifier field: valid frame not returned / mismatch not refused",
                           "representation_mismatch": mis, "stderr_tail": crashes.get(i, "")[-2000:]})
    if leak is not None:
        run.violation("leak:constrained-identifier", {"module": PR4, "what": "sanitizer report at exit", "stderr_tail": leak[-2500:]})


def probe_inline_frame(run, p):
    """a frame written inline (asn1c used to abort on it: C18-inline-frame-assert, fixed): it must build, return valid frames
    and refuse mismatches like a frame that is a type of its own"""
    run.case(p["fs"] + " build PR3")
    if not p.get("exe"):
        run.violation("build:module", {"what": "the probe module with an inline frame does not build", "module": PR3, "options": p["opts"],
                                       "asn1c_rc": p.get("asn1c_rc"), "asn1c_out": p.get("asn1c_out", "")[-1500:], "build_log": p.get("build_log", "")[-1500:]})
        return
    lines = ["dec Frame ber " + h for h, _ in PR3_CASES]
    outs, crashes, leak = run_resilient(p["exe"], lines)
    for i, ((h, valid), l, o) in enumerate(zip(PR3_CASES, lines, outs)):
        run.case(p["fs"] + " " + l)
        good = o.startswith("OK %d %s " % (len(h) // 2, h)) if valid else o.startswith(("FAIL", "MORE"))
        if good:
            run.count("probe_inline_frame_ok")
        else:
            run.violation("crash:inline-frame" if o == "CRASH" else "oracle:opentype_roundtrip(inline)",
                          {"module": PR3, "options": p["opts"], "command_line": l, "c": o, "what": "inline frame: valid frame not returned / mismatch not refused",
                           "stderr_tail": crashes.get(i, "")[-2000:]})
    if leak is not None:
        run.violation("leak:inline-frame", {"module": PR3, "what": "sanitizer report at exit", "stderr_tail": leak[-2500:]})


def mrun(model, lines):
    if not lines:
        return []
    rc, out, err = run_lines(model, lines, timeout=1200)
    if rc != 0 or len(out) != len(lines):
        raise RuntimeError("model driver failed: rc=%s %d/%d %s" % (rc, len(out), len(lines), err))
    return out


def crun(run, m, lines, name):
    """C driver, restarted after crashes; a leak report at exit is a violation here"""
    outs, crashes, leak = run_resilient(m["exe"], lines)
    if leak is not None:
        # find the line: run them one by one (failure path only)
        bad = None
        for l in lines[:400]:
            rc, o, e = run_lines(m["exe"], [l], env=SAN_ENV, timeout=120)
            if rc != 0 and len(o) == 1:
                bad = l
                leak = e
                break
        run.violation("leak:" + name, {"what": "the driver answered every command but exited non-zero: LeakSanitizer (or another sanitizer at exit)",
                                       "module": m["text"], "command_line": bad, "stderr_tail": leak[-2500:]})
    return outs, crashes


def finding_for(m, row=None):
    """which recorded compile-level defect explains that a row of the set as written is not selectable"""
    if m["idkind"] == "oid":
        return "C18-oid-identifier"
    if row is not None and m.get("setstyle") == "mixed" and not any(row is r for r in comp_rows(m)):
        return "C18-set-reference-drops-objects"
    if row is not None and any(len(g) == 1 and g[0] is row for g in m["groups"]):
        return "C18-lone-object-dropped"
    return None


def ovals(p, vals):
    return " ".join("%d %s" % (p, val_str(v)) for v in vals)


def mutate(rng, hx):
    b = bytearray(bytes.fromhex(hx))
    k = rng.below(4)
    if k == 0 and len(b) > 1:
        return bytes(b[:rng.range(1, len(b) - 1)]).hex()
    if k == 1:
        i = rng.below(len(b))
        b[i] ^= 1 << rng.below(8)
        return bytes(b).hex()
    if k == 2:
        i = rng.below(len(b))
        b[i] = rng.below(256)
        return bytes(b).hex()
    i = rng.below(len(b))
    return bytes(b[:i] + bytes([rng.below(256)]) + b[i:]).hex()


def wide_rep(m):
    """INTEGER_t cells and an INTEGER_t identifier member: -fwide-types and an INTEGER / ENUMERATED identifier"""
    return m["rep"] == "wide" and m["idkind"] in ("int", "enum")


def value_cells(m):
    """every INTEGER / ENUMERATED value the table holds: identifiers and the settings of fixed-type value fields"""
    out = []
    for r in comp_rows(m):
        for fi, (k, v) in row_cells(m, r).items():
            if k == "val" and (fi != m["ic"] or m["idkind"] in ("int", "enum")):
                out.append(v)
    return out


def wide_refuses(m):
    """asn1c_ioc.c:emit_ioc_value writes INTEGER_t cells for 0..32767 only (the Python reading of that rule; the model's is emit_cell = None)"""
    return m["rep"] == "wide" and any(not (0 <= v <= 32767) for v in value_cells(m))


def expected_cell(m, fi, setting):
    """what the object set as written puts into cell (row, fi): (kind, asn_DEF name, C type, value)"""
    f = m["fields"][fi]
    k, v = setting
    if k == "type":
        return ("aioc__type", v, None, None)
    kind = m["idkind"] if f["kind"] == "id" else {"Crit": "enum", "INTEGER": "int"}[f["vtype"]]
    if kind == "oid":
        return ("aioc__value", "OBJECT_IDENTIFIER", "OBJECT_IDENTIFIER_t", ("octets", oid_contents(v)))
    wide = m["rep"] == "wide"
    d = ("INTEGER" if wide else "NativeInteger") if kind == "int" else ("Kind" if f["kind"] == "id" else "Crit")
    return ("aioc__value", d, "INTEGER_t" if wide else "long", ("octets", int_octets(v)) if wide else ("long", v))


def check_table(run, model, m):
    """(C) the emitted table read back from the generated C: the MATRIX SHAPE (rows x columns = emitted cells, columns = the fields
    of the class in class order), cell (r, c) = field c of object r of the set as written (Python's reading of the module it wrote),
    an unset field = the empty cell; and the same matrix from the model (OpenTypeMatrix.emit_dense of compile_objs), cell by cell"""
    kind, comp, fields = m["idkind"], comp_rows(m), m["fields"]
    n = len(fields)
    legacy = m.get("family") != "unset"        # (the frame model of OpenType.v needs objects that set the identifier and the members' types)
    mmx = mrun(model, ["c18mx %s %d %s" % ("wide" if m["rep"] == "wide" else "native", n, eset_tokens(m))])[0]
    mcells = mrun(model, ["c18cells " + frame_tokens(m, "wide" if wide_rep(m) else "comp")])[0] if legacy else ""
    replay = {"module": m["text"], "options": m["opts"], "model_cells": mcells[:600], "model_matrix": mmx[:900]}
    try:
        tables, sels = parse_ioc_tables(os.path.join(m["dir"], "Frame.c"))
    except (OSError, KeyError, IndexError, ValueError) as e:
        run.violation("oracle:table_as_written", dict(replay, what="generated Frame.c cannot be read back: %r" % (e,)))
        return
    run.case("%s table %s" % (m["fs"], m["name"]))
    if not comp:
        # no row survives (a one-row set): no table, no selector (finding C18-lone-object-dropped, met by the selector probes)
        if any(t["rows"] or t["ncells"] for t in tables.values()) or mcells != "EMPTY":
            run.violation("correspondence:OpenTypeCell.emit_table", dict(replay, what="a table was emitted for a set whose only object stands alone", c=str(tables)[:400]))
        return
    if len(tables) != 1:
        run.violation("oracle:table_as_written", dict(replay, what="expected exactly one asn_IOS_* table in Frame.c, found %d" % len(tables)))
        return
    (tname, t), = tables.items()
    bad = []
    if t["rows"] != len(comp) or t["cols"] != n or t["ncells"] != len(comp) * n or t["ncells"] != t["ncells_text"] or t["cells"] is None:
        bad.append("matrix shape: the header says rows_count=%s columns_count=%s, %s cells are emitted (%s initializers in the text); the set has %d objects x %d class fields = %d cells" %
                   (t["rows"], t["cols"], t["ncells"], t["ncells_text"], len(comp), n, len(comp) * n))
    # the selectors: one per open-type member, on this table, constrained by the identifier column, for the member's column
    for j, mem in enumerate(m["members"]):
        want = (tname, m["ic"], m["tcols"][m["mcols"][j]])
        if (sels.get("Frame_" + mem) or ())[:3] != want:
            bad.append("selector of member %s uses %s, expected %s" % (mem, sels.get("Frame_" + mem), want))
    if bad:
        run.violation("oracle:table_as_written", dict(replay, what="; ".join(bad),
                                                      input="any frame whose identifier belongs to a row at or after the first object that leaves a field unset"))
        return
    # the model's matrix: <rows> <cols> <cell>*
    mt = mmx.split()
    if mmx == "REFUSED" or len(mt) != 2 + len(comp) * n or mt[0] != str(len(comp)) or mt[1] != str(n):
        run.violation("correspondence:OpenTypeMatrix.emit_dense", dict(replay, what="the model's matrix is %s, the C table has %d x %d cells" % (mmx[:80], len(comp), n)), no_input=True)
        return
    # the legacy reading of the identifier column (OpenTypeCell.emit_table, what the frame decoders of the model use)
    mtoks = mcells.split()
    if legacy and len(mtoks) != len(comp):
        run.violation("correspondence:OpenTypeCell.emit_table", dict(replay, what="the model's table has %d rows, the C table %d" % (len(mtoks), len(comp))), no_input=True)
        return
    for i, (row, cells) in enumerate(zip(comp, t["cells"])):
        settings = row_cells(m, row)
        idtxt = id_text(kind, row["id"]) if row.get("id") is not None else "(unset)"
        for c, cell in enumerate(cells):
            f = fields[c]
            where = "row %d (identifier %s), column %d (%s)" % (i + 1, idtxt, c, f["name"])
            mtok = mt[2 + i * n + c]
            if cell["field"] != f["name"]:
                run.violation("oracle:table_as_written", dict(replay, what="%s: the cell is labelled %r: the cells are not in class order (the matrix is shifted)" % (where, cell["field"])))
                continue
            if c not in settings:
                run.count("table_cell_unset")
                if cell["kind"] is not None:
                    run.violation("oracle:table_as_written", dict(replay, what="%s: the object leaves the field unset, the cell holds %s" % (where, (cell["kind"], cell["def"]))))
                if mtok != "-":
                    run.violation("correspondence:OpenTypeMatrix.emit_dense", dict(replay, what="%s: empty in the C table, %s in the model's" % (where, mtok)), no_input=True)
                continue
            ekind, edef, ectype, evalue = expected_cell(m, c, settings[c])
            run.count("table_cell_%s" % (("octets" if m["rep"] == "wide" else (kind if f["kind"] == "id" else "value")) if ekind == "aioc__value" else "type"))
            if (cell["kind"], cell["def"], cell["ctype"]) != (ekind, edef, ectype):
                run.violation("oracle:table_as_written", dict(replay, what="%s: the cell is %s, the object set says %s" %
                                                              (where, (cell["kind"], cell["def"], cell["ctype"]), (ekind, edef, ectype))))
                continue
            if ekind == "aioc__type":
                if mtok != "T:" + edef:
                    run.violation("correspondence:OpenTypeMatrix.emit_dense", dict(replay, what="%s: type cell %s in the C table, %s in the model's" % (where, edef, mtok)), no_input=True)
                continue
            v = cell["value"]
            mv = ("long", int(mtok[1:-1])) if mtok.startswith("I") else ("octets", bytes.fromhex(mtok[1:-1])) if mtok.startswith("O") else ("bad", mtok)
            if v != mv:
                run.violation("correspondence:OpenTypeMatrix.emit_dense", dict(replay, what="%s: the emitted cell is %r, the model's matrix has %r" % (where, v, mv), c=str(v)), no_input=True)
            if f["kind"] == "id" and legacy:
                lt = mtoks[i]
                lv = ("long", int(lt[1:-1])) if lt.startswith("I") else ("octets", bytes.fromhex(lt[1:-1]))
                if v != lv:
                    run.violation("correspondence:OpenTypeCell.emit_table", dict(replay, what="%s: the emitted cell is %r, the model's emit_table gives %r" % (where, v, lv), c=str(v)),
                                  no_input=True)
                if kind == "oid":
                    if v != evalue:
                        run.known_finding("C18-oid-identifier", where)
                    continue
            if v != evalue:
                denotes = int.from_bytes(v[1], "big", signed=True) if v[0] == "octets" and v[1] else None
                run.violation("oracle:table_as_written", dict(replay, what="%s: the emitted cell is %r%s, the object set says %r" %
                                                              (where, v, " (denotes %d)" % denotes if denotes is not None else "", evalue),
                                                              input="identifier %s: a frame with it is refused; identifier %s is accepted in its place" % (idtxt, denotes)))


def check_module(run, rng, model, m, tier, depth):
    kind = m["idkind"]
    wide = wide_rep(m)
    Fc, Fs = frame_tokens(m, "wide" if wide else "comp"), frame_tokens(m, "spec")
    spec, comp = m["rows"], comp_rows(m)
    cidx = {id(r): i + 1 for i, r in enumerate(comp)}
    full = depth == "full"
    nv = (3 if tier == "quick" else 8) if full else 1
    if len(spec) > 12:
        nv = 1
    use_uper = m["per"] and kind != "enum"          # ENUMERATED in PER is outside the model: the C's own round trip covers it
    nmem = len(m["mcols"])
    fs = m["fs"]
    used = [r["id"] for r in spec]
    intlike = kind in ("int", "enum")
    pool = [x for x in (OID_IDS if kind == "oid" else INT_IDS) if x not in used]
    if intlike:
        pool = [x for x in [used[0] + 1, used[-1] - 1] if x not in used] + pool
    unknown = rng.shuffle(pool)[:3]
    # for every row identifier the identifiers a truncated / sign-flipped / re-interpreted cell would answer to
    derived = []
    if intlike:
        seen = set(used) | set(unknown)
        for r in spec:
            for x in derived_ids(r["id"]):
                if x not in seen:
                    seen.add(x)
                    derived.append(x)
        if not full or len(spec) > 40:
            derived = rng.shuffle(derived)[:40 if tier == "quick" else 120]

    check_table(run, model, m)

    # ---------------------------------------------------------------- (T) selector
    # probe = (identifier value or raw contents octets, row of the set as written or None, has an oracle)
    probe = [(r["id"], r, True) for r in spec] + [(u, None, True) for u in unknown + derived] + ([(b"", None, True)] if kind == "oid" else [])
    if intlike:
        for r in rng.shuffle(spec)[:3 if full else 1]:
            probe += [(nm, r, False) for nm in nonminimal(r["id"])]     # invalid BER contents: faithfulness only
    lines, mlc, mls = [], [], []
    for idv, row, orc in probe:
        lines.append("sel Frame %s" % id_universal_der(kind, idv).hex())
        if isinstance(idv, bytes) and intlike:
            z = int.from_bytes(idv, "big", signed=True)
            mlc.append("c18selraw %s %s" % (Fc, idv.hex()) if wide else "c18sel %s %s" % (Fc, id_val_str(kind, z)))
            mls.append("c18sel %s %s" % (Fs, id_val_str(kind, z)))
        else:
            mlc.append("c18sel %s %s" % (Fc, id_val_str(kind, idv)))
            mls.append("c18sel %s %s" % (Fs, id_val_str(kind, idv)))
    mo_c, mo_s = mrun(model, mlc), mrun(model, mls)
    # the same probes on the matrix model: the generated selector of every member on the flat array (class of any shape)
    es, nf, rp = eset_tokens(m), len(m["fields"]), ("wide" if m["rep"] == "wide" else "native")
    mlm = ["c18msel %s %d %d %d %s %s" % (rp, nf, m["ic"], m["tcols"][mc], es, id_val_str(kind, idv))
           for idv, row, orc in probe if not isinstance(idv, bytes) for mc in m["mcols"]]
    mo_m = iter(mrun(model, mlm))
    co, crashes = crun(run, m, lines, "sel")
    selectable = set()
    for (idv, row, orc), l, o, pc, ps in zip(probe, lines, co, mo_c, mo_s):
        if not isinstance(idv, bytes):
            mx = " ".join(next(mo_m) for _ in m["mcols"])
            cx = " ".join("0" if x.startswith("0:") else "%s:T:%s" % tuple(x.split(":")[:2]) for x in o.split()) if ":" in o else o
            if mx != cx:
                run.violation("correspondence:OpenTypeMatrix.select_flat", {"module": m["text"], "options": m["opts"], "identifier": id_text(kind, idv), "command_line": l, "c": o,
                                                                             "model_matrix_selector": mx, "what": "generated selector differs from select_flat on the model's dense matrix"},
                              no_input=True)
            if orc and intlike and o != "CRASH":
                # oracle, evaluated on the C output alone against Python's own reading of the module it wrote:
                # the first object of the set with this identifier, its types in the members' columns
                pyrow = next((r for r in spec if r["id"] == idv), None)
                got = [x.split(":")[1] for x in o.split()] if ":" in o and not o.startswith("0:") else None
                want_py = mtypes(m, pyrow) if pyrow is not None else None
                if got != want_py and not (pyrow is not None and finding_for(m, pyrow)):
                    run.violation("oracle:select_paired", {"module": m["text"], "options": m["opts"], "identifier": id_text(kind, idv), "command_line": l, "c": o,
                                                           "what": "the selector returns %s, the object set as written pairs the identifier with %s" % (got, want_py)})
        run.case(fs + " " + l)
        run.count("sel_" + ("nonminimal" if not orc else "row" if row else "norow"))
        if o == "CRASH":
            run.violation("crash:selector", {"module": m["text"], "options": m["opts"], "identifier": id_text(kind, idv) if not isinstance(idv, bytes) else idv.hex(), "command_line": l,
                                             "what": "the generated selector crashed (walk beyond the table, or an empty cell dereferenced)", "stderr_tail": crashes.get(probe.index((idv, row, orc)), "")[-2500:]})
            continue
        f = [x.split(":") for x in o.split()] if ":" in o else []
        ok_shape = len(f) == nmem and all(len(x) == 3 for x in f) and len(set(x[0] for x in f)) == 1
        replay = {"module": m["text"], "options": m["opts"], "identifier": id_text(kind, idv) if not isinstance(idv, bytes) else "(contents octets %s)" % (idv.hex() or "empty"),
                  "command_line": l, "c": o, "model_compiled_table": pc, "model_set_as_written": ps}
        if not ok_shape:
            run.violation("correspondence:OpenType.select", dict(replay, what="selector probe failed or the open-type members disagree about the row"))
            continue
        p = int(f[0][0])
        names = [x[1] for x in f]
        if str(p) != pc or (p and names != mtypes(m, comp[p - 1])):
            run.violation("correspondence:OpenType.select", dict(replay, what="generated selector differs from the model's select on the compiled table"),
                          no_input=(pc == ps or not orc))
            continue
        if not orc:
            continue
        # oracle: the row the set as written pairs with the identifier (types by name), none iff no row has it
        want = mtypes(m, spec[int(ps) - 1]) if ps != "0" else None
        got = names if p else None
        if want == got:
            if row is not None:
                selectable.add(id(row))
            continue
        fid = finding_for(m, row)
        if fid is None and kind == "oid":
            fid = "C18-oid-identifier"
        if fid:
            run.known_finding(fid, l)
        else:
            run.violation("oracle:select_paired", dict(replay, what="the selector does not return the row the object set pairs with the identifier"))

    # ---------------------------------------------------------------- (D) valid frames
    cases = []
    for r in spec:
        for _ in range(nv):
            vals = [value(m["trees"][tn], rng) for tn in mtypes(m, r)]
            cases.append({"row": r, "vals": vals})
    ml = []
    for c in cases:
        r = c["row"]
        if id(r) in cidx:
            c["p"] = cidx[id(r)]
            F, ps = Fc, c["p"]
        else:
            c["p"] = None
            F, ps = Fs, spec.index(r) + 1
        ml.append("c18der %s %s %s" % (F, id_val_str(kind, r["id"]), ovals(ps, c["vals"])))
        if use_uper:
            ml.append("c18uper %s %s %s" % (F, id_val_str(kind, r["id"]), ovals(ps, c["vals"])))
    mo = mrun(model, ml)
    k = 2 if use_uper else 1
    for i, c in enumerate(cases):
        c["der"], c["uper"] = mo[k * i], (mo[k * i + 1] if use_uper else None)
    cases = [c for c in cases if c["der"] != "NONE" and c["uper"] != "NONE"]
    seen = set()
    cases = [c for c in cases if not (c["der"] in seen or seen.add(c["der"]))]
    md0 = mrun(model, ["c18dec %s %s" % (Fc, c["der"]) for c in cases])
    md1 = mrun(model, ["c18dec %s %s" % (Fs, c["der"]) for c in cases])
    mu0 = mrun(model, ["c18uperdec %s %s" % (Fc, c["uper"]) for c in cases]) if use_uper else [None] * len(cases)
    lines = []
    for c in cases:
        lines.append("dec Frame ber %s" % c["der"])
        if use_uper:
            lines.append("dec Frame uper %s" % c["uper"])
    co, crashes = crun(run, m, lines, "valid-dec")
    for i, c in enumerate(cases):
        r = c["row"]
        for j, (s, mf) in enumerate((("ber", md0[i]), ("uper", mu0[i]))[:k]):
            o, l = co[k * i + j], lines[k * i + j]
            run.case(fs + " " + l)
            run.count("valid_" + s)
            enc = c["der"] if s == "ber" else c["uper"]
            replay = {"module": m["text"], "options": m["opts"], "row": r["types"], "identifier": id_text(kind, r["id"]), "values": [val_str(v) for v in c["vals"]],
                      "command_line": l, "c": o, "model_faithful": mf, "model_standard_ber": md1[i]}
            c_ok = o.startswith("OK %d %s ck=" % (len(enc) // 2, c["der"]))
            m_ok = mf.startswith("OK %d " % (len(enc) // 2))
            if o == "CRASH":
                run.violation("crash:valid-" + s, dict(replay, what="decoder crashed on a valid encoding", stderr_tail=crashes.get(k * i + j, "")[-2000:]))
                continue
            if c_ok != m_ok or (not c_ok and not o.startswith(("FAIL", "MORE"))):
                run.violation("correspondence:OpenType.%s_dec_frame" % s, dict(replay, what="C decoder and faithful model disagree on a valid frame"), no_input=c_ok)
                continue
            if s == "ber" and not md1[i].startswith("OK %d " % (len(enc) // 2)):
                run.violation("model:OpenType.ber_dec_frame", dict(replay, what="the standard reading of the model does not decode the model's own DER"), no_input=True)
            if c_ok:
                c["ok_" + s] = True
                continue
            # code = faithful model, and both refuse a valid frame: which recorded defect?
            fid = None
            if id(r) not in selectable:
                fid = finding_for(m, r)
            if fid:
                run.known_finding(fid, l)
            else:
                run.violation("oracle:opentype_roundtrip(%s)" % s, dict(replay, what="a valid frame is not decoded"))
    # encoders and the round-trip battery, through whichever transport works
    lines, meta = [], []
    for c in cases:
        tr = ("der", c["der"]) if c.get("ok_ber") else (("uper", c["uper"]) if c.get("ok_uper") else None)
        if not tr:
            continue
        c["tr"] = tr
        for cmd in ("xcode Frame %s %s der" % tr, "xcode Frame %s %s uper" % tr, "xcode Frame %s %s cxer" % tr, "rt Frame %s %s" % tr):
            lines.append(cmd)
            meta.append(c)
    co, crashes = crun(run, m, lines, "valid-enc")
    for k4 in range(0, len(lines), 4):
        c = meta[k4]
        r = c["row"]
        replay = {"module": m["text"], "options": m["opts"], "row": r["types"], "identifier": id_text(kind, r["id"]), "values": [val_str(v) for v in c["vals"]]}
        for j, (what, exp) in enumerate((("der_frame", c["der"]), ("uper_frame", c["uper"]))):
            if exp is None:
                if m["per"] and not co[k4 + j].startswith("OK "):
                    run.violation("oracle:uper_encode", dict(replay, what="UPER encoding of a valid frame failed", command_line=lines[k4 + j], c=co[k4 + j]))
                continue
            run.case(fs + " " + lines[k4 + j])
            run.count("enc_" + what)
            if co[k4 + j] != "OK " + exp:
                run.violation("correspondence:OpenType." + what, dict(replay, what="C encoder output differs from the model", command_line=lines[k4 + j], c=co[k4 + j], model=exp))
        if co[k4 + 2].startswith("OK "):
            c["xer"] = bytes.fromhex(co[k4 + 2][3:]).decode("latin-1")
            # XER: each open-type member holds the element of the selected row's type, by name
            for mem, tn in zip(m["members"], mtypes(m, r)):
                run.count("xer_element_name")
                if "<%s><%s>" % (mem, tn) not in c["xer"] and "<%s><%s/>" % (mem, tn) not in c["xer"]:
                    run.violation("oracle:xer_element_name", dict(replay, what="XER: member %s does not hold an element named after the selected row's type %s" % (mem, tn),
                                                                   command_line=lines[k4 + 2], xer=c["xer"][:600]))
        else:
            run.violation("oracle:xer_encode", dict(replay, what="XER encoding of a valid frame failed", command_line=lines[k4 + 2], c=co[k4 + 2]))
        run.case(fs + " " + lines[k4 + 3])
        for part in co[k4 + 3].split():
            syn, _, st = part.partition("=")
            run.count("rt_%s_%s" % (syn, st.split(":")[0]))
            if st == "OK" or syn == "coer":          # OER: OPEN_TYPE has no OER encoder; not part of the statement
                continue
            if syn == "cper" and not m["per"]:
                continue                              # -no-gen-PER
            mt = re.match(r"DEC:OK:(\d+)/(\d+)$", st)
            if syn == "xer" and mt and int(mt.group(1)) + 1 == int(mt.group(2)):
                continue                              # C01-xer-trailing-newline (recorded under C01); cxer covers the value
            run.violation("oracle:opentype_roundtrip(%s)" % syn, dict(replay, what="encode-then-decode does not return the frame: " + st,
                                                                     command_line=lines[k4 + 3], c=co[k4 + 3]))
        if "=" not in co[k4 + 3]:
            run.violation("oracle:opentype_roundtrip", dict(replay, what="round-trip battery failed", command_line=lines[k4 + 3], c=co[k4 + 3]))
    if cases:
        c = cases[0]
        run.sample({"module": m["name"], "options": m["opts"], "set": [(id_text(kind, r["id"]), r["types"]) for r in spec][:4], "der": c["der"][:80], "uper": (c["uper"] or "")[:60]})

    # ---------------------------------------------------------------- mismatches
    live = [c for c in cases if c.get("tr")]
    if not live:
        return
    byrow = {}
    for c in live:
        byrow.setdefault(id(c["row"]), []).append(c)
    syns = ("der", "uper") if use_uper else ("der",)
    mm = []          # kind, syntax, model encode line, selected comp row or None, source case
    nd = (6 if tier == "quick" else 30) if full else 2
    for u in unknown + rng.shuffle(derived)[:nd]:
        for c in (live[:2] + [live[-1]]) if u in unknown else [rng.choice(live)]:
            for s in syns:
                mm.append({"k": "noid", "s": s, "ml": "c18%s %s %s %s" % (s, Fc, id_val_str(kind, u), ovals(c["p"], c["vals"])), "a": None, "c": c, "u": u})
    rows_live = [r for r in comp if id(r) in byrow]
    pairs = [(a, b) for a in rows_live for b in rows_live if a is not b]
    if tier == "quick" or not full or len(pairs) > 60:
        pairs = rng.shuffle(pairs)[:(10 if tier == "quick" else 60) if full else 3]
    for a, b in pairs:
        for c in byrow[id(b)][:2]:
            for s in syns:
                mm.append({"k": "cross", "s": s, "ml": "c18%s %s %s %s" % (s, Fc, id_val_str(kind, a["id"]), ovals(c["p"], c["vals"])), "a": a, "c": c})
    for x, e in zip(mm, mrun(model, [x["ml"] for x in mm])):
        x["e"] = e
    mm = [x for x in mm if x["e"] != "NONE"]
    mdec = mrun(model, [("c18dec %s %s" % (Fc, x["e"])) if x["s"] == "der" else ("c18uperdec %s %s" % (Fc, x["e"])) for x in mm])
    lines = ["dec Frame %s %s" % ("ber" if x["s"] == "der" else "uper", x["e"]) for x in mm]
    co, crashes = crun(run, m, lines, "mismatch")
    reenc, reenc_meta, second = [], [], []
    for i, (x, l, o, mf) in enumerate(zip(mm, lines, co, mdec)):
        k, s, a = x["k"], x["s"], x["a"]
        run.case(fs + " " + l)
        run.count("mismatch_%s_%s" % (k, s))
        replay = {"module": m["text"], "options": m["opts"], "mismatch": k, "selected_row": a["types"] if a else None, "value_of_row": x["c"]["row"]["types"],
                  "identifier": id_text(kind, x["u"]) if a is None else id_text(kind, a["id"]), "command_line": l, "c": o, "model": mf}
        if o == "CRASH":
            run.violation("crash:mismatch", dict(replay, what="decoder crashed on an identifier/value mismatch", stderr_tail=crashes.get(i, "")[-2500:]))
            continue
        if mf == "FAIL":
            if o.startswith(("FAIL", "MORE")):
                run.count("mismatch_clean_fail")
                continue
            if k == "noid":
                run.violation("oracle:opentype_mismatch_fails", dict(replay, what="an identifier without a row was accepted"))
            else:
                # the reference decoders of the model are stricter than the C's on some invalid inputs (e.g. a
                # constrained-INTEGER field beyond its range): what C18 states is that the bytes are read as exactly the
                # selected row's type, so ask the C's decoder of that very type, standalone, about the same inner bytes
                second.append((x, l, o, replay))
            continue
        if k == "noid":
            run.violation("model:OpenType.dec_frame", dict(replay, what="the model accepts an identifier that has no row"), no_input=True)
            continue
        # the bytes happen to be an encoding of the selected row's type: the C must decode them as that type
        f = mf.split()
        reenc.append("c18der %s %s" % (Fc, " ".join(f[2:])))
        reenc_meta.append((replay, int(f[1]), o, x, l))
    for (replay, n, o, x, l), d in zip(reenc_meta, mrun(model, reenc)):
        run.count("mismatch_decodes_as_selected")
        if not o.startswith("OK %d %s " % (n, d)):
            # the shared reference decoder does not look at constraints (INTEGER -5 under a row of type INTEGER (0..4294967295): the C's
            # unsigned long member holds 251): what C18 states is that the bytes are read as exactly the selected row's type, so the C's
            # standalone decoder of that very type is asked about the same inner bytes (below); without an OK there it is a violation
            if o.startswith("OK %d " % n):
                second.append((x, l, o, replay))
            else:
                run.violation("correspondence:OpenType.dec_frame", dict(replay, what="bytes valid for the selected row's type: C result differs from the model's", model_der=d),
                              no_input=True)
    if second:
        ml, cl = [], []
        for x, l, o, replay in second:
            for col, v in enumerate(x["c"]["vals"]):
                ts = model_str(m["trees"][mtypes(m, x["c"]["row"])[col]])
                ml.append(("der %s %s" if x["s"] == "der" else "uper 0 %s %s") % (ts, val_str(v)))
        inner = mrun(model, ml)
        pos = 0
        for x, l, o, replay in second:
            x["inner"] = inner[pos:pos + nmem]
            pos += nmem
            for col, h in enumerate(x["inner"]):
                cl.append("dec %s %s %s" % (mtypes(m, x["a"])[col], "ber" if x["s"] == "der" else "uper", h))
        so, scr = crun(run, m, cl, "mismatch-second")
        pos = 0
        for x, l, o, replay in second:
            outs = so[pos:pos + nmem]
            pos += nmem
            # the frame's DER as the C printed it must carry exactly the standalone results
            ok = all(u.startswith("OK ") for u in outs) and all(u.split()[2] in o.split()[2] for u in outs)
            if ok:
                run.count("mismatch_inner_decoder_accepts")
            else:
                run.violation("correspondence:OpenType.%s_dec_frame" % ("ber" if x["s"] == "der" else "uper"),
                              dict(replay, what="C decodes bytes that do not decode as the selected row's type (neither for the model nor for the C's own decoder of that type)",
                                   standalone=outs), no_input=True)
    # the frame inside other types: member of a SEQUENCE and elements of a SEQUENCE OF (the selector gets the right parent)
    good = [c for c in live if c.get("ok_ber")]
    badf = [x["e"] for x, mf, o in zip(mm, mdec, co) if x["s"] == "der" and mf == "FAIL" and o.startswith(("FAIL", "MORE"))]
    if good:
        wl, wmeta = [], []
        for _ in range(3 if full else 1):
            inner = bytes.fromhex(rng.choice(good)["der"])
            elems = [bytes.fromhex(rng.choice(good)["der"]) for _ in range(rng.below(4))]
            w = wrap_der(m, inner, elems).hex()
            wl += ["dec Wrap ber " + w, "rt Wrap ber " + w]
            wmeta += [("valid", w), ("rt", w)]
            if badf:
                b = bytes.fromhex(rng.choice(badf))
                pos = rng.below(len(elems) + 2)
                w2 = (wrap_der(m, b, elems) if pos == 0 else wrap_der(m, inner, elems[:pos - 1] + [b] + elems[pos - 1:])).hex()
                wl.append("dec Wrap ber " + w2)
                wmeta.append(("bad", w2))
        wo, wcr = crun(run, m, wl, "nested")
        for i, (l, o, (what, w)) in enumerate(zip(wl, wo, wmeta)):
            run.case(fs + " " + l)
            run.count("nested_" + what)
            replay = {"module": m["text"], "options": m["opts"], "command_line": l, "c": o}
            if o == "CRASH":
                run.violation("crash:nested", dict(replay, what="decoder crashed on frames nested in a SEQUENCE / SEQUENCE OF", stderr_tail=wcr.get(i, "")[-2500:]))
            elif what == "valid" and not o.startswith("OK %d %s " % (len(w) // 2, w)):
                run.violation("oracle:opentype_roundtrip(nested)", dict(replay, what="valid frames inside a SEQUENCE and a SEQUENCE OF are not decoded and re-encoded"))
            elif what == "bad" and not o.startswith(("FAIL", "MORE")):
                run.violation("oracle:opentype_mismatch_fails(nested)", dict(replay, what="a frame with an identifier/value mismatch is accepted inside a SEQUENCE / SEQUENCE OF"))
            elif what == "rt":
                for part in o.split():
                    syn, _, st = part.partition("=")
                    if st == "OK" or syn == "coer" or (syn == "cper" and not m["per"]):
                        continue
                    mt = re.match(r"DEC:OK:(\d+)/(\d+)$", st)
                    if syn == "xer" and mt and int(mt.group(1)) + 1 == int(mt.group(2)):
                        continue
                    run.violation("oracle:opentype_roundtrip(nested,%s)" % syn, dict(replay, what="encode-then-decode of nested frames: " + st))
    # XER: the identifier text replaced in the C's own canonical XER
    lines, meta = [], []
    for c in live:
        if "xer" not in c:
            continue
        own = "<id>%s</id>" % id_xer(kind, c["row"]["id"])
        if own not in c["xer"]:
            run.violation("oracle:xer_shape", {"module": m["text"], "options": m["opts"], "what": "identifier element not found in the XER output", "xer": c["xer"][:400]})
            continue
        others = [(r["id"], r) for r in rows_live if r is not c["row"]][:3] + ([(unknown[0], None)] if kind != "enum" else [])
        if intlike and kind != "enum" and derived:
            others.insert(1, (rng.choice(derived), None))
        for oid_, r in others[:(2 if tier == "quick" else 4) if full else 1]:
            t = c["xer"].replace(own, "<id>%s</id>" % id_xer(kind, oid_))
            lines.append("dec Frame xer %s" % t.encode("latin-1").hex())
            meta.append((c, r))
    co, crashes = crun(run, m, lines, "mismatch-xer")
    for i, (l, o, (c, r)) in enumerate(zip(lines, co, meta)):
        run.case(fs + " " + l)
        run.count("mismatch_xer_" + ("cross" if r else "noid"))
        replay = {"module": m["text"], "options": m["opts"], "mismatch": "xer", "selected_row": r["types"] if r else None, "xer_of": c["row"]["types"], "command_line": l, "c": o}
        if o == "CRASH":
            run.violation("crash:mismatch-xer", dict(replay, what="XER decoder crashed on an identifier/value mismatch", stderr_tail=crashes.get(i, "")[-2500:]))
        elif o.startswith("OK"):
            # type names are distinct within a column: another row's element can never be the selected type's
            run.violation("oracle:opentype_mismatch_fails(xer)", dict(replay, what="XER value of one row accepted under another row's (or no row's) identifier"))
    # raw mutations: clean failure or a usable result
    lines = []
    nm = (40 if tier == "quick" else 300) if full else 8
    for _ in range(nm):
        c = rng.choice(live)
        if rng.chance(1, 2) or not use_uper:
            lines.append("dec Frame ber %s" % mutate(rng, c["der"]))
        elif "xer" in c and rng.chance(1, 3):
            lines.append("dec Frame xer %s" % mutate(rng, c["xer"].encode("latin-1").hex()))
        else:
            lines.append("dec Frame uper %s" % mutate(rng, c["uper"]))
    lines = sorted(set(lines))
    co, crashes = crun(run, m, lines, "mutation")
    for i, (l, o) in enumerate(zip(lines, co)):
        run.case(fs + " " + l)
        run.count("mutation_" + o.split()[0])
        if o == "CRASH":
            run.violation("crash:mutation", {"module": m["text"], "options": m["opts"], "what": "decoder crashed on a mutated encoding", "command_line": l, "stderr_tail": crashes.get(i, "")[-2500:]})
        elif not re.match(r"(OK|FAIL|MORE) \d+ \S+ ck=-?\d+$", o):
            run.violation("oracle:mutation", {"module": m["text"], "options": m["opts"], "what": "unexpected driver output on a mutated encoding", "command_line": l, "c": o})


UNSET_TYPE_SIG = re.compile(r"OPEN_TYPE_(ber|uper|xer|oer)_get")
UNSET_ID_SIG = re.compile(r"(SEGV|null pointer)(.*\n){0,10}?.*select_Frame_\w+_type")


def check_unset(run, rng, model, m, tier):
    """objects that leave the open-type member's type field, or the identifier field, unset (OPTIONAL class fields).
    The table must be the dense matrix with empty cells; the generated selector must be select_flat on it (an empty identifier
    cell = stuck = the C dies inside the selector); the oracle: an identifier whose object has a type decodes as that type and is
    returned byte for byte, an identifier whose object has no type (or no object) fails cleanly.  Where the unchanged tree
    does not do that, the model names the cause: SelRow with an empty type cell, a presence index that is not the row's
    alternative (c18alts), or a stuck selector: the recorded defects C18-unset-type-cell / C18-unset-identifier-cell."""
    kind, spec, fields = m["idkind"], m["rows"], m["fields"]
    fs, nf, es = m["fs"], len(fields), eset_tokens(m)
    rp = "wide" if m["rep"] == "wide" else "native"
    check_table(run, model, m)
    fc = m["tcols"][0]
    used = [r["id"] for r in spec if r["id"] is not None]
    unknown = [x for x in WIDE_IDS if x not in used][:2]
    probes = [(r["id"], r) for r in spec if r["id"] is not None] + [(u, None) for u in unknown]
    msel = mrun(model, ["c18msel %s %d %d %d %s %s" % (rp, nf, m["ic"], fc, es, id_val_str(kind, i)) for i, _ in probes])
    alts = mrun(model, ["c18alts %d %s" % (fc, es)])[0].split()
    lines = ["sel Frame %s" % id_universal_der(kind, i).hex() for i, _ in probes]
    co, crashes = crun(run, m, lines, "sel-unset")
    stuck = set()
    for k, ((idv, row), l, o, ms) in enumerate(zip(probes, lines, co, msel)):
        run.case(fs + " " + l)
        run.count("sel_unset_" + ("row" if row else "norow"))
        replay = {"module": m["text"], "options": m["opts"], "identifier": id_text(kind, idv), "command_line": l, "c": o, "model_matrix_selector": ms}
        if o == "CRASH":
            if ms == "STUCK" and UNSET_ID_SIG.search(crashes.get(k, "")):
                run.known_finding("C18-unset-identifier-cell", l)
                stuck.add(idv)
            else:
                run.violation("crash:selector", dict(replay, what="the generated selector crashed", stderr_tail=crashes.get(k, "")[-2500:]))
            continue
        f = o.split(":")
        cx = "0" if o.startswith("0:") else "%s:%s" % (f[0], "-" if f[1] == "-" else "T:" + f[1]) if len(f) == 3 else o
        if cx != ms:
            run.violation("correspondence:OpenTypeMatrix.select_flat", dict(replay, what="generated selector differs from select_flat on the model's dense matrix"), no_input=True)
            continue
        # oracle (Python's reading): the first object with this identifier and its type
        want = "0" if row is None else "%d:%s" % (spec.index(row) + 1, "T:" + row["types"][0] if row["types"][0] else "-")
        if cx != want:
            run.violation("oracle:select_paired", dict(replay, what="the selector returns %s, the object set as written says %s" % (cx, want)))
    # frames: AUTOMATIC TAGS: id [0] IMPLICIT, value [1] EXPLICIT <inner TLV>
    cases = []
    for idv, row in probes:
        for src in ([row] if row is not None and row["types"][0] else [r for r in spec if r["types"][0]][:1]):
            tn = src["types"][0]
            for _ in range(2 if tier == "quick" else 5):
                cases.append({"id": idv, "row": row, "tn": tn, "v": value(m["trees"][tn], rng)})
    inner = mrun(model, ["der %s %s" % (model_str(m["trees"][c["tn"]]), val_str(c["v"])) for c in cases])
    cases = [dict(c, inner=h) for c, h in zip(cases, inner) if h != "NONE"]
    for c in cases:
        ib = int_octets(c["id"])
        body = bytes([0x80 if kind == "int" else 0x80]) + der_len(len(ib)) + ib + b"\xa1" + der_len(len(c["inner"]) // 2) + bytes.fromhex(c["inner"])
        c["der"] = (b"\x30" + der_len(len(body)) + body).hex()
    seen = set()
    cases = [c for c in cases if not (c["der"] in seen or seen.add(c["der"]))]
    lines = ["dec Frame ber " + c["der"] for c in cases]
    co, crashes = crun(run, m, lines, "dec-unset")
    for k, (c, l, o) in enumerate(zip(cases, lines, co)):
        row = c["row"]
        run.case(fs + " " + l)
        has_type = row is not None and row["types"][0] is not None
        run.count("frame_unset_" + ("valid" if has_type else "notype" if row is not None else "norow"))
        replay = {"module": m["text"], "options": m["opts"], "identifier": id_text(kind, c["id"]), "value_of": c["tn"], "command_line": l, "c": o,
                  "stderr_tail": crashes.get(k, "")[-2500:] if o == "CRASH" else None}
        good = o.startswith("OK %d %s ck=" % (len(c["der"]) // 2, c["der"])) if has_type else o.startswith(("FAIL", "MORE"))
        if good:
            run.count("frame_unset_as_stated")
            continue
        # the causes the model knows
        if c["id"] in stuck and o == "CRASH" and UNSET_ID_SIG.search(crashes.get(k, "")):
            run.known_finding("C18-unset-identifier-cell", l)
        elif row is not None and not has_type and o == "CRASH" and UNSET_TYPE_SIG.search(crashes.get(k, "")):
            run.known_finding("C18-unset-type-cell", l)              # SelRow r None: the NULL type descriptor is used
        elif has_type and (spec.index(row) >= len(alts) or alts[spec.index(row)] != "T:" + row["types"][0]):
            # presence_index = row + 1 is not the row's alternative: the value is stored under another row's alternative
            # (or beyond the member array): refused, garbled, or a crash wherever the confused structure is used next
            run.known_finding("C18-unset-type-cell", l)
        else:
            run.violation("crash:unset-field" if o == "CRASH" else "oracle:opentype_roundtrip(unset field)",
                          dict(replay, what="a frame of a set with unset OPTIONAL fields: %s" %
                               ("valid frame not returned byte for byte" if has_type else "identifier without a type (or without an object) not refused cleanly")))


# option sets that change the representation of the object-set table, of the identifier member or of the open-type holder
# (name, options, which modules: all | simple = the modules whose row types cannot clash without -fcompound-names)
FLAGSETS = {
    "quick": [("cn", ("-fcompound-names",), "all"), ("wide", ("-fwide-types", "-fcompound-names"), "all"),
              ("plain", (), "simple"), ("wplain", ("-fwide-types",), "simple")],
    "thorough": [("cn", ("-fcompound-names",), "all"), ("wide", ("-fwide-types", "-fcompound-names"), "all"),
                 ("plain", (), "all"), ("wplain", ("-fwide-types",), "all"),
                 ("ind", ("-findirect-choice", "-fcompound-names"), "all"), ("noper", ("-no-gen-PER", "-fcompound-names"), "all"),
                 ("nooer", ("-no-gen-OER", "-fcompound-names"), "all"), ("wi", ("-fwide-types", "-fcompound-names", "-findirect-choice"), "all")],
}


def corpus(rng, tier):
    """(module, primary option set) list; a module is checked in full under its primary option set and lightly under the others"""
    g = C18Gen(rng)
    q = tier == "quick"
    mods = []
    nreg = 6 if q else 40
    for i in range(nreg):
        # every other regular module draws its identifiers from what -fwide-types accepts, so that it is checked (not just refused) there
        smallpool = i % 2 == 1
        mods.append((g.module("M%d" % i, idpool=WIDE_IDS if smallpool else None), "wide" if smallpool and i % 4 == 3 else "cn"))
    # identifiers at the representation boundaries, ascending / descending / shuffled; more than 16 rows
    orders = [rng.choice(["asc", "desc", None])] if q else ["asc", "desc", None]
    for i, o in enumerate(orders):
        mods.append((g.module("MB%d" % i, ids=sorted(BOUNDARY_IDS) if o == "asc" else sorted(BOUNDARY_IDS, reverse=True) if o == "desc" else rng.shuffle(BOUNDARY_IDS),
                              ncols=1, simple=True, untagged=False), "cn"))
    orders = [rng.choice(["asc", "desc", None])] if q else ["asc", "desc", None]
    for i, o in enumerate(orders):
        ids = WIDE_BOUNDARY_IDS + rng.shuffle([x for x in WIDE_IDS if x not in WIDE_BOUNDARY_IDS])[:10]
        ids = sorted(ids) if o == "asc" else sorted(ids, reverse=True) if o == "desc" else rng.shuffle(ids)
        mods.append((g.module("MW%d" % i, ids=ids, ncols=1, simple=True, untagged=False), "wide"))
    for i in range(2 if q else 4):
        mods.append((g.module("ME%d" % i, idkind="enum", idpool=ENUM_IDS if i % 2 == 0 else [x for x in ENUM_IDS if 0 <= x <= 32767], untagged=False),
                     "cn" if i % 2 == 0 else "wide"))
    for i in range(1 if q else 3):
        mods.append((g.module("MS%d" % i, samecol=True, idpool=WIDE_IDS, untagged=False), "wide" if i % 2 == 0 else "cn"))
    mods += [(g.module("MU%d" % i, untagged=True, idpool=WIDE_IDS if i % 2 else None), "cn") for i in range(1 if q else 4)]
    mods += [(g.module("MO%d" % i, idkind="oid", untagged=False), "cn") for i in range(1 if q else 4)]
    mods += [(g.module("ML0", lone=True, nrows=1, untagged=False), "cn")]
    mods += [(g.module("ML%d" % i, lone=True, untagged=False, idpool=WIDE_IDS if i % 2 == 0 else None), "cn") for i in range(1, 2 if q else 5)]
    # ---- classes of any shape (round 3): directed shapes first, every subset of the optional fields, then random
    directed = [("one", "incomplete-first", "cn"), ("one", "complete-first", "wide"), ("first", "alternate", "cn"), ("typefirst", None, "wide"),
                ("two", None, "cn"), ("nested", "incomplete-first", "cn"), ("joint", "alternate", "wide"), ("auxopt", None, "cn")]
    for i, (d, o, prim) in enumerate(directed):
        mods.append((shape_module(g, "MC%d" % i, directed=d, presence="every", rowsorder=o, idpool=WIDE_IDS if prim == "wide" or i % 2 else None,
                                  ncols=1 if q and i % 3 else None, setstyle="objrefs" if i == 5 else "plain"), prim))
    for i in range(2 if q else 16):
        mods.append((shape_module(g, "MD%d" % i, presence=rng.choice(["random", "random", "every"]), rowsorder=rng.choice([None, "incomplete-first", "alternate"]),
                                  idpool=WIDE_IDS if i % 2 else None, idkind="enum" if i % 4 == 1 else "int", bigvals=(i % 4 == 2),
                                  untagged=(i % 8 == 6)), "wide" if i % 4 == 3 else "cn"))
    # sets made of other sets, and of other sets next to objects (the objects are lost: C18-set-reference-drops-objects)
    # (the rows of a referenced set are CLONED into the referencing one, asn1p_class.c:asn1p_ioc_row_clone: optional fields before
    #  mandatory ones, every subset of them inside the referenced sets)
    styles = ["refs", "refsext", "mixed"] if q else ["refs", "refsext", "mixed", "mixed", "refs", "mixed", "refsext", "refs"]
    shapes = ["first", "two", "typefirst", None, "one", "nested", "joint", None]
    for i, st in enumerate(styles):
        mods.append((shape_module(g, "MR%d" % i, setstyle=st, presence="every" if i % 4 != 3 else "random", nrows=rng.choice([6, 7, 8]), idpool=WIDE_IDS,
                                  rowsorder=rng.choice([None, "alternate", "incomplete-first"]), directed=shapes[(i + (0 if q else rng.below(3))) % len(shapes)]),
                     "cn" if i % 2 == 0 else "wide"))
    # an OPTIONAL type field the member uses / an OPTIONAL identifier field, unset by some object (recorded defects, judged by check_unset)
    for i in range(2 if q else 6):
        mq = shape_module(g, "MQ%d" % i, ncols=1, presence="every", rowsorder=rng.choice([None, "alternate", "complete-first"]), nrows=rng.choice([4, 5, 6]),
                          idpool=[x for x in WIDE_IDS if x < 128], **({"optional_types": (0,), "directed": rng.choice(["one", "two", None])} if i % 2 == 0 else {"idopt": True}))
        mq["family"] = "unset"
        mods.append((mq, "cn"))
    # ---- round 4: the SHAPE of the governing SEQUENCE (member names related by prefix / suffix / case, several class-field members,
    # two open types governed by different members, OPTIONAL / late identifiers, dotted references), directed first, random after
    for i, (tag, ms) in enumerate(DIRECTED_SHAPES):
        mods.append((frame_shape_module("MF%d" % i, ms, tag), "cn" if i % 3 else "wide"))
    for i in range(4 if q else 20):
        mods.append((frame_shape_module("MG%d" % i, random_shape(rng)), "cn" if i % 2 == 0 else "wide"))
    # ---- round 4: rows whose type has a zero-bit / zero-octet encoding next to rows of 1, 2, 3 octets
    zorders = [None, rng.choice(["zero-last", "shuffled", "alternate"])] if q else [None, "zero-last", "shuffled", "alternate"]
    for i, o in enumerate(zorders):
        mods.append((zero_module("MZ%d" % i, rng, order=o), "cn" if i % 2 == 0 else "wide"))
    if not q:
        # many rows (presence index beyond one octet)
        mods.append((g.module("MX0", ids=[7 * i for i in range(300)], ncols=1, simple=True, untagged=False), "wide"))
        mods.append((g.module("MX1", ids=rng.shuffle([109 * i - 9000 for i in range(40)]), ncols=2, simple=True, untagged=False), "cn"))
    return mods


def main(tier):
    run = Run("C18", tier)
    # entries of the fragment that bin/mkmanifest has not assembled into known_findings.json yet
    fp = os.path.join(VERIF, "findings.d", "C18.json")
    if os.path.exists(fp):
        have_ids = {f["id"] for f in run.findings}
        run.findings += [f for f in json.load(open(fp)) if f.get("status") == "open" and f["id"] not in have_ids]
    rng = Rng(run.seed)
    ok, out = coq_build()
    nthm, ndis, axioms, names, plog = obligations("C18") if ok else (0, 0, set(), [], out)
    gate = grep_gate()
    if not ok or ndis != nthm or gate:
        run.violation("proof:Properties_C18", {"what": "Coq development does not build or an obligation is open",
                                               "log_tail": (out if not ok else plog)[-2000:], "grep_gate": gate}, no_input=True)
    model = model_build()
    base = corpus(rng, tier)
    probes0 = [{"name": t.split()[0], "text": t, "defs": [("Frame", None)], "probe": fid} for fid, t in PROBES.items()]
    probes0 += [{"name": n, "text": t, "defs": [("Frame", None)], "probe": None} for n, t in (("PR1", PR1), ("PR2", PR2), ("PR3", PR3), ("PR4", PR4), ("PR5", PR5))]
    built = []
    for fs, opts, which in FLAGSETS[tier]:
        rep = "wide" if "-fwide-types" in opts else "native"
        info = {"fs": fs, "opts": " ".join(opts) or "(none)", "rep": rep, "per": "-no-gen-PER" not in opts}
        mods = [dict(m, primary=(prim == fs), **info) for m, prim in base if which == "all" or m["simple"]]
        # the build-level probes do not depend on the options; the run-time probes do (PR2 under both representations)
        probes = [dict(p, **info) for p in probes0 if fs == "cn" or (p["name"] in ("PR2", "PR3", "PR4") and fs == "wide")]
        try:
            build_modules(mods + probes, tag="c18_" + fs, opts=opts, moddrv_extra=EXTRA)
        except BuildError as e:
            run.violation("build", {"what": str(e)[-2500:], "options": info["opts"]}, no_input=True)
            return run.finish("proof", (nthm, ndis))
        built.append((mods, probes))
    nmods = 0
    # ---- round 5: rows whose own encoding straddles the X.691 11.9 fragmentation boundaries (own driver commands: own build)
    bigmods = [dict(big_module("MV%d" % i), fs=fs, opts=" ".join(o)) for i, (fs, o, _) in enumerate(FLAGSETS[tier][:1 if tier == "quick" else 2])]
    for bm, (fs, o, _) in zip(bigmods, FLAGSETS[tier]):
        try:
            build_modules([bm], tag="c18v_" + fs, opts=o, moddrv_extra=c18v_layer.EXTRA_V)
        except BuildError as e:
            run.violation("build", {"what": str(e)[-2500:], "options": bm["opts"]}, no_input=True)
            continue
        nmods += 1
        run.count("modules_%s_bigrow" % fs)
        c18v_layer.check_big(run, Rng(run.seed * 7919 + 18005 + len(fs)), model, bm, tier, mrun)
        c18v_layer.check_big_oer(run, Rng(run.seed * 7919 + 18105 + len(fs)), bm, tier)
    for mods, probes in built:
        for p in probes:
            run.case("%s build %s" % (p["fs"], p["name"]))
            if p["name"] == "PR3":
                probe_inline_frame(run, p)
            elif p["name"] == "PR4":
                probe_rep_mismatch(run, p)
            elif p["name"] == "PR5":
                probe_recursive_row(run, p)
            elif p["probe"] is None:
                if p.get("exe"):
                    (probe_optional_open_type if p["name"] == "PR1" else probe_id_after_open_type)(run, p)
                else:
                    run.violation("build:module", {"what": "a run-time probe module does not build", "module": p["text"], "options": p["opts"],
                                                   "asn1c_out": p.get("asn1c_out", "")[-1500:], "build_log": p.get("build_log", "")[-1500:]})
            elif p.get("exe"):
                run.count("probe_builds")
            else:
                run.known_finding(p["probe"], p["name"])
        for m in mods:
            if m.get("family") == "frameshape":
                nmods += 1
                run.count("modules_%s_frameshape" % m["fs"])
                c18w_layer.check_shape(run, rng, model, m, tier, light=not m["primary"])
                continue
            nmods += 1
            run.count("modules_%s_%s%s%s" % (m["fs"], m["idkind"], "_untagged" if m["untagged"] else "", "_lone" if m["lone"] else ""))
            run.count("rows_%d" % len(m["rows"]) if len(m["rows"]) <= 8 else "rows_9+")
            run.count("members_%d%s" % (len(m["mcols"]), "_samecol" if len(set(m["mcols"])) < len(m["mcols"]) else ""))
            run.count("set_" + ("extensible" if m["ext"] else "closed"))
            run.count("idfield_" + ("%s_%d..%d" % ((m["idkind"],) + m["idcon"]) if m["idcon"] else m["idkind"]))
            if m["fs"] == "cn":
                run.count("class_fields_%d" % len(m["fields"]))
                run.count("class_idcolumn_%d" % m["ic"])
                run.count("class_shape_" + m["shape"])
                run.count("set_style_" + m["setstyle"])
                run.count("objects_incomplete_%s" % ("0" if not m.get("incomplete") else "1" if m["incomplete"] == 1 else "2+"))
                for f in m["fields"]:
                    if f["kind"] != "id":
                        run.count("class_field_%s_%s" % (f["kind"], (f["opt"] or "mandatory").lower()))
            run.case("%s build %s" % (m["fs"], m["name"]))
            replay = {"module": m["text"], "options": m["opts"], "asn1c_rc": m.get("asn1c_rc"), "asn1c_out": m.get("asn1c_out", "")[-1500:],
                      "build_log": m.get("build_log", "")[-1500:]}
            if m["rep"] == "wide" and (wide_rep(m) or m["shape"] != "legacy"):
                # the model's emitter and the compiler must refuse the same sets (a value cell outside 0..32767), the compiler with a diagnostic
                mref = mrun(model, ["c18mx wide %d %s" % (len(m["fields"]), eset_tokens(m))])[0] == "REFUSED"
                if mref != wide_refuses(m):
                    run.violation("model:OpenTypeCell.emit_table", dict(replay, what="the model's INTEGER_t emitter and the rule 0..32767 disagree"), no_input=True)
                if mref:
                    run.count("wide_refused")
                    if m.get("asn1c_rc") == 0:
                        run.violation("correspondence:OpenTypeCell.emit_table",
                                      dict(replay, what="asn1c emitted INTEGER_t identifier cells for a set the model's emitter refuses (an identifier outside 0..32767)"))
                    elif m.get("asn1c_rc", 0) < 0 or "Unsupported value" not in m.get("asn1c_out", ""):
                        run.violation("oracle:clean_refusal", dict(replay, what="asn1c did not refuse an unsupported identifier value with its diagnostic (signal, or no message)"))
                    continue
            if m.get("asn1c_rc") == 70 and "-fcompound-names" not in m["opts"] and 'Use "-fcompound-names" flag' in m.get("asn1c_out", ""):
                run.count("skipped_name_clash_without_compound_names")       # a clean refusal with advice; the same module is checked under the other sets
                continue
            if not m.get("exe"):
                run.violation("build:module", dict(replay, what="asn1c rejected a generated class/object-set module or its output does not compile"))
                continue
            if rep_mismatch(m):
                # type-confused generated code has no faithful model: the recorded defect, as long as no row is ever selected
                outs, crashes, leak = run_resilient(m["exe"], ["sel Frame %s" % id_universal_der(m["idkind"], r["id"]).hex() for r in comp_rows(m)])
                if all(re.match(r"0:-:-( 0:-:-)*$", o) for o in outs) and not crashes:
                    run.known_finding("C18-identifier-representation-mismatch", m["name"])
                else:
                    run.violation("correspondence:OpenType.select", dict(replay, what="identifier member and cells have different C representations and the selector answers", c=outs[:6]))
                continue
            if m.get("family") == "unset":
                if m["primary"]:
                    check_unset(run, rng, model, m, tier)
                else:
                    check_table(run, model, m)
                continue
            check_module(run, rng, model, m, tier, "full" if m["primary"] else "light")
            if m.get("zero") and (m["primary"] or m["fs"] in ("cn", "wide")):
                c18w_layer.check_zero(run, model, m, frame_tokens(m, "wide" if wide_rep(m) else "comp"), tier)
    tb = ["Coq 8.16.1 kernel; vm_compute for refuted witnesses and Examples",
          "axioms under Print Assumptions: " + (", ".join(sorted(axioms)) or "none (Closed under the global context)"),
          "extraction: ExtrOcamlBasic only, per-area files; OCaml 4.13.1; zarith for I/O",
          "lib/c18_util.py (module generator; effective tags of the frame members and the object-set structure given to the model; reader of the generated asn_IOS_* tables), lib/modgen.py",
          "harness/moddrv.c + harness/moddrv_c18.inc (`sel` reaches the generated selector through the member table), lib/modbuild.py; gcc + ASan/UBSan/LSan",
          "XER is not modelled: XER round trips and mismatches are evaluated on the C alone",
          "lib/c18v_util.py (Python's own X.691 11.9 fragmentation: expected UPER of frames with big rows), harness/moddrv_c18v.inc (value builder from a short program, crc32)"]
    return run.finish("proof", (nthm, ndis), trusted_base=tb,
                      checker_cmd="make -C /verif all && coqc -Q coq A1 coq/Props/Properties_C18.v",
                      extra_cov={"theorems": names, "modules": nmods, "option_sets": [" ".join(o) or "(none)" for _, o, _ in FLAGSETS[tier]],
                                 "rule": "one case = one driver command under one option set: table read-back, selector probe, decode of a valid frame (BER/UPER), encoder output, round-trip battery, one mismatch, one nested frame or one mutated encoding; all distinct",
                                 "traces_validated_against_impl": run.cov["evaluations"]},
                      assumptions=["theorems cover the selector, the encoding of identifier cells and DER/BER of a frame SEQUENCE { id, open-type members }; UPER is modelled and tied, not proved; XER is tied on the C alone",
                                   "row types are named types of the modelled algebra; identifiers are INTEGER, ENUMERATED or OBJECT IDENTIFIER values; the identifier member precedes the open-type members (the other order is a recorded finding, probe PR2)",
                                   "leaks are observed by LeakSanitizer at process exit, not proved"])


if __name__ == "__main__":
    sys.exit(main(sys.argv[1] if len(sys.argv) > 1 else "quick"))
