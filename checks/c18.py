"""C18 — open types governed by an information object set.
Theorems: coq/Props/Properties_C18.v over coq/Rt/OpenType.v (selector, DER/BER of
a frame SEQUENCE { id, open-type members }, table compilation).
Tie: generated CLASS / object-set modules (lib/c18_util.py) compiled by the asn1c
of the working tree; per module
 (T) the generated selector, called through the member table (`sel`), against the
     model's select on the compiled table (faithfulness) and on the set as written
     (oracle);
 (D) valid frames: the model's DER / UPER are the transport; C decode, re-encode in
     every syntax, round-trip battery; mismatches: identifier without a row,
     identifier of row i with the value of row j (BER, UPER, XER), bit flips and
     truncations; everything under ASan/UBSan/LSan, the driver restarted after a crash."""
import sys, os, re, json
sys.path.insert(0, os.path.join(os.path.dirname(os.path.abspath(__file__)), "..", "lib"))
from vlib import *
from modbuild import *
from c18_util import *

EXTRA = os.path.join(HARNESS, "moddrv_c18.inc")

PROBES = {
    # build-level defects of the class/object-set support, outside the generator's shape
    "C18-builtin-row-type": """PB1 DEFINITIONS AUTOMATIC TAGS ::= BEGIN
  MY-CLASS ::= CLASS { &id INTEGER UNIQUE, &Type } WITH SYNTAX { ID &id TYPE &Type }
  MySet MY-CLASS ::= { { ID 1 TYPE INTEGER } | { ID 2 TYPE R2 } }
  R2 ::= OCTET STRING
  Frame ::= SEQUENCE { id MY-CLASS.&id({MySet}), value MY-CLASS.&Type({MySet}{@id}) }
END
""",
    "C18-duplicate-row-type": """PB2 DEFINITIONS AUTOMATIC TAGS ::= BEGIN
  MY-CLASS ::= CLASS { &id INTEGER UNIQUE, &Type } WITH SYNTAX { ID &id TYPE &Type }
  MySet MY-CLASS ::= { { ID 1 TYPE R1 } | { ID 2 TYPE R1 } }
  R1 ::= OCTET STRING
  Frame ::= SEQUENCE { id MY-CLASS.&id({MySet}), value MY-CLASS.&Type({MySet}{@id}) }
END
""",
}


# run-time probe: an OPTIONAL open-type member (ATF_POINTER), a shape the generator does not emit
PR1 = """PR1 DEFINITIONS ::= BEGIN
  MY-CLASS ::= CLASS { &id INTEGER UNIQUE, &Type } WITH SYNTAX { ID &id TYPE &Type }
  Int ::= INTEGER
  Boo ::= BOOLEAN
  MySet MY-CLASS ::= { { ID 1 TYPE Int } | { ID 2 TYPE Boo } }
  Frame ::= SEQUENCE { id MY-CLASS.&id({MySet}), val2 [1] MY-CLASS.&Type({MySet}{@id}) OPTIONAL, tail [2] INTEGER OPTIONAL }
END
"""
PR1_CASES = [("3003020101", True), ("3008020101a203020109", True),            # open type absent
             ("3008020101a103020105", False), ("3008020102a1030101ff", False),   # present: row 1 (INTEGER 5), row 2 (TRUE)
             ("300d020101a103020105a203020109", False)]
NULLCONT = re.compile(r"SEGV on unknown address 0x0000000000[0-9a-f]{2} .*\n(.*\n){0,12}?.*OPEN_TYPE_ber_get")


def probe_optional_open_type(run, p):
    """finding C18-optional-open-type-null-container: OPEN_TYPE_ber_get computes the inner value's address from the NULL
    container pointer of an ATF_POINTER member.  Known while the decoder dies exactly that way; a clean DER round trip is
    the repaired behaviour; anything else is a violation."""
    lines = ["dec Frame ber " + h for h, _ in PR1_CASES]
    outs, crashes, leak = run_resilient(p["exe"], lines)
    for i, ((h, absent), l, o) in enumerate(zip(PR1_CASES, lines, outs)):
        run.case(l)
        if o.startswith("OK %d %s ck=0" % (len(h) // 2, h)):
            run.count("probe_optional_open_type_" + ("absent_ok" if absent else "present_ok"))
        elif o == "CRASH" and not absent and NULLCONT.search(crashes.get(i, "")):
            run.known_finding("C18-optional-open-type-null-container", l)
        else:
            run.violation("crash:optional-open-type" if o == "CRASH" else "oracle:opentype_roundtrip(optional)",
                          {"module": PR1, "command_line": l, "c": o, "what": "a valid frame with an OPTIONAL open-type member is not decoded and re-encoded",
                           "stderr_tail": crashes.get(i, "")[-2500:]})
    if leak is not None:
        run.violation("leak:optional-open-type", {"module": PR1, "what": "sanitizer report at exit", "stderr_tail": leak[-2500:]})


def mrun(model, lines):
    if not lines:
        return []
    rc, out, err = run_lines(model, lines, timeout=1200)
    if rc != 0 or len(out) != len(lines):
        raise RuntimeError("model driver failed: rc=%s %d/%d %s" % (rc, len(out), len(lines), err))
    return out


def crun(run, m, lines, name):
    """C driver, restarted after crashes; a leak report at exit is a violation here"""
    outs, crashes, leak = run_resilient(m["exe"], lines)
    if leak is not None:
        # find the line: run them one by one (failure path only)
        bad = None
        for l in lines[:400]:
            rc, o, e = run_lines(m["exe"], [l], env=SAN_ENV, timeout=120)
            if rc != 0 and len(o) == 1:
                bad = l
                leak = e
                break
        run.violation("leak:" + name, {"what": "the driver answered every command but exited non-zero: LeakSanitizer (or another sanitizer at exit)",
                                       "module": m["text"], "command_line": bad, "stderr_tail": leak[-2500:]})
    return outs, crashes


def finding_for(m, row=None):
    """which recorded compile-level defect explains that a row of the set as written is not selectable"""
    if m["idkind"] == "oid":
        return "C18-oid-identifier"
    if row is not None and any(len(g) == 1 and g[0] is row for g in m["groups"]):
        return "C18-lone-object-dropped"
    return None


def ovals(p, vals):
    return " ".join("%d %s" % (p, val_str(v)) for v in vals)


def mutate(rng, hx):
    b = bytearray(bytes.fromhex(hx))
    k = rng.below(4)
    if k == 0 and len(b) > 1:
        return bytes(b[:rng.range(1, len(b) - 1)]).hex()
    if k == 1:
        i = rng.below(len(b))
        b[i] ^= 1 << rng.below(8)
        return bytes(b).hex()
    if k == 2:
        i = rng.below(len(b))
        b[i] = rng.below(256)
        return bytes(b).hex()
    i = rng.below(len(b))
    return bytes(b[:i] + bytes([rng.below(256)]) + b[i:]).hex()


def check_module(run, rng, model, m, tier):
    kind = m["idkind"]
    Fc, Fs = frame_tokens(m, "comp"), frame_tokens(m, "spec")
    spec, comp = m["rows"], comp_rows(m)
    cidx = {id(r): i + 1 for i, r in enumerate(comp)}
    tagged = not m["untagged"]
    nv = 3 if tier == "quick" else 8
    used = [r["id"] for r in spec]
    pool = [x for x in (INT_IDS if kind == "int" else OID_IDS) if x not in used]
    if kind == "int":
        pool = [x for x in [used[0] + 1, used[-1] - 1] if x not in used] + pool
    unknown = rng.shuffle(pool)[:3]

    # ---------------------------------------------------------------- (T) selector
    probe = [(r["id"], r) for r in spec] + [(u, None) for u in unknown] + ([(b"", None)] if kind == "oid" else [])
    lines = ["sel Frame %s" % id_universal_der(kind, i).hex() for i, _ in probe]
    mo_c = mrun(model, ["c18sel %s %s" % (Fc, id_val_str(kind, i)) for i, _ in probe])
    mo_s = mrun(model, ["c18sel %s %s" % (Fs, id_val_str(kind, i)) for i, _ in probe])
    co, crashes = crun(run, m, lines, "sel")
    selectable = set()
    for (idv, row), l, o, pc, ps in zip(probe, lines, co, mo_c, mo_s):
        run.case(l)
        run.count("sel_" + ("row" if row else "norow"))
        f = [x.split(":") for x in o.split()] if ":" in o else []
        ok_shape = len(f) == m["ncols"] and all(len(x) == 3 for x in f) and len(set(x[0] for x in f)) == 1
        replay = {"module": m["text"], "identifier": id_text(kind, idv) if not isinstance(idv, bytes) else "(empty contents)", "command_line": l, "c": o,
                  "model_compiled_table": pc, "model_set_as_written": ps}
        if not ok_shape:
            run.violation("correspondence:OpenType.select", dict(replay, what="selector probe failed or the open-type members disagree about the row"))
            continue
        p = int(f[0][0])
        names = [x[1] for x in f]
        if str(p) != pc or (p and names != comp[p - 1]["types"]):
            run.violation("correspondence:OpenType.select", dict(replay, what="generated selector differs from the model's select on the compiled table"),
                          no_input=(pc == ps))
            continue
        # oracle: the row the set as written pairs with the identifier (types by name), none iff no row has it
        want = spec[int(ps) - 1]["types"] if ps != "0" else None
        got = names if p else None
        if want == got:
            if row is not None:
                selectable.add(id(row))
            continue
        fid = finding_for(m, row)
        if fid is None and kind == "oid":
            fid = "C18-oid-identifier"
        if fid:
            run.known_finding(fid, l)
        else:
            run.violation("oracle:select_paired", dict(replay, what="the selector does not return the row the object set pairs with the identifier"))

    # ---------------------------------------------------------------- (D) valid frames
    cases = []
    for r in spec:
        for _ in range(nv):
            vals = [value(m["trees"][tn], rng) for tn in r["types"]]
            cases.append({"row": r, "vals": vals})
    ml = []
    for c in cases:
        r = c["row"]
        if id(r) in cidx:
            c["p"] = cidx[id(r)]
            ml += ["c18der %s %s %s" % (Fc, id_val_str(kind, r["id"]), ovals(c["p"], c["vals"])),
                   "c18uper %s %s %s" % (Fc, id_val_str(kind, r["id"]), ovals(c["p"], c["vals"]))]
        else:
            c["p"] = None
            ps = spec.index(r) + 1
            ml += ["c18der %s %s %s" % (Fs, id_val_str(kind, r["id"]), ovals(ps, c["vals"])),
                   "c18uper %s %s %s" % (Fs, id_val_str(kind, r["id"]), ovals(ps, c["vals"]))]
    mo = mrun(model, ml)
    for i, c in enumerate(cases):
        c["der"], c["uper"] = mo[2 * i], mo[2 * i + 1]
    cases = [c for c in cases if c["der"] != "NONE" and c["uper"] != "NONE"]
    seen = set()
    cases = [c for c in cases if not (c["der"] in seen or seen.add(c["der"]))]
    md0 = mrun(model, ["c18dec %s %s" % (Fc, c["der"]) for c in cases])
    md1 = mrun(model, ["c18dec %s %s" % (Fs, c["der"]) for c in cases])
    mu0 = mrun(model, ["c18uperdec %s %s" % (Fc, c["uper"]) for c in cases])
    lines = []
    for c in cases:
        lines += ["dec Frame ber %s" % c["der"], "dec Frame uper %s" % c["uper"]]
    co, crashes = crun(run, m, lines, "valid-dec")
    good = []
    for i, c in enumerate(cases):
        r = c["row"]
        for s, o, mf, l in (("ber", co[2 * i], md0[i], lines[2 * i]), ("uper", co[2 * i + 1], mu0[i], lines[2 * i + 1])):
            run.case(l)
            run.count("valid_" + s)
            enc = c["der"] if s == "ber" else c["uper"]
            replay = {"module": m["text"], "row": r["types"], "identifier": id_text(kind, r["id"]), "values": [val_str(v) for v in c["vals"]],
                      "command_line": l, "c": o, "model_faithful": mf, "model_standard_ber": md1[i]}
            c_ok = o.startswith("OK %d %s ck=" % (len(enc) // 2, c["der"]))
            m_ok = mf.startswith("OK %d " % (len(enc) // 2))
            if o == "CRASH":
                run.violation("crash:valid-" + s, dict(replay, what="decoder crashed on a valid encoding", stderr_tail=crashes.get(2 * i + (s == "uper"), "")[-2000:]))
                continue
            if c_ok != m_ok or (not c_ok and not o.startswith(("FAIL", "MORE"))):
                run.violation("correspondence:OpenType.%s_dec_frame" % s, dict(replay, what="C decoder and faithful model disagree on a valid frame"), no_input=c_ok)
                continue
            if s == "ber" and not md1[i].startswith("OK %d " % (len(enc) // 2)):
                run.violation("model:OpenType.ber_dec_frame", dict(replay, what="the standard reading of the model does not decode the model's own DER"), no_input=True)
            if c_ok:
                c["ok_" + s] = True
                continue
            # code = faithful model, and both refuse a valid frame: which recorded defect?
            fid = None
            if id(r) not in selectable:
                fid = finding_for(m, r)
            if fid:
                run.known_finding(fid, l)
            else:
                run.violation("oracle:opentype_roundtrip(%s)" % s, dict(replay, what="a valid frame is not decoded"))
    # encoders and the round-trip battery, through whichever transport works
    lines, meta = [], []
    for c in cases:
        tr = ("der", c["der"]) if c.get("ok_ber") else (("uper", c["uper"]) if c.get("ok_uper") else None)
        if not tr:
            continue
        c["tr"] = tr
        for cmd in ("xcode Frame %s %s der" % tr, "xcode Frame %s %s uper" % tr, "xcode Frame %s %s cxer" % tr, "rt Frame %s %s" % tr):
            lines.append(cmd)
            meta.append(c)
    co, crashes = crun(run, m, lines, "valid-enc")
    for k in range(0, len(lines), 4):
        c = meta[k]
        r = c["row"]
        replay = {"module": m["text"], "row": r["types"], "identifier": id_text(kind, r["id"]), "values": [val_str(v) for v in c["vals"]]}
        for j, (what, exp) in enumerate((("der_frame", c["der"]), ("uper_frame", c["uper"]))):
            run.case(lines[k + j])
            run.count("enc_" + what)
            if co[k + j] != "OK " + exp:
                run.violation("correspondence:OpenType." + what, dict(replay, what="C encoder output differs from the model", command_line=lines[k + j], c=co[k + j], model=exp))
        if co[k + 2].startswith("OK "):
            c["xer"] = bytes.fromhex(co[k + 2][3:]).decode("latin-1")
        else:
            run.violation("oracle:xer_encode", dict(replay, what="XER encoding of a valid frame failed", command_line=lines[k + 2], c=co[k + 2]))
        run.case(lines[k + 3])
        for part in co[k + 3].split():
            syn, _, st = part.partition("=")
            run.count("rt_%s_%s" % (syn, st.split(":")[0]))
            if st == "OK" or syn == "coer":          # OER: OPEN_TYPE has no OER encoder; not part of the statement
                continue
            mt = re.match(r"DEC:OK:(\d+)/(\d+)$", st)
            if syn == "xer" and mt and int(mt.group(1)) + 1 == int(mt.group(2)):
                continue                              # C01-xer-trailing-newline (recorded under C01); cxer covers the value
            run.violation("oracle:opentype_roundtrip(%s)" % syn, dict(replay, what="encode-then-decode does not return the frame: " + st,
                                                                     command_line=lines[k + 3], c=co[k + 3]))
        if "=" not in co[k + 3]:
            run.violation("oracle:opentype_roundtrip", dict(replay, what="round-trip battery failed", command_line=lines[k + 3], c=co[k + 3]))
    if cases:
        c = cases[0]
        run.sample({"module": m["name"], "set": [(id_text(kind, r["id"]), r["types"]) for r in spec][:4], "der": c["der"][:80], "uper": c["uper"][:60]})

    # ---------------------------------------------------------------- mismatches
    live = [c for c in cases if c.get("tr")]
    if not live:
        return
    byrow = {}
    for c in live:
        byrow.setdefault(id(c["row"]), []).append(c)
    mm = []          # kind, syntax, model encode line, selected comp row or None, source case
    for u in unknown:
        for c in live[:2] + [live[-1]]:
            for s in ("der", "uper"):
                mm.append({"k": "noid", "s": s, "ml": "c18%s %s %s %s" % (s, Fc, id_val_str(kind, u), ovals(c["p"], c["vals"])), "a": None, "c": c})
    rows_live = [r for r in comp if id(r) in byrow]
    pairs = [(a, b) for a in rows_live for b in rows_live if a is not b]
    if tier == "quick":
        pairs = rng.shuffle(pairs)[:10]
    for a, b in pairs:
        for c in byrow[id(b)][:2]:
            for s in ("der", "uper"):
                mm.append({"k": "cross", "s": s, "ml": "c18%s %s %s %s" % (s, Fc, id_val_str(kind, a["id"]), ovals(c["p"], c["vals"])), "a": a, "c": c})
    for x, e in zip(mm, mrun(model, [x["ml"] for x in mm])):
        x["e"] = e
    mm = [x for x in mm if x["e"] != "NONE"]
    mdec = mrun(model, [("c18dec %s %s" % (Fc, x["e"])) if x["s"] == "der" else ("c18uperdec %s %s" % (Fc, x["e"])) for x in mm])
    lines = ["dec Frame %s %s" % ("ber" if x["s"] == "der" else "uper", x["e"]) for x in mm]
    co, crashes = crun(run, m, lines, "mismatch")
    reenc, reenc_meta, second = [], [], []
    for i, (x, l, o, mf) in enumerate(zip(mm, lines, co, mdec)):
        k, s, a = x["k"], x["s"], x["a"]
        run.case(l)
        run.count("mismatch_%s_%s" % (k, s))
        replay = {"module": m["text"], "mismatch": k, "selected_row": a["types"] if a else None, "value_of_row": x["c"]["row"]["types"],
                  "command_line": l, "c": o, "model": mf}
        if o == "CRASH":
            run.violation("crash:mismatch", dict(replay, what="decoder crashed on an identifier/value mismatch", stderr_tail=crashes.get(i, "")[-2500:]))
            continue
        if mf == "FAIL":
            if o.startswith(("FAIL", "MORE")):
                run.count("mismatch_clean_fail")
                continue
            if k == "noid":
                run.violation("oracle:opentype_mismatch_fails", dict(replay, what="an identifier without a row was accepted"))
            else:
                # the reference decoders of the model are stricter than the C's on some invalid inputs (e.g. a
                # constrained-INTEGER field beyond its range): what C18 states is that the bytes are read as exactly the
                # selected row's type, so ask the C's decoder of that very type, standalone, about the same inner bytes
                second.append((x, l, o, replay))
            continue
        # the bytes happen to be an encoding of the selected row's type: the C must decode them as that type
        f = mf.split()
        reenc.append("c18der %s %s" % (Fc, " ".join(f[2:])))
        reenc_meta.append((replay, int(f[1]), o))
    for (replay, n, o), d in zip(reenc_meta, mrun(model, reenc)):
        run.count("mismatch_decodes_as_selected")
        if not o.startswith("OK %d %s " % (n, d)):
            run.violation("correspondence:OpenType.dec_frame", dict(replay, what="bytes valid for the selected row's type: C result differs from the model's", model_der=d),
                          no_input=True)
    if second:
        ml, cl = [], []
        for x, l, o, replay in second:
            for col, v in enumerate(x["c"]["vals"]):
                ts = model_str(m["trees"][x["c"]["row"]["types"][col]])
                ml.append(("der %s %s" if x["s"] == "der" else "uper 0 %s %s") % (ts, val_str(v)))
        inner = mrun(model, ml)
        pos = 0
        for x, l, o, replay in second:
            x["inner"] = inner[pos:pos + m["ncols"]]
            pos += m["ncols"]
            for col, h in enumerate(x["inner"]):
                cl.append("dec %s %s %s" % (x["a"]["types"][col], "ber" if x["s"] == "der" else "uper", h))
        so, scr = crun(run, m, cl, "mismatch-second")
        pos = 0
        for x, l, o, replay in second:
            outs = so[pos:pos + m["ncols"]]
            pos += m["ncols"]
            # the frame's DER as the C printed it must carry exactly the standalone results
            ok = all(u.startswith("OK ") for u in outs) and all(u.split()[2] in o.split()[2] for u in outs)
            if ok:
                run.count("mismatch_inner_decoder_accepts")
            else:
                run.violation("correspondence:OpenType.%s_dec_frame" % ("ber" if x["s"] == "der" else "uper"),
                              dict(replay, what="C decodes bytes that do not decode as the selected row's type (neither for the model nor for the C's own decoder of that type)",
                                   standalone=outs), no_input=True)
    # XER: the identifier text replaced in the C's own canonical XER
    lines, meta = [], []
    for c in live:
        if "xer" not in c:
            continue
        own = "<id>%s</id>" % id_xer(kind, c["row"]["id"])
        if own not in c["xer"]:
            run.violation("oracle:xer_shape", {"module": m["text"], "what": "identifier element not found in the XER output", "xer": c["xer"][:400]})
            continue
        others = [(r["id"], r) for r in rows_live if r is not c["row"]][:3] + [(unknown[0], None)]
        for oid_, r in others[:2 if tier == "quick" else 4]:
            t = c["xer"].replace(own, "<id>%s</id>" % id_xer(kind, oid_))
            lines.append("dec Frame xer %s" % t.encode("latin-1").hex())
            meta.append((c, r))
    co, crashes = crun(run, m, lines, "mismatch-xer")
    for i, (l, o, (c, r)) in enumerate(zip(lines, co, meta)):
        run.case(l)
        run.count("mismatch_xer_" + ("cross" if r else "noid"))
        replay = {"module": m["text"], "mismatch": "xer", "selected_row": r["types"] if r else None, "xer_of": c["row"]["types"], "command_line": l, "c": o}
        if o == "CRASH":
            run.violation("crash:mismatch-xer", dict(replay, what="XER decoder crashed on an identifier/value mismatch", stderr_tail=crashes.get(i, "")[-2500:]))
        elif o.startswith("OK"):
            # type names are distinct within a column: another row's element can never be the selected type's
            run.violation("oracle:opentype_mismatch_fails(xer)", dict(replay, what="XER value of one row accepted under another row's (or no row's) identifier"))
    # raw mutations: clean failure or a usable result
    lines = []
    nm = 40 if tier == "quick" else 300
    for _ in range(nm):
        c = rng.choice(live)
        if rng.chance(1, 2):
            lines.append("dec Frame ber %s" % mutate(rng, c["der"]))
        elif "xer" in c and rng.chance(1, 3):
            lines.append("dec Frame xer %s" % mutate(rng, c["xer"].encode("latin-1").hex()))
        else:
            lines.append("dec Frame uper %s" % mutate(rng, c["uper"]))
    lines = sorted(set(lines))
    co, crashes = crun(run, m, lines, "mutation")
    for i, (l, o) in enumerate(zip(lines, co)):
        run.case(l)
        run.count("mutation_" + o.split()[0])
        if o == "CRASH":
            run.violation("crash:mutation", {"module": m["text"], "what": "decoder crashed on a mutated encoding", "command_line": l, "stderr_tail": crashes.get(i, "")[-2500:]})
        elif not re.match(r"(OK|FAIL|MORE) \d+ \S+ ck=-?\d+$", o):
            run.violation("oracle:mutation", {"module": m["text"], "what": "unexpected driver output on a mutated encoding", "command_line": l, "c": o})


def main(tier):
    run = Run("C18", tier)
    # entries of the fragment that bin/mkmanifest has not assembled into known_findings.json yet
    fp = os.path.join(VERIF, "findings.d", "C18.json")
    if os.path.exists(fp):
        have_ids = {f["id"] for f in run.findings}
        run.findings += [f for f in json.load(open(fp)) if f.get("status") == "open" and f["id"] not in have_ids]
    rng = Rng(run.seed)
    ok, out = coq_build()
    nthm, ndis, axioms, names, plog = obligations("C18") if ok else (0, 0, set(), [], out)
    gate = grep_gate()
    if not ok or ndis != nthm or gate:
        run.violation("proof:Properties_C18", {"what": "Coq development does not build or an obligation is open",
                                               "log_tail": (out if not ok else plog)[-2000:], "grep_gate": gate}, no_input=True)
    model = model_build()
    g = C18Gen(rng)
    nreg = 8 if tier == "quick" else 40
    mods = [g.module("M%d" % i) for i in range(nreg)]
    mods += [g.module("MU%d" % i, untagged=True) for i in range(1 if tier == "quick" else 4)]
    mods += [g.module("MO%d" % i, idkind="oid", untagged=False) for i in range(1 if tier == "quick" else 4)]
    mods += [g.module("ML0", lone=True, nrows=1, untagged=False)] + [g.module("ML%d" % i, lone=True, untagged=False) for i in range(1, 2 if tier == "quick" else 5)]
    probes = [{"name": t.split()[0], "text": t, "defs": [("Frame", None)], "probe": fid} for fid, t in PROBES.items()]
    probes.append({"name": "PR1", "text": PR1, "defs": [("Frame", None)], "probe": None})
    try:
        build_modules(mods + probes, tag="c18", moddrv_extra=EXTRA)
    except BuildError as e:
        run.violation("build", {"what": str(e)[-2500:]}, no_input=True)
        return run.finish("proof", (nthm, ndis))
    for p in probes:
        run.case("build " + p["name"])
        if p["probe"] is None:
            if p.get("exe"):
                probe_optional_open_type(run, p)
            else:
                run.violation("build:module", {"what": "the probe module with an OPTIONAL open-type member does not build", "module": p["text"],
                                               "asn1c_out": p.get("asn1c_out", "")[-1500:], "build_log": p.get("build_log", "")[-1500:]})
        elif p.get("exe"):
            run.count("probe_builds")
        else:
            run.known_finding(p["probe"], p["name"])
    for m in mods:
        run.count("modules_%s%s%s" % (m["idkind"], "_untagged" if m["untagged"] else "", "_lone" if m["lone"] else ""))
        run.count("rows_%d" % len(m["rows"]))
        run.count("cols_%d" % m["ncols"])
        run.count("set_" + ("extensible" if m["ext"] else "closed"))
        if not m.get("exe"):
            run.violation("build:module", {"what": "asn1c rejected a generated class/object-set module or its output does not compile",
                                           "module": m["text"], "asn1c_rc": m.get("asn1c_rc"), "asn1c_out": m.get("asn1c_out", "")[-1500:],
                                           "build_log": m.get("build_log", "")[-1500:]})
            continue
        check_module(run, rng, model, m, tier)
    tb = ["Coq 8.16.1 kernel; vm_compute for refuted witnesses and Examples",
          "axioms under Print Assumptions: " + (", ".join(sorted(axioms)) or "none (Closed under the global context)"),
          "extraction: ExtrOcamlBasic only, per-area files; OCaml 4.13.1; zarith for I/O",
          "lib/c18_util.py (module generator; effective tags of the frame members and the object-set structure given to the model), lib/modgen.py",
          "harness/moddrv.c + harness/moddrv_c18.inc (`sel` reaches the generated selector through the member table), lib/modbuild.py; gcc + ASan/UBSan/LSan",
          "XER is not modelled: XER round trips and mismatches are evaluated on the C alone"]
    return run.finish("proof", (nthm, ndis), trusted_base=tb,
                      checker_cmd="make -C /verif all && coqc -Q coq A1 coq/Props/Properties_C18.v",
                      extra_cov={"theorems": names, "modules": len(mods),
                                 "rule": "one case = one driver command: selector probe, decode of a valid frame (BER/UPER), encoder output, round-trip battery, one mismatch or one mutated encoding; all distinct",
                                 "traces_validated_against_impl": run.cov["evaluations"]},
                      assumptions=["theorems cover the selector and DER/BER of a frame SEQUENCE { id, open-type members }; UPER is modelled and tied, not proved; XER is tied on the C alone",
                                   "row types are named types of the modelled algebra; identifiers are INTEGER or OBJECT IDENTIFIER values; the identifier member precedes the open-type members",
                                   "leaks are observed by LeakSanitizer at process exit, not proved"])


if __name__ == "__main__":
    sys.exit(main(sys.argv[1] if len(sys.argv) > 1 else "quick"))
