"""C16, REAL half — asn_double2REAL / asn_REAL2double (skeletons/REAL.c).
Called from checks/c16.py.  Model: coq/Leaf/RealConv.v; theorems C16_real_* in
coq/Props/Properties_C16.v.

Two comparisons per case:
  faithfulness   extracted model vs C on `d2R <bits>` and `R2d <octets>`
  property       evaluated on the C outputs only:
                 R2d(d2R(d)) == d bit for bit (NaN -> NaN),
                 d2R(d) is the X.690 DER form (`spec_der_real`, answered by the
                 extracted Coq definition der_real_form; specials are compared
                 with the X.690 8.5.9 octets literally),
                 the (sign, N, E) read off the octets by `spec_real_value`
                 equals d exactly (Python big integers),
                 and for R2d on generated octets: the result is the correctly
                 rounded value of the octets (Fraction arithmetic), whenever the
                 mantissa fits in 53 bits and the exponent has the 1..3-octet form.
Not covered: ISO 6093 text form (first octet 01..03: libc strtod; the C is not
even called for it), NULL arguments, allocation failure."""
from fractions import Fraction
from vlib import *

M52, M64 = 2**52, 2**64


def mk(s, e, f):
    return (s << 63) | (e << 52) | f


def fields(d):
    return d >> 63, (d >> 52) & 0x7ff, d & (M52 - 1)


def is_nan(d):
    s, e, f = fields(d)
    return e == 2047 and f != 0


def frac_pattern(rng, mstop, shift):
    """fraction whose scratch pad has its last non-zero byte at index mstop (0..6) and
    whose last kept byte has `shift` trailing zero bits (0 = already odd)"""
    if mstop == 0:
        # all 48 low bits zero; kept byte is 0x10 | nibble
        if shift > 4:
            return None
        nib = 0 if shift == 4 else ((1 << shift) | (rng.below(16) & ~((2 << shift) - 1) & 0xf))
        return nib << 48
    last = ((1 << shift) | (rng.below(256) & ~((2 << shift) - 1))) & 0xff
    hi = rng.below(1 << (4 + 8 * (mstop - 1)))          # nibble + bytes 1..mstop-1
    return ((hi << 8) | last) << (8 * (6 - mstop))


def subnormal_patterns(rng):
    """fractions of subnormals (no hidden bit: the scratch pad is the fraction itself): first non-zero pad byte at
    index `lead`, last non-zero pad byte at index `mstop` (0 <= lead <= mstop <= 6), `shift` trailing zero bits in the
    last kept byte (the make-odd shift may empty the first kept byte; the copy then skips it)"""
    out = []
    for lead in range(7):
        for mstop in range(lead, 7):
            for shift in range(8):
                last = ((1 << shift) | (rng.below(256) & ~((2 << shift) - 1))) & 0xff
                if mstop == lead:
                    first, mid = None, 0
                else:
                    first = rng.range(1, 255) if rng.chance(1, 2) else (1 << rng.below(8))
                    mid = rng.below(1 << (8 * (mstop - lead - 1))) if mstop - lead > 1 else 0
                v = last if first is None else (((first << (8 * (mstop - lead - 1))) | mid) << 8) | last
                f = (v << (8 * (6 - mstop))) & (M52 - 1)
                if f:
                    out.append(f)
    return out


def gen_doubles(rng, tier):
    quick = tier == "quick"
    out = []
    for f in subnormal_patterns(rng):
        out.append(mk(rng.below(2), 0, f))
    pats = [(m, sh) for m in range(7) for sh in range(8) if not (m == 0 and sh > 4)]
    pi = 0
    for e in range(2048):
        fs = [0, 1, M52 - 1]
        if quick:
            fs += [1 << ((e * 3 + j) % 52) for j in range(3)]
            npat, nrand = 2, 2
        else:
            fs += [1 << k for k in range(52)]
            npat, nrand = 6, 8
        for _ in range(npat):
            m, sh = pats[pi % len(pats)]
            pi += 1
            fs.append(frac_pattern(rng, m, sh))
        for _ in range(nrand):
            f = rng.below(M52)
            if rng.chance(1, 2):
                f = (f >> rng.below(52)) << rng.below(52) & (M52 - 1)
            fs.append(f)
        for i, f in enumerate(fs):
            if quick and i >= 3:
                out.append(mk(rng.below(2), e, f))
            else:
                out.append(mk(0, e, f))
                out.append(mk(1, e, f))
    # every (mstop, shift) pair and every 2^k at the exponents where the code paths meet
    for e in (0, 1, 2, 1022, 1023, 1024, 1075, 1151, 2045, 2046, 2047):
        for m, sh in pats:
            for s in (0, 1):
                out.append(mk(s, e, frac_pattern(rng, m, sh)))
        for k in range(52):
            out.append(mk(k & 1, e, 1 << k))
            out.append(mk(1 - (k & 1), e, (1 << k) | 1 if k else 3))
    out += [0x0008000000000000, 0x3ff0200000000000, 0x0000000000000001, 0x000fffffffffffff,
            0x0010000000000000, 0x7fefffffffffffff, 0x7ff0000000000000, 0xfff0000000000000,
            0x7ff8000000000000, 0xfff8000000000000, 0x7ff0000000000001, 0xffffffffffffffff,
            0x8000000000000000, 0, 0x3ff0000000000000, 0xbff0000000000000]
    n = 500 if quick else 20000
    for _ in range(n):
        out.append(rng.below(M64))
    seen, uniq = set(), []
    for d in out:
        if d not in seen:
            seen.add(d)
            uniq.append(d)
    return uniq


def enc_exp(v, n):
    return (v & (256**n - 1)).to_bytes(n, "big")


def gen_octets(rng, tier):
    quick = tier == "quick"
    out = [b""]
    tails = [b"", b"\x00", b"\x01", b"\x00\x01", b"\x01\x00\x01", b"\x02\x00\x00\x01", b"\xff\x03",
             b"\x80\x00\x00\x00\x01", b"\x03\x00\x00\x00\x01", b"\x7f\xff\xff\xff", b"\x04\x00\x00\x00\x00\x01",
             b"\x00\x00", b"\xff", b"\x00\xff\xff\xff\xff\xff\xff\xff\xff"]
    for fo in range(256):
        for t in tails:
            out.append(bytes([fo]) + t)
        for _ in range(2 if quick else 20):
            out.append(bytes([fo]) + rng.bytes(rng.range(1, 10)))
    # binary forms: sign x base x scale x exponent-length code, exponents at the
    # normal/subnormal/overflow boundaries, mantissa widths 1..53 bits and wider
    reps = 1 if quick else 12
    for fo in range(0x80, 0x100):
        el, bf, sc = fo & 3, (fo >> 4) & 3, (fo >> 2) & 3
        base_f = {0: 1, 1: 3, 2: 4, 3: 1}[bf]
        for _ in range(reps):
            for target in (-1080, -1075, -1074, -1060, -1023, -1022, -600, -1, 0, 1, 52, 600, 970, 1023, 1024, 1030):
                bits = rng.choice([1, 2, 8, 24, 52, 53, 53, 54, 64, 80])
                nmant = (bits + 7) // 8 + rng.below(2)
                mant = (rng.below(1 << bits) | (1 << (bits - 1))).to_bytes(nmant, "big") if nmant * 8 >= bits else b"\x01"
                # choose E so that the top bit of the value lands near `target`
                ev = (target - bits - sc) // base_f + rng.range(-1, 1)
                if el < 3:
                    n = el + 1
                    if not -(1 << (8 * n - 1)) <= ev < (1 << (8 * n - 1)):
                        ev = rng.range(-(1 << (8 * n - 1)), (1 << (8 * n - 1)) - 1)
                    out.append(bytes([fo]) + enc_exp(ev, n) + mant)
                else:
                    ll = rng.choice([0, 1, 1, 2, 2, 3, 4, 255])
                    body = enc_exp(ev, min(ll + 1, 4)) if ll < 4 else rng.bytes(ll + 1)
                    out.append(bytes([fo, ll]) + body + mant)
    # ties and near-ties in the subnormal range (round to nearest even)
    for _ in range(300 if quick else 6000):
        drop = rng.range(1, 12)                       # bits below 2^-1074
        keep = rng.range(0, 40)
        n = (rng.below(1 << keep) << drop) | rng.choice([0, 1, (1 << (drop - 1)), (1 << (drop - 1)) + 1, (1 << (drop - 1)) - 1, rng.below(1 << drop)])
        if n == 0:
            n = 1
        ev = -1074 - drop
        out.append(bytes([0x81 | (0x40 * rng.below(2))]) + enc_exp(ev, 2) + n.to_bytes((n.bit_length() + 7) // 8, "big"))
    # exact encodings of doubles, truncated at every length and with one byte changed
    for _ in range(60 if quick else 1500):
        e = rng.choice([0, 1, 2, 1023, 1100, 2046, rng.below(2047)])
        f = rng.below(M52) >> rng.below(52) << rng.below(30) & (M52 - 1)
        m = (M52 + f) if e else (f or 1)
        tz = (m & -m).bit_length() - 1
        nn, ee = m >> tz, (e or 1) - 1075 + tz
        n_e = 1 if -128 <= ee < 128 else 2
        enc = bytes([0x80 | (0x40 * rng.below(2)) | (n_e - 1)]) + enc_exp(ee, n_e) + nn.to_bytes((nn.bit_length() + 7) // 8, "big")
        for k in range(len(enc) + 1):
            out.append(enc[:k])
        i = rng.below(len(enc))
        out.append(enc[:i] + bytes([enc[i] ^ (1 << rng.below(8))]) + enc[i + 1:])
        out.append(enc + b"\x00")
        out.append(enc[:1 + n_e] + b"\x00\x00" + enc[1 + n_e:])
    # very long mantissas: the accumulator reaches +inf after 128 octets
    for n in ((120, 128, 129) if quick else (100, 120, 127, 128, 129, 130, 140, 200)):
        for first in ((1, 0xff) if quick else (1, 0x80, 0xff)):
            out.append(bytes([0x80, 0]) + bytes([first]) + rng.bytes(n - 1))
            out.append(bytes([0x81, 0xfb, 0x00]) + bytes([first]) + rng.bytes(n - 1))
            out.append(bytes([0x82, 0xff, 0xfb, 0x00]) + bytes([first]) + b"\0" * (n - 1))
    seen, uniq = set(), []
    for b in out:
        if b not in seen:
            seen.add(b)
            uniq.append(b)
    return uniq


def exact_of_double(d):
    """(sign, M, E) with value = (-1)^sign * M * 2^E exactly, finite d"""
    s, e, f = fields(d)
    if e == 0:
        return s, f, -1074
    return s, M52 + f, e - 1075


def same_value(n1, e1, n2, e2):
    lo = min(e1, e2)
    return (n1 << (e1 - lo)) == (n2 << (e2 - lo))


def bits_of_float(x):
    import struct
    return struct.unpack(">Q", struct.pack(">d", x))[0]


def expected_r2d(b):
    """Independent reading of the octets (X.690 8.5): expected R2d result line, or
    None where this oracle is silent (text form, long-form exponent, reserved
    values, mantissa wider than 53 bits, too short)."""
    if len(b) == 0:
        return "OK %016x" % 0
    fo = b[0]
    if fo & 0xC0 == 0x40:
        return {0x40: "OK 7ff0000000000000", 0x41: "OK fff0000000000000", 0x42: "NAN", 0x43: "OK 8000000000000000"}.get(fo)
    if fo & 0x80 == 0:
        return None
    bf, sc, el = (fo >> 4) & 3, (fo >> 2) & 3, fo & 3
    if bf == 3 or el == 3 or len(b) < 2 + el:
        return None
    ev = int.from_bytes(b[1:2 + el], "big", signed=True)
    n = int.from_bytes(b[2 + el:], "big")
    if n >= 2**53:
        return None
    sign = (fo >> 6) & 1
    k = ev * {0: 1, 1: 3, 2: 4}[bf] + sc
    if n == 0:
        return "OK %016x" % (sign << 63)
    top = n.bit_length() - 1 + k
    if top >= 1024:
        return "ERANGE"
    if top < -1080:
        return "OK %016x" % (sign << 63)
    x = float(Fraction(n) * Fraction(2) ** k)      # correctly rounded
    return "OK %016x" % ((sign << 63) | bits_of_float(x))


def real_part(run, model, cdrv, tier, rng):
    """returns the number of command lines run through both sides"""
    doubles = gen_doubles(rng, tier)
    octs = gen_octets(rng, tier)
    lines = ["d2R %016x" % d for d in doubles] + ["R2d " + hexs(b) for b in octs]
    mo, co = correspond(run, "leaf-C16-real", lines, model, cdrv)
    nd = len(doubles)
    for line, m, c in zip(lines, mo, co):
        run.case(line, nontrivial=True)
        if m != c:
            run.count("real_model_vs_code_diff")
            run.violation("correspondence:RealConv(%s)" % line.split()[0],
                          {"what": "model and C disagree", "command_line": line, "model": m, "c": c, "_pending": True})
    run.sample({"cmd": lines[0], "model": mo[0], "c": co[0]})
    run.sample({"cmd": lines[nd // 2], "model": mo[nd // 2], "c": co[nd // 2]})
    run.sample({"cmd": lines[-1], "model": mo[-1], "c": co[-1]})

    # ---- property oracle on the C outputs of d2R
    q = [(d, line, c) for d, line, c in zip(doubles, lines, co) if c not in ("FAIL", "CRASH")]
    for d, line, c in zip(doubles, lines, co):
        if c == "FAIL":
            run.violation("oracle:d2R", {"what": "asn_double2REAL failed", "command_line": line})
    c_lines = ["R2d " + h for _, _, h in q]
    s_lines = []
    for _, _, h in q:
        s_lines += ["spec_der_real " + h, "spec_real_value " + h]
    _, bo, _ = run_lines(cdrv, c_lines, env=SAN_ENV)
    _, so, _ = run_lines(model, s_lines)
    _, bm, _ = run_lines(model, c_lines)
    if len(bo) != len(c_lines) or len(so) != len(s_lines) or len(bm) != len(c_lines):
        run.violation("crash:leaf-C16-real-phase2", {"what": "driver died in the read-back phase", "c_lines": len(bo), "spec_lines": len(so)}, no_input=True)
        return len(lines)
    for i, (d, line, h) in enumerate(q):
        s, e, f = fields(d)
        back, strong, val = bo[i], so[2 * i], so[2 * i + 1]
        cls = "nan" if is_nan(d) else "inf" if e == 2047 else "zero" if (e == 0 and f == 0) else "subnormal" if e == 0 else "normal"
        run.count("double_" + cls)
        if cls in ("normal", "subnormal"):
            m = (M52 + f) if e else f
            tz = (m & -m).bit_length() - 1
            run.count("mstop_%d" % (6 - min(tz, 48) // 8))
            run.count("shift_%d" % (tz % 8 if tz < 48 else tz - 48))
        if bm[i] != back:
            run.violation("correspondence:RealConv(R2d)", {"what": "model and C disagree", "command_line": c_lines[i], "model": bm[i], "c": back, "_pending": True})
        rt_ok = back == ("NAN" if cls == "nan" else "OK %016x" % d)
        if cls in ("normal", "subnormal"):
            form_ok = strong == "true"
            if val == "NONE":
                val_ok = False
            else:
                vs, vn, ve = (int(x) for x in val.split())
                xs, xm, xe = exact_of_double(d)
                val_ok = vs == xs and same_value(vn, ve, xm, xe)
        else:
            want = {"nan": "42", "inf": "41" if s else "40", "zero": "43" if s else "-"}[cls]
            form_ok = (h == want) and strong == "true"
            val_ok = True
        if rt_ok and form_ok and val_ok:
            continue
        rep = {"command_line": line, "c_octets": h, "read_back": back, "der_real_form": strong, "real_value": val, "class": cls}
        if not form_ok:
            run.violation("oracle:d2R", dict(rep, what="stored octets are not the DER form (base 2, scale 0, minimal exponent octets, odd mantissa in the fewest octets)"))
        if not (rt_ok and val_ok):
            run.violation("oracle:d2R", dict(rep, what="double does not come back bit for bit, or the stored (sign, N, E) does not denote it exactly"))
    # ---- property oracle on R2d of the generated octets: correctly rounded value
    for b, line, c in zip(octs, lines[nd:], co[nd:]):
        fo = b[0] if b else -1
        kind = "empty" if not b else "special" if fo & 0xC0 == 0x40 else "decimal_or_reserved" if fo < 0x40 else \
               "binary_b%d_el%d" % ((fo >> 4) & 3, fo & 3)
        run.count("R2d_" + kind)
        run.count("R2d_result_" + c.split()[0])
        exp = expected_r2d(b)
        if exp is None or exp == c:
            continue
        run.violation("oracle:R2d", {"what": "asn_REAL2double does not return the correctly rounded value of the octets",
                                     "command_line": line, "expected": exp, "c": c})
    return len(lines)


THEOREMS_NOTE = ("REAL half: C16_real_roundtrip (all 2^64 patterns) with _normal/_subnormal/_specials/_nan, "
                 "C16_real_der_form (all 2^64 patterns, fewest mantissa octets included), "
                 "C16_real_value_exact, C16_real_value_exact_subnormal")
TRUSTED = ["REAL half: libc ilogb/ldexp/isnan/isfinite/copysign are modelled on the bit pattern (glibc x86-64 answers), tied by the differential run only",
           "REAL half: Python oracle (fractions.Fraction -> float conversion is correctly rounded; big-integer comparison of N*2^E)"]
ASSUMPTIONS = ["REAL: the ISO 6093 decimal text form (first octet 01..03, libc strtod) is not modelled and not run",
               "REAL: mantissas wider than 53 bits are modelled (per-step round-to-nearest-even of the double accumulator) and tied, but no theorem speaks about them",
               "REAL: IEEE-754 binary64 little- or big-endian host; the model follows the byte order independent scratch pad"]
