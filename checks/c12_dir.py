"""C12 round 5 — the generated files are a function of the input, NOT of what the output directory already holds.

asn1c_save.c decides per output file what to do with a file that is already there:
  per-type <T>.c/.h   written to a temporary, `identical_files(old, tmp)` ? keep old ("contents unchanged") : rename(tmp, old)
  skeleton copies     real_copy(): `identical_files(src, dst)` ? nothing : copy to a temporary + rename;  -flink-skeletons: symlink(),
                      an existing entry is retained ("Retaining local … suggested", documented)
  Makefile.am.*, converter-example.mk, pdu_collection.c   opened in place (O_WRONLY, ftruncate) and rewritten
`identical_files` compares block-wise (4096 bytes) — the decision this layer samples at its boundaries.

Generator: base modules whose per-type file of interest has a chosen size (below one block, exactly one block, one block +-1, exact
multiples, multiples + k: the size is steered through the number of members and the length of the source file name, which the
preamble quotes) x option sets (copy / link skeletons / no example / -R / PER) x pre-existing directory states:
  empty | outputs of the same module | outputs of one-character variants of the module (asn1c-made stale files) | synthetic stale
  files derived from the theorem's case split (one byte changed at: 0, middle of block 0, last byte of a block, first byte of the next
  block, first/middle/last byte of the tail block; shorter by 1 / by the tail / to a block multiple / empty; longer by 1 / by the rest
  of the block / by a whole block) | read-only | symlink to an identical / a different / no file | outputs of types that no longer
  exist | outputs of a previous run with the other skeleton mode | random states on rich modules.
Oracle (on the C alone): exit status as in the fresh run; every file of the fresh-directory run is there with the same kind and
bytes; everything else in the directory is untouched; no temporary is left behind; "(contents unchanged)" is printed exactly for the
per-type files whose old content WAS the new content, and exactly those keep their inode; the library makefile names every file
once and only files that exist.
Tie: what the C made of each old entry (kept = same inode / replaced by a fresh regular file / written through a link) == model
`save_type` / `copy_skel` / `link_skel` / `write_inplace` with block size 4096 (coq/Fix/IdenticalFiles.v, command c12_entry)."""
import os, shutil, subprocess, stat, re

BLOCK = 4096
INPLACE = ("Makefile.am.libasncodec", "Makefile.am.asn1convert", "converter-example.mk", "pdu_collection.c")

DIR_OPTS = [
    ("copy", ["-pdu=all", "-fcompound-names"]),
    ("copy-per", ["-pdu=all", "-fcompound-names", "-gen-PER", "-no-gen-OER"]),
    ("link", ["-pdu=all", "-fcompound-names", "-flink-skeletons"]),
    ("noexample", ["-pdu=auto", "-no-gen-example"]),
    ("restricted", ["-pdu=all", "-R"]),
]
OPTS = dict(DIR_OPTS)


def run_full(args, cwd, timeout=120):
    try:
        p = subprocess.run(args, cwd=cwd, stdout=subprocess.PIPE, stderr=subprocess.PIPE, timeout=timeout)
        return p.returncode, p.stdout, p.stderr.decode("latin1")
    except subprocess.TimeoutExpired:
        return 999, b"", "timeout"


def snap(d):
    """{relative name: (kind, bytes | link target, inode, mode)}; asn1c writes a flat directory"""
    out = {}
    for root, dirs, files in os.walk(d):
        for f in files + [x for x in dirs if os.path.islink(os.path.join(root, x))]:
            p = os.path.join(root, f)
            st = os.lstat(p)
            rel = os.path.relpath(p, d)
            if stat.S_ISLNK(st.st_mode):
                out[rel] = ("sym", os.readlink(p).encode(), st.st_ino, 0)
            else:
                out[rel] = ("reg", open(p, "rb").read(), st.st_ino, stat.S_IMODE(st.st_mode))
    return out


# ---------------------------------------------------------------------------------------------------------------------
# base modules

MEMBER_TYPES = ["BOOLEAN", "INTEGER (0..5)", "OCTET STRING (SIZE(1..5))", "NULL", "IA5String (SIZE(1..5))", "INTEGER"]


def dir_module(nmem, tag=7, old_type=False):
    """T (SEQUENCE of nmem members; member 0 carries the bound the demo of C12-9 changes), E, C [+ Old]"""
    mem = ["m0 INTEGER (0..5)"] + ["m%d %s" % (i, MEMBER_TYPES[i % len(MEMBER_TYPES)]) for i in range(1, nmem)]
    lines = ["DirM DEFINITIONS AUTOMATIC TAGS ::= BEGIN",
             "T ::= SEQUENCE { " + ", ".join(mem) + " }",
             "E ::= ENUMERATED { red(0), green(1), blue(5) }",
             "C ::= CHOICE { a [%d] INTEGER (0..5), b [9] IA5String (SIZE(1..5)) }" % tag]
    if old_type:
        lines.append("Old ::= SEQUENCE { x INTEGER (0..5), y E }")
    return "\n".join(lines) + "\nEND\n"


# one-character variants: same length of the module text, hence (mostly) the same sizes of the generated files
VARIANTS = [
    ("bound", lambda t: t.replace("m0 INTEGER (0..5)", "m0 INTEGER (0..7)", 1)),          # the demo of C12-9
    ("enum-value", lambda t: t.replace("blue(5)", "blue(6)", 1)),
    ("tag", lambda t: t.replace("a [7]", "a [8]", 1)),
    ("choice-bound", lambda t: t.replace("a [7] INTEGER (0..5)", "a [7] INTEGER (0..6)", 1)),
    ("size", lambda t: t.replace("b [9] IA5String (SIZE(1..5))", "b [9] IA5String (SIZE(1..4))", 1)),
    ("identifier", lambda t: t.replace("red(0)", "rod(0)", 1)),
    ("type-gone", None),                                                                  # stale directory also has Old.c/.h
]


def padded_name(pad):
    """a source file name `in/…/m….asn1` that is `pad` characters longer than in/m.asn1"""
    comps = []
    while pad > 150:
        comps.append("d" * 149)
        pad -= 150
    return "/".join(["in"] + comps + ["m" + "x" * pad + ".asn1"])


def positions(n):
    """byte positions of the case split of `identical` for a file of n bytes: block 0 start / middle, both sides of every block
    boundary (first, second and last), first / middle / last byte of the tail block"""
    q, r = divmod(n, BLOCK)
    ps = {0, min(n - 1, BLOCK // 2), n - 1}
    for k in sorted({1, 2, q}):
        if 0 < k <= q:
            ps |= {k * BLOCK - 1}
            if k * BLOCK < n:
                ps |= {k * BLOCK}
    if r:
        ps |= {q * BLOCK, q * BLOCK + r // 2}
    return sorted(p for p in ps if 0 <= p < n)


def lengths(n):
    """(label, new length) of the stale file: shorter / longer across the block structure"""
    q, r = divmod(n, BLOCK)
    out = [("short-1", n - 1), ("empty", 0), ("long+1", n + 1), ("long+block", n + BLOCK), ("long-to-multiple", (q + 1) * BLOCK)]
    if r and q:
        out.append(("short-to-multiple", q * BLOCK))
    if q:
        out.append(("short-block", n - BLOCK))
    if n > 1:
        out.append(("short-half", n // 2))
    return [(l, m) for (l, m) in out if m >= 0 and m != n]


def where(n, p):
    q, r = divmod(n, BLOCK)
    if p >= q * BLOCK:
        return "tail"
    if p % BLOCK in (0, BLOCK - 1):
        return "block-edge"
    return "whole-block"


def directed_states(fresh, focus):
    """stale states for one base case; `fresh` = snapshot of the fresh-directory run; focus = names of the files swept in full"""
    S = [{"label": "identical", "start": "fresh", "ops": []}]
    for f in focus:
        if f not in fresh or fresh[f][0] != "reg":
            continue
        n = len(fresh[f][1])
        for p in positions(n):
            S.append({"label": "flip", "start": "fresh", "ops": [("flip", f, p)], "file": f, "where": where(n, p)})
        for (l, m) in lengths(n):
            S.append({"label": l, "start": "fresh", "ops": [("resize", f, m)], "file": f, "where": l})
        S.append({"label": "read-only", "start": "fresh", "ops": [("flip", f, n - 1), ("ro", f)], "file": f, "where": "tail"})
        S.append({"label": "read-only-same", "start": "fresh", "ops": [("ro", f)], "file": f, "where": "same"})
        for how in ("same", "diff", "dangling"):
            S.append({"label": "symlink-" + how, "start": "fresh", "ops": [("symlink", f, how)], "file": f, "where": how})
    # every generated file changed in its last / first byte at once; a directory that only has some of the files; foreign files
    names = sorted(k for k, v in fresh.items() if v[0] == "reg" and len(v[1]))
    S.append({"label": "all-tails", "start": "fresh", "ops": [("flip", f, len(fresh[f][1]) - 1) for f in names]})
    S.append({"label": "all-heads", "start": "fresh", "ops": [("flip", f, 0) for f in names]})
    S.append({"label": "half-missing", "start": "fresh", "ops": [("rm", f) for f in sorted(fresh)[::2]]})       # links too
    S.append({"label": "stale-other-type", "start": "fresh",
              "ops": [("extra", "Gone.c", b"/* stale */\n"), ("extra", "Gone.h", b"/* stale */\n"), ("extra", "README.local", b"keep me\n")]})
    return S


def flipped(x):
    return x ^ 0x01 if x not in (0x0a, 0x0b) else 0x20


def apply_ops(od, side, ops):
    """prepare the stale state in directory od; side = a directory outside the output directory (symlink targets)"""
    for op in ops:
        kind, f = op[0], op[1]
        p = os.path.join(od, f)
        if kind == "flip":
            if os.path.islink(p) or not os.path.exists(p):
                continue
            b = bytearray(open(p, "rb").read())
            if op[2] < len(b):
                b[op[2]] = flipped(b[op[2]])
                open(p, "wb").write(bytes(b))
        elif kind == "resize":
            b = open(p, "rb").read()
            m = op[2]
            nb = b[:m] if m <= len(b) else b + bytes((0x20 + (i * 7) % 90) for i in range(m - len(b)))
            open(p, "wb").write(nb)
        elif kind == "ro":
            os.chmod(p, 0o444)
        elif kind == "rm":
            os.unlink(p)
        elif kind == "extra":
            open(p, "wb").write(op[2])
        elif kind == "symlink":
            os.makedirs(side, exist_ok=True)
            tgt = os.path.join(side, f + ".target")
            if op[2] != "dangling":
                b = bytearray(open(p, "rb").read())
                if op[2] == "diff" and b:
                    b[-1] = flipped(b[-1])
                open(tgt, "wb").write(bytes(b))
            os.unlink(p)
            os.symlink(tgt, p)


# ---------------------------------------------------------------------------------------------------------------------
# worker

def gen_into(ctx, cwd, fname, text, opts, nodest=False):
    """asn1c -S skel <opts> -D out <fname> in cwd (the same relative names in every scratch directory);
    nodest: no -D, asn1c runs inside out/ and writes into its working directory (destdir = "")"""
    asn1c, skel, _ = ctx
    p = os.path.join(cwd, fname)
    os.makedirs(os.path.dirname(p), exist_ok=True)
    open(p, "w").write(text)
    os.makedirs(os.path.join(cwd, "out"), exist_ok=True)
    if nodest:
        return run_full([asn1c, "-S", skel] + list(opts) + ["../" + fname], os.path.join(cwd, "out"))
    return run_full([asn1c, "-S", skel] + list(opts) + ["-D", "out", fname], cwd)


def case_dir(ctx, idx, case):
    """case: {"name", "mode", "target": (file, size) | None, "text" | None, "variants": bool, "focus": [...], "random": n, "seed"}"""
    import vlib
    asn1c, skel, root = ctx
    d = os.path.join(root, "d%05d" % idx)
    shutil.rmtree(d, ignore_errors=True)
    opts = OPTS[case["mode"]]
    nd = bool(case.get("nodest"))
    res = {"states": [], "name": case["name"]}
    fname, text = "in/m.asn1", case.get("text")
    k = [0]

    def fresh_run(fn, tx):
        k[0] += 1
        w = os.path.join(d, "p%d" % k[0])
        rc, so, se = gen_into(ctx, w, fn, tx, opts, nd)
        sn = snap(os.path.join(w, "out")) if rc == 0 else {}
        return rc, se, sn, w

    if case.get("target"):
        # steer the size of the file of interest: members (coarse; sizes grow with the member count: bisection), then the source
        # file name (one byte per character)
        tf, want = case["target"]

        def size_of(n):
            rc, se, sn, w = fresh_run(fname, dir_module(n))
            shutil.rmtree(w, ignore_errors=True)
            return len(sn[tf][1]) if rc == 0 and tf in sn else None
        lo, hi, best = 1, 256, None
        s1 = size_of(1)
        if s1 is not None and s1 <= want:
            best = (1, want - s1)
            lo = 2
            while lo <= hi:
                mid = (lo + hi) // 2
                sz = size_of(mid)
                if sz is not None and sz <= want:
                    best = (mid, want - sz)
                    lo = mid + 1
                else:
                    hi = mid - 1
        if best is None or best[1] > 3000:
            res["error"] = "size %d of %s not reachable" % (want, tf)
            shutil.rmtree(d, ignore_errors=True)
            return res
        text = dir_module(best[0])
        fname = padded_name(best[1])
        res["members"] = best[0]
    rc0, se0, F, w0 = fresh_run(fname, text)
    res.update(rc0=rc0, se0=se0, fresh=F, fname=fname, text=text)
    if rc0 != 0:
        shutil.rmtree(d, ignore_errors=True)
        return res
    if case.get("target") and len(F[case["target"][0]][1]) != case["target"][1]:
        res["error"] = "size steering failed: %d" % len(F[case["target"][0]][1])
    rng = vlib.Rng(case["seed"])
    states = directed_states(F, case.get("focus", [])) if not case.get("random_only") else [{"label": "identical", "start": "fresh", "ops": []}]
    if case.get("variants"):
        for (vl, fn) in VARIANTS:
            if fn is None:
                vt = dir_module(res.get("members", case.get("members", 3)), old_type=True)
            else:
                vt = fn(text)
                if vt == text:
                    continue
            states.append({"label": "variant:" + vl, "start": "text", "start_text": vt, "ops": []})
        other = "link" if case["mode"] != "link" else "copy"
        if case["mode"] != "restricted":
            states.append({"label": "prev-mode:" + other, "start": "text", "start_text": text, "start_mode": other, "ops": []})
            states.append({"label": "prev-mode-variant:" + other, "start": "text", "start_text": VARIANTS[0][1](text), "start_mode": other, "ops": []})
    names = sorted(kk for kk, v in F.items() if v[0] == "reg" and len(v[1]))
    ptn = [f for f in names if is_per_type(f, F)] or names
    for _ in range(case.get("random", 0)):
        f = rng.choice(ptn if rng.chance(2, 3) else names)
        n = len(F[f][1])
        kind = rng.choice(["flip", "flip", "flip-tail", "flip-tail", "resize", "symlink", "multi"])
        if kind == "flip":
            ops = [("flip", f, rng.range(0, n - 1))]
        elif kind == "flip-tail":
            q = n // BLOCK
            ops = [("flip", f, rng.range(min(q * BLOCK, n - 1), n - 1))]
        elif kind == "resize":
            m = rng.choice([n - 1, n + 1, max(0, n - rng.range(1, BLOCK)), n + rng.range(1, 2 * BLOCK), (n // BLOCK) * BLOCK])
            ops = [("resize", f, m if m != n else n + 1)]
        elif kind == "symlink":
            ops = [("symlink", f, rng.choice(["same", "diff", "dangling"]))]
        else:
            ops = [("flip", g, rng.range(0, len(F[g][1]) - 1)) for g in rng.shuffle(names)[:rng.range(2, 6)]]
        states.append({"label": "random:" + kind, "start": "fresh", "ops": ops, "file": f if kind != "multi" else None})
    for si, st in enumerate(states):
        w = os.path.join(d, "s%d" % si)
        od = os.path.join(w, "out")
        if st["start"] == "fresh":
            os.makedirs(w)
            shutil.copytree(os.path.join(w0, "out"), od, symlinks=True)
        else:
            rcv, sov, sev = gen_into(ctx, w, fname, st["start_text"], OPTS[st.get("start_mode", case["mode"])], nd)
            if rcv != 0:
                st["prep_failed"] = sev[-300:]
        try:
            apply_ops(od, os.path.join(w, "side"), st["ops"])
        except OSError as e:
            st["prep_failed"] = str(e)
        B = snap(od)
        rc, so, se = gen_into(ctx, w, fname, text, opts, nd)
        A = snap(od)
        side = snap(os.path.join(w, "side")) if os.path.isdir(os.path.join(w, "side")) else {}
        res["states"].append({"st": st, "rc": rc, "se": se, "before": B, "after": A, "side": side})
        shutil.rmtree(w, ignore_errors=True)
    shutil.rmtree(d, ignore_errors=True)
    return res


# ---------------------------------------------------------------------------------------------------------------------
# evaluation

UNCH = " (contents unchanged)"


def is_per_type(name, F):
    v = F.get(name)
    return bool(v) and v[0] == "reg" and b"From ASN.1 module" in v[1][:400]


def norm_se(se):
    return [l.replace(UNCH, "") for l in se.split("\n")]


def fdiff(x, y):
    return next((i for i, (p, q) in enumerate(zip(x, y)) if p != q), min(len(x), len(y)))


def makefile_problems(F, pfx="out/"):
    """file-name de-duplication and completeness of Makefile.am.libasncodec, evaluated on one tree"""
    mk = F.get("Makefile.am.libasncodec")
    if not mk or mk[0] != "reg":
        return []
    txt = mk[1].decode("latin1")
    listed = re.findall(r"(?:^ASN_MODULE_(?:SRCS|HDRS)\+=|\t)%s([^\s\\]\S*?)(?:\t\\)?$" % pfx, txt, re.M)
    probs = [] if listed else ["no file name found in the makefile"]
    seen = set()
    for f in listed:
        if f in seen:
            probs.append("listed twice: " + f)
        seen.add(f)
        if f not in F:
            probs.append("listed but not generated: " + f)
    for f in F:
        if (f.endswith(".c") or f.endswith(".h")) and f not in seen and f not in ("converter-example.c", "pdu_collection.c"):
            probs.append("generated but not listed: " + f)
    return probs


def op_of(f, F, mode):
    """which of the four ways of writing a file applies to output file f"""
    if f in INPLACE:
        return "inplace"
    if is_per_type(f, F):
        return "type"
    return "link" if mode == "link" else "copy"


def entry_lines(case, res, cap=60):
    """model queries `c12_entry OP 4096 OLDENTRY NEW` for what asn1c made of the entries it found: (state index, file, line).
    Only entries that are not simply the fresh file (those too in the `identical` state), per-type files first, regular
    files up to 5 blocks with their content, at most `cap` per case"""
    out, seen, quota = [], set(), {}
    F = res.get("fresh", {})
    order = sorted(F, key=lambda f: (not is_per_type(f, F), f))
    for si, s in enumerate(res.get("states", [])):
        B = s["before"]
        if s["rc"] != 0:
            continue
        for f in order:
            v, b = F[f], B.get(f)
            op = op_of(f, F, case["mode"])
            if b is not None and b[:2] == v[:2] and not (s["st"]["label"] == "identical" and (op == "type" or si == 0 and len(v[1]) <= BLOCK)):
                continue
            if op in ("type", "copy"):
                if v[0] != "reg" or len(v[1]) > 5 * BLOCK or (b and len(b[1]) > 6 * BLOCK):
                    continue
                old = "A" if b is None else "L" if b[0] == "sym" else "R" + (b[1].hex() or "-")
                line = "c12_entry %s %d %s %s" % (op, BLOCK, old, (v[1].hex() or "-") if old[0] == "R" else "-")
            else:
                old = "A" if b is None else "L" if b[0] == "sym" else "R-"
                line = "c12_entry %s %d %s -" % (op, BLOCK, old)
            if (f, line) in seen:
                continue
            seen.add((f, line))
            key = (op, old[0], b is not None and b[:2] == v[:2])       # a quota per kind of decision, so that every kind is tied
            quota[key] = quota.get(key, 0) + 1
            if quota[key] <= max(4, cap // 5) or key[0] in ("type", "copy") and key[1] == "R" and not key[2] and quota[key] <= cap // 2:
                out.append((si, f, line))
    return out[:cap]


def observed_entry(op, a, b, v):
    """what asn1c made of entry b (before) at a path where the fresh run leaves v: KEEP | NEW | THROUGH | ? (not decidable)"""
    if a is None:
        return "?"
    if op in ("type", "copy"):
        if b is not None and b[0] == "reg" and a[0] == "reg" and a[2] == b[2]:
            return "KEEP"
        return "NEW" if a[0] == "reg" and a[1] == v[1] else "?"
    if op == "link":
        if b is not None:
            return "KEEP" if a[:3] == b[:3] else "NEW"
        return "NEW" if a[0] == "sym" else "?"
    if b is not None and b[0] == "sym" and a[:3] == b[:3]:
        return "THROUGH"
    return "NEW" if a[0] == "reg" and a[1] == v[1] else "?"


def eval_dir(run, case, res, model_out=None):
    """model_out: {(state index, file): "SAME" | "DIFF"}"""
    mode = case["mode"]
    fn = res.get("fname") or ""
    fn_short = fn if len(fn) < 60 else "padded_name(%d) = in/d…/m…x.asn1, %d characters (checks/c12_dir.py)" % (len(fn) - len("in/m.asn1"), len(fn))
    rep0 = {"module": case["name"], "mode": mode, "opts": OPTS[mode], "source_file": fn_short, "text": (res.get("text") or "")[:700]}
    if "error" in res:
        run.violation("harness:outdir-size-steering", dict(rep0, what=res["error"]), no_input=True)
    if res.get("rc0") != 0:
        if case.get("may_fail") and "error" not in res:
            run.count("outdir_base_not_compilable")
            return
        run.violation("harness:outdir-base-not-compilable", dict(rep0, what="base module of the directory-state sweep is refused", stderr=res.get("se0", "")[-600:]), no_input=True)
        return
    F = res["fresh"]
    run.case("outdir:%s:%s" % (case["name"], mode))
    run.count("outdir_base:" + mode + ("+nodest" if case.get("nodest") else ""))
    if case.get("target"):
        n = case["target"][1]
        run.count("outdir_target_size:%s" % ("<1 block" if n < BLOCK else "=%d blocks" % (n // BLOCK) if n % BLOCK == 0 else "%d blocks+%d" % (n // BLOCK, n % BLOCK)))
    pfx = "" if case.get("nodest") else "out/"
    for p in makefile_problems(F, pfx):
        run.violation("oracle:makefile-list", dict(rep0, what="Makefile.am.libasncodec of the fresh run: " + p))
    run.count("makefile_list_checked")
    skel_link = mode == "link"
    for si, s in enumerate(res["states"]):
        st, B, A = s["st"], s["before"], s["after"]
        label = st["label"]
        rep = dict(rep0, state=label, stale_ops=[[x if not isinstance(x, bytes) else "<%d bytes>" % len(x) for x in o] for o in st["ops"]][:8],
                   replay_cmd="asn1c -S skeletons %s -D out %s  into an EMPTY out/ and into out/ prepared as described; compare the two directories%s" % (" ".join(OPTS[mode]), fn_short, " (no -D: asn1c run INSIDE out/ on ../<file>)" if case.get("nodest") else ""))
        if st.get("start_text"):
            rep["stale_made_by"] = "asn1c %s on: %s" % (" ".join(OPTS[st.get("start_mode", mode)]), st["start_text"][:400])
        if "prep_failed" in st:
            run.violation("harness:outdir-prep", dict(rep, what="stale state could not be prepared", detail=st["prep_failed"]), no_input=True)
            continue
        run.count("outdir_state:" + label.split(":")[0])
        if st.get("where"):
            run.count("outdir_stale_position:" + st["where"])
        bad = []
        if s["rc"] != res["rc0"]:
            bad.append(("<exit status>", "fresh run %d, this run %d: %s" % (res["rc0"], s["rc"], s["se"][-300:])))
        for f, v in sorted(F.items()):
            a, b = A.get(f), B.get(f)
            if skel_link and v[0] == "sym" and b is not None:
                # documented: an entry that is already there is retained ("Retaining local … suggested" / "already here")
                if a is None or a[:2] != b[:2]:
                    bad.append((f, "link mode: the existing entry was not retained"))
                elif s["rc"] == 0 and not re.search(r"(Retaining local %s%s |is already here as %s%s$)" % (pfx, re.escape(f), pfx, re.escape(f)), s["se"], re.M):
                    bad.append((f, "link mode: existing entry retained without the documented message"))
                else:
                    run.count("outdir_link_retained_local")
                continue
            if a is None:
                bad.append((f, "missing after the run"))
            elif a[:2] != v[:2]:
                bad.append((f, "kind %s/%s, %d vs %d bytes, first difference at byte %s; stale file was %s" % (
                    v[0], a[0], len(v[1]), len(a[1]), fdiff(v[1], a[1]),
                    "absent" if b is None else "identical to the new content" if b[:2] == v[:2] else
                    "%s, %d bytes, first difference to the new content at byte %s" % (b[0], len(b[1]), fdiff(v[1], b[1])))))
            # the decision of identical_files, observed: retained <=> same inode; "(contents unchanged)" for per-type files
            if a is not None and b is not None and b[0] == "reg" and v[0] == "reg" and f not in INPLACE and s["rc"] == 0:
                retained = a[2] == b[2]
                equal = b[1] == v[1]
                run.count("outdir_decision:%s:%s" % ("equal" if equal else "differs", "retained" if retained else "replaced"))
                if retained != equal:
                    bad.append((f, "stale file %s the new content but was %s" % ("equals" if equal else "differs from", "retained" if retained else "replaced")))
                if is_per_type(f, F):
                    said = ("Compiled %s%s%s\n" % (pfx, f, UNCH)) in s["se"]
                    if said != equal:
                        bad.append((f, "`contents unchanged` %s although the old content %s the new one" % ("printed" if said else "not printed", "was" if equal else "was not")))
        if model_out is not None:
            for (si_, f), mo in model_out.items():
                if si_ != si:
                    continue
                run.count("outdir_model_cases")
                op = op_of(f, F, mode)
                ob = observed_entry(op, A.get(f), B.get(f), F[f])
                run.count("outdir_model:%s:%s" % (op, mo))
                if ob != mo:
                    b = B.get(f)
                    run.violation("correspondence:IdenticalFiles.entry", dict(rep, file=f, op=op,
                                  what="model (coq/Fix/IdenticalFiles.v, block size 4096): %s; asn1c: %s" % (mo, ob),
                                  old_entry="absent" if b is None else "%s, %d bytes" % (b[0], len(b[1])), new_len=len(F[f][1]),
                                  first_difference=fdiff(b[1], F[f][1]) if b is not None and b[0] == "reg" else None),
                                  no_input=not any(x[0] == f for x in bad))
        for f, a in sorted(A.items()):
            if f in F:
                continue
            b = B.get(f)
            if b is None:
                bad.append((f, "left behind by the run (not produced by the fresh run, not there before)"))
            elif a[:2] != b[:2]:
                bad.append((f, "a file the run does not generate was modified"))
        for f, b in sorted(B.items()):
            if f not in F and f not in A:
                bad.append((f, "a file the run does not generate was removed"))
        if not skel_link and s["rc"] == 0 and norm_se(s["se"]) != norm_se(res["se0"]) and not bad:
            x = [l for l in norm_se(s["se"]) if l not in norm_se(res["se0"])][:3]
            bad.append(("<diagnostics>", "messages differ from the fresh run beyond `contents unchanged`: %r" % x))
        if s["rc"] == 0:
            for p in makefile_problems({k: v for k, v in A.items() if k in F}, pfx):
                bad.append(("Makefile.am.libasncodec", p))
        for o in st["ops"]:
            if o[0] == "symlink" and o[2] == "diff" and o[1] in F:
                t = s["side"].get(o[1] + ".target")
                if t is not None and t[1] == F[o[1]][1]:
                    bad.append((o[1], "the file the stale symbolic link pointed to (outside the output directory) was overwritten with the generated text"))
        if bad:
            run.violation("oracle:outdir-state", dict(rep, what="the output of asn1c depends on what the output directory held before the run",
                          differences=["%s: %s" % b_ for b_ in bad[:8]], ndiff=len(bad),
                          stderr_about=[l for l in s["se"].split("\n") if any(b_[0] in l for b_ in bad[:3])][:6]))
        else:
            run.count("outdir_state_ok")


# ---------------------------------------------------------------------------------------------------------------------
# the sweep

def directed_cases(seed, quick=True):
    """the directed part of the sweep: the same in every run.  Most sized cases run with -R (six files per directory: the decision
    about a per-type file is the same code in every mode), two with the full tree."""
    cases = []
    sizes = [("lt1", None), ("eq1-1", BLOCK - 1), ("eq1", BLOCK), ("eq1+1", BLOCK + 1), ("eq2", 2 * BLOCK), ("gt2", 2 * BLOCK + 1000), ("eq3", 3 * BLOCK)]
    if not quick:
        sizes += [("eq2-1", 2 * BLOCK - 1), ("eq2+1", 2 * BLOCK + 1), ("gt1", BLOCK + 2048), ("eq4", 4 * BLOCK), ("gt4", 4 * BLOCK + 7)]
    full = {"eq1": "copy", "gt2": "copy-per"}
    for i, (lab, sz) in enumerate(sizes):
        modes = [full.get(lab, "restricted")] if quick else ["restricted", ["copy", "copy-per", "noexample"][i % 3]]
        for mode in modes:
            c = {"name": "DirT-" + lab, "mode": mode, "focus": ["T.c", "T.h"] if (lab in ("lt1", "eq2") or not quick) else ["T.c"],
                 "variants": True, "seed": seed * 1000 + i, "random": 0 if quick else 6}
            if sz is None:
                c["text"], c["members"] = dir_module(2), 2
            else:
                c["target"] = ("T.c", sz)
            cases.append(c)
    # the header at the block size; skeleton copies and in-place files; the other option sets
    for lab, sz in [("eq1", BLOCK)] + ([] if quick else [("eq1+1", BLOCK + 1), ("eq1-1", BLOCK - 1)]):
        cases.append({"name": "DirH-" + lab, "mode": "restricted", "target": ("T.h", sz), "focus": ["T.h"], "variants": False, "seed": seed * 1000 + 20})
    skel_focus = ["INTEGER.c", "BOOLEAN.h", "Makefile.am.libasncodec", "pdu_collection.c"]
    if not quick:
        skel_focus += ["asn_codecs.h", "converter-example.mk", "Makefile.am.asn1convert", "constr_SEQUENCE.c", "converter-example.c"]
    cases.append({"name": "DirS-copy", "mode": "copy", "text": dir_module(3), "members": 3, "variants": False, "seed": seed * 1000 + 21, "focus": skel_focus})
    # no -D: destdir = "", asn1c writes into its working directory
    cases.append({"name": "DirN-nodest", "mode": "copy", "nodest": True, "text": dir_module(3), "members": 3, "variants": True, "seed": seed * 1000 + 25,
                  "focus": ["Makefile.am.libasncodec"] if quick else ["T.c", "T.h", "NativeInteger.c", "Makefile.am.libasncodec", "pdu_collection.c"]})
    if not quick:
        cases.append({"name": "DirN-nodest-link", "mode": "link", "nodest": True, "text": dir_module(3), "members": 3, "variants": True, "seed": seed * 1000 + 26,
                      "focus": ["T.c", "NativeInteger.c"]})
    for j, mode in enumerate(["link", "noexample"]):
        cases.append({"name": "DirM-" + mode, "mode": mode, "text": dir_module(4), "members": 4, "variants": True, "seed": seed * 1000 + 30 + j,
                      "focus": ["T.c", "NativeInteger.c", "Makefile.am.libasncodec"] if not quick else [["NativeInteger.c"], ["Makefile.am.libasncodec"]][j]})
    return cases


def random_cases(rng, texts, quick=True):
    """random stale states on other module texts (the rich generator's), one option set each"""
    cases = []
    modes = [m for m, _ in DIR_OPTS]
    for i, t in enumerate(texts):
        cases.append({"name": "DirR%d" % i, "mode": modes[i % len(modes)] if i < len(modes) else rng.choice(modes), "text": t, "variants": False,
                      "random_only": True, "random": 8 if quick else 20, "seed": rng.next() % (2 ** 31), "may_fail": True})
    return cases


if __name__ == "__main__":
    import sys, json, time
    sys.path.insert(0, os.path.join(os.path.dirname(os.path.abspath(__file__)), "..", "lib"))
    import vlib
    repo = sys.argv[1]
    root = sys.argv[2]
    ctx = (os.path.join(repo, "asn1c", "asn1c"), os.path.join(repo, "skeletons"), root)

    class R:
        dist = {}
        def case(self, *a): pass
        def count(self, k, n=1): self.dist[k] = self.dist.get(k, 0) + n
        def violation(self, kind, rep, no_input=False): print("VIOLATION", kind, json.dumps({k: v for k, v in rep.items() if k != "text"}, default=str)[:900])
        def known_finding(self, fid, what): print("KNOWN", fid, what)
    run = R()
    t0 = time.time()
    for i, c in enumerate(directed_cases(1, quick=len(sys.argv) < 4)):
        t = time.time()
        r = case_dir(ctx, i, c)
        eval_dir(run, c, r)
        print(c["name"], c["mode"], "states", len(r.get("states", [])), "members", r.get("members"), r.get("fname", "")[-30:], "%.1fs" % (time.time() - t), "model lines", len(entry_lines(c, r)))
    print("total %.1fs" % (time.time() - t0))
    for k in sorted(run.dist):
        print("  ", k, run.dist[k])
