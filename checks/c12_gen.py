"""C12 helper: generator of module ASTs (the algebra of coq/Fix/Printer.v), renderer
to ASN.1 text with randomised layout/comments/alternative spellings, serialiser
of an AST to the model driver's line protocol, and a tokenizer of `asn1c -E`
output.  Everything derives from the vlib.Rng passed in.

AST (python tuples, mirrors coq/Fix/Printer.v):
  module  = {"name","tagdef" in ("","EXPLICIT","IMPLICIT","AUTOMATIC"),"extimpl":bool,"assigns":[(Name, texpr)]}
  texpr   = (tag|None, ty, constr|None)
  tag     = (cls in "UAPC", num, mode in ("","IMPLICIT","EXPLICIT"))
  ty      = ("BOOLEAN",)|("NULL",)|("INTEGER",[(id,z)])|("OCTET STRING",)|("BIT STRING",[(id,z)])
          | ("ENUMERATED",[("i",id,z|None)|("ext",)])|("IA5String",)|("UTF8String",)
          | ("SEQUENCE",[member])|("SET",[member])|("CHOICE",[member])
          | ("SEQUENCE OF",constr|None,texpr)|("SET OF",constr|None,texpr)|("REF",Name)
  member  = ("c",id,texpr,marker)|("ext",)      marker = None|("OPT",)|("DEF",("int",z)|("bool",b))
  constr  = ("val",z)|("range",lo,hi)|("ext",)|("size",constr)|("uni",[c])|("int",[c])|("csv",[c])|("set",[c])
            lo = "MIN"|int, hi = "MAX"|int
"""

WORDS = ["alpha", "beta", "gamma", "delta", "kappa", "lambda", "omega", "sigma", "theta", "zeta", "node", "leaf", "item",
         "count", "flag", "name", "size2", "len", "val", "key", "body", "head", "tail", "msg", "hdr", "seq-no", "time-stamp",
         "user-id", "x", "y", "z", "a", "b", "c", "b0", "b1", "r", "g", "ab-cd-ef", "aZ9", "q1"]
TWORDS = ["Alpha", "Beta", "Gamma", "Msg", "Hdr", "Body", "Item", "Node", "Leaf", "Key", "Val", "List", "Rec", "Un", "Pdu",
          "A-b", "Ab-Cd", "X9", "Zz"]


class Gen:
    def __init__(self, rng, size=3):
        self.r = rng
        self.size = size
        self.tn = 0

    # ---- names
    def ident(self, used):
        for _ in range(100):
            w = self.r.choice(WORDS)
            if self.r.chance(1, 2):
                w += str(self.r.below(30))
            if w not in used:
                used.add(w)
                return w
        w = "id%d" % len(used)
        used.add(w)
        return w

    def tname(self, used):
        for _ in range(100):
            w = self.r.choice("QXYZ") + self.r.choice(["", "a", "t", "yp"]) + self.r.choice(TWORDS)
            if self.r.chance(1, 2):
                w += str(self.r.below(30))
            if w.lower().replace("-", "_") not in used:
                used.add(w.lower().replace("-", "_"))
                return w
        raise RuntimeError("names")

    # ---- constraints
    def z(self, lo=-70000, hi=70000):
        k = self.r.below(8)
        if k == 0:
            return self.r.choice([0, 1, -1, 127, 128, 255, 256, 65535, 65536, -128, -129, 2147483647, -2147483648])
        if k == 1:
            return self.r.range(-5, 5)
        return self.r.range(lo, hi)

    def elem(self, depth, nonneg):
        """one constraint element over integers (nonneg: for SIZE)"""
        k = self.r.below(10)
        if depth > 0 and k == 0:
            return ("set", [self.ess(depth - 1, nonneg)])
        a = self.r.range(0, 40) if nonneg else self.z()
        if k <= 3:
            return ("val", a)
        b = a + self.r.range(0, 50)
        lo, hi = a, b
        if not nonneg and self.r.chance(1, 6):
            lo = "MIN"
        if self.r.chance(1, 6):
            hi = "MAX"
        return ("range", lo, hi)

    def inters(self, depth, nonneg):
        n = 1 if self.r.chance(3, 4) else self.r.range(2, 3)
        es = [self.elem(depth, nonneg) for _ in range(n)]
        return es[0] if n == 1 else ("int", es)

    def ess(self, depth, nonneg):
        n = 1 if self.r.chance(1, 2) else self.r.range(2, 4)
        es = [self.inters(depth, nonneg) for _ in range(n)]
        return es[0] if n == 1 else ("uni", es)

    def spec(self, depth, nonneg, mk=None):
        mk = mk or (lambda: self.ess(depth, nonneg))
        k = self.r.below(8)
        c = mk()
        if k == 0:
            c = ("csv", [c, ("ext",)])
        elif k == 1:
            c = ("csv", [c, ("ext",), mk()])
        return c

    def int_constr(self):
        n = 1 if self.r.chance(11, 12) else 2
        cs = []
        for _ in range(n):
            s = self.spec(2, False)
            if s[0] == "set":
                s = s[1][0]
            cs.append(s)
        return ("set", cs)

    def size_elem(self):
        s = self.spec(1, True)
        if s[0] == "set":
            s = s[1][0]
        return ("size", ("set", [s]))

    def size_constr(self):
        """(SIZE(...)) possibly combined with other SIZE elements"""
        def mk():
            n = 1 if self.r.chance(4, 5) else 2
            es = [self.size_elem() for _ in range(n)]
            if n == 1:
                return es[0]
            return (self.r.choice(["uni", "int"]), es)
        return ("set", [self.spec(0, True, mk)])

    # ---- types
    def named_numbers(self, nonneg):
        used, vals, out = set(), set(), []
        for _ in range(self.r.range(1, 4)):
            v = self.r.range(0, 20) if nonneg else self.r.range(-10, 300)
            if v in vals:
                continue
            vals.add(v)
            out.append((self.ident(used), v))
        return out

    def enum_items(self):
        used, out = set(), []
        n = self.r.range(1, 5)
        explicit = self.r.chance(2, 3)
        v = self.r.range(0, 3)
        for _ in range(n):
            out.append(("i", self.ident(used), v if explicit else None))
            v += self.r.range(1, 4)
        if self.r.chance(1, 3):
            k = self.r.range(1, len(out))
            out.insert(k, ("ext",))
        return out

    def leaf(self):
        k = self.r.below(12)
        if k == 0:
            return (None, ("BOOLEAN",), None)
        if k == 1:
            return (None, ("NULL",), None)
        if k <= 4:
            nn = self.named_numbers(False) if self.r.chance(1, 4) else []
            return (None, ("INTEGER", nn), self.int_constr() if self.r.chance(2, 3) else None)
        if k == 5:
            return (None, ("OCTET STRING",), self.size_constr() if self.r.chance(1, 2) else None)
        if k == 6:
            nn = self.named_numbers(True) if self.r.chance(1, 2) else []
            return (None, ("BIT STRING", nn), self.size_constr() if self.r.chance(1, 3) else None)
        if k == 7:
            return (None, ("ENUMERATED", self.enum_items()), None)
        if k == 8:
            return (None, ("IA5String",), self.size_constr() if self.r.chance(1, 2) else None)
        if k == 9:
            return (None, ("UTF8String",), self.size_constr() if self.r.chance(1, 3) else None)
        return None

    def texpr(self, depth, refs, automatic):
        t = self.leaf() if (depth <= 0 or self.r.chance(1, 2)) else None
        if t is None:
            if refs and (depth <= 0 or self.r.chance(1, 3)):
                t = (None, ("REF", self.r.choice(refs)), None)
            elif depth <= 0:
                t = (None, ("INTEGER", []), None)
            else:
                k = self.r.below(5)
                if k <= 2:
                    kind = ["SEQUENCE", "SET", "CHOICE"][k]
                    t = (None, (kind, self.members(kind, depth - 1, refs, automatic)), None)
                else:
                    kind = "SEQUENCE OF" if k == 3 else "SET OF"
                    c = None
                    if self.r.chance(1, 2):
                        c = self.size_constr()
                        if self.r.chance(1, 3) and c[1][0][0] == "size":
                            c = c[1][0]          # bare  SEQUENCE SIZE(..) OF
                    t = (None, (kind, c, self.plain_of_elem(self.texpr(depth - 1, refs, automatic))), None)
        return t

    @staticmethod
    def plain_of_elem(e):
        """asn1c mis-parses / aborts on an OF type whose element is a constrained OF type, and moves a
        trailing constraint of an OF-of-OF chain onto the inner OF (findings C12-nested-of): the
        ordinary generator stays clear of both; dedicated witness modules exercise them."""
        tag, ty, c = e
        if ty[0] in ("SEQUENCE OF", "SET OF"):
            inner = ty[2]
            chain = []
            while inner[1][0] in ("SEQUENCE OF", "SET OF"):
                chain.append(inner)
                inner = inner[1][2]
            inner = (inner[0], inner[1], None)
            for x in reversed(chain):
                inner = (x[0], (x[1][0], None, inner), None)
            return (tag, (ty[0], None, inner), None)
        return e

    def tag_for(self, t, cls="C", num=None):
        num = self.r.range(0, 40) if num is None else num
        ty = t[1][0]
        if ty in ("CHOICE", "REF"):
            mode = self.r.choice(["", "EXPLICIT"])
        else:
            mode = self.r.choice(["", "IMPLICIT", "EXPLICIT"])
        return ((cls, num, mode), t[1], t[2])

    def members(self, kind, depth, refs, automatic):
        n = self.r.range(0 if kind == "SEQUENCE" and self.r.chance(1, 10) else 1, 2 + self.size)
        used = set()
        tagged = (not automatic) or self.r.chance(1, 3)
        ms = []
        tagno = self.r.range(0, 3)
        for _ in range(n):
            t = self.texpr(depth, refs, automatic)
            if tagged:
                t = self.tag_for(t, "C", tagno)
                tagno += self.r.range(1, 3)
            mk = None
            if kind != "CHOICE":
                k = self.r.below(6)
                if k == 0:
                    mk = ("OPT",)
                elif k == 1 and t[1][0] == "INTEGER" and not t[1][1]:
                    mk = ("DEF", ("int", self.z(-1000, 1000)))
                elif k == 1 and t[1][0] == "BOOLEAN":
                    mk = ("DEF", ("bool", self.r.chance(1, 2)))
            ms.append(("c", self.ident(used), t, mk))
        if self.r.chance(1, 3):
            k = self.r.range(1 if kind == "CHOICE" and ms else 0, len(ms))
            ms.insert(k, ("ext",))
            if self.r.chance(1, 4) and k < len(ms) - 1:
                ms.insert(self.r.range(k + 2, len(ms)), ("ext",))
        return ms

    def module(self, name, nass=None, ext_refs=()):
        tagdef = self.r.choice(["AUTOMATIC", "AUTOMATIC", "", "EXPLICIT", "IMPLICIT"])
        automatic = tagdef == "AUTOMATIC"
        used = set()
        assigns, refs = [], list(ext_refs)
        for _ in range(nass or self.r.range(1, 2 + self.size)):
            nm = self.tname(used)
            t = self.texpr(2, refs, automatic)
            if self.r.chance(1, 6):
                t = self.tag_for(t, self.r.choice("AP"))
            assigns.append((nm, t))
            refs.append(nm)
        return {"name": name, "tagdef": tagdef, "extimpl": self.r.chance(1, 8), "assigns": assigns}


# ---------------------------------------------------------------------------
# rendering an AST to tokens (what a user could have written)

def tok_value(z):
    return str(z)


def toks_constr(c, alt):
    k = c[0]
    if k == "val":
        return [str(c[1])]
    if k == "range":
        return [str(c[1]), "..", str(c[2])]
    if k == "ext":
        return ["..."]
    if k == "size":
        return ["SIZE"] + toks_constr(c[1], alt)
    if k in ("uni", "int", "csv"):
        out = []
        for i, e in enumerate(c[1]):
            if i:
                out.append({"uni": alt("|", "UNION"), "int": alt("^", "INTERSECTION"), "csv": ","}[k])
            out += toks_constr(e, alt)
        return out
    if k == "set":
        out = []
        for e in c[1]:
            out += ["("] + toks_constr(e, alt) + [")"]
        return out
    raise ValueError(k)


def toks_tag(tag):
    cls = {"U": ["UNIVERSAL"], "A": ["APPLICATION"], "P": ["PRIVATE"], "C": []}[tag[0]]
    return ["["] + cls + [str(tag[1]), "]"] + ([tag[2]] if tag[2] else [])


def toks_texpr(t, alt):
    tag, ty, c = t
    out = toks_tag(tag) if tag else []
    k = ty[0]
    if k in ("BOOLEAN", "NULL", "IA5String", "UTF8String"):
        out.append(k)
    elif k == "OCTET STRING":
        out += ["OCTET", "STRING"]
    elif k in ("INTEGER", "BIT STRING"):
        out += k.split()
        if ty[1]:
            out.append("{")
            for i, (n, v) in enumerate(ty[1]):
                if i:
                    out.append(",")
                out += [n, "(", str(v), ")"]
            out.append("}")
    elif k == "ENUMERATED":
        out += [k, "{"]
        for i, it in enumerate(ty[1]):
            if i:
                out.append(",")
            if it[0] == "ext":
                out.append("...")
            else:
                out.append(it[1])
                if it[2] is not None:
                    out += ["(", str(it[2]), ")"]
        out.append("}")
    elif k in ("SEQUENCE", "SET", "CHOICE"):
        out += [k, "{"]
        for i, m in enumerate(ty[1]):
            if i:
                out.append(",")
            if m[0] == "ext":
                out.append("...")
            else:
                out.append(m[1])
                out += toks_texpr(m[2], alt)
                if m[3] is not None:
                    if m[3][0] == "OPT":
                        out.append("OPTIONAL")
                    else:
                        d = m[3][1]
                        out += ["DEFAULT", (str(d[1]) if d[0] == "int" else ("TRUE" if d[1] else "FALSE"))]
        out.append("}")
    elif k in ("SEQUENCE OF", "SET OF"):
        out.append(k.split()[0])
        if ty[1] is not None:
            out += toks_constr(ty[1], alt)
        out.append("OF")
        out += toks_texpr(ty[2], alt)
    elif k == "REF":
        out.append(ty[1])
    else:
        raise ValueError(k)
    if c is not None:
        out += toks_constr(c, alt)
    return out


def toks_module(m, alt=lambda a, b: a, imports=None):
    out = [m["name"], "DEFINITIONS"]
    if m["tagdef"]:
        out += [m["tagdef"], "TAGS"]
    if m["extimpl"]:
        out += ["EXTENSIBILITY", "IMPLIED"]
    out += ["::=", "BEGIN"]
    if imports:
        out.append("IMPORTS")
        for names, frm in imports:
            for i, n in enumerate(names):
                if i:
                    out.append(",")
                out.append(n)
            out += ["FROM", frm]
        out.append(";")
    for nm, t in m["assigns"]:
        out += [nm, "::="] + toks_texpr(t, alt)
    out.append("END")
    return out


def render(m, rng, imports=None):
    """ASN.1 source text with randomised layout, comments and alternative spellings"""
    alt = lambda a, b: b if rng.chance(1, 4) else a
    toks = toks_module(m, alt, imports)
    style = rng.below(4)     # 0: compact single spaces; 1: newline-heavy; 2: mixed; 3: mixed + many comments
    out = []
    glue_pairs = {("..", None)}
    for i, t in enumerate(toks):
        out.append(t)
        if i + 1 == len(toks):
            out.append("\n")
            break
        nxt = toks[i + 1]
        # tokens that may be written without a blank between them
        tight = (t in "({[,|^" or nxt in ")}],|^(" or t == ".." or nxt == ".." or t in (")", "]", "}")) and t != "..." and nxt != "..."
        if nxt == "::=" or t == "::=":
            tight = False
        if t[0].isalnum() and nxt[0].isalnum():
            tight = False
        if t[0] == "-" or nxt[0] == "-":      # negative number next to punctuation: keep a blank
            tight = False
        if tight and (style == 0 or rng.chance(1, 2)):
            continue
        if style == 0:
            out.append(" ")
            continue
        k = rng.below(12 if style < 3 else 6)
        if k == 0:
            out.append("\n" + " " * rng.below(9))
        elif k == 1:
            out.append("\t")
        elif k == 2:
            out.append("  -- " + rng.choice(["note", "x ::= y", "SEQUENCE {", "1..2", "it's", "a - b"]) + "\n")
        elif k == 3:
            out.append(" -- " + rng.choice(["c", "OPTIONAL", "(", "}"]) + " -- ")
        elif k == 4:
            out.append(" /* " + rng.choice(["block", "multi\nline", "-- inside", "{ ( [", "* star"]) + " */ ")
        elif k == 5:
            out.append("\n\n")
        else:
            out.append(" " * rng.range(1, 3))
    return "".join(out)


# ---------------------------------------------------------------------------
# serialisation to the model driver's protocol (prefix form, blank separated)

def ser_constr(c, out):
    k = c[0]
    if k == "val":
        out += ["v", str(c[1])]
    elif k == "range":
        out += ["r", "m" if c[1] == "MIN" else str(c[1]), "M" if c[2] == "MAX" else str(c[2])]
    elif k == "ext":
        out.append("e")
    elif k == "size":
        out.append("z")
        ser_constr(c[1], out)
    else:
        out += [{"uni": "U", "int": "N", "csv": "V", "set": "S"}[k], str(len(c[1]))]
        for e in c[1]:
            ser_constr(e, out)


def ser_copt(c, out):
    if c is None:
        out.append("-")
    else:
        ser_constr(c, out)


def ser_texpr(t, out):
    tag, ty, c = t
    out.append("X")
    if tag is None:
        out.append("-")
    else:
        out += ["G", tag[0], str(tag[1]), {"": "D", "IMPLICIT": "I", "EXPLICIT": "E"}[tag[2]]]
    k = ty[0]
    if k in ("BOOLEAN", "NULL", "OCTET STRING", "IA5String", "UTF8String"):
        out.append({"BOOLEAN": "Tb", "NULL": "Tn", "OCTET STRING": "To", "IA5String": "Ta", "UTF8String": "Tu"}[k])
    elif k in ("INTEGER", "BIT STRING"):
        out += ["Ti" if k == "INTEGER" else "Tbs", str(len(ty[1]))]
        for n, v in ty[1]:
            out += [n, str(v)]
    elif k == "ENUMERATED":
        out += ["Te", str(len(ty[1]))]
        for it in ty[1]:
            if it[0] == "ext":
                out.append("E")
            elif it[2] is None:
                out += ["J", it[1]]
            else:
                out += ["I", it[1], str(it[2])]
    elif k in ("SEQUENCE", "SET", "CHOICE"):
        out += [{"SEQUENCE": "Ts", "SET": "Tt", "CHOICE": "Tc"}[k], str(len(ty[1]))]
        for m in ty[1]:
            if m[0] == "ext":
                out.append("E")
            else:
                out += ["C", m[1]]
                ser_texpr(m[2], out)
                if m[3] is None:
                    out.append("-")
                elif m[3][0] == "OPT":
                    out.append("O")
                elif m[3][1][0] == "int":
                    out += ["Di", str(m[3][1][1])]
                else:
                    out += ["Db", "1" if m[3][1][1] else "0"]
    elif k in ("SEQUENCE OF", "SET OF"):
        out.append("Tso" if k == "SEQUENCE OF" else "Tto")
        ser_copt(ty[1], out)
        ser_texpr(ty[2], out)
    elif k == "REF":
        out += ["Tr", ty[1]]
    ser_copt(c, out)


def ser_module(m):
    out = ["M", m["name"], {"": "N", "EXPLICIT": "E", "IMPLICIT": "I", "AUTOMATIC": "A"}[m["tagdef"]],
           "1" if m["extimpl"] else "0", str(len(m["assigns"]))]
    for nm, t in m["assigns"]:
        out.append(nm)
        ser_texpr(t, out)
    return " ".join(out)


# ---------------------------------------------------------------------------
# classification helpers for the oracle / findings

def constr_has_deep_paren(c, top=True):
    """a parenthesised element directly inside a parenthesised element directly inside
    a Constraint's own parentheses, i.e. source text `(((` x `)))` — root cause of C12-paren-collapse"""
    if c is None:
        return False
    k = c[0]
    if k == "set":
        for e in c[1]:
            if top and e[0] == "set" and len(e[1]) == 1:
                return True
            if constr_has_deep_paren(e, False):
                return True
        return False
    if k == "size":
        return constr_has_deep_paren(c[1], True)
    if k in ("uni", "int", "csv"):
        return any(constr_has_deep_paren(e, False) for e in c[1])
    return False


def texpr_constrs(t):
    tag, ty, c = t
    if c is not None:
        yield c
    if ty[0] in ("SEQUENCE", "SET", "CHOICE"):
        for m in ty[1]:
            if m[0] == "c":
                yield from texpr_constrs(m[2])
    elif ty[0] in ("SEQUENCE OF", "SET OF"):
        if ty[1] is not None:
            yield ty[1]
        yield from texpr_constrs(ty[2])


def module_has_deep_paren(m):
    return any(constr_has_deep_paren(c) for _, t in m["assigns"] for c in texpr_constrs(t))


def wrap_parens(m, rng):
    """returns a copy of m in which one top-level constraint's single spec is wrapped in two
    extra pairs of parentheses (source `(((x)))`), or None if m has no suitable constraint"""
    import copy
    m2 = copy.deepcopy(m)
    for i, (nm, t) in enumerate(m2["assigns"]):
        tag, ty, c = t
        if c is not None and c[0] == "set" and len(c[1]) == 1 and c[1][0][0] not in ("csv", "ext", "set"):
            m2["assigns"][i] = (nm, (tag, ty, ("set", [("set", [("set", [c[1][0]])])])))
            return m2
    return None


def yacc_norm_constr(c, top):
    """the tree yacc builds from the rendered source: `Constraint: '(' ConstraintSpec ')'`
    re-uses a ConstraintSpec that is itself a parenthesised element (CONSTRAINT_INSERT)."""
    if c is None:
        return None
    k = c[0]
    if k == "set":
        es = [yacc_norm_constr(e, False) for e in c[1]]
        if top:
            es = [(e[1][0] if e[0] == "set" and len(e[1]) == 1 else e) for e in es]
        return ("set", es)
    if k == "size":
        return ("size", yacc_norm_constr(c[1], True))
    if k in ("uni", "int", "csv"):
        return (k, [yacc_norm_constr(e, False) for e in c[1]])
    return c


def yacc_norm_texpr(t):
    tag, ty, c = t
    k = ty[0]
    if k in ("SEQUENCE", "SET", "CHOICE"):
        ty = (k, [(m if m[0] == "ext" else ("c", m[1], yacc_norm_texpr(m[2]), m[3])) for m in ty[1]])
    elif k in ("SEQUENCE OF", "SET OF"):
        e = ty[2]
        if e[1][0] in ("SEQUENCE OF", "SET OF") and e[1][1] is None:
            # "Outer constraint for SEQUENCE OF and SET OF applies to the inner type": yacc hangs the
            # constraint that follows the innermost element type on the first member of the
            # outermost OF, i.e. on the inner OF type (finding C12-nested-of)
            chain, x = [], e
            while x[1][0] in ("SEQUENCE OF", "SET OF"):
                chain.append(x)
                x = x[1][2]
            if x[2] is not None:
                moved, x = x[2], (x[0], x[1], None)
                for y in reversed(chain):
                    x = (y[0], (y[1][0], y[1][1], x), y[2])
                e = (x[0], (x[1][0], moved, x[1][2]), x[2])
        ty = (k, yacc_norm_constr(ty[1], True), yacc_norm_texpr(e))
    return (tag, ty, yacc_norm_constr(c, True))


def yacc_norm(m):
    m2 = dict(m)
    m2["assigns"] = [(n, yacc_norm_texpr(t)) for n, t in m["assigns"]]
    return m2
