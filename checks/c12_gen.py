"""C12 helper: generator of module ASTs (the algebra of coq/Fix/Printer.v), renderer
to ASN.1 text with randomised layout/comments/alternative spellings, serialiser
of an AST to the model driver's line protocol, and a tokenizer of `asn1c -E`
output.  Everything derives from the vlib.Rng passed in.

AST (python tuples, mirrors coq/Fix/Printer.v):
  module  = {"name","tagdef" in ("","EXPLICIT","IMPLICIT","AUTOMATIC"),"extimpl":bool,"assigns":[(Name, texpr)]}
  texpr   = (tag|None, ty, constr|None)
  tag     = (cls in "UAPC", num, mode in ("","IMPLICIT","EXPLICIT"))
  ty      = ("BOOLEAN",)|("NULL",)|("INTEGER",[(id,z)])|("OCTET STRING",)|("BIT STRING",[(id,z)])
          | ("ENUMERATED",[("i",id,z|None)|("ext",)])|("IA5String",)|("UTF8String",)
          | ("SEQUENCE",[member])|("SET",[member])|("CHOICE",[member])
          | ("SEQUENCE OF",constr|None,texpr)|("SET OF",constr|None,texpr)|("REF",Name)
  member  = ("c",id,texpr,marker)|("ext",)      marker = None|("OPT",)|("DEF",("int",z)|("bool",b))
  constr  = ("val",z|value)|("range",lo,hi)|("ext",)|("size",constr)|("uni",[c])|("int",[c])|("csv",[c])|("set",[c])
          | ("ctype", Module|None, Name)          contained subtype by reference: (INCLUDES T) / (T) / (M.T)
            lo = "MIN"|int|value, hi = "MAX"|int|value
  value   = int | ("int",z)|("null",)|("bool",b)|("bits","0101..")|("str",text)|("real",neg,ip,fp6)|("ref",id)|("ref2",Module,id)
  nval    = int | ("ref",id) | ("ref2",Module,id)        named numbers, ENUMERATED values, exception spec
  a module's "assigns" holds type assignments (Name, texpr) and value assignments (name, texpr, value);
  a member ("ext", nval) is `...!nval`; ty ("REAL",) ; marker ("DEF", value)
"""

WORDS = ["alpha", "beta", "gamma", "delta", "kappa", "lambda", "omega", "sigma", "theta", "zeta", "node", "leaf", "item",
         "count", "flag", "name", "size2", "len", "val", "key", "body", "head", "tail", "msg", "hdr", "seq-no", "time-stamp",
         "user-id", "x", "y", "z", "a", "b", "c", "b0", "b1", "r", "g", "ab-cd-ef", "aZ9", "q1"]
TWORDS = ["Alpha", "Beta", "Gamma", "Msg", "Hdr", "Body", "Item", "Node", "Leaf", "Key", "Val", "List", "Rec", "Un", "Pdu",
          "A-b", "Ab-Cd", "X9", "Zz"]


class Gen:
    def __init__(self, rng, size=3):
        self.r = rng
        self.size = size
        self.tn = 0

    # ---- names
    def ident(self, used):
        for _ in range(100):
            w = self.r.choice(WORDS)
            if self.r.chance(1, 2):
                w += str(self.r.below(30))
            if w not in used:
                used.add(w)
                return w
        w = "id%d" % len(used)
        used.add(w)
        return w

    def tname(self, used):
        for _ in range(100):
            w = self.r.choice("QXYZ") + self.r.choice(["", "a", "t", "yp"]) + self.r.choice(TWORDS)
            if self.r.chance(1, 2):
                w += str(self.r.below(30))
            if w.lower().replace("-", "_") not in used:
                used.add(w.lower().replace("-", "_"))
                return w
        raise RuntimeError("names")

    # ---- constraints
    def z(self, lo=-70000, hi=70000):
        k = self.r.below(8)
        if k == 0:
            return self.r.choice([0, 1, -1, 127, 128, 255, 256, 65535, 65536, -128, -129, 2147483647, -2147483648])
        if k == 1:
            return self.r.range(-5, 5)
        return self.r.range(lo, hi)

    def elem(self, depth, nonneg):
        """one constraint element over integers (nonneg: for SIZE)"""
        k = self.r.below(10)
        if depth > 0 and k == 0:
            return ("set", [self.ess(depth - 1, nonneg)])
        a = self.r.range(0, 40) if nonneg else self.z()
        if k <= 3:
            if not nonneg:
                a = self.vref("int", False, (1, 5)) or a      # value reference as a single value
            return ("val", a)
        # a value reference as upper end point: the referenced values lie above the literal lower end points
        vr = self.vref("nat", True, (1, 4)) if nonneg else self.vref("big", True, (1, 5))
        if vr:
            return ("range", self.r.range(0, 20) if nonneg else self.r.range(-50, 900), vr)
        b = a + self.r.range(0, 50)
        lo, hi = a, b
        if not nonneg and self.r.chance(1, 6):
            lo = "MIN"
        if self.r.chance(1, 6):
            hi = "MAX"
        return ("range", lo, hi)

    def inters(self, depth, nonneg):
        n = 1 if self.r.chance(3, 4) else self.r.range(2, 3)
        es = [self.elem(depth, nonneg) for _ in range(n)]
        return es[0] if n == 1 else ("int", es)

    def ess(self, depth, nonneg):
        n = 1 if self.r.chance(1, 2) else self.r.range(2, 4)
        es = [self.inters(depth, nonneg) for _ in range(n)]
        return es[0] if n == 1 else ("uni", es)

    def spec(self, depth, nonneg, mk=None):
        mk = mk or (lambda: self.ess(depth, nonneg))
        k = self.r.below(8)
        c = mk()
        if k == 0:
            c = ("csv", [c, ("ext",)])
        elif k == 1:
            c = ("csv", [c, ("ext",), mk()])
        return c

    def int_constr(self):
        n = 1 if self.r.chance(11, 12) else 2
        cs = []
        for _ in range(n):
            s = self.spec(2, False)
            if s[0] == "set":
                s = s[1][0]
            cs.append(s)
        return ("set", cs)

    def size_elem(self):
        s = self.spec(1, True)
        if s[0] == "set":
            s = s[1][0]
        return ("size", ("set", [s]))

    def size_constr(self):
        """(SIZE(...)) possibly combined with other SIZE elements"""
        def mk():
            n = 1 if self.r.chance(4, 5) else 2
            es = [self.size_elem() for _ in range(n)]
            if n == 1:
                return es[0]
            return (self.r.choice(["uni", "int"]), es)
        return ("set", [self.spec(0, True, mk)])

    # ---- values (self.vals: value assignments visible so far: kind -> [name]; self.modname)
    vals = None
    modname = None
    inttypes = None

    def vref(self, kind, qual=True, p=(1, 3)):
        """a reference to an earlier value assignment of that kind, or None.  qual: `Module.value` may be
        used (asn1c's grammar refuses it as a single value and as a lower end point: `(M.v)`, `(M.v..9)`
        are syntax errors, `(1..M.v)` and `DEFAULT M.v` are accepted)"""
        if not self.vals or not self.vals.get(kind) or not self.r.chance(*p):
            return None
        n = self.r.choice(self.vals[kind])
        if qual and self.modname and self.r.chance(1, 4):
            return ("ref2", self.modname, n)
        return ("ref", n)

    def bits(self, octets=None):
        """directed lengths first: 1..7 (bstring), 8/16/24 (hstring), 9, 12 (an hstring source with three
        digits is a bstring in print), all 16 hexadecimal digits"""
        if octets is None:
            octets = self.r.chance(1, 2)
        if octets:
            k = self.r.below(6)
            if k == 0:
                nib = list("0123456789ABCDEF")
                nib = self.r.shuffle(nib)[:2 * self.r.range(1, 8)]
            elif k == 1:
                nib = [self.r.choice("ABCDEF") for _ in range(2 * self.r.range(1, 4))]
            else:
                nib = [self.r.choice("0123456789ABCDEF") for _ in range(2 * self.r.range(1, 6))]
            return ("bits", "".join(format(int(c, 16), "04b") for c in nib))
        n = self.r.choice([1, 2, 3, 4, 5, 6, 7, 9, 12, 15, 17, 20, 31, self.r.range(1, 40)])
        return ("bits", "".join(self.r.choice("01") for _ in range(n)))

    def cstr(self):
        k = self.r.below(6)
        if k == 0:
            return ("str", "")
        pool = ["a", "b", "Z", "0", " ", "\"", "\"", "-", "x y", "it", "()", "--", "'", ",", "{", "}", "|", "::="]
        t = "".join(self.r.choice(pool) for _ in range(self.r.range(1, 6)))
        if t.startswith("'"):
            # asn1p_l.l: the "prohibited symbol" rule (a mis-bracketed character class) matches any character
            # followed by '" — three characters, longer than the cstring rule's match — so the lexeme "'" (and
            # "'""...") is refused; such a value cannot come out of the parser either, hence never out of the printer
            t = "q" + t
        return ("str", t)

    def real(self):
        k = self.r.below(6)
        if k == 0:
            ip, fp = "0", "0"
        elif k == 1:
            ip, fp = str(self.r.range(0, 9)), str(self.r.range(0, 999999)).rjust(6, "0")
        elif k == 2:
            ip, fp = str(self.r.range(0, 999999999)), str(self.r.range(0, 999999)).rjust(6, "0")
        else:
            ip, fp = str(self.r.range(0, 500)), self.r.choice(["5", "25", "125", "0", "75", "001", "000001", "999999"])
        return ("real", self.r.chance(1, 3), ip, fp.ljust(6, "0"))

    def intval(self):
        return self.vref("int") or self.z(-1000, 1000)

    def value_for(self, tyk, ty=None, qual=True):
        """a value of the kind the type takes (so that the semantic pass accepts most modules)"""
        if tyk == "INTEGER":
            if ty and ty[1] and self.r.chance(1, 2):
                return ("ref", self.r.choice(ty[1])[0])          # a named number
            return self.vref("int", qual) or self.r.choice([self.z(-1000, 1000), self.z(), 9223372036854775807, -9223372036854775807])
        if tyk == "BOOLEAN":             # (DEFAULT by reference is accepted for INTEGER and character strings only)
            return ("bool", self.r.chance(1, 2))
        if tyk == "NULL":
            return ("null",)
        if tyk == "OCTET STRING":        # (a reference to an OCTET/BIT STRING value is refused by the semantic pass)
            return self.bits(True)
        if tyk == "BIT STRING":
            return self.bits()
        if tyk in ("IA5String", "UTF8String"):
            return self.vref("str", qual) or self.cstr()
        if tyk == "REAL":
            return self.real()
        if tyk == "ENUMERATED":
            ids = [it[1] for it in ty[1] if it[0] == "i"]
            return ("ref", self.r.choice(ids))
        return None

    def value_constr(self, tyk):
        """single-value / value-range constraints over values of the type's kind"""
        n = 1 if self.r.chance(1, 2) else self.r.range(2, 3)
        es = []
        for _ in range(n):
            if tyk == "REAL" and self.r.chance(1, 2):
                a, b = self.real(), self.real()
                fa = (-1 if a[1] else 1) * float(a[2] + "." + a[3])
                fb = (-1 if b[1] else 1) * float(b[2] + "." + b[3])
                if fa > fb:
                    a, b = b, a
                es.append(("range", "MIN" if self.r.chance(1, 6) else a, "MAX" if self.r.chance(1, 6) else b))
            else:
                es.append(("val", self.value_for(tyk, None, False)))
        c = es[0] if n == 1 else ("uni", es)
        if self.r.chance(1, 8):
            c = ("csv", [c, ("ext",)])
        return ("set", [c])

    # ---- types
    def named_numbers(self, nonneg):
        used, vals, out = set(), set(), []
        for _ in range(self.r.range(1, 4)):
            v = self.r.range(0, 20) if nonneg else self.r.range(-10, 300)
            if v in vals:
                continue
            vals.add(v)
            out.append((self.ident(used), v))
        if not nonneg and self.vals and self.vals.get("big") and self.r.chance(1, 3):
            # a named number given by a value reference (`DefinedValue`); the referenced values are
            # kept apart from the literal ones (>= 1000) so that named numbers stay distinct
            out.append((self.ident(used), ("ref", self.r.choice(self.vals["big"]))))
        return out

    def enum_items(self):
        used, out = set(), []
        n = self.r.range(1, 5)
        explicit = self.r.chance(2, 3)
        v = self.r.range(0, 3)
        for _ in range(n):
            out.append(("i", self.ident(used), v if explicit else None))
            v += self.r.range(1, 4)
        if self.r.chance(1, 3):
            k = self.r.range(1, len(out))
            out.insert(k, ("ext",))
        return out

    def leaf(self):
        k = self.r.below(13)
        if k == 0:
            return (None, ("BOOLEAN",), None)
        if k == 1:
            return (None, ("NULL",), None)
        if k <= 4:
            nn = self.named_numbers(False) if self.r.chance(1, 4) else []
            c = self.int_constr() if self.r.chance(2, 3) else None
            if self.inttypes and self.r.chance(1, 5):
                # contained subtype by reference, alone or in a union with values
                ct = ("ctype", self.modname if self.modname and self.r.chance(1, 4) else None, self.r.choice(self.inttypes))
                c = ("set", [ct if self.r.chance(1, 2) else ("uni", [ct, ("range", 1000, 1000 + self.r.range(0, 50))])])
            return (None, ("INTEGER", nn), c)
        if k == 5:
            c = self.size_constr() if self.r.chance(1, 2) else (self.value_constr("OCTET STRING") if self.r.chance(1, 2) else None)
            return (None, ("OCTET STRING",), c)
        if k == 6:
            nn = self.named_numbers(True) if self.r.chance(1, 2) else []
            c = self.size_constr() if self.r.chance(1, 3) else (self.value_constr("BIT STRING") if self.r.chance(1, 4) and not nn else None)
            return (None, ("BIT STRING", nn), c)
        if k == 7:
            return (None, ("ENUMERATED", self.enum_items()), None)
        if k == 8:
            c = self.size_constr() if self.r.chance(1, 2) else (self.value_constr("IA5String") if self.r.chance(1, 2) else None)
            return (None, ("IA5String",), c)
        if k == 9:
            return (None, ("UTF8String",), self.size_constr() if self.r.chance(1, 3) else None)
        if k == 10:
            return (None, ("REAL",), self.value_constr("REAL") if self.r.chance(1, 2) else None)
        return None

    def texpr(self, depth, refs, automatic):
        t = self.leaf() if (depth <= 0 or self.r.chance(1, 2)) else None
        if t is None:
            if refs and (depth <= 0 or self.r.chance(1, 3)):
                t = (None, ("REF", self.r.choice(refs)), None)
            elif depth <= 0:
                t = (None, ("INTEGER", []), None)
            else:
                k = self.r.below(5)
                if k <= 2:
                    kind = ["SEQUENCE", "SET", "CHOICE"][k]
                    t = (None, (kind, self.members(kind, depth - 1, refs, automatic)), None)
                else:
                    kind = "SEQUENCE OF" if k == 3 else "SET OF"
                    c = None
                    if self.r.chance(1, 2):
                        c = self.size_constr()
                        if self.r.chance(1, 3) and c[1][0][0] == "size":
                            c = c[1][0]          # bare  SEQUENCE SIZE(..) OF
                    t = (None, (kind, c, self.plain_of_elem(self.texpr(depth - 1, refs, automatic))), None)
        return t

    @staticmethod
    def plain_of_elem(e):
        """asn1c mis-parses / aborts on an OF type whose element is a constrained OF type, and moves a
        trailing constraint of an OF-of-OF chain onto the inner OF (findings C12-nested-of): the
        ordinary generator stays clear of both; dedicated witness modules exercise them."""
        tag, ty, c = e
        if ty[0] in ("SEQUENCE OF", "SET OF"):
            inner = ty[2]
            chain = []
            while inner[1][0] in ("SEQUENCE OF", "SET OF"):
                chain.append(inner)
                inner = inner[1][2]
            inner = (inner[0], inner[1], None)
            for x in reversed(chain):
                inner = (x[0], (x[1][0], None, inner), None)
            return (tag, (ty[0], None, inner), None)
        return e

    def tag_for(self, t, cls="C", num=None):
        num = self.r.range(0, 40) if num is None else num
        ty = t[1][0]
        if ty in ("CHOICE", "REF"):
            mode = self.r.choice(["", "EXPLICIT"])
        else:
            mode = self.r.choice(["", "IMPLICIT", "EXPLICIT"])
        return ((cls, num, mode), t[1], t[2])

    def members(self, kind, depth, refs, automatic):
        n = self.r.range(0 if kind == "SEQUENCE" and self.r.chance(1, 10) else 1, 2 + self.size)
        used = set()
        tagged = (not automatic) or self.r.chance(1, 3)
        ms = []
        tagno = self.r.range(0, 3)
        for _ in range(n):
            t = self.texpr(depth, refs, automatic)
            if tagged:
                t = self.tag_for(t, "C", tagno)
                tagno += self.r.range(1, 3)
            mk = None
            if kind != "CHOICE":
                k = self.r.below(6)
                if k == 0:
                    mk = ("OPT",)
                elif k <= 2:
                    dv = self.value_for(t[1][0], t[1])
                    if dv is not None:
                        mk = ("DEF", dv)
            ms.append(("c", self.ident(used), t, mk))
        if self.r.chance(1, 3):
            k = self.r.range(1 if kind == "CHOICE" and ms else 0, len(ms))
            x = ("ext",)
            if self.r.chance(1, 4):        # exception spec: `...!5`, `...!-1`, `...!v`
                x = ("ext", self.vref("int") or self.r.range(-5, 60))
            ms.insert(k, x)
            if self.r.chance(1, 4) and k < len(ms) - 1:
                ms.insert(self.r.range(k + 2, len(ms)), ("ext",))
        return ms

    def value_assign(self, used):
        """a value assignment of one of the modelled kinds; registers the name for later references"""
        k = self.r.below(9)
        nm = "v" + self.ident(used)
        while nm in used:
            nm += "x"
        used.add(nm)
        kind, tyk = [("int", "INTEGER"), ("int", "INTEGER"), ("big", "INTEGER"), ("bool", "BOOLEAN"), ("oct", "OCTET STRING"),
                     ("bit", "BIT STRING"), ("str", "IA5String"), ("real", "REAL"), ("nat", "INTEGER")][k]
        if kind == "big":
            v = self.r.range(1000, 30000)
        elif kind == "nat":
            v = self.r.range(21, 60)
        elif kind == "int" and self.vals.get("int") and self.r.chance(1, 4):
            v = ("ref", self.r.choice(self.vals["int"]))          # value reference chain
        else:
            v = self.value_for(tyk)
        ty = (tyk,) if tyk not in ("INTEGER", "BIT STRING") else (tyk, [])
        t = (None, ty, None)
        if tyk == "INTEGER" and self.inttypes and self.r.chance(1, 5):
            t = (None, ("REF", self.r.choice(self.inttypes)), None)
        self.vals.setdefault(kind, []).append(nm)
        return (nm, t, v)

    def module(self, name, nass=None, ext_refs=(), values=True):
        tagdef = self.r.choice(["AUTOMATIC", "AUTOMATIC", "", "EXPLICIT", "IMPLICIT"])
        automatic = tagdef == "AUTOMATIC"
        used = set()
        assigns, refs = [], list(ext_refs)
        self.vals, self.modname, self.inttypes = ({} if values else None), name, []
        n = nass or self.r.range(1, 2 + self.size)
        if values:
            for _ in range(self.r.range(0, 3)):
                assigns.append(self.value_assign(used))
        for _ in range(n):
            nm = self.tname(used)
            t = self.texpr(2, refs, automatic)
            if self.r.chance(1, 6):
                t = self.tag_for(t, self.r.choice("AP"))
            assigns.append((nm, t))
            refs.append(nm)
            if t[1][0] == "INTEGER" and t[0] is None and not t[1][1] and t[2] is not None and not constr_has(t[2], "ctype"):
                self.inttypes.append(nm)
            if values and self.r.chance(1, 4):
                assigns.append(self.value_assign(used))
        self.vals, self.inttypes = None, None
        return {"name": name, "tagdef": tagdef, "extimpl": self.r.chance(1, 8), "assigns": assigns}


def constr_has(c, kind):
    if c is None:
        return False
    if c[0] == kind:
        return True
    if c[0] == "size":
        return constr_has(c[1], kind)
    if c[0] in ("uni", "int", "csv", "set"):
        return any(constr_has(e, kind) for e in c[1])
    return False


def value_boundary_modules():
    """directed cases of the VALUE sub-language, the same in every run: every value kind at its boundaries in
    every position the grammar has a value (value assignment, DEFAULT, single-value constraint, range end
    points, named numbers, ENUMERATED values, exception spec, contained subtype)"""
    T = lambda ty, c=None, tag=None: (tag, ty, c)
    INT, OCT, BIT, IA5, REAL, BOOL, NUL = ("INTEGER", []), ("OCTET STRING",), ("BIT STRING", []), ("IA5String",), ("REAL",), ("BOOLEAN",), ("NULL",)
    hexall = "".join(format(i, "04b") for i in range(16))
    mods = []
    # 1. bit strings: all sixteen digits, every length 1..17, multiples of 8 (hstring) and 4 (bstring in print)
    ass = [("vall", T(OCT), ("bits", hexall)), ("vaf", T(OCT), ("bits", "".join(format(i, "04b") for i in (10, 11, 12, 13, 14, 15, 15, 10)))),
           ("vzero", T(OCT), ("bits", "0" * 8)), ("vff", T(OCT), ("bits", "1" * 8))]
    for n in range(1, 18):
        ass.append(("vb%d" % n, T(BIT), ("bits", ("1011001110001111" * 2)[:n])))
    ass.append(("vnib3", T(BIT), ("bits", "101011001110")))          # 'ACE'H in source, a bstring in print
    ass.append(("QaFrame", T(("SEQUENCE", [
        ("c", "magic", T(OCT, ("set", [("size", ("set", [("val", 4)]))])), ("DEF", ("bits", format(0xCAFEBABE, "032b")))),
        ("c", "flags", T(BIT), ("DEF", ("bits", "10100000"))),
        ("c", "odd", T(BIT), ("DEF", ("bits", "101"))),
        ("ext", 7),
        ("c", "pad", T(OCT), ("DEF", ("bits", "0" * 16)))]))))
    ass.append(("QaMarker", T(OCT, ("set", [("uni", [("val", ("bits", format(0xFF00, "016b"))), ("val", ("bits", format(0x00FF, "016b"))),
                                                      ("val", ("ref", "vaf"))])]))))
    ass.append(("QaBits", T(BIT, ("set", [("uni", [("val", ("bits", "1")), ("val", ("bits", "11011110101011011011111011101111"))])]))))
    mods.append({"name": "ValB1", "tagdef": "AUTOMATIC", "extimpl": False, "assigns": ass})
    # 2. character strings: empty, quotes, doubled quotes, comment and bracket look-alikes
    strs = ["", "a", "\"", "\"\"", "say \"hi\"", "--", "a -- b", "/* c */", "{ ( [ | ^", "it's", "x\"", "\"x", "::=", "END"]
    ass = [("vs%d" % i, T(IA5), ("str", t)) for i, t in enumerate(strs)]
    ass.append(("QaWords", T(IA5, ("set", [("uni", [("val", ("str", t)) for t in strs[:6]])]))))
    ass.append(("QaRec", T(("SET", [("c", "s%d" % i, T(IA5, None, ("C", i, "")), ("DEF", ("str", t))) for i, t in enumerate(strs[:8])] +
                            [("c", "byref", T(IA5, None, ("C", 20, "")), ("DEF", ("ref", "vs4")))]))))
    mods.append({"name": "ValB2", "tagdef": "", "extimpl": False, "assigns": ass})
    # 3. numbers, NULL, BOOLEAN, reals, references in every position
    big = 9223372036854775807
    ass = [("vmin", T(INT), -big), ("vmax", T(INT), big), ("vzero", T(INT), 0), ("vneg", T(INT), -1), ("vten", T(INT), 10),
           ("vchain", T(INT), ("ref", "vten")), ("vqual", T(INT), ("ref2", "ValB3", "vchain")),
           ("vt", T(BOOL), ("bool", True)), ("vf", T(BOOL), ("bool", False)), ("vn", T(NUL), ("null",)),
           ("vr0", T(REAL), ("real", False, "0", "000000")), ("vrn0", T(REAL), ("real", True, "0", "000000")),
           ("vr1", T(REAL), ("real", False, "3", "140000")), ("vr2", T(REAL), ("real", True, "123456789", "123456")),
           ("vr3", T(REAL), ("real", False, "0", "000001")), ("vr4", T(REAL), ("real", False, "999999999", "999999")),
           ("QaRange", T(INT, ("set", [("range", ("ref", "vneg"), ("ref", "vten"))]))),
           ("QaRangeQ", T(INT, ("set", [("range", -5, ("ref2", "ValB3", "vten"))]))),
           ("QaEnds", T(INT, ("set", [("uni", [("range", "MIN", -big), ("val", ("ref", "vzero")), ("range", big, "MAX")])]))),
           ("QaSized", T(OCT, ("set", [("size", ("set", [("range", 0, ("ref", "vten"))]))]))),
           ("QaIncl", T(INT, ("set", [("ctype", None, "QaRange")]))),
           ("QaInclQ", T(INT, ("set", [("uni", [("ctype", "ValB3", "QaRange"), ("range", 100, 200)])]))),
           ("QaReal", T(REAL, ("set", [("uni", [("range", ("real", True, "1", "500000"), ("real", False, "2", "500000")),
                                                 ("val", ("real", False, "1000", "000000"))])]))),
           ("QaNamed", T(("INTEGER", [("lo", -3), ("hi", ("ref", "vten")), ("far", ("ref2", "ValB3", "vmax"))]))),
           ("QaEnum", T(("ENUMERATED", [("i", "red", 0), ("i", "green", 10), ("ext",), ("i", "blue", 100)]))),
           ("QaRec", T(("SEQUENCE", [
               ("c", "a", T(INT), ("DEF", -big)), ("c", "b", T(INT), ("DEF", ("ref", "vchain"))),
               ("c", "c", T(BOOL), ("DEF", ("bool", True))), ("c", "d", T(BOOL), ("DEF", ("bool", False))),
               ("c", "e", T(NUL), ("DEF", ("null",))), ("c", "f", T(REAL), ("DEF", ("real", True, "0", "500000"))),
               ("c", "g", T(("ENUMERATED", [("i", "on", None), ("i", "off", None)])), ("DEF", ("ref", "off"))),
               ("c", "h", T(("INTEGER", [("one", 1), ("two", 2)])), ("DEF", ("ref", "two"))),
               ("ext", ("ref", "vten")),
               ("c", "i", T(INT), ("DEF", ("ref2", "ValB3", "vqual")))]))),
           ("QaExc", T(("CHOICE", [("c", "x", T(INT), None), ("ext", -5), ("c", "y", T(BOOL), None)]))),
           ("vtyped", T(("REF", "QaRange")), 3)]
    mods.append({"name": "ValB3", "tagdef": "AUTOMATIC", "extimpl": False, "assigns": ass})
    # 4. value references the printer handles but asn1c's semantic pass does not (print/parse level only):
    #    an ENUMERATED value given by reference (the fixer dies with SIGSEGV), DEFAULT of an OCTET/BIT STRING by
    #    reference ("Possibly incompatible type", exit 65)
    ass = [("vten", T(INT), 10), ("vaf", T(OCT), ("bits", "10101111")), ("vbb", T(BIT), ("bits", "101")), ("vf", T(BOOL), ("bool", False)),
           ("vr", T(REAL), ("real", False, "1", "500000")),
           ("QaDefB", T(("SET", [("c", "d", T(BOOL), ("DEF", ("ref", "vf"))), ("c", "r", T(REAL), ("DEF", ("ref", "vr")))]))),
           ("QaEnumR", T(("ENUMERATED", [("i", "red", 0), ("i", "green", ("ref", "vten")), ("ext",), ("i", "blue", ("ref2", "ValB4", "vten"))]))),
           ("QaDefR", T(("SEQUENCE", [("c", "byref", T(OCT), ("DEF", ("ref", "vaf"))), ("c", "qref", T(BIT), ("DEF", ("ref2", "ValB4", "vbb")))])))]
    mods.append({"name": "ValB4", "tagdef": "", "extimpl": False, "assigns": ass})
    return mods


# ---------------------------------------------------------------------------
# rendering an AST to tokens (what a user could have written)

def as_value(v):
    return ("int", v) if isinstance(v, int) else v


def toks_value(v, alt=lambda a, b: a):
    """the lexemes of a value as a user could have written them (alt picks among spellings)"""
    v = as_value(v)
    k = v[0]
    if k == "int":
        return [str(v[1])]
    if k == "null":
        return ["NULL"]
    if k == "bool":
        return ["TRUE" if v[1] else "FALSE"]
    if k == "bits":
        b = v[1]
        if len(b) % 4 == 0 and alt(True, False):
            body, sfx = "".join("%X" % int(b[i:i + 4], 2) for i in range(0, len(b), 4)), "H"
        else:
            body, sfx = b, "B"
        if len(body) > 3 and alt(False, True):       # blanks and newlines are permitted inside
            i = len(body) // 2
            body = body[:i] + alt(" ", "\n  ") + body[i:]
        return ["'" + body + "'" + sfx]
    if k == "str":
        return ['"' + v[1].replace('"', '""') + '"']
    if k == "real":
        fp = v[3].rstrip("0") or "0"
        return [("-" if v[1] else alt("", "+")) + v[2] + "." + fp]
    if k == "ref":
        return [v[1]]
    if k == "ref2":
        return [v[1] + "." + v[2]]
    raise ValueError(k)


def toks_endpoint(e, alt):
    return [e] if e in ("MIN", "MAX") else toks_value(e, alt)


def toks_constr(c, alt):
    k = c[0]
    if k == "val":
        return toks_value(c[1], alt)
    if k == "ctype":
        return ([] if alt(True, False) else ["INCLUDES"]) + [(c[1] + "." if c[1] else "") + c[2]]
    if k == "range":
        return toks_endpoint(c[1], alt) + [".."] + toks_endpoint(c[2], alt)
    if k == "ext":
        return ["..."]
    if k == "size":
        return ["SIZE"] + toks_constr(c[1], alt)
    if k in ("uni", "int", "csv"):
        out = []
        for i, e in enumerate(c[1]):
            if i:
                out.append({"uni": alt("|", "UNION"), "int": alt("^", "INTERSECTION"), "csv": ","}[k])
            out += toks_constr(e, alt)
        return out
    if k == "set":
        out = []
        for e in c[1]:
            out += ["("] + toks_constr(e, alt) + [")"]
        return out
    raise ValueError(k)


def toks_tag(tag):
    cls = {"U": ["UNIVERSAL"], "A": ["APPLICATION"], "P": ["PRIVATE"], "C": []}[tag[0]]
    return ["["] + cls + [str(tag[1]), "]"] + ([tag[2]] if tag[2] else [])


def toks_texpr(t, alt):
    tag, ty, c = t
    out = toks_tag(tag) if tag else []
    k = ty[0]
    if k in ("BOOLEAN", "NULL", "IA5String", "UTF8String", "REAL"):
        out.append(k)
    elif k == "OCTET STRING":
        out += ["OCTET", "STRING"]
    elif k in ("INTEGER", "BIT STRING"):
        out += k.split()
        if ty[1]:
            out.append("{")
            for i, (n, v) in enumerate(ty[1]):
                if i:
                    out.append(",")
                out += [n, "("] + toks_value(v, alt) + [")"]
            out.append("}")
    elif k == "ENUMERATED":
        out += [k, "{"]
        for i, it in enumerate(ty[1]):
            if i:
                out.append(",")
            if it[0] == "ext":
                out.append("...")
            else:
                out.append(it[1])
                if it[2] is not None:
                    out += ["("] + toks_value(it[2], alt) + [")"]
        out.append("}")
    elif k in ("SEQUENCE", "SET", "CHOICE"):
        out += [k, "{"]
        for i, m in enumerate(ty[1]):
            if i:
                out.append(",")
            if m[0] == "ext":
                out.append("...")
                if len(m) > 1:
                    out += ["!"] + toks_value(m[1], alt)
            else:
                out.append(m[1])
                out += toks_texpr(m[2], alt)
                if m[3] is not None:
                    if m[3][0] == "OPT":
                        out.append("OPTIONAL")
                    else:
                        out += ["DEFAULT"] + toks_value(m[3][1], alt)
        out.append("}")
    elif k in ("SEQUENCE OF", "SET OF"):
        out.append(k.split()[0])
        if ty[1] is not None:
            out += toks_constr(ty[1], alt)
        out.append("OF")
        out += toks_texpr(ty[2], alt)
    elif k == "REF":
        out.append(ty[1])
    else:
        raise ValueError(k)
    if c is not None:
        out += toks_constr(c, alt)
    return out


def toks_module(m, alt=lambda a, b: a, imports=None):
    out = [m["name"], "DEFINITIONS"]
    if m["tagdef"]:
        out += [m["tagdef"], "TAGS"]
    if m["extimpl"]:
        out += ["EXTENSIBILITY", "IMPLIED"]
    out += ["::=", "BEGIN"]
    if imports:
        out.append("IMPORTS")
        for names, frm in imports:
            for i, n in enumerate(names):
                if i:
                    out.append(",")
                out.append(n)
            out += ["FROM", frm]
        out.append(";")
    for a in m["assigns"]:
        if len(a) == 2:
            out += [a[0], "::="] + toks_texpr(a[1], alt)
        else:
            out += [a[0]] + toks_texpr(a[1], alt) + ["::="] + toks_value(a[2], alt)
    out.append("END")
    return out


def render(m, rng, imports=None):
    """ASN.1 source text with randomised layout, comments and alternative spellings"""
    alt = lambda a, b: b if rng.chance(1, 4) else a
    toks = toks_module(m, alt, imports)
    style = rng.below(4)     # 0: compact single spaces; 1: newline-heavy; 2: mixed; 3: mixed + many comments
    out = []
    glue_pairs = {("..", None)}
    for i, t in enumerate(toks):
        out.append(t)
        if i + 1 == len(toks):
            out.append("\n")
            break
        nxt = toks[i + 1]
        # tokens that may be written without a blank between them
        tight = (t in "({[,|^" or nxt in ")}],|^(" or t == ".." or nxt == ".." or t in (")", "]", "}")) and t != "..." and nxt != "..."
        if nxt == "::=" or t == "::=":
            tight = False
        if t[0].isalnum() and nxt[0].isalnum():
            tight = False
        if t[0] in "-+" or nxt[0] in "-+":      # signed number next to punctuation: keep a blank
            tight = False
        if t == "!" or nxt == "!":
            tight = True if rng.chance(1, 2) else tight
        if tight and (style == 0 or rng.chance(1, 2)):
            continue
        if style == 0:
            out.append(" ")
            continue
        k = rng.below(12 if style < 3 else 6)
        if k == 0:
            out.append("\n" + " " * rng.below(9))
        elif k == 1:
            out.append("\t")
        elif k == 2:
            out.append("  -- " + rng.choice(["note", "x ::= y", "SEQUENCE {", "1..2", "it's", "a - b"]) + "\n")
        elif k == 3:
            out.append(" -- " + rng.choice(["c", "OPTIONAL", "(", "}"]) + " -- ")
        elif k == 4:
            out.append(" /* " + rng.choice(["block", "multi\nline", "-- inside", "{ ( [", "* star"]) + " */ ")
        elif k == 5:
            out.append("\n\n")
        else:
            out.append(" " * rng.range(1, 3))
    return "".join(out)


# ---------------------------------------------------------------------------
# serialisation to the model driver's protocol (prefix form, blank separated)

def ser_value(v, out):
    v = as_value(v)
    k = v[0]
    if k == "int":
        out += ["vi", str(v[1])]
    elif k == "null":
        out.append("vn")
    elif k == "bool":
        out.append("vt" if v[1] else "vf")
    elif k == "bits":
        out += ["vb", v[1]]
    elif k == "str":
        out += ["vs", v[1].encode("latin1").hex() or "-"]
    elif k == "real":
        out += ["vr", "1" if v[1] else "0", v[2], v[3]]
    elif k == "ref":
        out += ["v1", v[1]]
    elif k == "ref2":
        out += ["v2", v[1], v[2]]
    else:
        raise ValueError(k)


def ser_nval(v, out):
    v = as_value(v)
    if v[0] == "int":
        out += ["ni", str(v[1])]
    elif v[0] == "ref":
        out += ["n1", v[1]]
    elif v[0] == "ref2":
        out += ["n2", v[1], v[2]]
    else:
        raise ValueError(v[0])


def ser_endpoint(e, out):
    if e == "MIN":
        out.append("m")
    elif e == "MAX":
        out.append("M")
    else:
        ser_value(e, out)


def ser_constr(c, out):
    k = c[0]
    if k == "val":
        out.append("v")
        ser_value(c[1], out)
    elif k == "ctype":
        out += (["Y", c[1], c[2]] if c[1] else ["y", c[2]])
    elif k == "range":
        out.append("r")
        ser_endpoint(c[1], out)
        ser_endpoint(c[2], out)
    elif k == "ext":
        out.append("e")
    elif k == "size":
        out.append("z")
        ser_constr(c[1], out)
    else:
        out += [{"uni": "U", "int": "N", "csv": "V", "set": "S"}[k], str(len(c[1]))]
        for e in c[1]:
            ser_constr(e, out)


def ser_copt(c, out):
    if c is None:
        out.append("-")
    else:
        ser_constr(c, out)


def ser_texpr(t, out):
    tag, ty, c = t
    out.append("X")
    if tag is None:
        out.append("-")
    else:
        out += ["G", tag[0], str(tag[1]), {"": "D", "IMPLICIT": "I", "EXPLICIT": "E"}[tag[2]]]
    k = ty[0]
    if k in ("BOOLEAN", "NULL", "OCTET STRING", "IA5String", "UTF8String", "REAL"):
        out.append({"BOOLEAN": "Tb", "NULL": "Tn", "OCTET STRING": "To", "IA5String": "Ta", "UTF8String": "Tu", "REAL": "TR"}[k])
    elif k in ("INTEGER", "BIT STRING"):
        out += ["Ti" if k == "INTEGER" else "Tbs", str(len(ty[1]))]
        for n, v in ty[1]:
            out.append(n)
            ser_nval(v, out)
    elif k == "ENUMERATED":
        out += ["Te", str(len(ty[1]))]
        for it in ty[1]:
            if it[0] == "ext":
                out.append("E")
            elif it[2] is None:
                out += ["J", it[1]]
            else:
                out += ["I", it[1]]
                ser_nval(it[2], out)
    elif k in ("SEQUENCE", "SET", "CHOICE"):
        out += [{"SEQUENCE": "Ts", "SET": "Tt", "CHOICE": "Tc"}[k], str(len(ty[1]))]
        for m in ty[1]:
            if m[0] == "ext":
                if len(m) > 1:
                    out.append("Ex")
                    ser_nval(m[1], out)
                else:
                    out.append("E")
            else:
                out += ["C", m[1]]
                ser_texpr(m[2], out)
                if m[3] is None:
                    out.append("-")
                elif m[3][0] == "OPT":
                    out.append("O")
                else:
                    out.append("D")
                    ser_value(m[3][1], out)
    elif k in ("SEQUENCE OF", "SET OF"):
        out.append("Tso" if k == "SEQUENCE OF" else "Tto")
        ser_copt(ty[1], out)
        ser_texpr(ty[2], out)
    elif k == "REF":
        out += ["Tr", ty[1]]
    ser_copt(c, out)


def ser_module(m):
    out = ["M", m["name"], {"": "N", "EXPLICIT": "E", "IMPLICIT": "I", "AUTOMATIC": "A"}[m["tagdef"]],
           "1" if m["extimpl"] else "0", str(len(m["assigns"]))]
    for a in m["assigns"]:
        out += ["T" if len(a) == 2 else "W", a[0]]
        ser_texpr(a[1], out)
        if len(a) == 3:
            ser_value(a[2], out)
    return " ".join(out)


# ---------------------------------------------------------------------------
# classification helpers for the oracle / findings

def constr_has_deep_paren(c, top=True):
    """a parenthesised element directly inside a parenthesised element directly inside
    a Constraint's own parentheses, i.e. source text `(((` x `)))` — root cause of C12-paren-collapse"""
    if c is None:
        return False
    k = c[0]
    if k == "set":
        for e in c[1]:
            if top and e[0] == "set" and len(e[1]) == 1:
                return True
            if constr_has_deep_paren(e, False):
                return True
        return False
    if k == "size":
        return constr_has_deep_paren(c[1], True)
    if k in ("uni", "int", "csv"):
        return any(constr_has_deep_paren(e, False) for e in c[1])
    return False


def texpr_constrs(t):
    tag, ty, c = t
    if c is not None:
        yield c
    if ty[0] in ("SEQUENCE", "SET", "CHOICE"):
        for m in ty[1]:
            if m[0] == "c":
                yield from texpr_constrs(m[2])
    elif ty[0] in ("SEQUENCE OF", "SET OF"):
        if ty[1] is not None:
            yield ty[1]
        yield from texpr_constrs(ty[2])


def module_has_deep_paren(m):
    return any(constr_has_deep_paren(c) for a in m["assigns"] for c in texpr_constrs(a[1]))


def wrap_parens(m, rng):
    """returns a copy of m in which one top-level constraint's single spec is wrapped in two
    extra pairs of parentheses (source `(((x)))`), or None if m has no suitable constraint"""
    import copy
    m2 = copy.deepcopy(m)
    for i, a in enumerate(m2["assigns"]):
        if len(a) != 2:
            continue
        nm, (tag, ty, c) = a
        if c is not None and c[0] == "set" and len(c[1]) == 1 and c[1][0][0] not in ("csv", "ext", "set"):
            m2["assigns"][i] = (nm, (tag, ty, ("set", [("set", [("set", [c[1][0]])])])))
            return m2
    return None


def yacc_norm_constr(c, top):
    """the tree yacc builds from the rendered source: `Constraint: '(' ConstraintSpec ')'`
    re-uses a ConstraintSpec that is itself a parenthesised element (CONSTRAINT_INSERT)."""
    if c is None:
        return None
    k = c[0]
    if k == "set":
        es = [yacc_norm_constr(e, False) for e in c[1]]
        if top:
            es = [(e[1][0] if e[0] == "set" and len(e[1]) == 1 else e) for e in es]
        return ("set", es)
    if k == "size":
        return ("size", yacc_norm_constr(c[1], True))
    if k in ("uni", "int", "csv"):
        return (k, [yacc_norm_constr(e, False) for e in c[1]])
    return c


def yacc_norm_texpr(t):
    tag, ty, c = t
    k = ty[0]
    if k in ("SEQUENCE", "SET", "CHOICE"):
        ty = (k, [(m if m[0] == "ext" else ("c", m[1], yacc_norm_texpr(m[2]), m[3])) for m in ty[1]])
    elif k in ("SEQUENCE OF", "SET OF"):
        e = ty[2]
        if e[1][0] in ("SEQUENCE OF", "SET OF") and e[1][1] is None:
            # "Outer constraint for SEQUENCE OF and SET OF applies to the inner type": yacc hangs the
            # constraint that follows the innermost element type on the first member of the
            # outermost OF, i.e. on the inner OF type (finding C12-nested-of)
            chain, x = [], e
            while x[1][0] in ("SEQUENCE OF", "SET OF"):
                chain.append(x)
                x = x[1][2]
            if x[2] is not None:
                moved, x = x[2], (x[0], x[1], None)
                for y in reversed(chain):
                    x = (y[0], (y[1][0], y[1][1], x), y[2])
                e = (x[0], (x[1][0], moved, x[1][2]), x[2])
        ty = (k, yacc_norm_constr(ty[1], True), yacc_norm_texpr(e))
    return (tag, ty, yacc_norm_constr(c, True))


def yacc_norm(m):
    m2 = dict(m)
    m2["assigns"] = [((a[0], yacc_norm_texpr(a[1])) if len(a) == 2 else (a[0], yacc_norm_texpr(a[1]), a[2])) for a in m["assigns"]]
    return m2


# ===========================================================================
# "Rich" modules: ASN.1 text outside the algebra of the printer model, aimed at the parts of the
# code generator whose output could depend on something else than the input text (stack
# tables, sort order of equal keys, pointer/hash order, specialisation order, name-clash
# marking).  They feed the determinism / file-order / uninitialised-read oracles only (and the
# textual fixpoint, like the shipped corpus); the model printer does not see them.

STRING_ALPHABETS = {
    # type -> characters a FROM constraint may draw from (kept inside the type's own alphabet)
    "IA5String": [chr(c) for c in range(0x20, 0x7f) if chr(c) not in "\"'"],
    "VisibleString": [chr(c) for c in range(0x20, 0x7f) if chr(c) not in "\"'"],
    "PrintableString": list("ABCDEFGHIJKLMNOPQRSTUVWXYZabcdefghijklmnopqrstuvwxyz0123456789 ()+,-./:=?"),
    "NumericString": list("0123456789 "),
    "UTF8String": [chr(c) for c in range(0x20, 0x7f) if chr(c) not in "\"'"],
    "BMPString": [chr(c) for c in range(0x20, 0x7f) if chr(c) not in "\"'"],
    "UniversalString": [chr(c) for c in range(0x20, 0x7f) if chr(c) not in "\"'"],
}

SKELETON_NAMES = ["NativeInteger", "NativeEnumerated", "NativeReal", "OCTET-STRING", "BIT-STRING"]

RICH_BLOCKS = ["alphabet", "alphabet", "alphabet", "values", "settags", "choice", "param", "ioc", "recursive",
               "misc", "anon", "components", "intcons", "enumbits"]


def alphabet_runs(codes):
    """maximal runs of consecutive codes"""
    out, cs = [], sorted(codes)
    for c in cs:
        if out and out[-1][1] == c - 1:
            out[-1][1] = c
        else:
            out.append([c, c])
    return out


class Rich:
    def __init__(self, rng):
        self.r = rng

    # ---- helpers
    def fresh(self, st, stem):
        st["n"] += 1
        return "%s%s%d" % (st["pfx"], stem, st["n"])

    def add(self, st, ident, text, kind="type"):
        """kind: type (generates T.c/T.h) | value | class | objset | object | ptype (parameterised template)"""
        st["lines"].append(text)
        st["ids"].append((ident, kind))

    def alphabet(self, stype, kinds=None):
        """returns (ASN.1 text of the FROM argument, set of character codes)"""
        pool = STRING_ALPHABETS[stype]
        n = self.r.choice([1, 2, 2, 2, 3, 3, 4, 5])
        parts, codes = [], set()
        for _ in range(n):
            if self.r.chance(3, 5):
                a = self.r.choice(pool)
                cand = [c for c in pool if a <= c and ord(c) - ord(a) <= 40
                        and all(chr(x) in pool for x in range(ord(a), ord(c) + 1))]
                b = self.r.choice(cand)
                parts.append('"%s".."%s"' % (a, b))
                codes |= set(range(ord(a), ord(b) + 1))
            else:
                s = "".join(self.r.choice(pool) for _ in range(self.r.range(1, 5)))
                parts.append('"%s"' % s)
                codes |= set(map(ord, s))
        sep = self.r.choice([" | ", "|", " UNION "])
        return sep.join(parts), codes

    def size_txt(self):
        a = self.r.range(0, 6)
        k = self.r.below(4)
        if k == 0:
            return "SIZE(%d)" % (a + 1)
        if k == 1:
            return "SIZE(%d..%d)" % (a, a + self.r.range(1, 40))
        if k == 2:
            return "SIZE(%d..MAX)" % a
        return "SIZE(%d..%d, ...)" % (a, a + self.r.range(1, 9))

    # ---- blocks; every block appends assignments to st
    def b_alphabet(self, st):
        stype = self.r.choice(list(STRING_ALPHABETS))
        frm, codes = self.alphabet(stype)
        shape = self.r.below(8)
        exact = True
        if shape <= 2:
            c = "(FROM(%s))" % frm
        elif shape == 3:
            c = "(%s ^ FROM(%s))" % (self.size_txt(), frm)
        elif shape == 4:
            c = "(FROM(%s) ^ %s)" % (frm, self.size_txt())
        elif shape == 5:
            c = "(%s)(FROM(%s))" % (self.size_txt(), frm)
        elif shape == 6:
            c = "(FROM(%s))(%s)" % (frm, self.size_txt())
        else:
            c = "(FROM(%s, ...))" % frm
            exact = False
        t = self.fresh(st, "Alpha")
        self.add(st, t, "%s ::= %s %s" % (t, stype, c))
        if exact:
            st["alph"][t] = (stype, sorted(codes))
        k = self.r.below(6)
        if k == 0:      # narrowing of the parent's alphabet
            sub = sorted(codes)
            pick = sorted(set(self.r.choice(sub) for _ in range(self.r.range(1, 4))))
            lit = "|".join('"%s"' % chr(x) for x in pick)
            t2 = self.fresh(st, "Narrow")
            self.add(st, t2, "%s ::= %s (FROM(%s))" % (t2, t, lit))
            st["alph"][t2] = (stype, pick) if exact else None
            if not exact:
                st["alph"].pop(t2)
        elif k == 1 and shape in (0, 1, 2, 7):    # a size on top of the parent's alphabet
            t2 = self.fresh(st, "Sized")
            self.add(st, t2, "%s ::= %s (%s)" % (t2, t, self.size_txt()))
        elif k == 2:    # inside a SEQUENCE, as a member constraint and as a SEQUENCE OF element
            frm2, _ = self.alphabet(stype)
            t2 = self.fresh(st, "Holder")
            self.add(st, t2, "%s ::= SEQUENCE { a %s, b %s (FROM(%s)) OPTIONAL, c SEQUENCE OF %s (FROM(%s)) }"
                     % (t2, t, stype, frm2, stype, frm))
        elif k == 3:
            t2 = self.fresh(st, "ListOf")
            self.add(st, t2, "%s ::= SET %s OF %s (FROM(%s))" % (t2, self.size_txt(), stype, frm))

    def b_values(self, st):
        v = self.fresh(st, "lim").lower() if False else "v%s%d" % (st["pfx"].lower(), st["n"] + 1)
        st["n"] += 1
        n = self.r.range(1, 300)
        self.add(st, v, "%s INTEGER ::= %d" % (v, n), "value")
        t = self.fresh(st, "Bounded")
        self.add(st, t, "%s ::= INTEGER (%d..%s)" % (t, self.r.range(-5, 0), v))
        t2 = self.fresh(st, "WithDef")
        b = "b%s%d" % (st["pfx"].lower(), st["n"])
        self.add(st, b, "%s BOOLEAN ::= %s" % (b, self.r.choice(["TRUE", "FALSE"])), "value")
        self.add(st, t2, "%s ::= SEQUENCE { i [0] INTEGER DEFAULT %s, f [1] BOOLEAN DEFAULT %s, s [2] IA5String (SIZE(0..%s)) OPTIONAL, "
                         "e [3] ENUMERATED { red, green(%d), blue } DEFAULT green, n [4] INTEGER { one(1), two(2) } DEFAULT two }"
                 % (t2, v, self.r.choice(["TRUE", "FALSE"]), v, self.r.range(3, 9)))
        if self.r.chance(1, 2):
            o = "o%s%d" % (st["pfx"].lower(), st["n"])
            self.add(st, o, "%s OBJECT IDENTIFIER ::= { iso org(3) dod(6) %d %d }" % (o, self.r.below(40), self.r.below(9000)), "value")
            s = "s%s%d" % (st["pfx"].lower(), st["n"])
            self.add(st, s, '%s IA5String ::= "%s"' % (s, self.r.choice(["abc", "x y", "Hello", 'say ""hi""', ""])), "value")
        # bit/octet strings in hexadecimal and binary notation (digits A-F, lengths not a multiple of 8 / 4), braced values
        # (SEQUENCE / OID values are kept as raw text by the parser), REAL values, in value assignments, DEFAULTs and constraints
        hx = lambda n: "".join(self.r.choice("0123456789ABCDEF") for _ in range(n))
        h = "h%s%d" % (st["pfx"].lower(), st["n"])
        self.add(st, h, "%s OCTET STRING ::= '%s'H" % (h, hx(2 * self.r.range(1, 6))), "value")
        bv = "k%s%d" % (st["pfx"].lower(), st["n"])
        self.add(st, bv, "%s BIT STRING ::= '%s'%s" % ((bv,) + self.r.choice([(hx(self.r.choice([1, 3, 5])), "H"),
                 ("".join(self.r.choice("01") for _ in range(self.r.range(1, 19))), "B"), (hx(4), "H")])), "value")
        t3 = self.fresh(st, "HexDef")
        self.add(st, t3, "%s ::= SEQUENCE { magic [0] OCTET STRING (SIZE(4)) DEFAULT '%s'H, flags [1] BIT STRING DEFAULT '%s'H, "
                         "odd [2] BIT STRING DEFAULT '%s'B, r [3] REAL DEFAULT %s, oid [4] OBJECT IDENTIFIER DEFAULT { iso 3 %d }, "
                         "sub [5] SEQUENCE { a INTEGER, b BOOLEAN } DEFAULT { a %d, b TRUE }, body [6] OCTET STRING (SIZE(0..32)) }"
                 % (t3, hx(8), hx(2), "".join(self.r.choice("01") for _ in range(self.r.range(1, 7))),
                    self.r.choice(["3.14", "-0.5", "100.0", "0.25"]), self.r.below(99), self.r.range(-9, 9)))
        t4 = self.fresh(st, "HexSet")
        self.add(st, t4, "%s ::= OCTET STRING ('%s'H | '%s'H%s)" % (t4, hx(4), hx(4), self.r.choice(["", " | '%s'H" % hx(2), ", ..."])))
        if self.r.chance(1, 2):
            sv = "q%s%d" % (st["pfx"].lower(), st["n"])
            self.add(st, sv, "%s %s ::= { body '%s'H }" % (sv, t3, hx(2 * self.r.range(1, 4))), "value")

    def tagtxt(self, used):
        for _ in range(50):
            cls = self.r.choice(["", "", "APPLICATION ", "PRIVATE ", "UNIVERSAL "])
            num = self.r.range(0, 40) if cls != "UNIVERSAL " else self.r.range(40, 90)
            if (cls, num) not in used:
                used.add((cls, num))
                return "[%s%d]%s" % (cls, num, self.r.choice(["", " IMPLICIT", " EXPLICIT"]))
        raise RuntimeError("tags")

    def leaf_txt(self):
        return self.r.choice(["INTEGER", "BOOLEAN", "NULL", "OCTET STRING", "BIT STRING", "IA5String", "UTF8String", "REAL",
                              "OBJECT IDENTIFIER", "RELATIVE-OID", "ENUMERATED { a, b, c }", "INTEGER (0..255)",
                              "OCTET STRING (SIZE(4))", "GeneralizedTime", "UTCTime", "PrintableString", "NumericString (SIZE(1..8))",
                              "INTEGER (-9223372036854775807..9223372036854775807)", "INTEGER (0..4294967295)",
                              "BMPString (SIZE(0..5))", "VisibleString", "ObjectDescriptor"])

    def b_settags(self, st):
        """SET whose members are written in non-canonical tag order (the encoder's member map is sorted)"""
        used = set()
        n = self.r.range(2, 7)
        ms = []
        for i in range(n):
            lt = self.leaf_txt()
            if lt.startswith("ENUMERATED"):
                lt = "INTEGER"
            ms.append("m%d %s %s%s" % (i, self.tagtxt(used).replace(" IMPLICIT", "") if "CHOICE" in lt else self.tagtxt(used), lt,
                                      self.r.choice(["", "", " OPTIONAL"])))
        if self.r.chance(1, 2):
            ms.insert(self.r.range(1, len(ms)), "...")
        t = self.fresh(st, "TagSet")
        self.add(st, t, "%s ::= SET { %s }" % (t, ", ".join(ms)))

    def b_choice(self, st):
        """CHOICE / SEQUENCE with untagged members of distinct universal types (tag maps sorted by tag),
        a CHOICE nested without a tag (its alternatives' tags are merged into the parent's map)"""
        prims = self.r.shuffle(["INTEGER", "BOOLEAN", "NULL", "OCTET STRING", "BIT STRING", "IA5String", "UTF8String", "REAL",
                                "OBJECT IDENTIFIER", "ENUMERATED { x, y }", "GeneralizedTime", "PrintableString", "SEQUENCE { q INTEGER }",
                                "SET { q INTEGER }"])
        n = self.r.range(2, 6)
        inner = self.fresh(st, "Inner")
        self.add(st, inner, "%s ::= CHOICE { %s%s }" % (inner, ", ".join("i%d %s" % (i, p) for i, p in enumerate(prims[:n])),
                                                       self.r.choice(["", ", ..."])))
        rest = prims[n:n + self.r.range(1, 4)]
        outer = self.fresh(st, "Outer")
        kind = self.r.choice(["CHOICE", "SEQUENCE", "SET"])
        opt = "" if kind == "CHOICE" else self.r.choice(["", " OPTIONAL"])
        ms = ["o%d %s%s" % (i, p, opt) for i, p in enumerate(rest)]
        ms.insert(self.r.range(0, len(ms)), "nested %s%s" % (inner, opt))
        self.add(st, outer, "%s ::= %s { %s }" % (outer, kind, ", ".join(ms)))

    def b_param(self, st):
        k = self.r.below(4)
        if k == 0:
            p = self.fresh(st, "Coll")
            self.add(st, p, "%s {T} ::= %s OF T" % (p, self.r.choice(["SET", "SEQUENCE", "SEQUENCE SIZE(1..4)"])), "ptype")
            t = self.fresh(st, "Bunch")
            args = [self.r.choice(["REAL", "IA5String", "INTEGER", "BOOLEAN", "OCTET STRING"] + st["simple"][-3:]) for _ in range(self.r.range(1, 3))]
            self.add(st, t, "%s ::= SEQUENCE { %s }" % (t, ", ".join("f%d %s {%s}" % (i, p, a) for i, a in enumerate(args))))
        elif k == 1:
            p = self.fresh(st, "Signed")
            self.add(st, p, "%s {ToBeSigned} ::= SEQUENCE { tbs ToBeSigned, alg OBJECT IDENTIFIER, sig BIT STRING (SIZE(0..256)) }" % p, "ptype")
            t = self.fresh(st, "Cert")
            self.add(st, t, "%s ::= %s { SEQUENCE { version INTEGER, who IA5String (FROM(\"A\"..\"Z\"|\"a\"..\"z\"|\"0-9\")) } }" % (t, p))
            t2 = self.fresh(st, "Cert")
            self.add(st, t2, "%s ::= %s { INTEGER (0..%d) }" % (t2, p, self.r.range(1, 999)))
        elif k == 2:
            p = self.fresh(st, "Ranged")
            self.add(st, p, "%s {INTEGER:lo, INTEGER:hi} ::= INTEGER (lo..hi)" % p, "ptype")
            for _ in range(self.r.range(1, 3)):
                t = self.fresh(st, "Narrow")
                a = self.r.range(-100, -1)     # `{5, 40064}` would be lexed as a Tuple {column, row}
                self.add(st, t, "%s ::= %s {%d, %d}" % (t, p, a, a + self.r.range(0, 70000)))
        else:
            p = self.fresh(st, "Pair")
            self.add(st, p, "%s {A, B} ::= SEQUENCE { a [0] A, b [1] B OPTIONAL, l [2] SEQUENCE OF A }" % p, "ptype")
            t = self.fresh(st, "Inst")
            self.add(st, t, "%s ::= CHOICE { x [0] %s {INTEGER, BOOLEAN}, y [1] %s {IA5String, %s {NULL, REAL}} }" % (t, p, p, p))

    def b_ioc(self, st):
        cls = (self.fresh(st, "cls") + "X").upper().replace("X", "-C")
        cls = "".join(ch for ch in cls if ch.isalpha() or ch == "-").strip("-") + "-%s" % "ABCDEFGHIJ"[st["n"] % 10]
        idt = self.r.choice(["INTEGER", "INTEGER", "OBJECT IDENTIFIER"])
        self.add(st, cls, "%s ::= CLASS { &id %s UNIQUE, &Type } WITH SYNTAX { &Type IDENTIFIED BY &id }" % (cls, idt), "class")
        n = self.r.range(1, 5)
        types = self.r.shuffle(["INTEGER", "BOOLEAN", "IA5String", "OCTET STRING", "NULL", "REAL"] + st["simple"][-2:])[:n]
        ids = self.r.shuffle(list(range(1, 40)))[:n]
        def idv(i):
            return str(i) if idt == "INTEGER" else "{ 1 3 6 %d }" % i
        oset = self.fresh(st, "ObjSet")
        named = []
        if self.r.chance(1, 2):
            on = "obj%s%d" % (st["pfx"].lower(), st["n"])
            self.add(st, on, "%s %s ::= { %s IDENTIFIED BY %s }" % (on, cls, types[0], idv(ids[0])), "object")
            named = [on]
        items = named + ["{ %s IDENTIFIED BY %s }" % (t, idv(i)) for t, i in list(zip(types, ids))[len(named):]]
        self.add(st, oset, "%s %s ::= { %s%s }" % (oset, cls, " | ".join(items), self.r.choice(["", ", ..."])), "objset")
        fr = self.fresh(st, "Frame")
        if self.r.chance(1, 3):
            p = self.fresh(st, "Content")
            self.add(st, p, "%s {%s : Set} ::= SEQUENCE { id %s.&id({Set}), value %s.&Type({Set}{@id}) }" % (p, cls, cls, cls), "ptype")
            self.add(st, fr, "%s ::= SEQUENCE { hdr INTEGER, content %s {{%s}} }" % (fr, p, oset))
        else:
            self.add(st, fr, "%s ::= SEQUENCE { ident %s.&id({%s}), value %s.&Type({%s}{@ident})%s }"
                     % (fr, cls, oset, cls, oset, self.r.choice(["", ", ..."])))

    def b_recursive(self, st):
        a, b = self.fresh(st, "RecA"), self.fresh(st, "RecB")
        k = self.r.below(3)
        if k == 0:
            self.add(st, a, "%s ::= SEQUENCE { v INTEGER, next %s OPTIONAL }" % (a, a))
        elif k == 1:
            self.add(st, a, "%s ::= SEQUENCE { kids SEQUENCE OF %s, other %s OPTIONAL }" % (a, a, b))
            self.add(st, b, "%s ::= CHOICE { leaf NULL, node %s, many SET OF %s }" % (b, a, b))
        else:
            self.add(st, a, "%s ::= CHOICE { one INTEGER, two %s }" % (a, b))
            self.add(st, b, "%s ::= SET { back [0] %s OPTIONAL, n [1] INTEGER }" % (b, a))

    def b_misc(self, st):
        t = self.fresh(st, "Misc")
        used = set()
        ms = ["m%d [%d] %s%s" % (i, i, self.leaf_txt(), self.r.choice(["", "", " OPTIONAL"])) for i in range(self.r.range(1, 6))]
        if self.r.chance(1, 2):
            ms.append("...")
            if self.r.chance(1, 2):
                ms.append("ext%d [%d] %s" % (len(ms), len(ms) + 10, self.leaf_txt()))
                if self.r.chance(1, 2):
                    ms.append("[[ g1 [30] INTEGER, g2 [31] BOOLEAN OPTIONAL ]]")
        self.add(st, t, "%s ::= SEQUENCE { %s }" % (t, ", ".join(ms)))
        if self.r.chance(1, 3):
            t2 = self.fresh(st, "RealC")
            self.add(st, t2, "%s ::= REAL (%s)" % (t2, self.r.choice(["0..MAX", "-1.5..1.5", "MIN..3.14", "0 | 1..2"])))
        if self.r.chance(1, 3):
            t3 = self.fresh(st, "Contain")
            self.add(st, t3, "%s ::= OCTET STRING (CONTAINING %s)" % (t3, t))
        if self.r.chance(1, 3):
            t4 = self.fresh(st, "Comp")
            self.add(st, t4, "%s ::= SEQUENCE OF VisibleString" % t4)
            t5 = self.fresh(st, "Addr")
            self.add(st, t5, "%s ::= %s (SIZE (1..%d)) (WITH COMPONENT (SIZE (1..%d)))" % (t5, t4, self.r.range(2, 9), self.r.range(2, 40)))

    def b_anon(self, st):
        """inline anonymous constructed types, several levels (compound names, -fcompound-names)"""
        def nest(d):
            if d == 0:
                return self.leaf_txt()
            k = self.r.below(4)
            if k == 0:
                return "SEQUENCE { a %s, b %s OPTIONAL }" % (nest(d - 1), nest(d - 1))
            if k == 1:
                return "CHOICE { a [0] %s, b [1] %s }" % (nest(d - 1), nest(d - 1))
            if k == 2:
                return "%s OF %s" % (self.r.choice(["SEQUENCE", "SET"]), nest(d - 1))
            return "SET { a [0] %s, b [1] %s }" % (nest(d - 1), nest(d - 1))
        t = self.fresh(st, "Anon")
        self.add(st, t, "%s ::= SEQUENCE { a %s, b %s }" % (t, nest(2), nest(self.r.range(1, 3))))

    def b_components(self, st):
        base = self.fresh(st, "Base")
        self.add(st, base, "%s ::= SEQUENCE { x INTEGER, y BOOLEAN OPTIONAL, ... , z IA5String }" % base)
        t = self.fresh(st, "Derived")
        self.add(st, t, "%s ::= SEQUENCE { pre NULL, COMPONENTS OF %s, post REAL }" % (t, base))
        if self.r.chance(1, 2):
            t2 = self.fresh(st, "Subset")
            self.add(st, t2, "%s ::= %s (WITH COMPONENTS { ..., x (0..%d), y ABSENT })" % (t2, base, self.r.range(1, 100)))

    def b_intcons(self, st):
        g = Gen(self.r, 2)
        for _ in range(self.r.range(1, 3)):
            t = self.fresh(st, "Int")
            c = g.int_constr()
            self.add(st, t, "%s ::= INTEGER %s" % (t, " ".join(toks_constr(c, lambda a, b: a))))
            st["simple"].append(t)
        t = self.fresh(st, "Oct")
        self.add(st, t, "%s ::= OCTET STRING %s" % (t, " ".join(toks_constr(g.size_constr(), lambda a, b: a))))
        st["simple"].append(t)

    def b_enumbits(self, st):
        t = self.fresh(st, "Enum")
        n = self.r.range(1, 9)
        vals = self.r.shuffle(list(range(-3, 30)))[:n]
        items = ["e%d(%d)" % (i, v) for i, v in enumerate(vals)]       # values in non-sorted order: value2enum map is sorted
        if self.r.chance(1, 2):
            # additional enumerations (after the marker) must be ascending and above the root's
            k = self.r.range(1, len(items))
            tail = sorted(vals[k:])
            items = items[:k] + ["..."] + ["x%d(%d)" % (i, max(vals[:k]) + 1 + (v - tail[0])) for i, v in enumerate(tail)]
        self.add(st, t, "%s ::= ENUMERATED { %s }" % (t, ", ".join(items)))
        st["simple"].append(t)
        t2 = self.fresh(st, "Bits")
        bits = self.r.shuffle(list(range(0, 20)))[:self.r.range(1, 6)]
        self.add(st, t2, "%s ::= BIT STRING { %s } (SIZE(%d..32))" % (t2, ", ".join("b%d(%d)" % (i, v) for i, v in enumerate(bits)), self.r.range(0, 20)))

    def b_skeleton_name(self, st):
        nm = self.r.choice(SKELETON_NAMES)
        if nm in [i for i, _ in st["ids"]]:
            return
        self.add(st, nm, "%s ::= %s" % (nm, self.r.choice(["INTEGER (0..3)", "SEQUENCE { a INTEGER }", "ENUMERATED { p, q }"])), "skeltype")
        t = self.fresh(st, "UsesSkel")
        self.add(st, t, "%s ::= SEQUENCE { n %s, i INTEGER }" % (t, nm))

    def module(self, name, nblocks=None, pfx="", blocks=None, oid=None):
        """returns {"name", "text", "ids": [(identifier, kind)], "alph": {type: (string type, sorted codes)}, "blocks"}"""
        st = {"n": 0, "pfx": pfx, "lines": [], "ids": [], "alph": {}, "simple": []}
        chosen = blocks if blocks is not None else [self.r.choice(RICH_BLOCKS) for _ in range(nblocks or self.r.range(2, 6))]
        for b in chosen:
            getattr(self, "b_" + b)(st)
        if blocks is None and self.r.chance(1, 12):
            self.b_skeleton_name(st)
            chosen = chosen + ["skeleton_name"]
        tagdef = self.r.choice(["AUTOMATIC TAGS ", "AUTOMATIC TAGS ", "", "EXPLICIT TAGS ", "IMPLICIT TAGS "])
        if any(b in ("choice",) for b in chosen) and tagdef == "IMPLICIT TAGS ":
            tagdef = "AUTOMATIC TAGS "
        head = name + (" " + oid if oid else "") + " DEFINITIONS " + tagdef + "::= BEGIN\n"
        lines = st["lines"]
        if self.r.chance(1, 3):          # definition order is free in ASN.1: forward references
            order = self.r.shuffle(list(range(len(lines))))
            lines = [lines[i] for i in order]
            st["ids"] = [st["ids"][i] for i in order]
        return {"name": name, "text": head + "\n".join(lines) + "\nEND\n", "head": head, "lines": lines,
                "ids": st["ids"], "alph": st["alph"], "blocks": chosen}


def rich_with_imports(head, imports, lines):
    imp = ""
    if imports:
        imp = "IMPORTS " + " ".join("%s FROM %s" % (", ".join(ns), m) for ns, m in imports) + ";\n"
    return head + imp + "\n".join(lines) + "\nEND\n"


CLASH_NAMES = ["Info", "Hdr", "Item", "Status", "Key"]
CLASH_DEFS = ["SEQUENCE { a INTEGER, b BOOLEAN OPTIONAL }", "ENUMERATED { x, y, z }", "INTEGER (0..%d)", "CHOICE { p NULL, q IA5String }",
              "SET OF INTEGER", "IA5String (FROM(\"A\"..\"F\"|\"0\"..\"%d\"))", "OCTET STRING (SIZE(%d))", "BIT STRING { f0(0), f1(1) }"]


def clash_set(rng):
    """2-3 modules in separate files whose top-level names clash across modules: same type name
    in two or all modules (different definitions), same value name, optionally an import of a
    clashing name into a module that does not define it, a parameterised type instantiated from
    several modules with the clashing types as arguments, a clash with a skeleton file name.
    Returns a list of modules {"name","text","ids":[(identifier, kind)]} (one file each)."""
    R = Rich(rng)
    k = rng.range(2, 3)
    names = ["Cm%s%d" % ("abc"[i], rng.below(50)) for i in range(k)]
    shared = rng.shuffle(CLASH_NAMES)[:rng.range(1, 2)]
    if rng.chance(1, 8):
        shared.append(rng.choice(SKELETON_NAMES[:3]))
    defs_in = {}
    for s in shared:
        who = list(range(k)) if rng.chance(1, 2) else rng.shuffle(list(range(k)))[:2]
        defs_in[s] = sorted(who)
    shared_value = "maxv" if rng.chance(1, 2) else None
    with_param = rng.chance(1, 3)
    with_ioc = rng.chance(1, 4)
    mods, pinst = [], []
    for i in range(k):
        pfx = "M%s" % "abc"[i].upper()
        own = R.module(names[i], pfx=pfx, blocks=[rng.choice(["alphabet", "values", "settags", "enumbits", "misc", "recursive"])
                                                  for _ in range(rng.range(0, 2))])
        lines, ids, imports = list(own["lines"]), list(own["ids"]), []
        for s in shared:
            if i in defs_in[s]:
                d = rng.choice(CLASH_DEFS)
                if "%d" in d:
                    d = d % rng.range(1, 9)
                lines.append("%s ::= %s" % (s, d))
                ids.append((s, "skeltype" if s in SKELETON_NAMES else "type"))
                u = "%sUse%s" % (pfx, s)
                lines.append("%s ::= SEQUENCE { one %s, many SEQUENCE OF %s, opt [5] %s OPTIONAL }" % (u, s, s, s))
                ids.append((u, "type"))
            elif rng.chance(2, 3):
                src = rng.choice(defs_in[s])
                imports.append(([s], names[src]))
                u = "%sImp%s" % (pfx, s)
                lines.append("%s ::= %s { v %s }" % (u, rng.choice(["SEQUENCE", "SET", "CHOICE"]), s))
                ids.append((u, "type"))
        if shared_value and (i < 2 or rng.chance(1, 2)):
            lines.append("%s INTEGER ::= %d" % (shared_value, rng.range(1, 99)))
            ids.append((shared_value, "value"))
            u = "%sLim" % pfx
            lines.append("%s ::= INTEGER (0..%s)" % (u, shared_value))
            ids.append((u, "type"))
        if with_param:
            if i == 0:
                lines.append("Boxed {T} ::= SEQUENCE { v T, l SET OF T }")
                ids.append(("Boxed", "ptypeused"))     # an instantiated template gets a file of its own (all specialisations)
            else:
                imports.append((["Boxed{}"], names[0]))
            arg = [s for s in shared if i in defs_in[s]]
            u = "%sBox" % pfx
            lines.append("%s ::= Boxed { %s }" % (u, arg[0] if arg else rng.choice(["INTEGER", "BOOLEAN", "IA5String"])))
            ids.append((u, "type"))
            pinst.append(u)
        if with_ioc:
            # information-object class and one object in module 0, object set (with the clashing type
            # names of its own module among the member types) and the table-constrained type in the last
            if i == 0:
                lines.append("XCLS ::= CLASS { &id INTEGER UNIQUE, &Type } WITH SYNTAX { &Type IDENTIFIED BY &id }")
                ids.append(("XCLS", "class"))
                arg = [s for s in shared if i in defs_in[s]]
                lines.append("objA XCLS ::= { %s IDENTIFIED BY 1 }" % (arg[0] if arg else "NULL"))
                ids.append(("objA", "object"))
            if i == k - 1:
                imports.append((["XCLS", "objA"], names[0]))
                arg = [s for s in shared if i in defs_in[s]]
                lines.append("XSet XCLS ::= { objA | { %s IDENTIFIED BY 2 } | { BOOLEAN IDENTIFIED BY 3 }%s }"
                             % (arg[0] if arg else "REAL", rng.choice(["", ", ..."])))
                ids.append(("XSet", "objset"))
                lines.append("XFrame ::= SEQUENCE { ident XCLS.&id({XSet}), value XCLS.&Type({XSet}{@ident}) }")
                ids.append(("XFrame", "type"))
        if rng.chance(1, 3):
            order = rng.shuffle(list(range(len(lines))))
            lines, ids = [lines[j] for j in order], [ids[j] for j in order]
        # merge several imports from the same module
        merged = {}
        for ns, m in imports:
            merged.setdefault(m, [])
            merged[m] += [n for n in ns if n not in merged[m]]
        imports = [(ns, m) for m, ns in merged.items()]
        mods.append({"name": names[i], "text": rich_with_imports(own["head"], imports, lines), "ids": ids, "alph": own["alph"],
                     "imports": imports})
    for m in mods:
        m["param_family"] = (["Boxed"] + pinst) if with_param else []
        # the template lives in module 0; every module instantiates it
        m["template_module_automatic"] = with_param and "AUTOMATIC TAGS" in mods[0]["text"].split("BEGIN")[0]
    return mods


# ===========================================================================
# Cross-module constraint resolution: contained-subtype (`INCLUDES`) and value-reference chains over 2-3
# modules in separate files.  Every set comes with the description coq/Fix/Pullup.v takes (types numbered so
# that every reference goes to a smaller number, own constraint = sequence of leaves, parent reference), so
# that the combined constraints asn1c computes for every file order can be compared with the model's.

def _xm_text(name, imports, lines):
    imp = ""
    if imports:
        imp = "IMPORTS " + " ".join("%s FROM %s" % (", ".join(ns), m) for m, ns in imports.items() if ns) + ";\n"
        if imp == "IMPORTS ;\n":
            imp = ""
    return "%s DEFINITIONS AUTOMATIC TAGS ::= BEGIN\n%s%s\nEND\n" % (name, imp, "\n".join(lines))


class XSet:
    """builder of one cross-module set"""
    def __init__(self, rng, nmods, tagno):
        self.r = rng
        self.names = ["X%s%d" % ("abc"[i], tagno) for i in range(nmods)]        # module 0 = top ... last = base
        self.types = []      # {"name","mod","parent":idx|None,"own":[leaf],"text":rhs,"kind":"int"|"size"}   leaf = ("L",lo,hi)|("V",lo,validx)|("I",typeidx)
        self.vals = []       # {"name","mod","z","text"}
        self.extra = [[] for _ in range(nmods)]     # unmodelled decoration lines per module
        self.uses = [set() for _ in range(nmods)]   # imported symbols per module: (symbol, from module index)
        self.n = 0

    def fresh(self, stem):
        self.n += 1
        return "%s%d" % (stem, self.n)

    def use(self, mod, sym_mod, name):
        if sym_mod != mod:
            self.uses[mod].add((name, sym_mod))

    def add_value(self, mod, z=None, ref=None):
        nm = self.fresh("lim")
        if ref is not None:
            v = self.vals[ref]
            self.use(mod, v["mod"], v["name"])
            self.vals.append({"name": nm, "mod": mod, "z": v["z"], "text": "%s INTEGER ::= %s" % (nm, v["name"])})
        else:
            self.vals.append({"name": nm, "mod": mod, "z": z, "text": "%s INTEGER ::= %d" % (nm, z)})
        return len(self.vals) - 1

    def leaf_text(self, mod, leaf, incl_kw):
        if leaf[0] == "L":
            return "%d..%d" % (leaf[1], leaf[2])
        if leaf[0] == "V":
            v = self.vals[leaf[2]]
            self.use(mod, v["mod"], v["name"])
            return "%d..%s" % (leaf[1], v["name"])
        t = self.types[leaf[1]]
        self.use(mod, t["mod"], t["name"])
        return ("INCLUDES " if incl_kw else "") + t["name"]

    def add_type(self, mod, own=(), parent=None, size=False, stem="T"):
        nm = self.fresh(stem)
        base = "OCTET STRING" if size else "INTEGER"
        if parent is not None:
            p = self.types[parent]
            self.use(mod, p["mod"], p["name"])
            base = p["name"]
        txt = ""
        if own:
            body = " | ".join(self.leaf_text(mod, l, self.r.chance(1, 2)) for l in own)
            txt = " (SIZE(%s))" % body if size else " (%s)" % body
        self.types.append({"name": nm, "mod": mod, "parent": parent, "own": list(own), "size": size,
                           "text": "%s ::= %s%s" % (nm, base, txt)})
        return len(self.types) - 1

    # ---- the order-free meaning (python's own evaluation, independent of the Coq model)
    def leaves(self, t):
        ty = self.types[t]
        cp = self.leaves(ty["parent"]) if ty["parent"] is not None else None
        if cp is None and not ty["own"]:
            return None
        out = list(cp or [])
        for l in ty["own"]:
            if l[0] == "L":
                out.append(("L", l[1], l[2]))
            elif l[0] == "V":
                out.append(("L", l[1], self.vals[l[2]]["z"]))
            else:
                sub = self.leaves(l[1])
                out += sub if sub is not None else [("I", l[1])]
        return out

    def has_refs(self, t):
        """the type's own constraint, or that of a type on its parent chain, holds a reference"""
        ty = self.types[t]
        if any(l[0] in ("V", "I") for l in ty["own"]):
            return True
        return ty["parent"] is not None and (self.types[ty["parent"]]["mod"] != ty["mod"] or self.has_refs(ty["parent"]))

    def build(self, shuffle=True):
        k = len(self.names)
        mods = []
        for i in range(k):
            items = [("t", j) for j, t in enumerate(self.types) if t["mod"] == i] + [("v", j) for j, v in enumerate(self.vals) if v["mod"] == i]
            if shuffle and self.r.chance(1, 2):
                items = self.r.shuffle(items)        # definition order is free: forward references
            lines = [(self.types[j]["text"] if kind == "t" else self.vals[j]["text"]) for kind, j in items] + self.extra[i]
            imports = {}
            for (sym, frm) in sorted(self.uses[i]):
                imports.setdefault(self.names[frm], []).append(sym)
            mods.append({"name": self.names[i], "text": _xm_text(self.names[i], imports, lines),
                         "order": [j for kind, j in items if kind == "t"]})
        return mods

    def model_args(self, perm, mods, seeded=False):
        """arguments of the model command c12_pull for the file order perm"""
        a = ["1" if seeded else "0", str(len(self.types))]
        for t in self.types:
            a += [str(t["mod"]), "-" if t["parent"] is None else str(t["parent"]), str(len(t["own"]))]
            for l in t["own"]:
                a += ([l[0], str(l[1]), str(l[2])] if l[0] != "I" else ["I", str(l[1])])
        a += [str(len(self.vals))] + [str(v["z"]) for v in self.vals]
        a.append(str(len(perm)))
        for i in perm:
            a += [str(i), str(len(mods[i]["order"]))] + [str(j) for j in mods[i]["order"]]
        return a


XM_SHAPES = ["alias-incl", "alias-incl-valref", "alias-incl-valchain", "alias2-incl", "parent-chain", "direct-incl-literal",
             "valref-across", "valchain-across", "incl-union", "size-valref", "incl-unconstrained", "two-modules",
             "direct-incl-type", "direct-incl-valref", "direct-incl-valchain"]


def xmod_set(rng, tagno, shape=None):
    """one set of 2-3 module files with contained-subtype / value-reference chains across them.  Returns
    {"mods":[{"name","text","order"}], "xs": XSet, "shape", "witness": None}.  Most shapes reach the foreign type through a
    local alias (`X ::= Y`: the path asn1constraint_pullup walks with arg->mod = the including module); the `direct-incl-*`
    shapes name a type of ANOTHER module in the contained subtype itself, and that type's own constraint holds a
    reference (type / value / value chain) that only its own module can resolve: the path through
    constraint_type_resolve with a name space of the contained type's module (C12-includes-foreign-namespace, repaired)."""
    shape = shape or rng.choice(XM_SHAPES)
    k = 2 if shape == "two-modules" else 3
    xs = XSet(rng, k, tagno)
    top, mid, base = 0, (1 if k == 3 else 1), k - 1
    lo = rng.range(-20, 5)
    hi = lo + rng.range(10, 200)
    w = xs.add_type(base, [("L", lo, hi)] if shape != "incl-unconstrained" else [], stem="W")
    wv = xs.add_value(base, z=hi + rng.range(0, 50))
    if rng.chance(1, 2):
        xs.add_type(base, [("L", lo, hi), ("L", hi + 10, hi + 20)], stem="W")
    if shape in ("alias-incl", "alias2-incl", "incl-union", "incl-unconstrained", "two-modules"):
        y = xs.add_type(mid, [("I", w)] + ([("L", hi + 30, hi + 40)] if shape == "incl-union" else []), stem="Y")
    elif shape == "alias-incl-valref":
        y = xs.add_type(mid, [("V", lo, wv)], stem="Y")
    elif shape == "alias-incl-valchain":
        yv = xs.add_value(mid, ref=wv)
        y = xs.add_type(mid, [("V", lo, yv)], stem="Y")
    elif shape == "parent-chain":
        y0 = xs.add_type(mid, parent=w, stem="Y")
        y = xs.add_type(mid, [("L", lo + 1, hi - 1)], parent=y0, stem="Y")
    elif shape == "direct-incl-literal":
        y = xs.add_type(mid, [("L", lo, hi)], stem="Y")
    elif shape == "direct-incl-type":
        y = xs.add_type(mid, [("I", w)] + ([("L", hi + 30, hi + 40)] if rng.chance(1, 2) else []), stem="Y")
    elif shape == "direct-incl-valref":
        y = xs.add_type(mid, [("V", lo, wv)], stem="Y")
    elif shape == "direct-incl-valchain":
        yv = xs.add_value(mid, ref=wv)
        y = xs.add_type(mid, [("V", lo, yv)], stem="Y")
    elif shape in ("valref-across", "valchain-across"):
        yv = xs.add_value(mid, ref=wv) if shape == "valchain-across" else wv
        y = xs.add_type(mid, [("V", lo, yv)], stem="Y")
    elif shape == "size-valref":
        sv = xs.add_value(base, z=rng.range(8, 64))
        yv = xs.add_value(mid, ref=sv)
        y = xs.add_type(mid, [("V", 0, yv)], size=True, stem="Y")
    # the top module
    if shape.startswith("direct-incl-"):
        xs.add_type(top, [("I", y)] + ([("L", hi + 100, hi + 110)] if rng.chance(1, 2) else []), stem="V")
    elif shape in ("valref-across", "valchain-across"):
        tv = xs.add_value(top, ref=yv) if rng.chance(1, 2) else yv
        xs.add_type(top, [("V", lo - 5, tv)], stem="V")
        x = xs.add_type(top, parent=y, stem="X")
    elif shape == "size-valref":
        x = xs.add_type(top, parent=y, stem="X")
        xs.add_type(top, [("V", 1, yv)], size=True, stem="V")
    else:
        x = xs.add_type(top, parent=y, stem="X")
        if shape == "alias2-incl":
            x = xs.add_type(top, parent=x, stem="X")
        own = [("I", x)]
        if rng.chance(1, 3):
            own.append(("L", hi + 300, hi + 310))
        if rng.chance(1, 4):
            own.insert(0, ("L", lo - 40, lo - 30))
        xs.add_type(top, own, stem="V")
        if rng.chance(1, 2):
            xs.add_type(top, [("I", x)], stem="V")         # the same contained subtype twice: the cached result is reused
    # decoration: constructed types using the constrained ones (their files change when the constraints do)
    if rng.chance(2, 3):
        ms = ["f%d %s" % (i, t["name"]) for i, t in enumerate(xs.types) if t["mod"] == top][:4]
        for i, t in enumerate(xs.types):
            if t["mod"] == mid and rng.chance(1, 2):
                xs.use(top, mid, t["name"])
                ms.append("g%d %s OPTIONAL" % (i, t["name"]))
        xs.extra[top].append("%s ::= SEQUENCE { %s }" % (xs.fresh("Rec"), ", ".join(ms)))
    return {"mods": xs.build(), "xs": xs, "shape": shape, "witness": None}


def xmod_witness(rng, tagno, kind):
    """text-level cases of the repaired C12-includes-foreign-namespace: module A names a type Y of module B in a contained
    subtype constraint, and Y's own constraint holds a reference that was looked up in A's name space when A was
    processed before B.  kind "fatal": the referenced name is unknown in A (was: FATAL in that order); kind "silent": A
    has another definition of that name (was: silently taken).  Every order of the files must give the same result."""
    a, b, c = "Na%d" % tagno, "Nb%d" % tagno, "Nc%d" % tagno
    if kind == "fatal":
        texts = [_xm_text(a, {b: ["Yf"]}, ["Xf ::= INTEGER (INCLUDES Yf)"]),
                 _xm_text(b, {c: ["Wf"]}, ["Yf ::= INTEGER (Wf)"]),
                 _xm_text(c, {}, ["Wf ::= INTEGER (0..%d)" % rng.range(50, 150)])]
    else:
        texts = [_xm_text(a, {b: ["Ys"]}, ["Xs ::= INTEGER (INCLUDES Ys)", "lims INTEGER ::= %d" % rng.range(2, 9)]),
                 _xm_text(b, {}, ["Ys ::= INTEGER (0..lims)", "lims INTEGER ::= %d" % rng.range(100, 200)])]
    names = [a, b, c][:len(texts)]
    return {"mods": [{"name": n, "text": t, "order": []} for n, t in zip(names, texts)], "xs": None, "shape": "witness-" + kind,
            "witness": kind}
