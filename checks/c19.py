"""C19 — reentrancy: concurrent codec calls on distinct structures never touch
shared writable library state.
Theorems: coq/Props/Properties_C19.v (interleaving model + proved graph checker).
Tie (translator): harness/statics.py rebuilds skeletons/*.c of the working tree as
shipped (non-debug), extracts symbols / relocation edges / store and address-taken
facts and emits Gen_Statics.v; its obligation `no_writable_reachable g_facts = true`
is decided inside Coq by the proved checker on every run.
On an alarm (and always in the thorough tier) harness/thr.c runs N threads of
deterministic codec scripts under ThreadSanitizer and compares every thread's
output with its solo run."""
import sys, os, re
sys.path.insert(0, os.path.join(os.path.dirname(os.path.abspath(__file__)), "..", "lib"))
sys.path.insert(0, os.path.join(os.path.dirname(os.path.abspath(__file__)), "..", "harness"))
from vlib import *
import statics

TSAN_ENV = dict(os.environ, TSAN_OPTIONS="exitcode=66:halt_on_error=0:second_deadlock_stack=1")


def build_thr(scr):
    """thr + every skeleton source of the working tree, with ThreadSanitizer"""
    out = os.path.join(scr, "tsan")
    os.makedirs(out, exist_ok=True)
    sk = os.path.join(REPO, "skeletons")
    srcs = sorted(f for f in os.listdir(sk) if f.endswith(".c") and f not in statics.SKEL_EXCLUDE)
    flags = "-std=gnu99 -w -I%s -O1 -g -fsanitize=thread" % sk
    mk = ["CC=gcc", "CFLAGS=" + flags, "OBJS=" + " ".join(s[:-2] + ".o" for s in srcs),
          "thr: %s libskel.a" % os.path.join(HARNESS, "thr.c"), "\t$(CC) $(CFLAGS) $< libskel.a -lm -lpthread -o $@",
          "libskel.a: $(OBJS)", "\tar rcs $@ $(OBJS)", "%%.o: %s/%%.c" % sk, "\t$(CC) $(CFLAGS) -c $< -o $@"]
    open(os.path.join(out, "Makefile"), "w").write("\n".join(mk) + "\n")
    rc, o = sh("make -j%d thr" % NCPU, cwd=out, timeout=900)
    if rc != 0:
        raise BuildError("thr (TSan) build failed:\n" + o[-3000:])
    return os.path.join(out, "thr")


def run_thr(exe, seed, nthr, nops, timeout=600):
    """-> (verdict, summary, report) ; verdict in ok / race / diff / crash"""
    rc, out = sh([exe, str(seed), str(nthr), str(nops)], env=TSAN_ENV, timeout=timeout)
    races = out.count("WARNING: ThreadSanitizer: data race")
    summary = [l for l in out.split("\n") if l.startswith("THR ")]
    if races:
        import re
        locs = sorted(set(re.findall(r"Location is global '([^']+)'", out)))
        first = out[out.find("WARNING: ThreadSanitizer"):][:2500]
        return "race", {"races": races, "globals": locs, "summary": summary}, first
    if rc == 3 or any("THR DIFF" in l for l in summary):
        return "diff", {"summary": summary}, out[:2500]
    if rc != 0:
        return "crash", {"rc": rc, "summary": summary}, out[-2500:]
    return "ok", {"summary": summary}, ""


def main(tier):
    run = Run("C19", tier)
    scr = scratch()
    # 1. proofs
    ok, out = coq_build()
    nthm, ndis, axioms, names, plog = obligations("C19") if ok else (0, 0, set(), [], out)
    gate = grep_gate()
    if not ok or ndis != nthm or gate:
        run.violation("proof:Properties_C19", {"what": "Coq development does not build or an obligation is open",
                                               "log_tail": (out if not ok else plog)[-2000:], "grep_gate": gate}, no_input=True)
    # 2. translator: objects from the working tree -> facts -> Gen_Statics.v
    try:
        st_fail = statics.selftest(os.path.join(scr, "c19_selftest"))
        run.count("translator_selftest_checks", len(statics.SELFTEST_EXPECT) + 13)
        if st_fail:
            run.violation("translator:selftest", {"what": "harness/statics.py misreads this toolchain's output on harness/statics_selftest.c "
                                                          "(ground-truth accesses)", "failures": st_fail}, no_input=True)
        objs, slots = statics.build_objects(REPO, os.path.join(scr, "c19_obj"), ncpu=NCPU)
        res = statics.analyse(objs, slots, os.path.join(HARNESS, "statics_allow.json"))
    except (statics.StaticsError, BuildError) as e:
        run.violation("build:statics", {"what": str(e)[-2000:]}, no_input=True)
        return run.finish("translation_validation", (nthm + 1, ndis), extra_cov={"programs": 0, "disagreements_checked": 0})
    # open known findings name (object file, symbol) pairs that are excluded from the obligation and reported instead
    known = {}
    for f in run.findings:
        if f.get("object_file") and f.get("symbol"):
            known[(f["object_file"], f["symbol"])] = f["id"]
    bad_all, parent = statics.offending(res)
    known_ids, bad = [], []
    for b in bad_all:
        fid = known.get((b["file"], b["symbol"]))
        if fid:
            known_ids.append(b["id"])
            run.known_finding(fid, "%s:%s" % (b["file"], b["symbol"]))
        else:
            bad.append(b)
    gen = os.path.join(scr, "Gen_Statics.v")
    stats = statics.emit_coq(res, gen, known_ids=known_ids)
    rc, cout = sh(["timeout", "300", "coqc", "-Q", COQ, "A1", gen], cwd=scr, timeout=400)
    gen_ok = (rc == 0 and cout.count("Closed under the global context") == 2 and "Axioms:" not in cout)
    nobl, ndone = nthm + 1, ndis + (1 if gen_ok else 0)

    # coverage bookkeeping: one case per writable-section object examined
    nodes = res["nodes"]
    allowed = {n["id"] for n in res["allowed"]}
    for n in nodes:
        if n["kind"] != "obj" or not n.get("writable"):
            continue
        reach = n["id"] in parent
        cls = ("reachable" if reach else "unreachable") + ":" + \
              ("stored" if n["id"] in res["stored"] else "escaped-allowlisted" if (n["id"] in res["escaped"] and n["id"] in allowed)
               else "escaped" if n["id"] in res["escaped"] else "read-only-direct")
        run.count(cls)
        run.case("%s:%s:%s:%d" % (n["file"], n["name"], n["section"], n["size"]), nontrivial=reach)
    run.count("functions", sum(1 for n in nodes if n["kind"] == "func"))
    run.count("externals", sum(1 for n in nodes if n["kind"] == "ext"))
    run.count("edges", len(res["edges"]))
    run.count("entries", len(res["entries"]))
    run.count("op_slot_edges_excluded(random_fill)", len(res["op_edges_excluded"]))
    for n in nodes:
        if n["kind"] == "obj" and n.get("writable") and n["id"] in parent and len(run.cov["samples"]) < 4:
            run.sample({"object": "%s:%s" % (n["file"], n["name"]), "section": n["section"], "size": n["size"],
                        "stored": n["id"] in res["stored"], "address_taken": n["id"] in res["escaped"], "allowlisted": n["id"] in allowed,
                        "path_from_entry": statics.path_to(res, parent, n["id"])})
    for n in nodes:  # the debug helpers' buffers: must be unreachable
        if n["kind"] == "obj" and n.get("writable") and n["id"] not in parent and (n["id"] in res["stored"] or n["id"] in res["escaped"]) and n["file"] != "<external>":
            run.sample({"object": "%s:%s" % (n["file"], n["name"]), "section": n["section"], "reachable_from_entry": False,
                        "stored": n["id"] in res["stored"], "witness": (res["stored"].get(n["id"]) or res["escaped"].get(n["id"]))[0]})
    run.sample({"obligation": "Gen_Statics.statics_ok : no_writable_reachable g_facts = true", "discharged": gen_ok, "facts": stats})
    if res["missing_api"]:
        run.notes.append("public API names not found in the objects: %s" % res["missing_api"])
    stale = [e for e in res["allow_unused"]]

    # translator (python closure) and checker (Coq) must agree on the verdict
    if gen_ok != (not bad):
        run.violation("translator:Gen_Statics(verdict-mismatch)",
                      {"what": "python closure and Coq checker disagree about the generated obligation", "python_offending": bad[:5],
                       "coqc_rc": rc, "coqc_tail": cout[-1500:]}, no_input=True)

    # 2b. thorough: the same obligation for other code shapes of the same sources (-O0, -O2, -Os), and coqchk
    variants = {}
    coqchk_axioms = None
    if tier == "thorough":
        for opt in ("-O0", "-O2", "-Os"):
            try:
                vobjs, vslots = statics.build_objects(REPO, os.path.join(scr, "c19_obj" + opt), ncpu=NCPU, extra_cflags=[opt])
                vres = statics.analyse(vobjs, vslots, os.path.join(HARNESS, "statics_allow.json"))
                vbad, _ = statics.offending(vres)
                vbad = [b for b in vbad if (b["file"], b["symbol"]) not in known]
                vdir = os.path.join(scr, "gen" + opt)
                os.makedirs(vdir, exist_ok=True)
                vgen = os.path.join(vdir, "Gen_Statics.v")
                vst = statics.emit_coq(vres, vgen, known_ids=[b["id"] for b in statics.offending(vres)[0] if (b["file"], b["symbol"]) in known])
                vrc, vout = sh(["timeout", "300", "coqc", "-Q", COQ, "A1", vgen], cwd=vdir, timeout=400)
                vok = (vrc == 0 and vout.count("Closed under the global context") == 2 and "Axioms:" not in vout)
                variants[opt] = {"discharged": vok, "graph": vst, "offending": ["%s:%s" % (b["file"], b["symbol"]) for b in vbad]}
                nobl += 1
                ndone += 1 if vok else 0
                run.count("variant%s:%s" % (opt, "ok" if vok else "alarm"))
                if not vok or vbad:
                    for b in (vbad or [{"file": "?", "symbol": "?", "reason": "coqc failed", "path": [], "witnesses": []}]):
                        run.violation("translator:Gen_Statics%s(%s:%s)" % (opt, b["file"], b["symbol"]),
                                      {"what": "obligation fails for the %s build of the same sources" % opt, "object_file": b["file"], "symbol": b["symbol"],
                                       "reason": b["reason"], "call_path": b["path"], "witness_instructions": b["witnesses"], "coqc_tail": vout[-600:]}, no_input=True)
            except (statics.StaticsError, BuildError) as e:
                run.violation("build:statics" + opt, {"what": str(e)[-1500:]}, no_input=True)
        rc2, o2 = sh("timeout 900 coqchk -silent -o -Q %s A1 A1.Props.Properties_C19" % COQ, timeout=1000)
        m = re.search(r"\* Axioms:\s*(.*?)\n\s*\n", o2, flags=re.S)
        coqchk_axioms = (m.group(1).strip() if m else "coqchk failed rc=%d" % rc2)
        if rc2 != 0:
            run.violation("proof:coqchk", {"what": "coqchk rejects the compiled development", "tail": o2[-1500:]}, no_input=True)

    # 3. on an alarm: search for a concrete demonstration; thorough: run it anyway
    thr_result = None
    if bad or not gen_ok or tier == "thorough":
        try:
            exe = build_thr(scr)
            rounds = [(run.seed, 8, 400)] if tier == "quick" else [(run.seed + k, 4 + 4 * (k % 4), 8000) for k in range(12)]
            if bad or not gen_ok:
                rounds = rounds + [(run.seed + 100 + k, 16, 1500) for k in range(3)]
            for (sd, nthr, nops) in rounds:
                verdict, summ, report = run_thr(exe, sd, nthr, nops)
                run.count("thr:" + verdict)
                run.count("thr:calls", nthr * nops)
                thr_result = (verdict, summ, report, (sd, nthr, nops))
                if verdict != "ok":
                    break
        except BuildError as e:
            thr_result = ("build-failed", {"what": str(e)[-800:]}, "", None)
    if bad or not gen_ok:
        demo = thr_result and thr_result[0] in ("race", "diff", "crash")
        for b in (bad or [{"file": "?", "symbol": "?", "reason": "coqc failed", "path": [], "witnesses": [], "section": "", "size": 0}]):
            rep = {"what": "writable static object reachable from a codec entry point: %s:%s (%s, %s, %d bytes)" %
                           (b["file"], b["symbol"], b["reason"], b["section"], b["size"]),
                   "obligation": "Gen_Statics.statics_ok (no_writable_reachable g_facts = true) is false",
                   "object_file": b["file"], "symbol": b["symbol"], "reason": b["reason"],
                   "call_path": b["path"], "witness_instructions": b["witnesses"],
                   "coqc_tail": cout[-600:] if not gen_ok else ""}
            shown = False
            if demo:
                v, summ, report, (sd, nthr, nops) = thr_result
                hit = (v != "race") or not summ.get("globals") or any(b["symbol"] in g or g in b.get("raw_symbol", "") for g in summ["globals"])
                if hit:
                    rep.update({"demonstration": v, "thr": summ, "tsan_report": report,
                                "replay_cmd": "build harness/thr.c + skeletons with -fsanitize=thread; ./thr %d %d %d" % (sd, nthr, nops)})
                    shown = True
            run.violation("translator:Gen_Statics(%s:%s)" % (b["file"], b["symbol"]), rep, no_input=not shown)
    elif thr_result and thr_result[0] in ("race", "diff", "crash"):
        # the static view says clean but the dynamic run shows a race / different result: the property fails
        v, summ, report, (sd, nthr, nops) = thr_result
        run.violation("thr:%s" % v, {"what": "concurrent run differs from solo run or races although the static obligation holds "
                                             "(a write the relocation view cannot see)", "thr": summ, "tsan_report": report,
                                     "replay_cmd": "./thr %d %d %d (TSan build)" % (sd, nthr, nops)})
    if thr_result:
        run.sample({"thr": thr_result[0], "detail": thr_result[1]})

    return run.finish(
        "translation_validation", (nobl, ndone),
        extra_cov={"programs": res["nobjs"], "disagreements_checked": run.cov["evaluations"],
                   "rule": "one case per object in a run-time writable section of the %d skeleton objects; non-trivial = connected to a codec "
                           "entry point in the relocation graph; for each the checker decides stored / address-taken / allowlisted" % res["nobjs"],
                   "graph": stats, "generated_obligation_discharged": gen_ok, "theorems": names,
                   "other_code_shapes": variants, "coqchk_axioms": coqchk_axioms,
                   "stale_allowlist_entries": ["%s:%s" % (e["file"], e["symbol"]) for e in stale],
                   "entry_exclusions": sorted(set(w for _, w in res["excluded_entries"])),
                   "notes": run.notes},
        trusted_base=["Coq 8.16.1 kernel + vm_compute", "harness/statics.py (readelf/objdump parsing, store/load classification)",
                      "binutils readelf/objdump, gcc -O1 code generation", "harness/statics_allow.json (hand review of address-taken tables and libc externals)",
                      "footprint assumption of C19_statics_imply_irrelevant (writes reach static objects only through relocated stores or escaped addresses)",
                      "harness/thr.c + ThreadSanitizer (supporting evidence only)"],
        checker_cmd="coqc -Q coq A1 <scratch>/Gen_Statics.v",
        assumptions=["axioms printed: %s" % (sorted(axioms) or "none (Closed under the global context)"),
                     "x86-64 LP64, gcc default PIE code model; glibc MT-safety of the externals listed in statics_allow.json",
                     "application callbacks and application-owned buffers are outside the library"])


if __name__ == "__main__":
    sys.exit(main(sys.argv[1] if len(sys.argv) > 1 else "quick"))
