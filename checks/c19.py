"""C19 — reentrancy: concurrent codec calls on distinct structures never touch
shared writable library state.
Theorems: coq/Props/Properties_C19.v (interleaving model + proved graph checker).
Tie (translator): harness/statics.py rebuilds skeletons/*.c of the working tree as
shipped (non-debug), extracts symbols / relocation edges / store and address-taken
facts and emits Gen_Statics.v; its obligation `no_writable_reachable g_facts = true`
is decided inside Coq by the proved checker on every run.
On an alarm (and always in the thorough tier) harness/thr.c runs N threads of
deterministic codec scripts under ThreadSanitizer and compares every thread's
output with its solo run.
Dynamic tie of the hypothesis `descr_unchanged` (coq/Conc/Descr.v), every run: lib/c19_util.py
generates modules covering every constructed kind with several asn1c option sets from
the working tree and harness/c19drv.c (a) maps the whole writable image of the skeleton +
generated objects read-only before first use and runs every public operation on every
type descriptor (any store is reported with pc -> file:line and address -> symbol; the
image is also compared byte by byte with a snapshot), and (b) runs the same battery from
N threads released by a barrier before any use of a type, under ThreadSanitizer, each
thread's log compared with its solo run.
Round 3 (seeded change C19-5): the type shapes come from lib/c19_zoo.py - the decisions the skeleton codecs take on the contents of
specifics / member tables / constraint records, one type per side (module C19Z), evaluated on the linked tables by `c19drv shapes`;
per type valid and invalid values (directed seeds, foreign-version peers, mutilated / zeroed / absent structures), other BER forms,
failing callbacks at several positions, caller-provided structures, stack limits; oracles PARTS (every table reachable from a
descriptor is inside the watched image) and CLOSURE (no word of the image points at writable memory outside it: hypothesis `closed`
of coq/Conc/DescrClosure.v); thorough tier: gcov function / line / branch coverage of the skeletons under the same battery."""
import sys, os, re, time
sys.path.insert(0, os.path.join(os.path.dirname(os.path.abspath(__file__)), "..", "lib"))
sys.path.insert(0, os.path.join(os.path.dirname(os.path.abspath(__file__)), "..", "harness"))
from vlib import *
import statics
import c19_util as U

TSAN_ENV = dict(os.environ, TSAN_OPTIONS="exitcode=66:halt_on_error=0:second_deadlock_stack=1")


def build_thr(scr):
    """thr + every skeleton source of the working tree, with ThreadSanitizer"""
    out = os.path.join(scr, "tsan")
    os.makedirs(out, exist_ok=True)
    sk = os.path.join(REPO, "skeletons")
    srcs = sorted(f for f in os.listdir(sk) if f.endswith(".c") and f not in statics.SKEL_EXCLUDE)
    flags = "-std=gnu99 -w -I%s -O1 -g -fsanitize=thread" % sk
    mk = ["CC=gcc", "CFLAGS=" + flags, "OBJS=" + " ".join(s[:-2] + ".o" for s in srcs),
          "thr: %s libskel.a" % os.path.join(HARNESS, "thr.c"), "\t$(CC) $(CFLAGS) $< libskel.a -lm -lpthread -o $@",
          "libskel.a: $(OBJS)", "\tar rcs $@ $(OBJS)", "%%.o: %s/%%.c" % sk, "\t$(CC) $(CFLAGS) -c $< -o $@"]
    open(os.path.join(out, "Makefile"), "w").write("\n".join(mk) + "\n")
    rc, o = sh("make -j%d thr" % NCPU, cwd=out, timeout=900)
    if rc != 0:
        raise BuildError("thr (TSan) build failed:\n" + o[-3000:])
    return os.path.join(out, "thr")


def run_thr(exe, seed, nthr, nops, timeout=600):
    """-> (verdict, summary, report) ; verdict in ok / race / diff / crash"""
    rc, out = sh([exe, str(seed), str(nthr), str(nops)], env=TSAN_ENV, timeout=timeout)
    races = out.count("WARNING: ThreadSanitizer: data race")
    summary = [l for l in out.split("\n") if l.startswith("THR ")]
    if races:
        import re
        locs = sorted(set(re.findall(r"Location is global '([^']+)'", out)))
        first = out[out.find("WARNING: ThreadSanitizer"):][:2500]
        return "race", {"races": races, "globals": locs, "summary": summary}, first
    if rc == 3 or any("THR DIFF" in l for l in summary):
        return "diff", {"summary": summary}, out[:2500]
    if rc != 0:
        return "crash", {"rc": rc, "summary": summary}, out[-2500:]
    return "ok", {"summary": summary}, ""


def own_findings(run):
    """the lead assembles known_findings.json; until then read this property's fragment directly"""
    import json
    have = {f["id"] for f in run.findings}
    p = os.path.join(VERIF, "findings.d", "C19.json")
    if os.path.exists(p):
        run.findings += [f for f in json.load(open(p)) if f.get("status") == "open" and f["id"] not in have]


def dynamic_part(run, tier, scr):
    """ties `descr_unchanged`: no operation on any type stores into the writable image of skeleton + generated objects"""
    dyn = {"variants": {}, "modules": [], "unreached_functions_all_variants": None, "shapes": None, "values": None, "gcov": None}
    known = [(re.compile(f["written_symbol"]), f["id"]) for f in run.findings if f.get("written_symbol")]
    try:
        asn1c, skel = build_asn1c()
        mods = U.modules_for(Rng(run.seed), tier)
        dyn["modules"] = [m["name"] for m, _, _ in mods]
        root = os.path.join(scr, "c19dyn")
        unreached = None
        shapes, values, covs = {}, {}, {}
        for (tag, opts, xc, tiers, skip_rx) in U.VARIANTS:
            if tier not in tiers:
                continue
            want_cov = (tier == "thorough" and tag in U.COV_VARIANTS)
            t0 = time.time()
            v = U.build_variant(asn1c, skel, root, tag, opts, xc, mods, skip_rx, cov=want_cov)
            t_build = time.time() - t0
            types = U.list_types(v)
            shapes[tag] = U.shape_sides(v)
            run.count("dyn:programs(objects in image)", v["nfiles"])
            for t in types:
                src = "not-a-pdu" if t["notpdu"] else "random_fill" if not t["nofill"] else "der-seeds" if t["seeds"] else "no-value-source"
                run.count("dyn:type:" + src)
                run.case("dyn:%s:%s" % (tag, t["name"]), nontrivial=(src in ("random_fill", "der-seeds")))
            info = {"options": v["opts"], "types": len(types),
                    "types_without_value_source": [t["name"] for t in types if t["nofill"] and not t["seeds"] and not t["notpdu"]]}
            # (a) read-only image
            t0 = time.time()
            ro = U.run_ro(v, run.seed, 4 if tier == "quick" else 12)
            info["wall_s"] = {"build": round(t_build, 1), "ro": round(time.time() - t0, 1)}
            m = re.search(r"ops=(\d+)", ro["summary"])
            run.count("dyn:ro:ops", int(m.group(1)) if m else 0)
            info["ro"] = {"summary": ro["summary"], "segments": ro["segments"], "selftest": ro["selftest"], "crashes_recovered": ro["crashes"][:10],
                          "functions_entered": ro["funcs_seen"], "functions_in_image": ro["funcs_all"]}
            unreached = set(ro["funcs_unreached"]) if unreached is None else (unreached & set(ro["funcs_unreached"]))
            if not ro["summary"] or ro["rc"] not in (0, 4):
                run.violation("ro-image:driver(%s)" % tag, {"what": "c19drv ro did not complete", "rc": ro["rc"], "tail": ro["raw_tail"]}, no_input=True)
            elif not ro["selftest_ok"]:
                run.violation("ro-image:selftest(%s)" % tag, {"what": "the read-only-image detector did not report the three canary stores "
                                                                        "(c19_canary.c) exactly: it cannot be trusted on this platform", "seen": ro["selftest"]}, no_input=True)
            run.count("dyn:ro:crash-recovered(not C19)", len(ro["crashes"]))
            # probes of library entry points in a recovery scope of their own (oer_decode()/oer_encode() on a type without an OER
            # codec: they called the NULL slot until the repair of C19-oer-entry-null-codec): every probe must survive
            info["ro"]["probes"] = ro["probes"]
            for pr in ro["probes"]:
                run.count("dyn:ro:probe:%s:%s" % (pr["probe"], "survived" if pr["sig"] is None else "signal"))
                if pr["sig"] is None:
                    continue
                run.violation("crash:%s(%s:%s)" % (pr["probe"], tag, pr["type"]),
                              {"what": "a probe of a library entry point ended in signal %s" % pr["sig"], "probe": pr, "asn1c_options": v["opts"]})
            # every table reachable from a descriptor (specifics and the maps behind them included) lies inside the watched image
            info["ro"]["descriptor_parts"] = ro["parts"]
            info["ro"]["calls_per_operation"] = dict(sorted(ro["ops"].items()))
            if ro["summary"] and (ro["parts"] is None or ro["parts"].get("outside", 1) != 0):
                run.violation("ro-image:parts(%s)" % tag,
                              {"what": "a table reachable from a type descriptor (descriptor, tags, member table, specifics and their maps, constraint records) lies outside "
                                       "the image the detector protects: a store into it would not be seen, the set D of descr_unchanged does not cover it",
                               "parts": ro["parts"], "outside": ro["parts_outside"][:20]}, no_input=True)
            # pointer closure of the image (hypothesis `closed` of Conc/DescrClosure.v): no word of it holds the address of writable memory outside it
            info["ro"]["pointer_closure"] = ro["closure"]
            if ro["summary"] and not (ro["closure"].get("start") and ro["closure"].get("end")):
                run.violation("ro-image:closure-scan(%s)" % tag, {"what": "the pointer-closure scan of the image did not run", "tail": ro["raw_tail"]}, no_input=True)
            for sym in sorted(set(e["symbol"] for e in ro["closure_bad"])):
                evs = [e for e in ro["closure_bad"] if e["symbol"] == sym]
                fid = next((i for (rx, i) in known if rx.search(sym)), None)
                if fid:
                    run.known_finding(fid, sym)
                    continue
                at_start = any(e["when"] == "start" for e in evs)
                run.violation("ro-image:closure(%s:%s)" % (tag, sym),
                              {"what": "a word of the shared image holds the address of writable memory outside the image %s: memory that is not part of the type tables is "
                                       "reachable (hence shared between threads) through a descriptor" % ("already at load time" if at_start else "after the operation battery (not before it)"),
                               "hypothesis": "closed ptr D (coq/Conc/DescrClosure.v, C19_closure_invariant / C19_no_private_reachable) is false of this build",
                               "symbol": sym, "words": evs[:8], "asn1c_options": v["opts"]}, no_input=at_start)
            for tn, (nv, ni) in ro["values"].items():
                a = values.setdefault(tn, [0, 0])
                a[0] += nv
                a[1] += ni
            if want_cov:
                covs[tag] = U.run_cov(v, run.seed, 12)
            by_sym = {}
            for e in ro["stores"]:
                by_sym.setdefault(e["symbol"], {"stores": [], "diffs": []})["stores"].append(e)
            for e in ro["diffs"]:
                by_sym.setdefault(e["symbol"], {"stores": [], "diffs": []})["diffs"].append(e)
            for sym, ev in sorted(by_sym.items()):
                fid = next((i for (rx, i) in known if rx.search(sym)), None)
                if fid:
                    run.known_finding(fid, sym)
                    continue
                first = ev["stores"][0] if ev["stores"] else None
                run.violation("ro-image:%s(%s)" % (tag, sym),
                              {"what": "a library operation stored into the shared image of skeleton + generated objects (supposed immutable after load): "
                                       "%s, %d distinct store site/address pairs, %d changed byte ranges" % (sym, len(ev["stores"]), len(ev["diffs"])),
                               "hypothesis": "descr_unchanged (coq/Conc/Descr.v) is false of this build", "symbol": sym,
                               "store_instruction_at": first and first["store_at"], "during": first and "%s on type %s" % (first["first_during"], first["type"]),
                               "stores": ev["stores"][:8], "changed": ev["diffs"][:8], "asn1c_options": v["opts"],
                               "replay_cmd": "lib/c19_util.build_variant(...'%s'...); <variant>/ro/c19drv ro %d %d" % (tag, run.seed, 4 if tier == "quick" else 12)})
            # (b) threads behind a barrier, ThreadSanitizer
            rounds = [(run.seed, 4, 2)] if tier == "quick" else [(run.seed, 2, 2), (run.seed + 1, 4, 2), (run.seed + 2, 8, 2)]
            info["thr"] = []
            t0 = time.time()
            for (sd, nthr, iters) in rounds:
                verdict, summ, report = U.run_thr(v, sd, nthr, iters)
                if verdict == "crash":
                    solo_bad = U.solo_crashes(v, sd, nthr, iters)
                    if solo_bad:   # the script dies when run alone as well: a crash of the code under test, not a concurrency effect
                        verdict = "crash-also-solo(not C19)"
                        summ["solo_threads_crashing"] = solo_bad
                run.count("dyn:thr:" + verdict)
                m = re.search(r"ops=(\d+)", " ".join(summ.get("summary", [])))
                run.count("dyn:thr:ops", int(m.group(1)) if m else 0)
                info["thr"].append({"seed": sd, "threads": nthr, "iters": iters, "verdict": verdict, "detail": summ})
                if verdict in ("race", "diff", "crash"):
                    syms = summ.get("globals") or []
                    fids = [next((i for (rx, i) in known if rx.search(g)), None) for g in syms]
                    if verdict == "race" and syms and all(fids):
                        for fid, g in zip(fids, syms):
                            run.known_finding(fid, g)
                        continue
                    run.violation("thr-battery:%s(%s)" % (verdict, tag),
                                  {"what": {"race": "ThreadSanitizer reports a data race while threads run the operation battery on their own values",
                                            "diff": "a thread's results differ from the same script run alone",
                                            "crash": "the concurrent phase dies although every script completes when run alone"}[verdict],
                                   "thr": summ, "tsan_report": report, "asn1c_options": v["opts"],
                                   "replay_cmd": "<variant>/th/c19drv thr %d %d %d (TSAN_OPTIONS=suppressions=harness/c19_tsan.supp)" % (sd, nthr, iters)})
                    break
            info["wall_s"]["thr"] = round(time.time() - t0, 1)
            dyn["variants"][tag] = info
        dyn["unreached_functions_all_variants"] = sorted(unreached or [])
        run.count("dyn:functions-never-entered", len(unreached or []))
        # which sides of the decisions the codecs take on table contents (lib/c19_zoo.SHAPES) have a type with values in this run
        sr = U.shape_report(shapes)
        dyn["shapes"] = sr
        run.count("dyn:shape-sides-with-a-type", sr["sides_seen"])
        run.count("dyn:shape-sides-missing", len(sr["missing"]))
        if sr["missing"]:
            run.notes.append("decision sides without a type in the battery: %s" % ["%s=%s" % (m["key"], m["side"]) for m in sr["missing"]])
        # values seen per type by verdict of the type's own checker: both verdicts wanted where the type has constraints
        dyn["values"] = {"types": len(values), "never_valid": sorted(t for t, (a, b) in values.items() if a == 0),
                         "never_invalid": sorted(t for t, (a, b) in values.items() if b == 0),
                         "valid_total": sum(a for a, b in values.values()), "invalid_total": sum(b for a, b in values.values())}
        run.count("dyn:values:valid", dyn["values"]["valid_total"])
        run.count("dyn:values:invalid", dyn["values"]["invalid_total"])
        run.count("dyn:types-never-valid", len(dyn["values"]["never_valid"]))
        if covs:
            dyn["gcov"] = U.merge_cov(covs)
            run.count("dyn:gcov:functions-never-executed", len(dyn["gcov"]["functions_never_executed"]))
            run.count("dyn:gcov:branches-never-taken", dyn["gcov"]["branches_never_taken"])
        if len(run.cov["samples"]) < 11:
            k = sorted(dyn["variants"])[0] if dyn["variants"] else None
            if k:
                run.sample({"dynamic": k, "ro": dyn["variants"][k]["ro"]["summary"], "thr": dyn["variants"][k]["thr"][:1]})
    except BuildError as e:
        run.violation("build:dynamic", {"what": str(e)[-2500:]}, no_input=True)
    return dyn


def main(tier):
    run = Run("C19", tier)
    own_findings(run)
    scr = scratch()
    # 1. proofs
    ok, out = coq_build()
    nthm, ndis, axioms, names, plog = obligations("C19") if ok else (0, 0, set(), [], out)
    gate = grep_gate()
    if not ok or ndis != nthm or gate:
        run.violation("proof:Properties_C19", {"what": "Coq development does not build or an obligation is open",
                                               "log_tail": (out if not ok else plog)[-2000:], "grep_gate": gate}, no_input=True)
    # 2. translator: objects from the working tree -> facts -> Gen_Statics.v
    try:
        st_fail = statics.selftest(os.path.join(scr, "c19_selftest"))
        run.count("translator_selftest_checks", len(statics.SELFTEST_EXPECT) + 13)
        if st_fail:
            run.violation("translator:selftest", {"what": "harness/statics.py misreads this toolchain's output on harness/statics_selftest.c "
                                                          "(ground-truth accesses)", "failures": st_fail}, no_input=True)
        objs, slots = statics.build_objects(REPO, os.path.join(scr, "c19_obj"), ncpu=NCPU)
        res = statics.analyse(objs, slots, os.path.join(HARNESS, "statics_allow.json"))
    except (statics.StaticsError, BuildError) as e:
        run.violation("build:statics", {"what": str(e)[-2000:]}, no_input=True)
        return run.finish("translation_validation", (nthm + 1, ndis), extra_cov={"programs": 0, "disagreements_checked": 0})
    # open known findings name (object file, symbol) pairs that are excluded from the obligation and reported instead
    known = {}
    for f in run.findings:
        if f.get("object_file") and f.get("symbol"):
            known[(f["object_file"], f["symbol"])] = f["id"]
    bad_all, parent = statics.offending(res)
    known_ids, bad = [], []
    for b in bad_all:
        fid = known.get((b["file"], b["symbol"]))
        if fid:
            known_ids.append(b["id"])
            run.known_finding(fid, "%s:%s" % (b["file"], b["symbol"]))
        else:
            bad.append(b)
    gen = os.path.join(scr, "Gen_Statics.v")
    stats = statics.emit_coq(res, gen, known_ids=known_ids)
    rc, cout = sh(["timeout", "300", "coqc", "-Q", COQ, "A1", gen], cwd=scr, timeout=400)
    gen_ok = (rc == 0 and cout.count("Closed under the global context") == 2 and "Axioms:" not in cout)
    nobl, ndone = nthm + 1, ndis + (1 if gen_ok else 0)

    # coverage bookkeeping: one case per writable-section object examined
    nodes = res["nodes"]
    allowed = {n["id"] for n in res["allowed"]}
    for n in nodes:
        if n["kind"] != "obj" or not n.get("writable"):
            continue
        reach = n["id"] in parent
        cls = ("reachable" if reach else "unreachable") + ":" + \
              ("stored" if n["id"] in res["stored"] else "escaped-allowlisted" if (n["id"] in res["escaped"] and n["id"] in allowed)
               else "escaped" if n["id"] in res["escaped"] else "read-only-direct")
        run.count(cls)
        run.case("%s:%s:%s:%d" % (n["file"], n["name"], n["section"], n["size"]), nontrivial=reach)
    run.count("functions", sum(1 for n in nodes if n["kind"] == "func"))
    run.count("externals", sum(1 for n in nodes if n["kind"] == "ext"))
    run.count("edges", len(res["edges"]))
    run.count("entries", len(res["entries"]))
    run.count("op_slot_edges_excluded(random_fill)", len(res["op_edges_excluded"]))
    for n in nodes:
        if n["kind"] == "obj" and n.get("writable") and n["id"] in parent and len(run.cov["samples"]) < 4:
            run.sample({"object": "%s:%s" % (n["file"], n["name"]), "section": n["section"], "size": n["size"],
                        "stored": n["id"] in res["stored"], "address_taken": n["id"] in res["escaped"], "allowlisted": n["id"] in allowed,
                        "path_from_entry": statics.path_to(res, parent, n["id"])})
    for n in nodes:  # the debug helpers' buffers: must be unreachable
        if n["kind"] == "obj" and n.get("writable") and n["id"] not in parent and (n["id"] in res["stored"] or n["id"] in res["escaped"]) and n["file"] != "<external>":
            run.sample({"object": "%s:%s" % (n["file"], n["name"]), "section": n["section"], "reachable_from_entry": False,
                        "stored": n["id"] in res["stored"], "witness": (res["stored"].get(n["id"]) or res["escaped"].get(n["id"]))[0]})
    run.sample({"obligation": "Gen_Statics.statics_ok : no_writable_reachable g_facts = true", "discharged": gen_ok, "facts": stats})
    if res["missing_api"]:
        run.notes.append("public API names not found in the objects: %s" % res["missing_api"])
    stale = [e for e in res["allow_unused"]]

    # translator (python closure) and checker (Coq) must agree on the verdict
    if gen_ok != (not bad):
        run.violation("translator:Gen_Statics(verdict-mismatch)",
                      {"what": "python closure and Coq checker disagree about the generated obligation", "python_offending": bad[:5],
                       "coqc_rc": rc, "coqc_tail": cout[-1500:]}, no_input=True)

    # 2b. thorough: the same obligation for other code shapes of the same sources (-O0, -O2, -Os), and coqchk
    variants = {}
    coqchk_axioms = None
    if tier == "thorough":
        for opt in ("-O0", "-O2", "-Os"):
            try:
                vobjs, vslots = statics.build_objects(REPO, os.path.join(scr, "c19_obj" + opt), ncpu=NCPU, extra_cflags=[opt])
                vres = statics.analyse(vobjs, vslots, os.path.join(HARNESS, "statics_allow.json"))
                vbad, _ = statics.offending(vres)
                vbad = [b for b in vbad if (b["file"], b["symbol"]) not in known]
                vdir = os.path.join(scr, "gen" + opt)
                os.makedirs(vdir, exist_ok=True)
                vgen = os.path.join(vdir, "Gen_Statics.v")
                vst = statics.emit_coq(vres, vgen, known_ids=[b["id"] for b in statics.offending(vres)[0] if (b["file"], b["symbol"]) in known])
                vrc, vout = sh(["timeout", "300", "coqc", "-Q", COQ, "A1", vgen], cwd=vdir, timeout=400)
                vok = (vrc == 0 and vout.count("Closed under the global context") == 2 and "Axioms:" not in vout)
                variants[opt] = {"discharged": vok, "graph": vst, "offending": ["%s:%s" % (b["file"], b["symbol"]) for b in vbad]}
                nobl += 1
                ndone += 1 if vok else 0
                run.count("variant%s:%s" % (opt, "ok" if vok else "alarm"))
                if not vok or vbad:
                    for b in (vbad or [{"file": "?", "symbol": "?", "reason": "coqc failed", "path": [], "witnesses": []}]):
                        run.violation("translator:Gen_Statics%s(%s:%s)" % (opt, b["file"], b["symbol"]),
                                      {"what": "obligation fails for the %s build of the same sources" % opt, "object_file": b["file"], "symbol": b["symbol"],
                                       "reason": b["reason"], "call_path": b["path"], "witness_instructions": b["witnesses"], "coqc_tail": vout[-600:]}, no_input=True)
            except (statics.StaticsError, BuildError) as e:
                run.violation("build:statics" + opt, {"what": str(e)[-1500:]}, no_input=True)
        rc2, o2 = sh("timeout 900 coqchk -silent -o -Q %s A1 A1.Props.Properties_C19" % COQ, timeout=1000)
        m = re.search(r"\* Axioms:\s*(.*?)\n\s*\n", o2, flags=re.S)
        coqchk_axioms = (m.group(1).strip() if m else "coqchk failed rc=%d" % rc2)
        if rc2 != 0:
            run.violation("proof:coqchk", {"what": "coqchk rejects the compiled development", "tail": o2[-1500:]}, no_input=True)

    # 2c. dynamic: read-only image + TSan battery over every type of generated modules
    dyn = dynamic_part(run, tier, scr)

    # 3. on an alarm: search for a concrete demonstration; thorough: run it anyway
    thr_result = None
    if bad or not gen_ok or tier == "thorough":
        try:
            exe = build_thr(scr)
            rounds = [(run.seed, 8, 400)] if tier == "quick" else [(run.seed + k, 4 + 4 * (k % 4), 8000) for k in range(12)]
            if bad or not gen_ok:
                rounds = rounds + [(run.seed + 100 + k, 16, 1500) for k in range(3)]
            for (sd, nthr, nops) in rounds:
                verdict, summ, report = run_thr(exe, sd, nthr, nops)
                run.count("thr:" + verdict)
                run.count("thr:calls", nthr * nops)
                thr_result = (verdict, summ, report, (sd, nthr, nops))
                if verdict != "ok":
                    break
        except BuildError as e:
            thr_result = ("build-failed", {"what": str(e)[-800:]}, "", None)
    if bad or not gen_ok:
        demo = thr_result and thr_result[0] in ("race", "diff", "crash")
        for b in (bad or [{"file": "?", "symbol": "?", "reason": "coqc failed", "path": [], "witnesses": [], "section": "", "size": 0}]):
            rep = {"what": "writable static object reachable from a codec entry point: %s:%s (%s, %s, %d bytes)" %
                           (b["file"], b["symbol"], b["reason"], b["section"], b["size"]),
                   "obligation": "Gen_Statics.statics_ok (no_writable_reachable g_facts = true) is false",
                   "object_file": b["file"], "symbol": b["symbol"], "reason": b["reason"],
                   "call_path": b["path"], "witness_instructions": b["witnesses"],
                   "coqc_tail": cout[-600:] if not gen_ok else ""}
            shown = False
            if demo:
                v, summ, report, (sd, nthr, nops) = thr_result
                hit = (v != "race") or not summ.get("globals") or any(b["symbol"] in g or g in b.get("raw_symbol", "") for g in summ["globals"])
                if hit:
                    rep.update({"demonstration": v, "thr": summ, "tsan_report": report,
                                "replay_cmd": "build harness/thr.c + skeletons with -fsanitize=thread; ./thr %d %d %d" % (sd, nthr, nops)})
                    shown = True
            run.violation("translator:Gen_Statics(%s:%s)" % (b["file"], b["symbol"]), rep, no_input=not shown)
    elif thr_result and thr_result[0] in ("race", "diff", "crash"):
        # the static view says clean but the dynamic run shows a race / different result: the property fails
        v, summ, report, (sd, nthr, nops) = thr_result
        run.violation("thr:%s" % v, {"what": "concurrent run differs from solo run or races although the static obligation holds "
                                             "(a write the relocation view cannot see)", "thr": summ, "tsan_report": report,
                                     "replay_cmd": "./thr %d %d %d (TSan build)" % (sd, nthr, nops)})
    if thr_result:
        run.sample({"thr": thr_result[0], "detail": thr_result[1]})

    return run.finish(
        "translation_validation", (nobl, ndone),
        extra_cov={"programs": res["nobjs"], "disagreements_checked": run.cov["evaluations"],
                   "rule": "one case per object in a run-time writable section of the %d skeleton objects; non-trivial = connected to a codec "
                           "entry point in the relocation graph; for each the checker decides stored / address-taken / allowlisted" % res["nobjs"],
                   "graph": stats, "generated_obligation_discharged": gen_ok, "theorems": names,
                   "other_code_shapes": variants, "coqchk_axioms": coqchk_axioms,
                   "stale_allowlist_entries": ["%s:%s" % (e["file"], e["symbol"]) for e in stale],
                   "entry_exclusions": sorted(set(w for _, w in res["excluded_entries"])),
                   "dynamic": dyn,
                   "limits": [
                       "descr_unchanged is tied by testing, not proved: the read-only image detector sees every store executed by the battery "
                       "(all types of %s under the listed asn1c option sets, valid + damaged inputs); a store on a path the battery does not "
                       "execute is not seen - `unreached_functions_all_variants` lists the library functions never entered" % ", ".join(dyn.get("modules") or []),
                       "the type shapes are those of lib/c19_zoo.py (decision list SHAPES derived by hand from the branch conditions of the skeleton codecs; "
                       "`dynamic.shapes.missing` lists sides without a type, `dynamic.gcov` (thorough tier) the functions never executed and the branches never taken)",
                       "not exercised: allocation failure (C14's harness injects it), compare with a NULL operand (BIT_STRING_compare crashes), ber_tlv_tag_string / "
                       "asn_bit_data_string (documented static-buffer debug helpers), -DASN_DEBUG builds, -fno-constraints (asn_check_constraints calls a NULL checker for "
                       "reference types)",
                       "random() is replaced by a thread-local generator in the harness: asn_random_fill's use of libc's shared random state is outside the property",
                       "TSan suppressions (harness/c19_tsan.supp): glibc's tz state behind its internal tzset_lock, reached through mktime()"],
                   "notes": run.notes},
        trusted_base=["Coq 8.16.1 kernel + vm_compute", "harness/statics.py (readelf/objdump parsing, store/load classification)",
                      "binutils readelf/objdump, gcc -O1 code generation", "harness/statics_allow.json (hand review of address-taken tables and libc externals)",
                      "footprint assumption of C19_statics_imply_irrelevant (writes reach static objects only through relocated stores or escaped addresses)",
                      "harness/thr.c + ThreadSanitizer (supporting evidence only)",
                      "hypothesis descr_unchanged of C19_descr_invariant / C19_statics_and_descr_imply_irrelevant (no call stores into the type tables): "
                      "tied dynamically by harness/c19drv.c (mprotect read-only image + SIGSEGV single-step logger + snapshot compare, self-tested by "
                      "three canary stores every run; Linux x86-64, dl_iterate_phdr, GNU ld RELRO layout) and by the TSan battery of the same driver",
                      "lib/c19_util.py hand-made modules C19K/C19X, lib/c19_zoo.py module C19Z (one type per side of the decision list SHAPES) + one modgen module: "
                      "the set of type shapes the tie quantifies over; SHAPES itself is a hand review of skeletons/*.c, cross-checked by the gcov report of the thorough tier",
                      "PARTS / CLOSURE scans of harness/c19drv.c (dl_iterate_phdr, /proc/self/maps; every aligned word of the image taken as a potential pointer)"],
        checker_cmd="coqc -Q coq A1 <scratch>/Gen_Statics.v",
        assumptions=["axioms printed: %s" % (sorted(axioms) or "none (Closed under the global context)"),
                     "x86-64 LP64, gcc default PIE code model; glibc MT-safety of the externals listed in statics_allow.json",
                     "application callbacks and application-owned buffers are outside the library"])


if __name__ == "__main__":
    sys.exit(main(sys.argv[1] if len(sys.argv) > 1 else "quick"))
