"""C13 — code-generation options never change the wire format.
Theorems: coq/Props/Properties_C13.v over coq/Leaf/NativeWide.v (the native `long`
and the wide INTEGER_t representation of one abstract integer reach the same byte
producers; where they part — unsigned fields at and above 2^63, values a long
cannot hold — is refuted with witnesses), coq/Rt/Layout.v (pointer vs inline member
representation: for every layout the OER/DER walk of the structure gives the bytes of
the representation-free codec model) and coq/Rt/Options.v (erasure of the descriptor
tables, its comparison, the emitter's OER/PER slot decision).
Tie: the SAME generated module is compiled by the asn1c built from /repo under
several subsets of the representation options; every build encodes the same
values in DER, UPER, OER, BASIC-XER and CANONICAL-XER: the bytes must be equal
across all builds (and equal to the extracted codec model for the modelled
algebra), and every build must decode every distinct output back to the value.
 (model layer) lib/modgen.Gen modules, corpus values as model DER;
 (wide layer)  lib/widegen.WGen modules, values from the baseline build's
               asn_random_fill transported as DER;
 (witness layer) the refuted theorems' witnesses replayed on the real code;
 (family layer) lib/c13_families.py: one directed module family per representation
               option, directed values, every build vs the others and vs the codec model;
 (descriptor tie) harness/dumpdescr.c dumps the type descriptor tables of every build of
               every module; the option-invariant part (lib/c13_descr.py = extracted
               Rt/Options.v table_sim) must equal the baseline's; the dumped OER/PER slots
               must be what the emitter model (type_slots / member_slots) says."""
import sys, os, re, time
sys.path.insert(0, os.path.join(os.path.dirname(os.path.abspath(__file__)), "..", "lib"))
from vlib import *
from modcorpus import *
from widegen import WGen
from c13_util import *
from c13_families import *
from c13_ext import *
import c13_descr

import threading
_LOCK = threading.Lock()
FAMILY_NOTES = []     # directed family values no build can encode (kept in the evidence: they are wasted cases)
WATCHDOG_S = 8.0        # seconds without an answer line before a driver is killed
MODDRV_C13 = os.path.join(HARNESS, "moddrv_c13.inc")      # the `walk` command (print / constraint check / compare / free)

WIDE_FEATURES = ["enum", "real", "bits", "strings", "oid", "time", "default", "ext"]     # no SET, no recursion
if os.environ.get("VERIF_C13_EXTRA_FEATURES"):      # experiments only (e.g. "set,recursion"); not part of the claimed check
    WIDE_FEATURES = WIDE_FEATURES + os.environ["VERIF_C13_EXTRA_FEATURES"].split(",")

WITNESS_TEXT = """WIT DEFINITIONS ::= BEGIN
  U ::= INTEGER (0..MAX)
  I ::= INTEGER
  SU ::= SEQUENCE { a INTEGER (5..MAX), b BOOLEAN }
END
"""


WITNESS2_TEXT = """WIS DEFINITIONS AUTOMATIC TAGS ::= BEGIN
  N ::= NumericString (SIZE(0..255))
  H ::= IA5String (FROM("0".."9" | "A".."F"))
  A ::= IA5String (FROM("a".."z"))
  P ::= PrintableString
  V ::= VisibleString (SIZE(1..4))
  B ::= BMPString (FROM("a".."f"))
END
"""


def witness2_module():
    return {"name": "WIS", "default": "AUTOMATIC", "defs": [(n, None) for n in "NHAPVB"], "trees": {}, "text": WITNESS2_TEXT, "wide": True}


def witness2_values():
    def s(tag, b):
        return "%02x%02x%s" % (tag, len(b), b.hex())
    return [("N", s(0x12, b"0123 9")), ("N", s(0x12, b"")), ("H", s(0x16, b"09AF")), ("H", s(0x16, b"C")), ("A", s(0x16, b"abz")), ("A", s(0x16, b"q")),
            ("P", s(0x13, b"Ab 9'")), ("V", s(0x1a, b"a~ ")), ("B", s(0x1e, b"\x00a\x00f"))]


def needs_per_char_map(text):
    """the module has a known-multiplier string whose effective permitted alphabet asn1c turns into a PER character
    map (asn_PER_MAP_*): NumericString (implicit alphabet) or a FROM constraint"""
    return re.search(r"NumericString|FROM\s*\(", text) is not None


def split_along(variants, groups, opt):
    """the builds disagree exactly along one option (groups: {output: [build indices]})"""
    if len(groups) != 2:
        return False
    sides = [set(opt in variants[vi].opts for vi in g) for g in groups.values()]
    return all(len(x) == 1 for x in sides) and sides[0] != sides[1]


def split_along_no_constraints(variants, groups):
    return split_along(variants, groups, "-fno-constraints")


def explicit_tagged_unsigned_member(text):
    """C02-explicit-tag-unsigned-member as it shows here: a module with EXPLICIT default tagging has a tagged
    component INTEGER whose range makes asn1c emit member-specific `unsigned` specifics (lower bound >= 0, upper bound
    MAX or >= 2^31): the native build carries the tag twice, a -fwide-types build needs no such specifics and does not"""
    if not re.search(r"DEFINITIONS\s+EXPLICIT\s+TAGS", text):
        return False
    for mt in re.finditer(r"\[\d+\]\s+INTEGER\s*\(\s*(\d+)\s*\.\.\s*(MAX|\d+)\s*\)", text):
        if mt.group(2) == "MAX" or int(mt.group(2)) >= 2**31:
            return True
    return False


# one fixed module so that every leaf kind the options touch is exercised in every run, whatever the seed
COVER_TEXT = """WFX DEFINITIONS AUTOMATIC TAGS ::= BEGIN
  E ::= ENUMERATED { red(0), green(1), blue(5), ..., pink(128) }
  R ::= REAL
  BS ::= BIT STRING (SIZE(0..16))
  Rec ::= SEQUENCE { e E, r REAL OPTIONAL, i INTEGER DEFAULT 0, b BIT STRING, o OBJECT IDENTIFIER, s UTF8String, t GeneralizedTime OPTIONAL, n INTEGER (-70000..70000), ..., x INTEGER (0..255) OPTIONAL }
  Ch ::= CHOICE { a Rec, b E, c SEQUENCE OF E, d NULL, f SEQUENCE { g BOOLEAN, h Ch2 }, ... }
  Ch2 ::= CHOICE { p INTEGER, q SEQUENCE { r1 REAL, e1 E } }
  L ::= SEQUENCE (SIZE(0..3)) OF Ch
END
"""


def cover_module():
    return {"name": "WFX", "default": "AUTOMATIC", "defs": [(n, None) for n in ("E", "R", "BS", "Rec", "Ch", "Ch2", "L")], "trees": {}, "text": COVER_TEXT, "wide": True}


def der_int(v, tag="02"):
    n = 1
    while not (-(1 << (8 * n - 1)) <= v < (1 << (8 * n - 1))):
        n += 1
    return tag + "%02x" % n + (v % (1 << (8 * n))).to_bytes(n, "big").hex()


def witness_module():
    return {"name": "WIT", "default": "EXPLICIT", "defs": [("U", None), ("I", None), ("SU", None)], "trees": {}, "text": WITNESS_TEXT, "wide": True}


def witness_values():
    """(type, DER of the value, class)"""
    out = []
    for v in (0, 127, 128, 2**63 - 1):
        out.append(("U", der_int(v), "fits"))
    for v in (2**63, 2**63 + 1, 2**64 - 1):
        out.append(("U", der_int(v), "unsigned_ge_2^63"))
    for v in (2**63 - 1, -2**63, 0, -1):
        out.append(("I", der_int(v), "fits"))
    for v in (2**63, -2**63 - 1, 2**64):
        out.append(("I", der_int(v), "beyond_long"))
    for v in (5, 2**63 - 1):
        d = der_int(v) + "0101ff"
        out.append(("SU", "30%02x" % (len(d) // 2) + d, "fits"))
    d = der_int(2**63 + 5) + "0101ff"
    out.append(("SU", "30%02x" % (len(d) // 2) + d, "unsigned_ge_2^63"))
    return out


class _Mods(dict):
    def __missing__(self, key):          # a module that was not built under this option set
        return {}


class Variant:
    def __init__(self, k, opts, mods):
        self.k, self.opts, self.mods = k, tuple(opts), _Mods((m["name"], m) for m in mods)

    def label(self):
        return "opt%d[%s]" % (self.k, " ".join(self.opts) or "(none)")


def run_mod_resume(run, m, lines, name, exits=None):
    """like modcorpus.run_mod, but a command that kills the driver yields the output `CRASH:<rc>` and the
    remaining commands are still run (whether a crash is an option matter is decided by the comparison).
    A non-zero exit after every command was answered (LeakSanitizer report at exit) is noted in exits[name]."""
    out = []
    rest = list(lines)
    while rest:
        rc, o, err = run_lines_watchdog(m["exe"], rest, per_line=WATCHDOG_S, env=SAN_ENV)
        if rc == "TIMEOUT" and len(o) < len(rest):
            # on a machine shared with other jobs an answer may simply be late: ask once more, alone, with a long watchdog,
            # before calling it a command that never returns
            rc2, o2, err2 = run_lines_watchdog(m["exe"], [rest[len(o)]], per_line=12 * WATCHDOG_S, env=SAN_ENV)
            if rc2 != "TIMEOUT" and len(o2) == 1:
                with _LOCK:
                    run.count("driver_answer_late(retried alone)")
                out += o + [o2[0]]
                rest = rest[len(o) + 1:]
                continue
            out += o + ["TIMEOUT"]
            with _LOCK:
                run.count("driver_command_never_returned")
                run.notes.append({"timeout": name, "command_line": rest[len(o)][:300]})
            rest = rest[len(o) + 1:]
            continue
        if len(o) >= len(rest):
            out += o[:len(rest)]
            if rc != 0:
                with _LOCK:
                    run.count("driver_nonzero_exit_after_all_answers")
                    run.notes.append({"exit": name, "rc": rc, "stderr_tail": err[-600:]})
                    if exits is not None:
                        exits[name] = (rc, err[-1200:])
            break
        out += o + ["CRASH:%s" % rc]
        with _LOCK:
            run.count("driver_crash")
            run.notes.append({"crash": name, "command_line": rest[len(o)][:300], "stderr_tail": err[-600:]})
        rest = rest[len(o) + 1:]
    return out


def exit_status_oracle(run, variants, mname, exits, stage):
    """a sanitizer report at exit (leak) in some builds of a module and not in others is an option matter"""
    bad = [vi for vi, var in enumerate(variants) if ("%s-%s" % (stage, var.label())) in exits]
    asked = [vi for vi, var in enumerate(variants) if var.mods[mname].get("exe")]
    full = [vi for vi in asked if not any(skips(variants[vi].opts, x) for x in SYNS)]      # builds asked for every syntax
    bad_full = [vi for vi in bad if vi in full]
    # a build made without a codec runs a subset of the commands: its clean exit says nothing about the others
    differs = (bad_full and len(bad_full) < len(full)) or (bad and not bad_full and full)
    if differs:
        vi = bad[0]
        rc, err = exits["%s-%s" % (stage, variants[vi].label())]
        run.violation("oracle:options-change-exit-status", {"what": "the driver of some builds ends with a sanitizer report (leak) on commands the other builds run cleanly",
                                                            "module": variants[0].mods[mname]["text"], "builds_with_report": [variants[i].label() for i in bad],
                                                            "rc": rc, "stderr_tail": err})
    elif bad:
        run.count("exit_report_in_every_build(%s)" % stage.split("-")[-1])


def _par(fn, n, jobs=8):
    from concurrent.futures import ThreadPoolExecutor
    with ThreadPoolExecutor(max_workers=jobs) as ex:
        return list(ex.map(fn, range(n)))


def encode_everywhere(run, variants, mname, values, name):
    """values: list of (type, der).  Returns {syn: [ {build index: output line} per value ]}"""
    res = {s: [dict() for _ in values] for s in SYNS}
    exits = {}

    def one(vi):
        var = variants[vi]
        m = var.mods[mname]
        if not m.get("exe"):
            return None
        syns = [s for s in SYNS if not skips(var.opts, s)]
        lines = ["xcode %s der %s %s" % (tn, der, s) for (tn, der) in values for s in syns]
        return syns, run_mod_resume(run, m, lines, "%s-enc-%s" % (name, var.label()), exits)
    for vi, r in enumerate(_par(one, len(variants))):
        if r is None:
            continue
        syns, out = r
        i = 0
        for j in range(len(values)):
            for s in syns:
                res[s][j][vi] = out[i]
                i += 1
    exit_status_oracle(run, variants, mname, exits, name + "-enc")
    return res


def decode_everywhere(run, variants, mname, items, name):
    """items: list of (type, syn, hex).  Returns [ {build index: output} per item ] of `xcode T syn hex der`"""
    res = [dict() for _ in items]
    exits = {}

    def one(vi):
        var = variants[vi]
        m = var.mods[mname]
        if not m.get("exe"):
            return None
        idx = [i for i, (tn, s, h) in enumerate(items) if not skips(var.opts, s)]
        lines = ["xcode %s %s %s der" % (items[i][0], "ber" if items[i][1] == "der" else items[i][1], items[i][2]) for i in idx]
        return idx, run_mod_resume(run, m, lines, "%s-dec-%s" % (name, var.label()), exits)
    for vi, r in enumerate(_par(one, len(variants))):
        if r is None:
            continue
        idx, out = r
        for i, o in zip(idx, out):
            res[i][vi] = o
    exit_status_oracle(run, variants, mname, exits, name + "-dec")
    return res


def check_module(run, rng, tier, variants, mname, values, classify, layer, model_bytes=None, dec_limit=None):
    """values: [(type, der)]; classify(j, syn, kind, detail) -> finding id or None.
    model_bytes: optional {syn: [hex per value]} from the extracted model (faithful variant)."""
    text = variants[0].mods[mname]["text"]
    built = [vi for vi, var in enumerate(variants) if var.mods[mname].get("exe")]
    if 0 not in built or len(built) < 2:
        run.count("%s_module_without_two_builds" % layer)
        return None
    enc = encode_everywhere(run, variants, mname, values, "C13-" + layer)
    items, meta = [], []
    for j, (tn, der) in enumerate(values):
        for s in SYNS:
            outs = enc[s][j]
            if not outs:
                continue
            line = "xcode %s der %s %s" % (tn, der, s)
            run.case(line)
            run.count("%s_enc_%s" % (layer, s))
            groups = {}
            for vi, o in outs.items():
                groups.setdefault(o if not o.startswith("ENCFAIL") else "ENCFAIL", []).append(vi)
            replay = {"module": text, "type": tn, "value_der": der, "syntax": s, "command_line": line,
                      "outputs": {variants[vi].label(): o for vi, o in outs.items()}}
            if len(groups) == 1 and not list(groups)[0].startswith("OK "):
                run.count("%s_not_encodable_in_every_build(%s:%s)" % (layer, s, list(groups)[0].split()[0]))
                if layer == "family" and len(FAMILY_NOTES) < 60 and (s == "der" or "DECFAIL" not in list(groups)[0]) and not (s == "uper" and "ENCFAIL" in list(groups)[0]):
                    FAMILY_NOTES.append({"module": mname, "command_line": line, "every_build_answers": list(groups)[0]})
            if len(groups) > 1:
                fid = classify(j, s, "enc-differs", groups)
                if fid:
                    run.known_finding(fid, line)
                else:
                    run.violation("oracle:options-change-bytes(%s)" % s,
                                  dict(replay, what="builds of the same module under different representation options emit different %s bytes for the same value" % s))
            if model_bytes is not None and s in ("der", "uper", "oer") and outs:
                exp = model_bytes[s][j]
                expl = ("OK " + exp) if exp != "NONE" else "ENCFAIL"
                alt = model_bytes.get(s + "std", [None] * len(values))[j]
                if alt is not None and alt != exp:
                    # the faithful model and its standard reading differ here (C02's refuted regions: semi-constrained
                    # INTEGER, CHOICE index order).  /repo moves from one state to the other by `fix:` commits, one
                    # deviation at a time, before the shared model follows; which state the C is in is C02's
                    # statement.  C13 keeps the comparison across builds (above) and does not compare with the model.
                    run.count("model_layer_uper_in_C02_refuted_region(no model comparison)")
                else:
                    # EVERY build against the codec model (the model takes no representation parameter:
                    # coq/Rt/Layout.v, C13_oer_layout_invariant), not only the baseline
                    wrong = [vi for g, vis in groups.items() if g != expl for vi in vis]
                    if wrong:
                        fid = classify(j, s, "model-differs", groups)
                        if fid:
                            run.known_finding(fid, line)
                        else:
                            run.violation("correspondence:Rt.%s" % s, dict(replay, model=expl, builds_differing_from_model=[variants[vi].label() for vi in wrong],
                                                                        what="a build differs from the extracted codec model"),
                                          no_input=(len(groups) == 1))
            for o in groups:
                if o.startswith("OK "):
                    items.append((tn, s, o.split()[1]))
                    meta.append((j, s, groups[o]))
    # every build decodes every distinct output
    if dec_limit is not None and len(items) > dec_limit:
        pick = sorted(rng.shuffle(list(range(len(items))))[:dec_limit])
        items, meta = [items[i] for i in pick], [meta[i] for i in pick]
    dec = decode_everywhere(run, variants, mname, items, "C13-" + layer)
    for (tn, s, h), (j, s_, producers), outs in zip(items, meta, dec):
        der = values[j][1]
        line = "xcode %s %s %s der" % (tn, s, h)
        run.case(line)
        run.count("%s_dec_%s" % (layer, s))
        dgroups = {}
        for vi, o in outs.items():
            dgroups.setdefault(o, []).append(vi)
        if len(dgroups) > 1:
            fid = classify(j, s, "dec-differs", {"producers": producers, "groups": dgroups})
            if fid:
                run.known_finding(fid, line)
                continue
            run.violation("oracle:cross-decode(%s)" % s,
                          {"what": "builds of the same module under different options decode the same %s bytes differently" % s, "module": text, "type": tn,
                           "value_der": der, "command_line": line, "produced_by": [variants[vi].label() for vi in producers],
                           "outputs": {variants[vi].label(): o for vi, o in outs.items()}})
        elif list(dgroups) != ["OK " + der]:
            # every build agrees, but the value did not come back: the round trip itself is open (C01), not an option matter
            o = list(dgroups)[0] if dgroups else "-"
            run.count("%s_roundtrip_open_in_every_build(%s:%s)" % (layer, s, o.split()[0]))
    return enc


def leaf_contents(rng, tier):
    """contents octets aimed at the case splits of the proofs: leading 00/ff runs of length 0..3 (the strip
    loops), first significant octet around the sign bit, total lengths across 8/9 (long range), random tails"""
    out = set()
    for pre in range(0, 4):
        for lead in (0x00, 0xff):
            for n in range(1, 10):
                for first in (0x00, 0x01, 0x7f, 0x80, 0xfe, 0xff):
                    for tail in ("zero", "ones", "rnd"):
                        t = [0] * (n - 1) if tail == "zero" else [0xff] * (n - 1) if tail == "ones" else [rng.below(256) for _ in range(n - 1)]
                        b = bytes([lead] * pre + [first] + t)
                        if len(b) <= 11:
                            out.add(b)
    for _ in range(300 if tier == "quick" else 3000):
        out.add(rng.bytes(rng.range(1, 10)))
    return sorted(out)


def twos(b):
    return int.from_bytes(b, "big", signed=True)


def leaf_tie(run, rng, tier, wvariants, model):
    """coq/Leaf/NativeWide.v against the real code: BER INTEGER TLVs with arbitrary (non-minimal, out-of-range)
    contents are decoded and re-encoded as DER by a signed native field (WIT.I), an unsigned native field
    (WIT.U) and their -fwide-types counterparts.  (i) every build vs the model's path for its representation;
    (ii) oracle: native and wide builds give the same answer, except inside the refuted regions."""
    cs = leaf_contents(rng, tier)
    res = {}
    mcache = {}
    for kind in ("W", "N"):
        mlines = ["nw_xcode %s %s" % ("W" if kind == "W" else ("N0" if tn == "I" else "N1"), b.hex()) for tn in ("I", "U") for b in cs]
        rcm, mo, me = run_lines(model, mlines, timeout=600)
        if rcm != 0 or len(mo) != len(mlines):
            raise RuntimeError("model driver failed: %s %s" % (rcm, me))
        mcache[kind] = (mlines, mo)
    lines = ["xcode %s ber 02%02x%s der" % (tn, len(b), b.hex()) for tn in ("I", "U") for b in cs]

    def one(vi):
        m = wvariants[vi].mods["WIT"]
        if not m.get("exe"):
            return None
        return run_mod_resume(run, m, lines, "C13-leaf-" + wvariants[vi].label())
    for vi, out in enumerate(_par(one, len(wvariants))):
        if out is None:
            continue
        var = wvariants[vi]
        m = var.mods["WIT"]
        wide = "-fwide-types" in var.opts
        mlines, mo = mcache["W" if wide else "N"]
        for l, o, ml, mout in zip(lines, out, mlines, mo):
            run.case(l + " @" + ("wide" if wide else "native"))
            run.count("leaf_%s_%s" % ("wide" if wide else "native", l.split()[1]))
            if mout.startswith("OK "):
                c = mout.split()[1]
                exp = "OK 02%02x%s" % (len(c) // 2, c)
            else:
                exp = "DECFAIL FAIL 0"
            if o != exp:
                run.violation("correspondence:NativeWide(%s)" % ml.split()[1],
                              {"what": "the build does not do what the model of its representation does", "build": var.label(), "module": m["text"],
                               "command_line": l, "c": o, "model_command": ml, "model": mout, "expected": exp}, no_input=True)
            res.setdefault(l, {})[vi] = o
    for l, outs in res.items():
        tn = l.split()[1]
        b = bytes.fromhex(l.split()[3][4:])
        v = twos(b)
        groups = {}
        for vi, o in outs.items():
            groups.setdefault(o, []).append(vi)
        if len(groups) <= 1:
            continue
        if tn == "U" and v < 0:
            run.count("leaf_negative_in_unsigned_type(not a value of the type)")
            continue
        if tn == "U" and 2**63 <= v < 2**64:
            run.known_finding("C13-unsigned-native-ge-2^63", l)
        elif (tn == "I" and not (-2**63 <= v < 2**63)) or (tn == "U" and v >= 2**64):
            run.known_finding("C13-native-capacity", l)
        else:
            run.violation("oracle:native-vs-wide", {"what": "native and wide builds answer differently for a value both can hold", "module": wvariants[0].mods["WIT"]["text"],
                                                    "command_line": l, "value": str(v), "outputs": {wvariants[vi].label(): o for vi, o in outs.items()}})


# ------------------------------------------------------------------ directed families (lib/c13_families.py)

# extra option sets for the family modules (quick tier; the thorough tier builds every subset anyway): each
# structure-changing option ALONE with every codec present, and all of them together
FAMILY_SETS = [
    ("-fcompound-names", "-findirect-choice"),
    ("-fcompound-names", "-fwide-types", "-findirect-choice", "-fno-constraints", "-fincludes-quoted", "-fno-include-deps"),
]


def text_family_values(run, rng, tier, m):
    """values of a text-only family module as DER: hand-made DER, XER converted by the baseline build, random fill"""
    values = list(m.get("der_values", []))
    xv = m.get("xer_values", [])
    if xv:
        lines = ["xcode %s xer %s der" % (tn, xer(x)) for tn, x in xv]
        out = run_mod_resume(run, m, lines, "C13-family-xer2der")
        for (tn, x), o in zip(xv, out):
            if o.startswith("OK "):
                values.append((tn, o.split()[1]))
            else:
                # the directed values are valid by construction: a baseline build that cannot read one is a defect
                # of the value transport (harness) or of the XER decoder (C03) - visible in the distribution
                run.count("family_xer_value_not_decodable(%s)" % m["name"])
                run.notes.append({"xer_value_rejected": m["name"], "type": tn, "xer": x[:200], "answer": o})
    k = m.get("rfill", 0) * (1 if tier == "quick" else 3)
    if k:
        lines = []
        for tn in m.get("rfill_types") or [n for n, _ in m["defs"]]:
            for _ in range(k):
                lines.append("rfill %s %d %d" % (tn, rng.below(100000), rng.choice([8, 32, 64, 200])))
        out = run_mod_resume(run, m, lines, "C13-family-rfill")
        for l, o in zip(lines, out):
            f = o.split()
            if len(f) == 3 and f[0] == "OK" and f[1] != "ENCFAIL" and f[2] == "ck=0":
                values.append((l.split()[1], f[1]))
            else:
                run.count("family_rfill_value_unusable")
    seen, out = set(), []
    for v in values:
        if v not in seen:
            seen.add(v)
            out.append(v)
    return out


def descriptor_tie(run, variants, names, texts, classify, skel_inc, lib, model):
    """the translator-style tie: the type descriptor tables of every build of a module (harness/dumpdescr.c) must be
    equal to the baseline's up to the fields the options may change (lib/c13_descr.erase, bisimulation from the PDUs).
    (i) oracle: the Python erasure/bisimulation; (ii) faithfulness: the extracted coq/Rt/Options.v `table_sim`
    must give the same verdict on the same pair of tables."""
    dumps = c13_descr.dump_all(variants, names, skel_inc, lib)
    mlines, mkeys = [], []
    tabs = {}
    for n in names:
        if not (variants[0].mods.get(n) and variants[0].mods[n].get("exe")):
            continue
        rc0, t0, e0 = dumps[(0, n)]
        base = c13_descr.parse_dump(t0) if rc0 == 0 else None
        if base is None:
            run.violation("translator:dumpdescr", {"what": "dumpdescr does not build, link or run against the baseline build", "module": texts[n], "rc": rc0, "log": e0}, no_input=True)
            continue
        run.count("descriptor_tables_dumped")
        tabs[(0, n)] = base
        for vi, var in enumerate(variants):
            if vi == 0 or (vi, n) not in dumps:
                continue
            rc, t, e = dumps[(vi, n)]
            tab = c13_descr.parse_dump(t) if rc == 0 else None
            if tab is None:
                run.violation("translator:dumpdescr", {"what": "dumpdescr does not build, link or run against the build " + var.label(), "module": texts[n], "rc": rc, "log": e}, no_input=True)
                continue
            tabs[(vi, n)] = tab
            # non-vacuity of the erasure: how much of the raw tables DOES depend on the options
            if tab["n"] == base["n"]:
                for da, db in zip(base["d"], tab["d"]):
                    if da["kind"] != db["kind"]:
                        run.count("erased:native_vs_wide_op_table")
                    if len(da["elems"]) == len(db["elems"]):
                        for ea, eb in zip(da["elems"], db["elems"]):
                            if (ea["flags"] ^ eb["flags"]) & 1:
                                run.count("erased:ATF_POINTER_differs")
            else:
                run.count("erased:descriptor_sharing_differs")
            has_per = not (skips(var.opts, "uper") or skips(variants[0].opts, "uper"))
            has_oer = not (skips(var.opts, "oer") or skips(variants[0].opts, "oer"))
            diffs = c13_descr.bisimilar(base, tab, has_per, has_oer)
            line = "descr %s %s" % (n, " ".join(var.opts) or "(none)")
            run.case(line)
            run.count("descriptor_tables_compared")
            run.count("descriptors_compared", tab["n"])
            mlines.append("opt_sim %d %d %s %s" % (1 if has_per else 0, 1 if has_oer else 0, c13_descr.wire_table(base), c13_descr.wire_table(tab)))
            mkeys.append((n, vi, not diffs))
            if diffs:
                fid = classify(n, var, diffs)
                if fid:
                    for f1 in ([fid] if isinstance(fid, str) else fid):
                        run.known_finding(f1, line)
                    continue
                run.violation("oracle:descriptor-differs", {"what": "the type descriptors generated under %s differ from the baseline's in a field no representation option may change" % var.label(),
                                                            "module": texts[n], "command_line": line, "differences": diffs[:12],
                                                            "baseline": variants[0].label(), "build": var.label()})
    if mlines and model:
        rcm, mo, me = run_lines(model, mlines, timeout=900)
        if rcm != 0 or len(mo) != len(mlines):
            run.violation("correspondence:Options.table_sim", {"what": "model driver failed on descriptor tables", "rc": rcm, "stderr": me[-800:]}, no_input=True)
        else:
            for (n, vi, same), ml, o in zip(mkeys, mlines, mo):
                run.count("descriptor_sim_model_vs_python")
                if (o == "SIM") != same:
                    run.violation("correspondence:Options.table_sim", {"what": "coq/Rt/Options.v table_sim and lib/c13_descr.bisimilar disagree on a pair of dumped tables",
                                                                       "module": texts[n], "build": variants[vi].label(), "model": o, "python_equal": same,
                                                                       "model_command": ml[:3000]}, no_input=True)
    return tabs


def slots_tie(run, variants, mods, tabs, model):
    """coq/Rt/Options.v type_slots / member_slots (the emitter's decision which of the OER / PER slots of a type
    descriptor and of a member entry are filled) against the dumped tables of every build, for the named types of
    the model-algebra family modules (whose constraints the generator knows)."""
    lines, keys = [], []
    for m in mods:
        if not m.get("exe"):
            continue
        for ri, (tn, t) in enumerate(m["defs"]):
            if t["k"] == "ref":
                continue
            for vi, var in enumerate(variants):
                tab = tabs.get((vi, m["name"]))
                if tab is None or ri >= tab["roots"]:
                    continue
                d = tab["d"][ri]
                o, p = 0 if skips(var.opts, "oer") else 1, 0 if skips(var.opts, "uper") else 1
                fl = "%d %d %d %d %d" % (o, p, 1 if "-fno-constraints" in var.opts else 0, 1 if "-fwide-types" in var.opts else 0, 1 if "-findirect-choice" in var.opts else 0)
                lines.append("opt_slots %s %d 0 %d 0" % (fl, 1 if t.get("con") else 0, 1 if t["k"] == "choice" else 0))
                keys.append((m, tn, var, "type", ("T" if d["oer"] != "None" else "N") + ("T" if d["per"] != "None" else "N")))
                if t["k"] in ("seq", "choice") and len(t["ms"]) == len(d["elems"]):
                    for (mn, mt, _o), e in zip(t["ms"], d["elems"]):
                        lines.append("opt_mslots %d %d %d %d" % (o, p, 1 if "-fno-constraints" in var.opts else 0, 1 if (mt["k"] != "ref" and mt.get("con")) else 0))
                        keys.append((m, tn + "." + mn, var, "member", ("T" if e["oer"] != "None" else "N") + ("T" if e["per"] != "None" else "N")))
    if not lines:
        return
    rcm, mo, me = run_lines(model, lines, timeout=600)
    if rcm != 0 or len(mo) != len(lines):
        run.violation("correspondence:Options.type_slots", {"what": "model driver failed", "rc": rcm, "stderr": me[-800:]}, no_input=True)
        return
    for (m, where, var, what, got), l, o in zip(keys, lines, mo):
        run.case("%s %s %s @%s" % (l, m["name"], where, " ".join(var.opts)))
        run.count("emitter_slots_%s" % what)
        if o[:2] != got:
            run.violation("correspondence:Options.%s_slots" % what,
                          {"what": "the %s's OER/PER constraint slots in the generated tables are not what the model of the emitter's decision says (T = record, N = null)" % what,
                           "module": m["text"], "where": where, "build": var.label(), "model_command": l, "model": o[:2], "generated": got, "command_line": "descr %s %s" % (m["name"], " ".join(var.opts))})



# ------------------------------------------------------------------ round 4: walkers and layouts (lib/c13_ext.py)

def _ck_norm(field):
    """<ret>:<hex message>: the message ends with the C source position of the generated checker, `(<dir>/<file>.c:<line>)`,
    which legitimately depends on the options (line numbers, file names): removed before comparing"""
    ret, _, hx = field.partition(":")
    try:
        msg = bytes.fromhex(hx).decode(errors="replace") if hx != "-" else "-"
    except ValueError:
        msg = hx
    return ret + ":" + re.sub(r"\s*\([^()]*:\d+\)\s*$", "", msg)


def walker_tie(run, variants, mname, values, layer):
    """the generic walkers that are not codecs - asn_fprint, asn_check_constraints, compare_struct, the free walk (under
    the sanitizers) - fetch members through the same member tables as the codecs: every build must print the same text,
    give the same constraint verdict and the same comparison results for the same values (harness/moddrv_c13.inc `walk`)."""
    text = variants[0].mods[mname]["text"]
    built = [vi for vi, var in enumerate(variants) if var.mods[mname].get("exe")]
    if 0 not in built or len(built) < 2 or not values:
        return
    bytype = {}
    for tn, der in values:
        bytype.setdefault(tn, []).append(der)
    lines = []
    for tn, ds in bytype.items():
        for j, d in enumerate(ds):
            lines.append("walk %s %s %s" % (tn, d, ds[(j + 1) % len(ds)]))
    exits = {}

    def one(vi):
        m = variants[vi].mods[mname]
        if not m.get("exe"):
            return None
        return run_mod_resume(run, m, lines, "C13-%s-walk-%s" % (layer, variants[vi].label()), exits)
    res = _par(one, len(variants))
    for li, line in enumerate(lines):
        outs = {vi: r[li] for vi, r in enumerate(res) if r is not None}
        run.case(line)
        run.count("%s_walk" % layer)
        # a -fno-constraints build has no checker (ck=NA..): its ck field is not compared; the rest of the line is
        groups, ckgroups = {}, {}
        for vi, o in outs.items():
            groups.setdefault(re.sub(r" ck=\S+", "", o), []).append(vi)
            mck = re.search(r" ck=(\S+)", o)
            if mck and not mck.group(1).startswith("NA"):
                ckgroups.setdefault(_ck_norm(mck.group(1)), []).append(vi)
        if len(groups) > 1 or len(ckgroups) > 1:
            run.violation("oracle:options-change-walker",
                          {"what": "print / constraint check / compare / free of the same value give different results in builds of the same module under different representation options "
                                   "(a member fetched through the wrong address: text, verdict, comparison or a sanitizer abort)",
                           "module": text, "command_line": line, "outputs": {variants[vi].label(): o for vi, o in outs.items()}})
            continue
        o = list(outs.values())[0]
        f = dict(x.split("=", 1) for x in o.split() if "=" in x)
        if "cmp" not in f:
            run.count("%s_walk_not_walkable_in_every_build(%s)" % (layer, o.split()[0] if o else "-"))
            continue
        c = f["cmp"].split(",")
        if c[0] != "0":
            run.count("%s_walk_self_compare_nonzero_in_every_build" % layer)      # C01's subject (all builds agree)
        if len(c) == 3 and int(c[1]) != -int(c[2]):
            run.count("%s_walk_compare_not_antisymmetric_in_every_build" % layer)
    exit_status_oracle(run, variants, mname, exits, "C13-%s-walk" % layer)


def layout_tie(run, variants, mods, tabs, model, encs, ext):
    """coq/Rt/Layout.v + LayoutExt.v against the real code: for every build the LAYOUT (one pointer flag per member /
    alternative / addition) is read off that build's dumped member tables; the extracted model builds the structure for
    that layout (repr / ext_repr) and walks it through the flags (uper_c / oer_c / der_c, ext_*_c): the bytes must be the
    ones that build emitted.  By the theorems the walk equals the representation-free model for EVERY layout, so a
    difference means the C does not fetch through the flag somewhere (or the layout cannot hold the value at all)."""
    lines, keys = [], []
    seen = {}
    nlay = {}
    for m in mods:
        if not m.get("exe") or m["name"] not in encs:
            continue
        enc, cs = encs[m["name"]]
        if enc is None:
            continue
        names = [n for n, _ in m["defs"]]
        for vi, var in enumerate(variants):
            tab = tabs.get((vi, m["name"]))
            if tab is None:
                continue
            lays = {}
            for j, c in enumerate(cs):
                tn = c["tn"]
                if tn not in lays:
                    ri = names.index(tn)
                    lays[tn] = (ext_layout_of(tab, ri, c["x"]) if ext else layout_of(tab, ri, m["trees"][tn])) if ri < tab["roots"] else None
                    if lays[tn] is None:
                        run.violation("translator:layout", {"what": "the dumped member tables of a build do not have the shape of the model type", "module": m["text"], "type": tn, "build": var.label()}, no_input=True)
                        continue
                    nlay.setdefault((m["name"], tn), set()).add(lays[tn])
                lay = lays[tn]
                if lay is None:
                    continue
                if ext:
                    # how many (value, build) pairs lie where a wrong fetch on the extension path shows: the selected
                    # extension alternative / a present addition behind a pointer
                    el = tab["d"][names.index(tn)]["elems"]
                    nr = len(c["x"]["rtrees"])
                    if c["x"]["kind"] == "choice":
                        i = c["v"][1]
                        run.count("ext_choice_value(%s alternative held %s)" % ("extension" if i >= nr else "root", "by pointer" if el[i]["flags"] & 1 else "inline"))
                    else:
                        npres = sum(1 for a in c["v"][1][nr:] if a[0] == "!")
                        run.count("ext_seq_value(%s)" % ("no addition present" if not npres else "additions present, all pointers" if all(e["flags"] & 1 for e in el[nr:]) else "additions present, some inline"))
                for s, cmd in (("der", "lay_xder" if ext else "lay_der"), ("uper", "lay_xuper 0" if ext else "lay_uper 0"), ("oer", "lay_xoer" if ext else "lay_oer")):
                    if skips(var.opts, s) or vi not in enc[s][j]:
                        continue
                    if s == "uper" and c["uper"] != c["uperstd"]:
                        continue        # C02's refuted region (see check_module)
                    ml = "%s %s %s %s" % (cmd, c["ts"], lay, c["vs"])
                    k = seen.get(ml)
                    if k is None:
                        k = seen[ml] = len(lines)
                        lines.append(ml)
                    keys.append((m, c, s, var, vi, k, enc[s][j][vi]))
    if not lines:
        return
    rcm, mo, me = run_lines(model, lines, timeout=900)
    if rcm != 0 or len(mo) != len(lines):
        run.violation("correspondence:Layout", {"what": "model driver failed on the layout walks", "rc": rcm, "stderr": me[-800:]}, no_input=True)
        return
    for (m, c, s, var, vi, k, cout) in keys:
        o = mo[k]
        run.count("layout_walk_%s%s" % ("ext_" if ext else "", s))
        exp = ("OK " + o) if o not in ("NONE", "NOREPR") and not o.startswith("EXN") else ("ENCFAIL" if o == "NONE" else o)
        got = cout if not cout.startswith("ENCFAIL") else "ENCFAIL"
        if got != exp:
            run.case("%s @%s" % (lines[k][:300], var.label()))
            run.violation("correspondence:Layout.%s%s" % ("x" if ext else "", s),
                          {"what": "the walk of the structure through the ATF_POINTER flags of THIS build's member tables (coq/Rt/Layout%s.v) does not give the bytes this build emits" % ("Ext" if ext else ""),
                           "module": m["text"], "type": c["tn"], "build": var.label(), "model_command": lines[k][:3000], "model": o, "c": cout,
                           "command_line": "xcode %s der %s %s" % (c["tn"], c["der"], s)}, no_input=(o == "NOREPR"))
    for (mn, tn), ls in nlay.items():
        run.count("layout_types_with_%d_distinct_layouts" % len(ls))


def _t(what):
    if os.environ.get("VERIF_C13_TIMING"):
        log("C13 t=%6.1f %s" % (time.time() - T0, what))


def main(tier):
    run = Run("C13", tier)
    rng = Rng(run.seed)
    ok, out = coq_build()
    nthm, ndis, axioms, names, plog = obligations("C13") if ok else (0, 0, set(), [], out)
    gate = grep_gate()
    if not ok or ndis != nthm or gate:
        run.violation("proof:Properties_C13", {"what": "Coq development does not build or an obligation is open",
                                               "log_tail": (out if not ok else plog)[-2000:], "grep_gate": gate}, no_input=True)
    coqchk = None
    if tier == "thorough" and ok:
        rck, ko = sh("timeout 900 coqchk -silent -o -Q %s A1 A1.Props.Properties_C13" % COQ, timeout=1000)
        mm = re.search(r"\* Axioms:\s*(.*?)\n\s*\n", ko, flags=re.S)
        coqchk = {"rc": rck, "axioms": (mm.group(1).strip() if mm else "?")}
        if rck != 0 or coqchk["axioms"] != "<none>":
            run.violation("proof:coqchk", {"what": "coqchk rejects the compiled property file or reports axioms", "log_tail": ko[-1500:]}, no_input=True)
    _t("proofs done")
    quick = tier == "quick"
    optsets = list(QUICK_SETS) if quick else all_subsets(rng)
    try:
        nm, nt, nv = (6, 5, 6) if quick else (4, 5, 10)
        mods, cases = build_corpus(run, rng, nm, nt, nv, tier, opts=BASE, tag="opt0")
        _t("corpus built")
        wg = WGen(rng, features=WIDE_FEATURES)
        wmods = [wg.module("W%d" % i, 5) for i in range(5 if quick else 4)] + [cover_module(), witness_module(), witness2_module()]
        build_modules(wmods, tag="wopt0", opts=BASE)
        _t("wide baseline built")
        mv = build_variants(mods, optsets, jobs=4)
        wv = build_variants(wmods, optsets, jobs=4, prefix="wopt")
        _t("variants built")
        # directed families: one per representation option (lib/c13_families.py)
        fam_model = model_family_modules()
        fam_ext = ext_family_modules()                                   # round 4: extensible types, ext-layer algebra
        fam_text = text_family_modules(rng, tier) + nested_modules(tier) + [wide_ext_module()]
        fmods = fam_model + fam_ext + fam_text
        fsets = (list(QUICK_SETS) + FAMILY_SETS) if quick else family_sets_thorough()
        build_modules(fmods, tag="fopt0", opts=BASE, moddrv_extra=MODDRV_C13)
        fv = build_variants(fmods, fsets, jobs=4, prefix="fopt", select=relevant_ext if quick else None, moddrv_extra=MODDRV_C13)
    except BuildError as e:
        run.violation("build", {"what": str(e)[-2500:]}, no_input=True)
        return run.finish("proof", (nthm, ndis))
    _t("family built")
    variants = [Variant(0, BASE, mods)] + [Variant(i + 1, o, ms) for i, (o, ms) in enumerate(mv)]
    wvariants = [Variant(0, BASE, wmods)] + [Variant(i + 1, o, ms) for i, (o, ms) in enumerate(wv)]
    fvariants = [Variant(0, BASE, fmods)] + [Variant(i + 1, o, ms) for i, (o, ms) in enumerate(fv)]
    # a module the baseline builds must build under every option set that keeps -fcompound-names
    # (without it name clashes are legitimate: C10's business, counted only)
    for vs in (variants, wvariants, fvariants):
        for var in vs[1:]:
            for mname, m in var.mods.items():
                base_ok = bool(vs[0].mods[mname].get("exe"))
                if m.get("exe"):
                    run.count("built")
                elif not base_ok:
                    run.count("not_built_in_baseline_either")
                    run.count("not_built_in_baseline_either(%s)" % mname)
                elif "-fcompound-names" not in var.opts and m.get("asn1c_rc") and "-fcompound-names" in m.get("asn1c_out", ""):
                    # asn1c itself refuses: `FATAL: Use "-fcompound-names" flag to asn1c to resolve name clashes` (C10's business)
                    run.count("not_built_without_compound_names(asn1c diagnoses the name clash)")
                else:
                    run.violation("build:option-breaks-module", {"what": "a module that builds under the baseline options does not build under " + var.label(),
                                                                  "module": m["text"], "asn1c_out": m.get("asn1c_out", "")[-1500:], "build_log": m.get("build_log", "")[-1500:]})
    for m in mods + fmods:
        if not m.get("exe"):
            run.violation("build:module", {"what": "asn1c rejected a valid generated module or its output does not compile",
                                           "module": m["text"], "asn1c_out": m.get("asn1c_out", "")[-1500:], "build_log": m.get("build_log", "")[-1500:]})
    _t("build checks done")
    # ------------------------------------------------------------ model layer
    bm = by_module(cases)
    for m in mods:
        if not m.get("exe"):
            continue
        cs = bm.get(m["name"], [])
        # every value is encoded 5 times and decoded ~5 times by EVERY build: cap the cases per module and keep only a
        # few of the very long values (MS0's 16K/64K lists and strings are C02's subject)
        big = [i for i, c in enumerate(cs) if len(c["der"]) > 6000]
        keep_big = set(rng.shuffle(big)[:2 if quick else 3])
        idx = [i for i in range(len(cs)) if i not in big or i in keep_big]
        cap = 60 if quick else 90
        if len(idx) > cap:
            idx = sorted(rng.shuffle(idx)[:cap])
        cs = [cs[i] for i in idx]
        values = [(c["tn"], c["der"]) for c in cs]
        mb = {"der": [c["der"] for c in cs], "uper": [c["uper"] for c in cs], "oer": [c["oer"] for c in cs], "uperstd": [c["uperstd"] for c in cs]}

        def classify(j, s, kind, detail):
            return None
        check_module(run, rng, tier, variants, m["name"], values, classify, "model", model_bytes=mb, dec_limit=150 if quick else 200)
        if cs:
            run.sample({"module": m["name"], "type": cs[0]["ts"], "value": cs[0]["vs"][:80], "der": cs[0]["der"][:80], "builds": [v.label() for v in variants if v.mods[m["name"]].get("exe")][:8]})
    _t("model layer done")
    # ------------------------------------------------------------ wide layer
    for m in wmods:
        if not m.get("exe"):
            run.count("wide_module_not_built")
            continue
        if m["name"] in ("WIT", "WIS"):
            continue
        lines = []
        for tn, _ in m["defs"]:
            for k in range(5 if quick else 10):
                lines.append("rfill %s %d %d" % (tn, rng.below(100000), rng.choice([8, 32, 64, 200])))
        # asn_random_fill is only the value source here: a command it dies on (e.g. the assertion
        # `range < intmax_max` of asn_random_between for INTEGER (0..9223372036854775807)) yields no value
        out = run_mod_resume(run, m, lines, "C13-wide-rfill")
        values = []
        for l, o in zip(lines, out):
            f = o.split()
            if len(f) == 3 and f[0] == "OK" and f[1] != "ENCFAIL" and f[2] == "ck=0":
                values.append((l.split()[1], f[1]))
            else:
                run.count("wide_value_unusable")
        values = sorted(set(values))

        def wclassify(j, s, kind, detail, m=m, values=values):
            g = detail if kind == "enc-differs" else detail.get("groups", {})
            if s == "uper" and needs_per_char_map(m["text"]) and split_along_no_constraints(wvariants, g):
                return "C13-no-constraints-per-alphabet"
            if explicit_tagged_unsigned_member(m["text"]) and split_along(wvariants, g, "-fwide-types"):
                return "C13-explicit-tag-unsigned-member"
            return None
        check_module(run, rng, tier, wvariants, m["name"], values, wclassify, "wide", dec_limit=150 if quick else 200)
        if values:
            run.sample({"wide_module": m["text"][:300], "type": values[0][0], "der": values[0][1][:80]})
    _t("wide layer done")
    # ------------------------------------------------------------ directed families
    model = model_build()
    fcases = by_module(model_cases(model, [m for m in fam_model if m.get("exe")], rng, 3 if quick else 10, run_lines))
    fcases.update(by_module(ext_cases(model, [m for m in fam_ext if m.get("exe")], rng, 1 if quick else 4, run_lines)))
    fencs = {}
    for m in fam_model + fam_ext:
        if not m.get("exe"):
            continue
        cs = fcases.get(m["name"], [])
        values = [(c["tn"], c["der"]) for c in cs]
        mb = {"der": [c["der"] for c in cs], "uper": [c["uper"] for c in cs], "oer": [c["oer"] for c in cs], "uperstd": [c["uperstd"] for c in cs]}
        for c in cs:
            run.count("family_%s_values" % m["name"])

        def fclassify(j, s, kind, detail):
            return None
        fencs[m["name"]] = (check_module(run, rng, tier, fvariants, m["name"], values, fclassify, "family", model_bytes=mb, dec_limit=400 if quick else 1200), cs)
        walker_tie(run, fvariants, m["name"], values, "family")
        if cs:
            run.sample({"family_module": m["name"], "type": cs[0]["ts"][:80], "value": cs[0]["vs"][:80], "der": cs[0]["der"][:80]})
    _t("family model done")
    for m in fam_text:
        if not m.get("exe"):
            continue
        values = text_family_values(run, rng, tier, m)
        run.count("family_%s_values" % m["name"], len(values))

        def tclassify(j, s, kind, detail, m=m, values=values):
            g = detail if kind in ("enc-differs", "model-differs") else detail.get("groups", {})
            if s == "uper" and needs_per_char_map(m["text"]) and split_along_no_constraints(fvariants, g):
                return "C13-no-constraints-per-alphabet"
            return None
        check_module(run, rng, tier, fvariants, m["name"], values, tclassify, "family", dec_limit=400 if quick else 1200)
        walker_tie(run, fvariants, m["name"], values, "family")
    _t("family text done")
    # ------------------------------------------------------------ descriptor tie (translator: harness/dumpdescr.c)
    lib, _libdir = build_skeleton_lib(True)
    _asn1c, skel_inc = build_asn1c()

    all_texts = {m["name"]: m["text"] for m in mods + wmods + fmods}

    def doubled_first_tag(d):
        """the baseline's tag vector is the build's with its first tag written twice ([2, 2, 8] vs [2, 8])"""
        try:
            import ast
            a, b = ast.literal_eval(d["a"]), ast.literal_eval(d["b"])
        except Exception:
            return False
        return isinstance(a, list) and isinstance(b, list) and len(b) >= 1 and a == [b[0]] + b

    def dclassify(n, var, diffs):
        """every difference must belong to a known finding whose option is in the build's option set; -> list of finding ids"""
        ids = []
        for d in diffs:
            if "-fno-constraints" in var.opts and c13_descr.only_char_map_differs([d]):
                fid = "C13-no-constraints-per-alphabet"
            elif "-fwide-types" in var.opts and explicit_tagged_unsigned_member(all_texts.get(n, "")) and d["field"] in ("tags", "all") and doubled_first_tag(d):
                # C13-explicit-tag-unsigned-member seen in the tables: the native build emits the EXPLICIT tag of an `unsigned` member twice (once in
                # the member-specific descriptor, once in the member entry); INTEGER_t needs no such descriptor under -fwide-types
                fid = "C13-explicit-tag-unsigned-member"
            else:
                return None
            if fid not in ids:
                ids.append(fid)
        return ids or None
    for vs, ms in ((variants, mods), (wvariants, wmods), (fvariants, fmods)):
        tabs = descriptor_tie(run, vs, [m["name"] for m in ms if m.get("exe")], {m["name"]: m["text"] for m in ms}, dclassify, skel_inc, lib, model)
        if vs is fvariants:
            slots_tie(run, fvariants, fam_model, tabs, model)
            # round 4: the layouts of every build, read off its member tables, walked by the extracted Layout / LayoutExt model
            layout_tie(run, fvariants, [m for m in fam_model if m["name"].startswith("FI")], tabs, model, fencs, ext=False)
            layout_tie(run, fvariants, fam_ext, tabs, model, fencs, ext=True)
    _t("descr tie done")
    # ------------------------------------------------------------ witness layers
    wis = wvariants[0].mods.get("WIS")
    if wis and wis.get("exe"):
        def sclassify(j, s, kind, detail):
            g = detail if kind == "enc-differs" else detail.get("groups", {})
            if s == "uper" and split_along_no_constraints(wvariants, g):
                return "C13-no-constraints-per-alphabet"
            return None
        check_module(run, rng, tier, wvariants, "WIS", witness2_values(), sclassify, "witness")
    wit = wvariants[0].mods["WIT"]
    if wit.get("exe"):
        wvals = witness_values()

        def xclassify(j, s, kind, detail, wvals=wvals):
            cls = wvals[j][2]
            if cls == "unsigned_ge_2^63":
                return "C13-unsigned-native-ge-2^63"
            if cls == "beyond_long":
                return "C13-native-capacity"
            return None
        check_module(run, rng, tier, wvariants, "WIT", [(t, d) for (t, d, c) in wvals], xclassify, "witness")
        leaf_tie(run, rng, tier, wvariants, model)
    _t("witness done")
    tb = ["Coq 8.16.1 kernel; vm_compute for refuted witnesses and Examples", "axioms under Print Assumptions: " + (", ".join(sorted(axioms)) or "none (Closed under the global context)"),
          "extraction: ExtrOcamlBasic only; OCaml 4.13.1", "lib/modgen.py (generator, independent X.680 tagging), lib/widegen.py, lib/modbuild.py, lib/c13_util.py, lib/c13_families.py (directed families, hand-made DER), lib/c13_descr.py (parser of the dumped tables, Python erasure), harness/moddrv.c, harness/dumpdescr.c (translator, reads the public asn_TYPE_descriptor_t layout), ocaml/drv_c13.ml (integer-tree parser); gcc + ASan/UBSan",
          "values reach every build as DER through ber_decode; wide-layer values are those the baseline build's asn_random_fill produces",
          "builds made with -no-gen-OER / -no-gen-PER are linked with the full skeleton archive and are not asked for the disabled syntax"]
    # one violation of every kind among the first ones (lib/vlib.py writes replay files for the first 20 only)
    first, rest, seen_kinds = [], [], set()
    for v in run.violations:
        (rest if v["kind"] in seen_kinds else first).append(v)
        seen_kinds.add(v["kind"])
    run.violations[:] = first + rest
    vkinds = {}
    for v in run.violations:
        vkinds[v["kind"]] = vkinds.get(v["kind"], 0) + 1
    return run.finish("proof", (nthm, ndis), trusted_base=tb,
                      checker_cmd="make -C /verif all && coqc -Q coq A1 coq/Props/Properties_C13.v",
                      extra_cov={"violation_kinds": vkinds, "family_values_not_encodable_anywhere": FAMILY_NOTES, "theorems": names, "coqchk": coqchk, "driver_notes": run.notes[:12], "modules": len(mods), "wide_modules": len(wmods), "option_sets": [" ".join(v.opts) for v in variants],
                                 "rule": "one case = one driver command line (value x syntax encoded by every build, or one distinct output decoded by every build); distinct command lines",
                                 "traces_validated_against_impl": run.cov["evaluations"]},
                      assumptions=["theorems cover the INTEGER/ENUMERATED native-vs-wide leaf (DER, BER decode, the conversions used by PER/OER), pointer vs inline member access for OER and DER over the first-milestone algebra (Rt/Layout.v), the descriptor erasure with its comparison and the emitter's slot decision (Rt/Options.v); REAL native/wide, UPER/XER on the structure, the wide algebra and the naming/include options are covered by the tie only",
                                   "family modules (quick tier) are built under the option sets that contain an option the family is about, plus -findirect-choice alone and all structure-changing options together",
                                   "quick tier: baseline + 5 option subsets; thorough: all subsets of the 7 options",
                                   "modules that do not compile without -fcompound-names are skipped (C10)"])


if __name__ == "__main__":
    sys.exit(main(sys.argv[1] if len(sys.argv) > 1 else "quick"))
