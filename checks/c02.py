"""C02 — encoders emit the byte-exact standard wire format (DER, UPER, OER).
Theorems: coq/Props/Properties_C02.v over the codec model coq/Rt/*.v and the
leaf layer.  Tie: for generated modules (lib/modgen.py, effective tags computed
independently of asn1c) and values, the bytes of the C encoders built from
/repo are compared with the extracted model (faithfulness, std=false) and with
the standard reading of the model (oracle, std=true); leaf functions (tag,
length, PER support) are tied through leafdrv."""
import sys, os, json
sys.path.insert(0, os.path.join(os.path.dirname(os.path.abspath(__file__)), "..", "lib"))
from vlib import *
from modcorpus import *
import ext_layer            # extensibility layer (lib/ext_layer.py, notes/design/EXT.md)
import setdef_layer         # SET / DEFAULT layer (lib/setdef_layer.py, notes/design/SetDef.md)
import primb_layer          # restricted character strings (lib/primb_layer.py, notes/design/PrimB.md)
import prima_layer          # ENUMERATED / BIT STRING layer (lib/prima_layer.py, notes/design/PrimA.md)


def has_semi(tree):
    k = tree[0]
    if k == "i":
        return tree[2] is not None and tree[3] is None
    if k == "s":
        return any(has_semi(m) for m in tree[2])
    if k == "c":
        return any(has_semi(m) for m in tree[1])
    if k in ("q", "t"):
        return has_semi(tree[3])
    if k in ("x", "?"):
        return has_semi(tree[-1])
    return False


def tag_key(tg):
    return (tg % 4, tg // 4)


def has_noninvolutive_choice(tree):
    k = tree[0]
    if k == "c":
        keys = [min(tag_key(t) for t in first_tags(a)) for a in tree[1]]
        order = sorted(range(len(keys)), key=lambda i: keys[i])        # sorted pos -> definition idx
        inv = [order.index(i) for i in range(len(keys))]               # definition idx -> sorted pos
        if order != inv:
            return True
        return any(has_noninvolutive_choice(a) for a in tree[1])
    if k == "s":
        return any(has_noninvolutive_choice(m) for m in tree[2])
    if k in ("q", "t"):
        return has_noninvolutive_choice(tree[3])
    if k in ("x", "?"):
        return has_noninvolutive_choice(tree[-1])
    return False


def ref_to_choice(mod, tn):
    """the definition is a (chain of) type reference(s), tagged or not, ending in a CHOICE"""
    env = dict(mod["defs"])
    t = env[tn]
    if t is None or t["k"] != "ref":
        return False
    while t["k"] == "ref":       # tagged or not: a tag does not matter to PER
        t = env[t["ref"]]
    return t["k"] == "choice"


def uses_choice_ref(mod, t):
    """some component is a reference to a definition that is itself a reference to a CHOICE"""
    if t is None:
        return False
    env = dict(mod["defs"])
    k = t["k"]
    if k == "ref":
        return ref_to_choice(mod, t["ref"]) or uses_choice_ref(mod, env[t["ref"]])
    if k in ("seq", "choice"):
        return any(uses_choice_ref(mod, m[1]) for m in t["ms"])
    if k in ("seqof", "setof"):
        return uses_choice_ref(mod, t["el"])
    return False


def leaf_part(run, model, rng, tier):
    """tag / length octets against the model and against X.690 computed in Python"""
    cdrv = build_leafdrv()
    lines = []
    tags = list(range(0, 700)) + [2**k + d for k in range(5, 33) for d in (-1, 0, 1)] + [rng.below(2**32) for _ in range(1500)]
    for t in tags:
        if 0 <= t < 2**32:
            lines.append("tag_ser %d" % t)
    lens = list(range(0, 400)) + [16383, 16384, 32768, 49152, 65535, 65536, 65537] + [2**k + d for k in range(7, 63) for d in (-1, 0, 1)]
    for l in lens:
        lines.append("len_ser %d" % l)
    mo, co = correspond(run, "leaf-BER", lines, model, cdrv)
    for l, m, c in zip(lines, mo, co):
        run.case(l)
        run.count(l.split()[0])
        if m != c:
            run.violation("correspondence:BerTL(%s)" % l.split()[0], {"what": "model and C disagree", "command_line": l, "model": m, "c": c})
        # oracle: X.690 8.1.2 / 10.1 computed here with python integers
        cmd, v = l.split()
        v = int(v)
        if cmd == "tag_ser":
            cls, num = v % 4, v // 4
            if num <= 30:
                exp = bytes([cls * 64 + num])
            else:
                ds = []
                n = num
                while True:
                    ds.insert(0, n % 128)
                    n //= 128
                    if n == 0:
                        break
                exp = bytes([cls * 64 + 31] + [d | 0x80 for d in ds[:-1]] + [ds[-1]])
        else:
            if v <= 127:
                exp = bytes([v])
            else:
                b = v.to_bytes((v.bit_length() + 7) // 8, "big")
                exp = bytes([0x80 | len(b)]) + b
        if c != exp.hex():
            if cmd == "tag_ser" and v // 4 >= 2**30:
                continue
            run.violation("oracle:" + cmd, {"what": "octets differ from X.690", "command_line": l, "c": c, "x690": exp.hex()})


# a SEQUENCE with a second root list after the extension additions (X.680 25.1: `{ root1, ..., additions, ..., root2 }`):
# X.690 8.9.2 encodes the components "in the order of their appearance in the definition", i.e. a, x, b
TWOROOT = """TwoRoot DEFINITIONS AUTOMATIC TAGS ::= BEGIN
  T ::= SEQUENCE { a INTEGER, ..., x INTEGER, ..., b INTEGER }
END
"""
TWOROOT_STD, TWOROOT_C = "3009800101820102810103", "3009800101810103820102"      # { a 1, x 2, b 3 }: a x b (X.690) / a b x


def probe_two_root_lists(run):
    """finding C02-second-root-list-order: asn1c moves the second root list in front of the additions (asn1f_fix_constr_ext) for
    every codec; right for PER, not for BER/DER.  Known while the DER encoder emits a, b, x and the BER decoder refuses a, x, b;
    the standard bytes both ways are the repaired behaviour; anything else is a violation."""
    m = {"name": "TwoRoot", "text": TWOROOT, "defs": [("T", None)]}
    build_modules([m], tag="c02_tworoot")
    run.case("build TwoRoot")
    if not m.get("exe"):
        run.violation("build:module", {"what": "the probe module with a second root list does not build", "module": TWOROOT,
                                       "asn1c_out": m.get("asn1c_out", "")[-1500:], "build_log": m.get("build_log", "")[-1500:]})
        return
    lines = ["dec T ber " + TWOROOT_STD, "dec T ber " + TWOROOT_C]
    out = run_mod(run, m, lines, "C02-two-root-lists")
    for l in lines:
        run.case(l)
    std_ok = out[0].startswith("OK 11 " + TWOROOT_STD)
    if std_ok and not out[1].startswith("OK"):
        run.count("probe_two_root_lists_standard_order")
    elif out[0].startswith("FAIL") and out[1].startswith("OK 11 " + TWOROOT_C):
        run.known_finding("C02-second-root-list-order", lines[0])
    else:
        run.violation("oracle:der(second root list)", {"module": TWOROOT, "command_lines": lines, "c": out, "standard": TWOROOT_STD,
                                                        "what": "SEQUENCE { a, ..., x, ..., b }: neither the X.690 order a, x, b nor the recorded order a, b, x"})


def main(tier):
    run = Run("C02", tier)
    fp = os.path.join(VERIF, "findings.d", "C02.json")      # entries of the fragment that bin/mkmanifest has not assembled yet
    if os.path.exists(fp):
        have_ids = {f["id"] for f in run.findings}
        run.findings += [f for f in json.load(open(fp)) if f.get("status") == "open" and f["id"] not in have_ids]
    rng = Rng(run.seed)
    ok, out = coq_build()
    nthm, ndis, axioms, names, plog = obligations("C02") if ok else (0, 0, set(), [], out)
    gate = grep_gate()
    if not ok or ndis != nthm or gate:
        run.violation("proof:Properties_C02", {"what": "Coq development does not build or an obligation is open",
                                               "log_tail": (out if not ok else plog)[-2000:], "grep_gate": gate}, no_input=True)
    model = model_build()
    try:
        leaf_part(run, model, rng, tier)
        nm, nt, nv = (10, 5, 8) if tier == "quick" else (60, 6, 14)
        mods, cases = build_corpus(run, rng, nm, nt, nv, tier)
    except BuildError as e:
        run.violation("build", {"what": str(e)[-2500:]}, no_input=True)
        return run.finish("proof", (nthm, ndis))
    for m in mods:
        if not m.get("exe"):
            run.violation("build:module", {"what": "asn1c rejected a valid generated module or its output does not compile",
                                           "module": m["text"], "asn1c_rc": m.get("asn1c_rc"), "asn1c_out": m.get("asn1c_out", "")[-1500:],
                                           "build_log": m.get("build_log", "")[-1500:]})
    bm = by_module(cases)
    for m in mods:
        if not m.get("exe"):
            continue
        cs = bm.get(m["name"], [])
        lines = []
        for c in cs:
            for s in ("der", "uper", "oer"):
                lines.append("xcode %s der %s %s" % (c["tn"], c["der"], s))
        out = run_mod(run, m, lines, "C02")
        for i, c in enumerate(cs):
            tree = m["trees"][c["tn"]]
            for j, s in enumerate(("der", "uper", "oer")):
                o = out[3 * i + j]
                line = lines[3 * i + j]
                run.case(line)
                run.count("enc_" + s)
                faithful = c[s]
                std = c["uperstd"] if s == "uper" else c[s]
                exp_f = ("OK " + faithful) if faithful != "NONE" else "ENCFAIL"
                got = o if not o.startswith("ENCFAIL") else "ENCFAIL"
                replay = {"module": m["text"], "type": c["tn"], "model_type": c["ts"], "value": c["vs"], "syntax": s,
                          "command_line": line, "c": o, "model": exp_f, "standard": std}
                if got != exp_f:
                    # model (faithful) and code differ: is the property itself violated at this input?
                    bad = (got != "OK " + std)
                    run.violation("correspondence:Rt.%s" % s, dict(replay, what="C encoder output differs from the model" + (" and from the standard" if bad else "")),
                                  no_input=not bad)
                    continue
                if std != faithful:
                    # the code is what the model says, and the model is known to deviate from the standard here
                    if s == "uper" and has_semi(tree):
                        run.known_finding("C02-uper-semiconstrained", line)
                    else:
                        run.violation("oracle:%s" % s, dict(replay, what="bytes differ from the standard encoding"))
            if i < 3:
                run.sample({"type": c["ts"], "value": c["vs"][:80], "der": c["der"][:80], "uper": c["uper"][:60], "oer": c["oer"][:60]})
    ext_layer.run_c02(run, rng, tier)
    probe_two_root_lists(run)
    setdef_layer.run_c02(run, rng, tier)
    primb_layer.run_c02(run, rng, tier)
    prima_layer.run_c02(run, rng, tier)
    tb = ["Coq 8.16.1 kernel; vm_compute for refuted witnesses and Examples", "axioms under Print Assumptions: " + (", ".join(sorted(axioms)) or "none (Closed under the global context)"),
          "extraction: ExtrOcamlBasic only, per-area files; OCaml 4.13.1; zarith for I/O in drvlib.ml",
          "lib/modgen.py: generator and its own implementation of X.680 tagging (effective tags given to the model)",
          "harness/moddrv.c, harness/leafdrv.c, lib/modbuild.py; gcc + ASan/UBSan", "values reach the C as the model's DER through ber_decode (a BER-decoder defect could mask an encoder defect; C03 ties the decoder)"]
    return run.finish("proof", (nthm, ndis), trusted_base=tb,
                      checker_cmd="make -C /verif all && coqc -Q coq A1 coq/Props/Properties_C02.v",
                      extra_cov={"theorems": names, "modules": len(mods),
                                 "rule": "one case = (module, type, value, syntax) or one leaf command line; values: boundary values of every constraint, 32/64-bit edges, sizes across 127/128 and 16K; all distinct",
                                 "traces_validated_against_impl": run.cov["evaluations"]},
                      assumptions=["types outside the first-milestone algebra (REAL, strings, BIT STRING, ENUMERATED, SET, DEFAULT, extensions) are not covered by this check",
                                   "model of the encoders is hand-written; tied by differential run on generated cases only"])


if __name__ == "__main__":
    sys.exit(main(sys.argv[1] if len(sys.argv) > 1 else "quick"))
