(* Tools/BerTree.v — the Spec side of C20: BER documents as trees, their
   serialisation with minimal tag and length octets (X.690 8.1.2-8.1.5; the
   octets are BerTL's tag_serialize / len_serialize, shown X.690-minimal in
   Leaf/BerTLProofs), the TLV structure of a document, and the lines
   `unber -p` is expected to print for it.  No proofs in this file. *)
From Coq Require Import ZArith List Lia Bool.
From A1 Require Import Base.Bytes Leaf.BerTL Leaf.BerTLProofs Tools.Unber.
Import ListNotations.
Local Open Scope Z_scope.

(* tag = (number << 2) | class as in ber_tlv_tag_t *)
Inductive ber_tree :=
| Prim (tag : Z) (body : list Z)
| Cons (tag : Z) (definite : bool) (children : list ber_tree).

(* identifier octets of a constructed encoding: bit 6 (0x20) of the first octet *)
Definition mark_constructed (bs : list Z) : list Z :=
  match bs with b :: tl => (b + 32) :: tl | [] => [] end.

Fixpoint ser (t : ber_tree) : list Z :=
  match t with
  | Prim tag body => tag_serialize tag ++ len_serialize (zlen body) ++ body
  | Cons tag true ch =>
      let content := flat_map ser ch in
      mark_constructed (tag_serialize tag) ++ len_serialize (zlen content) ++ content
  | Cons tag false ch =>
      mark_constructed (tag_serialize tag) ++ [128] ++ flat_map ser ch ++ [0; 0]
  end.

Definition ser_forest (ts : list ber_tree) : list Z := flat_map ser ts.

Definition tsize (t : ber_tree) : Z := zlen (ser t).
Definition fsize_of (ts : list ber_tree) : Z := zlen (ser_forest ts).

(* length of the tag+length header, content length (-1 = indefinite) *)
Definition hdr_len (t : ber_tree) : Z :=
  match t with
  | Prim tag body => zlen (tag_serialize tag) + zlen (len_serialize (zlen body))
  | Cons tag true ch => zlen (tag_serialize tag) + zlen (len_serialize (fsize_of ch))
  | Cons tag false ch => zlen (tag_serialize tag) + 1
  end.

Definition content_len (t : ber_tree) : Z :=
  match t with
  | Prim _ body => zlen body
  | Cons _ true ch => fsize_of ch
  | Cons _ false _ => -1
  end.

Definition tree_tag (t : ber_tree) : Z := match t with Prim tag _ => tag | Cons tag _ _ => tag end.

Definition allP (f : ber_tree -> Prop) : list ber_tree -> Prop :=
  fix go ts := match ts with [] => True | t :: tl => f t /\ go tl end.

(* Side conditions under which the tools are shown to round-trip, derived from
   the C: tag numbers below ber_fetch_tag's 2^30; content lengths within
   ber_fetch_length's RSSIZE_MAX; octets are octets; and a primitive
   [UNIVERSAL 0] with empty contents (octets 00 00) may not be a member of an
   indefinite-length encoding, where those two octets are the end-of-contents
   marker (X.690 8.1.5), which is how process_deeper reads them. *)
Fixpoint wf_tree (t : ber_tree) (in_indef : bool) {struct t} : Prop :=
  match t with
  | Prim tag body =>
      tag_ok tag /\ bytes_ok body /\ zlen body <= rssize_max /\
      (in_indef = true -> ~ (tag = 0 /\ body = []))
  | Cons tag definite ch =>
      tag_ok tag /\ allP (fun c => wf_tree c (negb definite)) ch /\
      (definite = true -> zlen (flat_map ser ch) <= rssize_max)
  end.

Definition wf_forest (ts : list ber_tree) : Prop := allP (fun t => wf_tree t false) ts.

(* ---- the TLV structure: (offset, tag, header length, content length) of
   every node in document order ---- *)
Definition nodes_all (f : ber_tree -> Z -> list (Z * Z * Z * Z)) : list ber_tree -> Z -> list (Z * Z * Z * Z) :=
  fix go ts off := match ts with [] => [] | t :: tl => f t off ++ go tl (off + tsize t) end.

Fixpoint nodes (t : ber_tree) (off : Z) {struct t} : list (Z * Z * Z * Z) :=
  (off, tree_tag t, hdr_len t, content_len t) ::
  match t with
  | Prim _ _ => []
  | Cons _ _ ch => nodes_all nodes ch (off + hdr_len t)
  end.

Definition nodes_forest (ts : list ber_tree) (off : Z) := nodes_all nodes ts off.

(* what the opening lines of unber's output say *)
Definition opens (ls : list line) : list (Z * Z * Z * Z) :=
  flat_map (fun l => match l with
                     | LOpen _ off tag tl vlen => [(off, tag, tl, vlen)]
                     | LPrim _ off tag tl vlen _ => [(off, tag, tl, vlen)]
                     | _ => []
                     end) ls.

(* ---- the lines unber -p prints for a tree at nesting level lv, offset off ---- *)
Definition exp_all (f : ber_tree -> Z -> list line) : list ber_tree -> Z -> list line :=
  fix go ts off := match ts with [] => [] | t :: tl => f t off ++ go tl (off + tsize t) end.

Fixpoint exp_lines (t : ber_tree) (lv : nat) (off : Z) {struct t} : list line :=
  match t with
  | Prim tag body => [LPrim lv off tag (hdr_len t) (zlen body) body]
  | Cons tag true ch =>
      LOpen lv off tag (hdr_len t) (fsize_of ch)
      :: exp_all (fun c o => exp_lines c (S lv) o) ch (off + hdr_len t)
      ++ [LClose lv (off + tsize t) tag (tsize t)]
  | Cons tag false ch =>
      LOpen lv off tag (hdr_len t) (-1)
      :: exp_all (fun c o => exp_lines c (S lv) o) ch (off + hdr_len t)
      ++ [LCloseI lv (off + tsize t - 2) (tsize t)]
  end.

Definition exp_forest (ts : list ber_tree) (lv : nat) (off : Z) : list line :=
  exp_all (fun c o => exp_lines c lv o) ts off.

(* X.690 8.1.3.5 long form with k subsequent length octets.  BER, unlike DER,
   does not require the fewest octets: any 1 <= k <= 126 with n < 256^k is a
   well-formed length. *)
Definition long_len (k : nat) (n : Z) : list Z := (128 + Z.of_nat k) :: be_bytes k n.
