(* Tools/UnberOid.v — the arc buffer of unber's OBJECT IDENTIFIER / RELATIVE-OID
   pretty-printer (asn1-tools/unber/libasn1_unber_tool.c:print_V, plain mode).

     arcs  = MALLOC(sizeof( *arcs) * (tlv_len + 1));
     arcno = OBJECT_IDENTIFIER_get_arcs(&oid, arcs, tlv_len + 1);
     if(arcno >= 0) { assert(arcno <= (tlv_len + 1)); for(i < arcno) print arcs[i] }
     ...
     arcno = RELATIVE_OID_get_arcs(&oid, arcs, tlv_len);
     if(arcno >= 0) { assert(arcno <= tlv_len); for(i < arcno) print arcs[i] }

   get_arcs stores arc number k only when k < arc_slots, but returns the full
   count, and print_V then READS arcs[0 .. arcno-1]: the reads are inside the
   block exactly when arcno <= number of allocated slots.  With the model of the
   two get_arcs functions in Leaf/Oid.v (tied to the C by the C17 check):
     * the count is at most length + 1 for an OBJECT IDENTIFIER (the first
       subidentifier yields two arcs) and at most length for a RELATIVE-OID, so
       neither assert fires and tlv_len + 1 slots are enough;
     * length + 1 is reached: contents octets that are all below 0x80 give
       exactly length + 1 arcs, so a block of tlv_len slots is one short.
   No model of malloc: "slots" is the number in the MALLOC expression. *)
From Coq Require Import ZArith List Lia Bool.
From A1 Require Import Base.Bytes Leaf.Oid Leaf.OidProofs.
Import ListNotations.
Local Open Scope Z_scope.

Lemma get_rest_count fuel : forall bs l,
  get_rest fuel bs = OArcs l -> (length l <= length bs)%nat.
Proof.
  induction fuel as [|k IH]; intros bs l H; cbn [get_rest] in H; [discriminate|].
  destruct (get_single_arc bs) eqn:E; try discriminate.
  - inversion H; subst. simpl. lia.
  - apply get_single_arc_shorter in E.
    destruct (get_rest k tl) eqn:R; try discriminate.
    inversion H; subst. apply IH in R. simpl. lia.
Qed.

(* arcno <= tlv_len + 1 *)
Theorem oid_arc_count bs l :
  get_arcs bs = OArcs l -> (2 <= length l <= length bs + 1)%nat.
Proof.
  unfold get_arcs. destruct (get_single_arc bs) eqn:E; try discriminate.
  destruct (split_first v) as [a0 a1].
  apply get_single_arc_shorter in E.
  destruct (get_rest (S (length tl)) tl) eqn:R; try discriminate.
  intros H; inversion H; subst. apply get_rest_count in R. simpl. lia.
Qed.

(* arcno <= tlv_len *)
Theorem reloid_arc_count bs l :
  reloid_get_arcs bs = OArcs l -> (length l <= length bs)%nat.
Proof. unfold reloid_get_arcs. apply get_rest_count. Qed.

(* every contents octet below 0x80: each octet is one subidentifier *)
Definition single_octets (bs : list Z) : Prop := Forall (fun b => 0 <= b < 128) bs.

Lemma get_single_arc_small b tl : 0 <= b < 128 ->
  get_single_arc (b :: tl) = GOk b 1 tl.
Proof.
  intros Hb. unfold get_single_arc. cbn [gsa_loop].
  assert (E : arc_step 0 b = b).
  { unfold arc_step. rewrite Z.mul_0_l, Z.mod_0_l by (unfold two32; lia).
    rewrite Z.mod_small by lia. lia. }
  rewrite E.
  assert (L : (b <? 128) = true) by (apply Z.ltb_lt; lia).
  assert (M : (b <=? arc_max) = true) by (apply Z.leb_le; unfold arc_max, two32; lia).
  rewrite L, M. reflexivity.
Qed.

Lemma get_rest_small bs : forall fuel, single_octets bs -> (length bs < fuel)%nat ->
  get_rest fuel bs = OArcs bs.
Proof.
  induction bs as [|b tl IH]; intros fuel Hs Hf.
  - destruct fuel; [lia|]. reflexivity.
  - destruct fuel as [|k]; [simpl in Hf; lia|].
    inversion Hs as [|? ? Hb Ht]; subst.
    cbn [get_rest]. rewrite (get_single_arc_small b tl Hb).
    rewrite (IH k Ht) by (simpl in Hf; lia). reflexivity.
Qed.

(* arcno = tlv_len + 1 is reached: tlv_len slots are one short *)
Theorem oid_arc_count_tight b tl :
  single_octets (b :: tl) ->
  exists l, get_arcs (b :: tl) = OArcs l /\ length l = S (length (b :: tl)).
Proof.
  intros Hs. inversion Hs as [|? ? Hb Ht]; subst.
  unfold get_arcs. rewrite (get_single_arc_small b tl Hb).
  destruct (split_first b) as [a0 a1].
  rewrite (get_rest_small tl (S (length tl)) Ht) by lia.
  eexists; split; [reflexivity|]. reflexivity.
Qed.

(* non-vacuity: 2a 03 04 05 06 07 = 1.2.3.4.5.6.7, six octets, seven arcs *)
Example oid_arcs_example :
  get_arcs [42; 3; 4; 5; 6; 7] = OArcs [1; 2; 3; 4; 5; 6; 7].
Proof. vm_compute. reflexivity. Qed.
