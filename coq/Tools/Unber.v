(* Tools/Unber.v — executable model of asn1-tools/unber/libasn1_unber_tool.c
   in `-p` mode (pretty_printing = 0, minimalistic = 0, skip_bytes = 0, no -1):
     unber_stream  process_deeper  print_TL  print_V
   The input stream is a byte list together with the count of bytes read
   (ibs->bytesRead).  The text written to stdout is modelled as a list of *line
   records* (one per '\n'-terminated text line, plus one record for a line cut
   short by a diagnostic); ocaml/drv_c20.ml renders them to the exact text.
   In -p mode print_V escapes every content octet as "&#xNN;" (etype stays 0,
   no vbuf is allocated), so a primitive line carries its raw content octets.
   assert() failures are an explicit outcome (PAbort); asserts that are
   immediately dominated by the identical run-time test two lines above
   (assert(limit >= tlv_len) after "if(tlv_len > limit) fail") are not modelled.
   No proofs in this file. *)
From Coq Require Import ZArith List Lia Bool.
From A1 Require Import Base.Bytes Leaf.BerTL.
Import ListNotations.
Local Open Scope Z_scope.

(* ---------------- output records ---------------- *)

Inductive line :=
  (* <C O T TL V [A]>  or, when vlen = -1,  <I O T TL V="Indefinite" [A]> *)
| LOpen (lv : nat) (off tag tl vlen : Z)
  (* <P O T TL V [A]>&#x..;…</P> *)
| LPrim (lv : nat) (off tag tl vlen : Z) (body : list Z)
  (* </C O T [A] L> *)
| LClose (lv : nat) (off tag esz : Z)
  (* </I O T="[UNIVERSAL 0]" TL="2" L> *)
| LCloseI (lv : nat) (off esz : Z)
  (* a line cut short by a diagnostic (no newline): the opening attributes
     without '>' (body = None), or '>' and the content octets read before EOF *)
| LTrunc (lv : nat) (constr : bool) (off tag tl vlen : Z) (body : option (list Z)).

Inductive diag :=
| DTooLongLimit (tblen limit off : Z)   (* Too long TL sequence (%zd >= %zd) at %lld *)
| DTooLongBuf (tblen off : Z)           (* Too long TL sequence (%zd bytes) at %lld *)
| DEofTL (off : Z)                      (* Unexpected end of file (TL) at %lld *)
| DTagErr (off : Z)                     (* Fatal error decoding tag at %lld *)
| DLenErr (off : Z)                     (* Fatal error decoding value length at %lld *)
| DMismatch (off : Z)                   (* Outer tag length doesn't match inner tag length *)
| DExceeds (len limit : Z)              (* Structure advertizes length (%ld) greater than of a parent container (%ld) *)
| DEofV.                                (* Unexpected end of file (V) *)

Inductive pdcode := PD_FINISHED | PD_EOF.     (* PD_FAILED is the PFail outcome *)

Inductive pdres :=
| PDone (out : list line) (code : pdcode) (fsize : Z) (rest : list Z) (off : Z)
| PFail (out : list line) (d : diag)
| PAbort (out : list line)                    (* assert() failed *)
| POutOfFuel.

Definition emit (ls : list line) (r : pdres) : pdres :=
  match r with
  | PDone o c f rest off => PDone (ls ++ o) c f rest off
  | PFail o d => PFail (ls ++ o) d
  | PAbort o => PAbort (ls ++ o)
  | POutOfFuel => POutOfFuel
  end.

(* BER_TLV_CONSTRUCTED(tagbuf): (tagbuf[0] & 0x20) *)
Definition constr_bit (b : Z) : bool := (b / 32) mod 2 =? 1.
Definition is_constr (tagbuf : list Z) : bool :=
  match tagbuf with b :: _ => constr_bit b | [] => false end.

(* ---------------- reading one TL header ---------------- *)

Inductive rtl :=
| RFinished                      (* limit == 0 *)
| REof (off : Z)
| RFail (d : diag)
| ROk (tagbuf : list Z) (tag len : Z) (tlen llen : nat) (rest : list Z) (off : Z).

(* the head of process_deeper's for(;;) up to "Make sure the T & L decoders took
   exactly the whole buffer"; `continue` = the recursive call.  tagbuf is the
   filled part of the 32-byte buffer (tblen = its length). *)
Fixpoint read_tl (limit : Z) (eoc : bool) (tagbuf : list Z) (inp : list Z) (off : Z) : rtl :=
  if limit =? 0 then RFinished
  else if (0 <=? limit) && (limit <=? zlen tagbuf) then RFail (DTooLongLimit (zlen tagbuf) limit off)
  else if 32 <=? zlen tagbuf then RFail (DTooLongBuf (zlen tagbuf) off)
  else
    match inp with
    | [] => if (0 <? limit) || eoc then RFail (DEofTL off) else REof off
    | ch :: inp' =>
        let tagbuf' := tagbuf ++ [ch] in
        let off' := off + 1 in
        match fetch_tag tagbuf' with
        | FErr => RFail (DTagErr off')
        | FMore => read_tl limit eoc tagbuf' inp' off'
        | FOk tag tlen =>
            match fetch_length (is_constr tagbuf') (skipn tlen tagbuf') with
            | FErr => RFail (DLenErr off')
            | FMore => read_tl limit eoc tagbuf' inp' off'
            | FOk len llen =>
                if Nat.eqb (tlen + llen) (length tagbuf') then ROk tagbuf' tag len tlen llen inp' off'
                else RFail (DMismatch off')
            end
        end
    end.

(* print_V's read loop: tlv_len octets or EOF; (octets read, rest, complete?) *)
Fixpoint read_v (inp : list Z) (n : Z) : list Z * list Z * bool :=
  if n <=? 0 then ([], inp, true)
  else match inp with
       | [] => ([], [], false)
       | b :: tl => let '(bs, rest, ok) := read_v tl (n - 1) in (b :: bs, rest, ok)
       end.

(* ---------------- process_deeper ---------------- *)

Definition sub_limit (limit d : Z) : Z := if limit =? -1 then -1 else limit - d.

(* process_deeper is written with open recursion: [self] stands for "the rest
   of the for(;;) loop at this level" and, applied to level+1, for the recursive
   call.  Arguments: level limit effective_size expect_eoc *frame_size pdc,
   then the input stream (remaining octets, bytesRead). *)
Definition loop_t : Type := nat -> Z -> Z -> bool -> Z -> pdcode -> list Z -> Z -> pdres.

(* the tail of one iteration: the early return after an indefinite-length
   child / "Report success for a single top level TLV", else loop again *)
Definition pd_next (self : loop_t) (indef : bool) (level : nat) (limit2 esize2 : Z) (eoc : bool)
           (fsize2 : Z) (c : pdcode) (inp2 : list Z) (off2 : Z) : pdres :=
  if indef then
    match c with
    | PD_FINISHED =>
        if (limit2 <? 0) && negb eoc then PDone [] c fsize2 inp2 off2
        else self level limit2 esize2 eoc fsize2 c inp2 off2
    | PD_EOF => self level limit2 esize2 eoc fsize2 c inp2 off2
    end
  else
    match level with
    | O => if (limit2 =? -1) && negb eoc then PDone [] c fsize2 inp2 off2
           else self level limit2 esize2 eoc fsize2 c inp2 off2
    | S _ => self level limit2 esize2 eoc fsize2 c inp2 off2
    end.

(* one iteration after a complete TL header has been read into tagbuf;
   tl = t_len + l_len (= tblen) *)
Definition pd_tlv (self : loop_t) (level : nat) (limit esize : Z) (eoc : bool) (fsize : Z) (pdc : pdcode)
           (tagbuf : list Z) (tag len tl : Z) (inp1 : list Z) (off1 : Z) : pdres :=
  let tblen := zlen tagbuf in
  let constr := is_constr tagbuf in
  let is_eoc := eoc && (nth 0 tagbuf 0 =? 0) && (nth 1 tagbuf 0 =? 0) in
  let off0 := off1 - tblen in
  (* the opening attributes are already printed when the next two tests run *)
  let cut := if is_eoc then [] else [LTrunc level constr off0 tag tblen len None] in
  let limit1 := sub_limit limit tl in
  if negb (limit =? -1) && (limit1 <? 0) then PAbort cut                       (* assert(limit >= 0) *)
  else if negb (limit =? -1) && (limit1 <? len) then PFail cut (DExceeds len limit1)
  else
    let fsize1 := fsize + tl in
    let esize1 := esize + tl in
    if is_eoc then
      PDone [LCloseI (Nat.pred level) (off1 - 2) esize1] PD_FINISHED fsize1 inp1 off1
    else if constr then
      let opn := LOpen level off0 tag tblen len in
      match self (S level) (if len =? -1 then limit1 else len) tl (len =? -1) 0 PD_FINISHED inp1 off1 with
      | POutOfFuel => POutOfFuel
      | PFail o d => PFail (opn :: o) d
      | PAbort o => PAbort (opn :: o)
      | PDone o c dec inp2 off2 =>
          if negb (limit1 =? -1) && (limit1 <? dec) then PAbort (opn :: o)      (* assert(limit >= dec) *)
          else
            let out := if len =? -1 then opn :: o else opn :: o ++ [LClose level off2 tag (tl + dec)] in
            emit out (pd_next self (len =? -1) level (sub_limit limit1 dec) (esize1 + dec) eoc (fsize1 + dec) c inp2 off2)
      end
    else if len <? 0 then PAbort cut                                           (* assert(tlv_len >= 0) *)
    else
      match read_v inp1 len with
      | (bs, _, false) => PFail [LTrunc level false off0 tag tblen len (Some bs)] DEofV
      | (bs, inp2, true) =>
          emit [LPrim level off0 tag tblen len bs]
               (pd_next self false level (sub_limit limit1 len) (esize1 + len) eoc (fsize1 + len) pdc inp2 (off1 + len))
      end.

Definition pd_body (self : loop_t) : loop_t :=
  fun level limit esize eoc fsize pdc inp off =>
  match read_tl limit eoc [] inp off with
  | RFinished => PDone [] PD_FINISHED fsize inp off
  | REof off' => PDone [] PD_EOF fsize [] off'
  | RFail d => PFail [] d
  | ROk tagbuf tag len tlen llen inp1 off1 =>
      pd_tlv self level limit esize eoc fsize pdc tagbuf tag len (Z.of_nat tlen + Z.of_nat llen) inp1 off1
  end.

(* fuel = depth of the call tree (every call consumes a TL header before it
   calls again, so length input + 1 suffices: XxberProofs.pd_fuel) *)
Fixpoint pd (fuel : nat) : loop_t :=
  match fuel with
  | O => fun _ _ _ _ _ _ _ _ => POutOfFuel
  | S f => pd_body (pd f)
  end.

(* ---------------- unber_stream / main ---------------- *)

Inductive exit :=
| XOk                  (* exit status 0 *)
| XFail (d : diag)     (* diagnostic on stderr, exit status EX_DATAERR *)
| XAbort               (* assert() *)
| XOutOfFuel.

(* do { pdc = process_deeper(fname, ibs, os, 0, -1, &frame_size, 0, 0); } while(pdc == PD_FINISHED) *)
Fixpoint unber_loop (fuel : nat) (inp : list Z) (off fsize : Z) : list line * exit :=
  match fuel with
  | O => ([], XOutOfFuel)
  | S f =>
      match pd fuel 0%nat (-1) 0 false fsize PD_FINISHED inp off with
      | PDone o PD_FINISHED fsize' inp' off' =>
          let (o', x) := unber_loop f inp' off' fsize' in (o ++ o', x)
      | PDone o PD_EOF _ _ _ => (o, XOk)
      | PFail o d => (o, XFail d)
      | PAbort o => (o, XAbort)
      | POutOfFuel => ([], XOutOfFuel)
      end
  end.

Definition unber_fuel (fuel : nat) (inp : list Z) : list line * exit := unber_loop fuel inp 0 0.
Definition unber (inp : list Z) : list line * exit := unber_fuel (S (length inp)) inp.
