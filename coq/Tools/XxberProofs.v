(* Tools/XxberProofs.v — proofs about the unber/enber models (C20). *)
From Coq Require Import ZArith List Lia Bool ZifyBool.
From A1 Require Import Base.Bytes Base.Digits Leaf.BerTL Leaf.BerTLProofs Tools.Unber Tools.Enber Tools.BerTree.
Import ListNotations.
Local Open Scope Z_scope.

(* ------------------------------------------------------------------ *)
(* 1. ber_fetch_tag / ber_fetch_length on a prefix of a buffer they accept:
      "want more" until the header is complete, then the same answer.
      (process_deeper feeds them tagbuf[0..tblen) after every octet read.) *)

Lemma fetch_tag_loop_prefix p : forall q val sk v n,
  fetch_tag_loop (p ++ q) val sk = FOk v n ->
  ((n < sk + length p)%nat -> fetch_tag_loop p val sk = FOk v n) /\
  ((sk + length p <= n)%nat -> fetch_tag_loop p val sk = FMore).
Proof.
  induction p as [|b p IH]; intros q val sk v n H.
  - cbn [app] in H. apply fetch_tag_loop_consumed in H. cbn [length fetch_tag_loop]. split; intros; [lia|reflexivity].
  - cbn [app fetch_tag_loop length] in *.
    destruct (128 <=? b).
    + destruct (two23 <=? val * 128 + (b - 128)); [discriminate|].
      apply IH in H. destruct H as [H1 H2]. split; intros; [apply H1|apply H2]; lia.
    + injection H as Hv Hn. subst. split; intros; [reflexivity|lia].
Qed.

Lemma fetch_tag_prefix p q v n :
  fetch_tag (p ++ q) = FOk v n ->
  ((n <= length p)%nat -> fetch_tag p = FOk v n) /\
  ((length p < n)%nat -> fetch_tag p = FMore).
Proof.
  destruct p as [|b p].
  - intros H. apply fetch_tag_consumed in H. cbn [length fetch_tag]. split; intros; [lia|reflexivity].
  - cbn [app fetch_tag length].
    destruct (b mod 32 =? 31).
    + destruct (fetch_tag_loop (p ++ q) 0 2) eqn:E; try discriminate.
      intros H. injection H as Hv Hn. subst.
      apply fetch_tag_loop_prefix in E. destruct E as [E1 E2].
      split; intros Hl; [rewrite E1 by lia|rewrite E2 by lia]; reflexivity.
    + intros H. injection H as Hv Hn. subst. split; intros; [reflexivity|lia].
Qed.

Lemma fetch_len_loop_prefix k : forall p q acc sk v n,
  fetch_len_loop k (p ++ q) acc sk = FOk v n ->
  ((k <= length p)%nat -> fetch_len_loop k p acc sk = FOk v n) /\
  ((length p < k)%nat -> fetch_len_loop k p acc sk = FMore).
Proof.
  induction k as [|k IH]; intros p q acc sk v n H.
  - cbn [fetch_len_loop] in *. split; intros; [assumption|lia].
  - destruct p as [|b p]; cbn [app fetch_len_loop length] in *.
    + split; intros; [lia|reflexivity].
    + destruct (acc <? two55); [|discriminate].
      apply IH in H. destruct H as [H1 H2]. split; intros; [apply H1|apply H2]; lia.
Qed.

Lemma fetch_length_prefix c p q v n :
  fetch_length c (p ++ q) = FOk v n ->
  ((n <= length p)%nat -> fetch_length c p = FOk v n) /\
  ((length p < n)%nat -> fetch_length c p = FMore).
Proof.
  destruct p as [|b p].
  - intros H. cbn [length fetch_length]. split; intros Hl; [|reflexivity].
    cbn [app] in H. destruct q as [|o q]; cbn [fetch_length] in H; [discriminate|].
    destruct (o <? 128); [injection H as _ Hn; lia|].
    destruct (c && (o =? 128)); [injection H as _ Hn; lia|].
    destruct (o =? 255); [discriminate|].
    apply fetch_len_loop_consumed in H. lia.
  - cbn [app fetch_length length].
    destruct (b <? 128); [intros H; injection H as Hv Hn; subst; split; intros; [reflexivity|lia]|].
    destruct (c && (b =? 128)); [intros H; injection H as Hv Hn; subst; split; intros; [reflexivity|lia]|].
    destruct (b =? 255); [discriminate|].
    intros H. pose proof (fetch_len_loop_consumed _ _ _ _ _ _ H) as [Hn _].
    apply fetch_len_loop_prefix in H. destruct H as [H1 H2].
    split; intros Hl; [apply H1|apply H2]; lia.
Qed.

(* ------------------------------------------------------------------ *)
(* 2. read_tl *)

Lemma is_constr_app p q : p <> [] -> is_constr (p ++ q) = is_constr p.
Proof. destruct p; [congruence|reflexivity]. Qed.

Lemma zlen_snoc {A} (l : list A) x : zlen (l ++ [x]) = zlen l + 1.
Proof. rewrite zlen_app. reflexivity. Qed.

(* a complete header hdr = pre ++ suf, of which pre is already in tagbuf *)
Lemma read_tl_ok limit eoc hdr tag len tn ln rest :
  fetch_tag hdr = FOk tag tn ->
  fetch_length (is_constr hdr) (skipn tn hdr) = FOk len ln ->
  length hdr = (tn + ln)%nat ->
  zlen hdr <= 32 -> (limit = -1 \/ zlen hdr <= limit) ->
  forall suf pre off, hdr = pre ++ suf -> suf <> [] ->
  read_tl limit eoc pre (suf ++ rest) off = ROk hdr tag len tn ln rest (off + zlen suf).
Proof.
  intros Ht Hl Hlen H32 Hlim.
  induction suf as [|ch suf IH]; intros pre off Hh Hne; [congruence|].
  assert (Hpre : zlen pre < zlen hdr).
  { rewrite Hh, zlen_app, zlen_cons. pose proof (zlen_nonneg suf). lia. }
  cbn [app read_tl].
  destruct (limit =? 0) eqn:E0; [pose proof (zlen_nonneg pre); lia|].
  destruct ((0 <=? limit) && (limit <=? zlen pre)) eqn:E1; [lia|].
  destruct (32 <=? zlen pre) eqn:E2; [lia|].
  assert (Hh' : hdr = (pre ++ [ch]) ++ suf) by (rewrite <- app_assoc; exact Hh).
  destruct suf as [|c2 suf].
  - rewrite app_nil_r in Hh'. rewrite <- Hh'. rewrite Ht, Hl.
    rewrite <- Hlen, Nat.eqb_refl. cbn [app]. reflexivity.
  - assert (Hlt : (length (pre ++ [ch]) < length hdr)%nat).
    { rewrite Hh', (app_length (pre ++ [ch])). cbn [length]. lia. }
    assert (Hne' : pre ++ [ch] <> []) by (destruct pre; discriminate).
    rewrite Hh' in Ht. destruct (fetch_tag_prefix _ _ _ _ Ht) as [T1 T2].
    destruct (le_lt_dec tn (length (pre ++ [ch]))) as [Hc|Hc].
    + rewrite T1 by exact Hc.
      rewrite Hh' in Hl. rewrite is_constr_app in Hl by exact Hne'.
      rewrite skipn_app in Hl.
      replace (tn - length (pre ++ [ch]))%nat with 0%nat in Hl by lia. cbn [skipn] in Hl.
      destruct (fetch_length_prefix _ _ _ _ _ Hl) as [_ L2].
      rewrite L2 by (rewrite skipn_length; lia).
      rewrite <- Hh' in Ht.
      rewrite (IH (pre ++ [ch]) (off + 1) Hh' ltac:(discriminate)).
      f_equal. rewrite !zlen_cons. lia.
    + rewrite T2 by exact Hc. rewrite <- Hh' in Ht.
      rewrite (IH (pre ++ [ch]) (off + 1) Hh' ltac:(discriminate)).
      f_equal. rewrite !zlen_cons. lia.
Qed.

Lemma read_tl_hdr limit eoc hdr tag len tn ln rest off :
  fetch_tag hdr = FOk tag tn ->
  fetch_length (is_constr hdr) (skipn tn hdr) = FOk len ln ->
  length hdr = (tn + ln)%nat ->
  zlen hdr <= 32 -> (limit = -1 \/ zlen hdr <= limit) ->
  read_tl limit eoc [] (hdr ++ rest) off = ROk hdr tag len tn ln rest (off + zlen hdr).
Proof.
  intros Ht Hl Hlen H32 Hlim.
  apply (read_tl_ok limit eoc hdr tag len tn ln rest Ht Hl Hlen H32 Hlim hdr [] off eq_refl).
  intros ->. cbn in Hlen. apply fetch_tag_consumed in Ht. cbn in Ht. lia.
Qed.

(* ------------------------------------------------------------------ *)
(* 3. the header octets written by ser *)

Lemma constr_bit_first c v : 0 <= c < 4 -> 0 <= v < 32 -> constr_bit (c * 64 + v) = false.
Proof.
  intros Hc Hv. unfold constr_bit. apply Z.eqb_neq.
  rewrite <- (Z.div_unique (c * 64 + v) 32 (2 * c) v) by lia.
  rewrite Z.mul_comm, Z.mod_mul by lia. discriminate.
Qed.

Lemma tag_serialize_shape tag : tag_ok tag ->
  exists b tl, tag_serialize tag = b :: tl /\ 0 <= b < 256 /\ constr_bit b = false /\
               (b = 0 -> tag = 0 /\ tl = []) /\ (length tl <= 5)%nat.
Proof.
  intros [H0 H1]. unfold tag_serialize.
  pose proof (Z.mod_pos_bound tag 4 ltac:(lia)) as Hm.
  assert (Hq : 0 <= tag / 4) by (apply Z.div_pos; lia).
  destruct (tag / 4 <=? 30) eqn:E.
  - exists (tag mod 4 * 64 + tag / 4), []. unfold constr_bit.
    split; [reflexivity|]. split; [lia|]. split.
    + apply constr_bit_first; lia.
    + split; [|cbn; lia]. intros Hb. split; [|reflexivity].
      pose proof (Z.div_mod tag 4 ltac:(lia)). lia.
  - exists (tag mod 4 * 64 + 31), (mark_cont (digits 128 (tag_required_size (tag / 4)) (tag / 4))).
    unfold constr_bit.
    split; [reflexivity|]. split; [lia|]. split.
    + apply constr_bit_first; lia.
    + split; [lia|].
      rewrite mark_cont_length, digits_length.
      pose proof (tag_required_size_spec (tag / 4) ltac:(lia)) as [_ Hr]. lia.
Qed.

Lemma fetch_tag_bit5 b l : 0 <= b -> constr_bit b = false -> fetch_tag ((b + 32) :: l) = fetch_tag (b :: l).
Proof.
  intros Hb Hc. unfold constr_bit in Hc. apply Z.eqb_neq in Hc.
  cbn [fetch_tag].
  assert (E1 : (b + 32) mod 32 = b mod 32).
  { replace (b + 32) with (b + 1 * 32) by lia. apply Z.mod_add. lia. }
  assert (E2 : (b + 32) / 64 = b / 64).
  { pose proof (Z.mod_pos_bound (b / 32) 2 ltac:(lia)).
    pose proof (Z.div_mod b 32 ltac:(lia)). pose proof (Z.mod_pos_bound b 32 ltac:(lia)).
    pose proof (Z.div_mod (b / 32) 2 ltac:(lia)).
    assert (Hb64 : b = 64 * (b / 32 / 2) + b mod 32) by lia.
    rewrite <- (Z.div_unique (b + 32) 64 (b / 32 / 2) (b mod 32 + 32)) by lia.
    rewrite <- (Z.div_unique b 64 (b / 32 / 2) (b mod 32)) by lia. reflexivity. }
  rewrite E1, E2. reflexivity.
Qed.

Lemma len_serialize_shape n : 0 <= n <= rssize_max ->
  exists b tl, len_serialize n = b :: tl /\ (b = 0 -> n = 0) /\ (length tl <= 8)%nat.
Proof.
  intros Hn. unfold len_serialize. destruct (n <=? 127) eqn:E.
  - exists n, []. split; [reflexivity|]. split; [lia|cbn; lia].
  - destruct (len_required_size_spec n ltac:(lia)) as (_ & Hr).
    exists (128 + Z.of_nat (len_required_size n)), (be_bytes (len_required_size n) n).
    split; [reflexivity|]. split; [lia|]. rewrite be_bytes_length. lia.
Qed.

(* the header of a definite-length encoding *)
Definition hdr_of (c : bool) (tag n : Z) : list Z :=
  (if c then mark_constructed (tag_serialize tag) else tag_serialize tag) ++ len_serialize n.

Lemma hdr_of_facts c tag n : tag_ok tag -> 0 <= n <= rssize_max ->
  let hdr := hdr_of c tag n in
  let tn := length (tag_serialize tag) in
  let ln := length (len_serialize n) in
  fetch_tag hdr = FOk tag tn /\ is_constr hdr = c /\
  fetch_length c (skipn tn hdr) = FOk n ln /\ length hdr = (tn + ln)%nat /\ zlen hdr <= 32 /\
  (c = false -> ~ (tag = 0 /\ n = 0) -> (nth 0 hdr 0 =? 0) && (nth 1 hdr 0 =? 0) = false) /\
  (c = true -> (nth 0 hdr 0 =? 0) = false).
Proof.
  intros Ht Hn hdr tn ln.
  destruct (tag_serialize_shape tag Ht) as (b & tl & Hts & Hb & Hcb & Hb0 & Htl).
  destruct (len_serialize_shape n Hn) as (lb & ltl & Hls & Hlb0 & Hltl).
  assert (Hlen_ts : forall c' : bool, length (if c' then mark_constructed (tag_serialize tag) else tag_serialize tag) = tn).
  { intros [|]; [|reflexivity]. unfold tn. rewrite Hts. reflexivity. }
  assert (Hft : fetch_tag hdr = FOk tag tn).
  { unfold hdr, hdr_of. destruct c.
    - rewrite Hts. cbn [mark_constructed app]. rewrite fetch_tag_bit5 by (lia || exact Hcb).
      change (b :: tl ++ len_serialize n) with ((b :: tl) ++ len_serialize n). rewrite <- Hts.
      apply tag_roundtrip; exact Ht.
    - apply tag_roundtrip; exact Ht. }
  split; [exact Hft|].
  assert (Hic : is_constr hdr = c).
  { unfold hdr, hdr_of. rewrite Hts. destruct c; cbn [mark_constructed app is_constr]; [|exact Hcb].
    unfold constr_bit in *. apply Z.eqb_neq in Hcb. apply Z.eqb_eq.
    replace (b + 32) with (b + 1 * 32) by lia. rewrite Z.div_add by lia.
    pose proof (Z.mod_pos_bound (b / 32) 2 ltac:(lia)).
    replace (b / 32 + 1) with (b / 32 + 1) by lia.
    rewrite Z.add_mod by lia. replace ((b / 32) mod 2) with 0 by lia. reflexivity. }
  split; [exact Hic|].
  split.
  { unfold hdr, hdr_of. rewrite skipn_app, (Hlen_ts c), Nat.sub_diag.
    rewrite skipn_all2 by (rewrite (Hlen_ts c); lia). cbn [skipn app].
    rewrite <- (app_nil_r (len_serialize n)). apply length_roundtrip; exact Hn. }
  split; [unfold hdr, hdr_of; rewrite app_length, (Hlen_ts c); reflexivity|].
  split.
  { unfold zlen, hdr, hdr_of. rewrite app_length, (Hlen_ts c). unfold tn. rewrite Hts, Hls. cbn [length]. lia. }
  split.
  - intros -> Hnz. unfold hdr, hdr_of. rewrite Hts, Hls.
    destruct (b =? 0) eqn:Eb.
    + destruct (Hb0 ltac:(lia)) as [-> ->]. cbn [app nth].
      destruct (lb =? 0) eqn:El; [|rewrite andb_false_r; reflexivity].
      exfalso. apply Hnz. split; [reflexivity|apply Hlb0; lia].
    + cbn [app nth]. rewrite Eb. reflexivity.
  - intros ->. unfold hdr, hdr_of. rewrite Hts. cbn [mark_constructed app nth]. lia.
Qed.

(* the header of an indefinite-length encoding *)
Definition hdr_indef (tag : Z) : list Z := mark_constructed (tag_serialize tag) ++ [128].

Lemma hdr_indef_facts tag : tag_ok tag ->
  let hdr := hdr_indef tag in
  let tn := length (tag_serialize tag) in
  fetch_tag hdr = FOk tag tn /\ is_constr hdr = true /\
  fetch_length true (skipn tn hdr) = FOk (-1) 1 /\ length hdr = (tn + 1)%nat /\ zlen hdr <= 32 /\
  (nth 0 hdr 0 =? 0) = false.
Proof.
  intros Ht hdr tn.
  destruct (tag_serialize_shape tag Ht) as (b & tl & Hts & Hb & Hcb & Hb0 & Htl).
  assert (Hlen_ts : length (mark_constructed (tag_serialize tag)) = tn) by (unfold tn; rewrite Hts; reflexivity).
  split.
  { unfold hdr, hdr_indef. rewrite Hts. cbn [mark_constructed app]. rewrite fetch_tag_bit5 by (lia || exact Hcb).
    change (b :: tl ++ [128]) with ((b :: tl) ++ [128]). rewrite <- Hts. apply tag_roundtrip; exact Ht. }
  split.
  { unfold hdr, hdr_indef. rewrite Hts. cbn [mark_constructed app is_constr].
    unfold constr_bit in *. apply Z.eqb_neq in Hcb. apply Z.eqb_eq.
    replace (b + 32) with (b + 1 * 32) by lia. rewrite Z.div_add by lia.
    pose proof (Z.mod_pos_bound (b / 32) 2 ltac:(lia)).
    rewrite Z.add_mod by lia. replace ((b / 32) mod 2) with 0 by lia. reflexivity. }
  split.
  { unfold hdr, hdr_indef. rewrite skipn_app, Hlen_ts, Nat.sub_diag.
    rewrite skipn_all2 by (rewrite Hlen_ts; lia). reflexivity. }
  split; [unfold hdr, hdr_indef; rewrite app_length, Hlen_ts; reflexivity|].
  split.
  { unfold zlen, hdr, hdr_indef. rewrite app_length, Hlen_ts. unfold tn. rewrite Hts. cbn [length]. lia. }
  unfold hdr, hdr_indef. rewrite Hts. cbn [mark_constructed app nth]. lia.
Qed.

(* ------------------------------------------------------------------ *)
(* 4. one iteration of process_deeper on a serialised node *)

Ltac eqs := repeat match goal with
                   | |- @eq Z _ _ => lia
                   | |- @eq nat _ _ => lia
                   | |- _ => progress f_equal
                   end.

Lemma read_v_app body rest : read_v (body ++ rest) (zlen body) = (body, rest, true).
Proof.
  induction body as [|b body IH].
  - cbn [app]. destruct rest; reflexivity.
  - cbn [app read_v]. rewrite zlen_cons. pose proof (zlen_nonneg body).
    destruct (zlen body + 1 <=? 0) eqn:E; [lia|].
    replace (zlen body + 1 - 1) with (zlen body) by lia. rewrite IH. reflexivity.
Qed.

Lemma read_tl_limit0 eoc tb inp off : read_tl 0 eoc tb inp off = RFinished.
Proof. destruct inp; reflexivity. Qed.

Lemma pd_S f : pd (S f) = pd_body (pd f).
Proof. reflexivity. Qed.

Lemma emit_app a b r : emit a (emit b r) = emit (a ++ b) r.
Proof. destruct r; cbn [emit]; rewrite ?app_assoc; reflexivity. Qed.

Lemma pd_tlv_prim self level limit esize eoc fsize pdc tagbuf tag body rest off1 :
  is_constr tagbuf = false ->
  eoc && (nth 0 tagbuf 0 =? 0) && (nth 1 tagbuf 0 =? 0) = false ->
  (limit = -1 \/ zlen tagbuf + zlen body <= limit) ->
  pd_tlv self level limit esize eoc fsize pdc tagbuf tag (zlen body) (zlen tagbuf) (body ++ rest) off1 =
  emit [LPrim level (off1 - zlen tagbuf) tag (zlen tagbuf) (zlen body) body]
       (pd_next self false level (sub_limit limit (zlen tagbuf + zlen body)) (esize + (zlen tagbuf + zlen body)) eoc
                (fsize + (zlen tagbuf + zlen body)) pdc rest (off1 + zlen body)).
Proof.
  intros Hc He Hlim. unfold pd_tlv. rewrite Hc, He.
  pose proof (zlen_nonneg body) as Hb. pose proof (zlen_nonneg tagbuf) as Htb.
  unfold sub_limit.
  destruct (limit =? -1) eqn:E.
  - cbn [negb andb]. change (-1 =? -1) with true. cbv iota.
    destruct (zlen body <? 0) eqn:E2; [lia|].
    rewrite read_v_app. f_equal. eqs.
  - cbn [negb andb].
    destruct (limit - zlen tagbuf <? 0) eqn:E1; [lia|].
    destruct (limit - zlen tagbuf <? zlen body) eqn:E2; [lia|].
    destruct (zlen body <? 0) eqn:E3; [lia|].
    rewrite read_v_app.
    destruct (limit - zlen tagbuf =? -1) eqn:E4; [lia|].
    f_equal. eqs.
Qed.

Lemma pd_tlv_constr self level limit esize eoc fsize pdc tagbuf tag len inp1 off1 o c dec inp2 off2 :
  is_constr tagbuf = true -> (nth 0 tagbuf 0 =? 0) = false ->
  (limit = -1 \/ (zlen tagbuf <= limit /\ len <= limit - zlen tagbuf /\ 0 <= dec <= limit - zlen tagbuf)) ->
  self (S level) (if len =? -1 then sub_limit limit (zlen tagbuf) else len) (zlen tagbuf) (len =? -1) 0 PD_FINISHED inp1 off1
    = PDone o c dec inp2 off2 ->
  pd_tlv self level limit esize eoc fsize pdc tagbuf tag len (zlen tagbuf) inp1 off1 =
  emit (if len =? -1 then LOpen level (off1 - zlen tagbuf) tag (zlen tagbuf) len :: o
        else LOpen level (off1 - zlen tagbuf) tag (zlen tagbuf) len :: o ++ [LClose level off2 tag (zlen tagbuf + dec)])
       (pd_next self (len =? -1) level (sub_limit limit (zlen tagbuf + dec)) (esize + zlen tagbuf + dec) eoc
                (fsize + zlen tagbuf + dec) c inp2 off2).
Proof.
  intros Hc H0 Hlim Hself. unfold pd_tlv. rewrite Hc, H0, andb_false_r. cbn [andb].
  pose proof (zlen_nonneg tagbuf) as Htb.
  rewrite Hself. unfold sub_limit.
  destruct (limit =? -1) eqn:E.
  - cbn [negb andb]. change (-1 =? -1) with true. cbn [negb andb]. reflexivity.
  - cbn [negb andb]. destruct Hlim as [Hlim|(L1 & L2 & L3)]; [lia|].
    destruct (limit - zlen tagbuf <? 0) eqn:E1; [lia|].
    destruct (limit - zlen tagbuf <? len) eqn:E2; [lia|].
    destruct (limit - zlen tagbuf =? -1) eqn:E4; [lia|]. cbn [negb andb].
    destruct (limit - zlen tagbuf <? dec) eqn:E5; [lia|].
    f_equal. eqs.
Qed.

Lemma pd_eoc f lv limit esize fsize pdc rest off :
  (limit = -1 \/ 2 <= limit) ->
  pd (S f) (S lv) limit esize true fsize pdc (0 :: 0 :: rest) off =
  PDone [LCloseI lv off (esize + 2)] PD_FINISHED (fsize + 2) rest (off + 2).
Proof.
  intros Hlim. rewrite pd_S. unfold pd_body.
  change (0 :: 0 :: rest) with ([0; 0] ++ rest).
  rewrite (read_tl_hdr limit true [0; 0] 0 0 1 1 rest off); try reflexivity.
  2:{ unfold zlen; cbn; lia. }
  2:{ unfold zlen; cbn [length]. lia. }
  unfold pd_tlv. cbn [nth is_constr andb]. change (0 =? 0) with true. cbn [andb].
  unfold sub_limit, zlen. cbn [length Nat.pred]. change (Z.of_nat 1 + Z.of_nat 1) with 2. change (Z.of_nat 2) with 2.
  destruct (limit =? -1) eqn:E.
  - cbn [negb andb]. f_equal. eqs.
  - cbn [negb andb]. destruct (limit - 2 <? 0) eqn:E1; [lia|]. f_equal. eqs.
Qed.

Definition is_indef (t : ber_tree) : bool := match t with Cons _ false _ => true | _ => false end.
Definition node_code (t : ber_tree) (pdc : pdcode) : pdcode := match t with Prim _ _ => pdc | Cons _ _ _ => PD_FINISHED end.

(* one iteration of the loop on ser t, in any loop context that leaves room for it *)
Definition node_ok (t : ber_tree) : Prop :=
  forall f level limit esize eoc fsize pdc rest off,
    wf_tree t eoc ->
    (length (ser t ++ rest) <= f)%nat ->
    (limit = -1 \/ tsize t <= limit) ->
    pd (S f) level limit esize eoc fsize pdc (ser t ++ rest) off =
    emit (exp_lines t level off)
         (pd_next (pd f) (is_indef t) level (sub_limit limit (tsize t)) (esize + tsize t) eoc (fsize + tsize t)
                  (node_code t pdc) rest (off + tsize t)).

Lemma allP_Forall f ts : allP f ts <-> Forall f ts.
Proof.
  induction ts as [|t ts IH]; cbn [allP]; split; intros H; auto.
  - destruct H; constructor; tauto.
  - inversion H; subst; tauto.
Qed.

Lemma ser_nonempty t b : wf_tree t b -> (2 <= length (ser t))%nat.
Proof.
  destruct t as [tag body|tag [|] ch]; cbn [wf_tree ser]; intros H.
  - destruct H as (Ht & _ & Hl & _). destruct (tag_serialize_shape tag Ht) as (x & tl & -> & _).
    destruct (len_serialize_shape (zlen body) ltac:(pose proof (zlen_nonneg body); lia)) as (y & tl' & -> & _).
    cbn [app length]. rewrite app_length. cbn [length]. lia.
  - destruct H as (Ht & _ & Hl). destruct (tag_serialize_shape tag Ht) as (x & tl & -> & _).
    destruct (len_serialize_shape (zlen (flat_map ser ch)) ltac:(pose proof (zlen_nonneg (flat_map ser ch)); lia)) as (y & tl' & -> & _).
    cbn [mark_constructed app length]. rewrite app_length. cbn [length]. lia.
  - destruct H as (Ht & _). destruct (tag_serialize_shape tag Ht) as (x & tl & -> & _).
    cbn [mark_constructed app length]. rewrite app_length. cbn [length]. lia.
Qed.

Lemma fsize_of_cons t ts : fsize_of (t :: ts) = tsize t + fsize_of ts.
Proof. unfold fsize_of, tsize, ser_forest. cbn [flat_map]. apply zlen_app. Qed.

Lemma fsize_of_nonneg ts : 0 <= fsize_of ts.
Proof. apply zlen_nonneg. Qed.

(* the member loop of a definite-length parent: limit = exactly the members *)
Lemma forest_def ts : Forall node_ok ts ->
  forall f lv esize fsize pdc rest off,
    allP (fun c => wf_tree c false) ts ->
    (length (ser_forest ts ++ rest) <= f)%nat ->
    pd (S f) (S lv) (fsize_of ts) esize false fsize pdc (ser_forest ts ++ rest) off =
    PDone (exp_forest ts (S lv) off) PD_FINISHED (fsize + fsize_of ts) rest (off + fsize_of ts).
Proof.
  induction 1 as [|t ts Ht Hts IH]; intros f lv esize fsize pdc rest off Hwf Hf.
  - rewrite pd_S. unfold pd_body. change (fsize_of []) with 0. rewrite read_tl_limit0. cbn [ser_forest flat_map app].
    f_equal; lia.
  - destruct Hwf as [Hwt Hwts].
    pose proof (ser_nonempty _ _ Hwt) as Hne.
    unfold ser_forest in *. cbn [flat_map] in *. rewrite <- app_assoc in *.
    pose proof (fsize_of_nonneg ts) as Hnn. pose proof (zlen_nonneg (ser t)) as Hnt. fold (tsize t) in Hnt.
    rewrite fsize_of_cons.
    rewrite (Ht f (S lv) (tsize t + fsize_of ts) esize false fsize pdc _ off Hwt Hf ltac:(lia)).
    rewrite app_length in Hf. destruct f as [|f']; [lia|].
    assert (Hnext : forall c, pd_next (pd (S f')) (is_indef t) (S lv) (sub_limit (tsize t + fsize_of ts) (tsize t)) (esize + tsize t) false
                     (fsize + tsize t) c (flat_map ser ts ++ rest) (off + tsize t)
              = pd (S f') (S lv) (fsize_of ts) (esize + tsize t) false (fsize + tsize t) c (flat_map ser ts ++ rest) (off + tsize t)).
    { intros c. unfold pd_next, sub_limit.
      destruct (tsize t + fsize_of ts =? -1) eqn:E; [lia|].
      replace (tsize t + fsize_of ts - tsize t) with (fsize_of ts) by lia.
      destruct (is_indef t); [|reflexivity].
      destruct c; [|reflexivity].
      destruct (fsize_of ts <? 0) eqn:E2; [lia|]. reflexivity. }
    rewrite Hnext.
    rewrite (IH f' lv (esize + tsize t) (fsize + tsize t) (node_code t pdc) rest (off + tsize t) Hwts ltac:(lia)).
    cbn [emit]. unfold exp_forest. cbn [exp_all]. f_equal; lia.
Qed.

(* the member loop of an indefinite-length parent, ended by 00 00 *)
Lemma forest_indef ts : Forall node_ok ts ->
  forall f lv limit esize fsize pdc rest off,
    allP (fun c => wf_tree c true) ts ->
    (length (ser_forest ts ++ 0%Z :: 0%Z :: rest) <= f)%nat ->
    (limit = -1 \/ fsize_of ts + 2 <= limit) ->
    pd (S f) (S lv) limit esize true fsize pdc (ser_forest ts ++ 0 :: 0 :: rest) off =
    PDone (exp_forest ts (S lv) off ++ [LCloseI lv (off + fsize_of ts) (esize + fsize_of ts + 2)]) PD_FINISHED
          (fsize + fsize_of ts + 2) rest (off + fsize_of ts + 2).
Proof.
  induction 1 as [|t ts Ht Hts IH]; intros f lv limit esize fsize pdc rest off Hwf Hf Hlim.
  - cbn [ser_forest flat_map app]. change (fsize_of []) with 0 in *.
    rewrite pd_eoc by lia. cbn [exp_forest exp_all app]. f_equal; eqs.
  - destruct Hwf as [Hwt Hwts].
    pose proof (ser_nonempty _ _ Hwt) as Hne.
    unfold ser_forest in *. cbn [flat_map] in *. rewrite <- app_assoc in *.
    pose proof (fsize_of_nonneg ts) as Hnn. pose proof (zlen_nonneg (ser t)) as Hnt. fold (tsize t) in Hnt.
    rewrite fsize_of_cons in *.
    rewrite (Ht f (S lv) limit esize true fsize pdc _ off Hwt Hf ltac:(lia)).
    rewrite app_length in Hf. destruct f as [|f']; [lia|].
    assert (Hnext : forall c, pd_next (pd (S f')) (is_indef t) (S lv) (sub_limit limit (tsize t)) (esize + tsize t) true
                     (fsize + tsize t) c (flat_map ser ts ++ 0 :: 0 :: rest) (off + tsize t)
              = pd (S f') (S lv) (sub_limit limit (tsize t)) (esize + tsize t) true (fsize + tsize t) c
                   (flat_map ser ts ++ 0 :: 0 :: rest) (off + tsize t)).
    { intros c. unfold pd_next. destruct (is_indef t); [|reflexivity].
      destruct c; [|reflexivity]. rewrite andb_false_r. reflexivity. }
    rewrite Hnext.
    rewrite (IH f' lv (sub_limit limit (tsize t)) (esize + tsize t) (fsize + tsize t) (node_code t pdc) rest (off + tsize t) Hwts ltac:(lia)).
    2:{ unfold sub_limit. destruct (limit =? -1) eqn:E; lia. }
    cbn [emit]. unfold exp_forest. cbn [exp_all]. rewrite app_assoc. f_equal; eqs.
Qed.

(* nested induction principle *)
Lemma ber_tree_ind' (P : ber_tree -> Prop) :
  (forall tag body, P (Prim tag body)) ->
  (forall tag d ch, Forall P ch -> P (Cons tag d ch)) ->
  forall t, P t.
Proof.
  intros HP HC.
  refine (fix IH (t : ber_tree) : P t :=
            match t with
            | Prim tag body => HP tag body
            | Cons tag d ch =>
                HC tag d ch ((fix go (l : list ber_tree) : Forall P l :=
                                match l with
                                | [] => Forall_nil P
                                | c :: tl => Forall_cons c (IH c) (go tl)
                                end) ch)
            end).
Qed.

Lemma sub_limit_m1 d : sub_limit (-1) d = -1.
Proof. reflexivity. Qed.

Lemma node_ok_all t : node_ok t.
Proof.
  induction t as [tag body|tag d ch IH] using ber_tree_ind'; unfold node_ok;
    intros f level limit esize eoc fsize pdc rest off Hwf Hf Hlim.
  - (* primitive *)
    cbn [wf_tree] in Hwf. destruct Hwf as (Htag & Hbody & Hlen & Heoc).
    pose proof (zlen_nonneg body) as Hb0.
    destruct (hdr_of_facts false tag (zlen body) Htag ltac:(lia)) as (F1 & F2 & F3 & F4 & F5 & F6 & _).
    assert (Hser : ser (Prim tag body) = hdr_of false tag (zlen body) ++ body).
    { cbn [ser]. unfold hdr_of. rewrite <- app_assoc. reflexivity. }
    assert (Hsize : tsize (Prim tag body) = zlen (hdr_of false tag (zlen body)) + zlen body).
    { unfold tsize. rewrite Hser. apply zlen_app. }
    assert (Hhl : hdr_len (Prim tag body) = zlen (hdr_of false tag (zlen body))).
    { cbn [hdr_len]. unfold hdr_of. rewrite zlen_app. reflexivity. }
    rewrite Hser, <- app_assoc. rewrite pd_S. unfold pd_body.
    rewrite <- F2 in F3 at 1.
    rewrite (read_tl_hdr limit eoc _ _ _ _ _ (body ++ rest) off F1 F3 F4 F5) by lia.
    replace (Z.of_nat (length (tag_serialize tag)) + Z.of_nat (length (len_serialize (zlen body))))
      with (zlen (hdr_of false tag (zlen body))) by (unfold zlen; rewrite F4; lia).
    rewrite pd_tlv_prim; [| exact F2 | | lia].
    2:{ destruct eoc; [|reflexivity]. cbn [andb]. apply F6; [reflexivity|].
        intros [-> Hz]. apply Heoc; [reflexivity|]. split; [reflexivity|].
        destruct body; [reflexivity|]. rewrite zlen_cons in Hz. pose proof (zlen_nonneg body). lia. }
    cbn [exp_lines is_indef node_code]. rewrite Hhl, Hsize.
    f_equal; eqs.
  - (* constructed *)
    cbn [wf_tree] in Hwf. destruct Hwf as (Htag & Hch & Hlen).
    destruct d.
    + (* definite *)
      specialize (Hlen eq_refl).
      set (content := flat_map ser ch) in *.
      pose proof (zlen_nonneg content) as Hc0.
      destruct (hdr_of_facts true tag (zlen content) Htag ltac:(lia)) as (F1 & F2 & F3 & F4 & F5 & _ & F7).
      set (hdr := hdr_of true tag (zlen content)) in *.
      assert (Hser : ser (Cons tag true ch) = hdr ++ content).
      { cbn [ser]. unfold hdr, hdr_of. rewrite <- app_assoc. reflexivity. }
      assert (Hsize : tsize (Cons tag true ch) = zlen hdr + zlen content).
      { unfold tsize. rewrite Hser. apply zlen_app. }
      assert (Hhl : hdr_len (Cons tag true ch) = zlen hdr).
      { cbn [hdr_len]. unfold hdr, hdr_of. rewrite zlen_app. unfold zlen. cbn [mark_constructed].
        destruct (tag_serialize tag); reflexivity. }
      assert (Hfs : fsize_of ch = zlen content) by reflexivity.
      rewrite Hser, <- app_assoc in *. rewrite pd_S. unfold pd_body.
      rewrite <- F2 in F3 at 1.
      rewrite (read_tl_hdr limit eoc _ _ _ _ _ (content ++ rest) off F1 F3 F4 F5) by lia.
      replace (Z.of_nat (length (tag_serialize tag)) + Z.of_nat (length (len_serialize (zlen content))))
        with (zlen hdr) by (unfold zlen; rewrite F4; lia).
      assert (Hhdr2 : 2 <= zlen hdr).
      { unfold zlen. rewrite F4. pose proof (fetch_tag_consumed _ _ _ F1).
        destruct (len_serialize_shape (zlen content) ltac:(lia)) as (y & tl' & -> & _). cbn [length]. lia. }
      rewrite app_length in Hf. destruct f as [|f']; [unfold zlen in Hhdr2; lia|].
      assert (Hne : (zlen content =? -1) = false) by lia.
      rewrite (pd_tlv_constr (pd (S f')) level limit esize eoc fsize pdc hdr tag (zlen content) (content ++ rest) (off + zlen hdr)
                 (exp_forest ch (S level) (off + zlen hdr)) PD_FINISHED (0 + fsize_of ch) rest (off + zlen hdr + fsize_of ch) F2 (F7 eq_refl)).
      * rewrite Hne. cbn [exp_lines is_indef node_code]. rewrite Hhl, Hsize, Hfs.
        unfold exp_forest. f_equal; eqs.
      * rewrite Hfs. lia.
      * rewrite Hne, <- Hfs. apply forest_def; [exact IH | exact Hch | unfold zlen in Hhdr2; unfold ser_forest; fold content; lia].
    + (* indefinite *)
      set (content := flat_map ser ch) in *.
      pose proof (zlen_nonneg content) as Hc0.
      destruct (hdr_indef_facts tag Htag) as (F1 & F2 & F3 & F4 & F5 & F7).
      set (hdr := hdr_indef tag) in *.
      assert (Hser : ser (Cons tag false ch) = hdr ++ content ++ [0; 0]).
      { cbn [ser]. unfold hdr, hdr_indef. rewrite <- app_assoc. reflexivity. }
      assert (Hsize : tsize (Cons tag false ch) = zlen hdr + zlen content + 2).
      { unfold tsize. rewrite Hser, !zlen_app. unfold zlen at 3. cbn [length]. lia. }
      assert (Hhl : hdr_len (Cons tag false ch) = zlen hdr).
      { cbn [hdr_len]. unfold hdr, hdr_indef. rewrite zlen_app. unfold zlen. cbn [mark_constructed length].
        destruct (tag_serialize tag); reflexivity. }
      assert (Hfs : fsize_of ch = zlen content) by reflexivity.
      rewrite Hser in *. rewrite <- !app_assoc in *. rewrite pd_S. unfold pd_body.
      rewrite <- F2 in F3 at 1.
      rewrite (read_tl_hdr limit eoc _ _ _ _ _ (content ++ [0; 0] ++ rest) off F1 F3 F4 F5) by lia.
      replace (Z.of_nat (length (tag_serialize tag)) + Z.of_nat 1)
        with (zlen hdr) by (unfold zlen; rewrite F4; lia).
      assert (Hhdr2 : 2 <= zlen hdr).
      { unfold zlen. rewrite F4. pose proof (fetch_tag_consumed _ _ _ F1). lia. }
      rewrite app_length in Hf. destruct f as [|f']; [unfold zlen in Hhdr2; lia|].
      rewrite (pd_tlv_constr (pd (S f')) level limit esize eoc fsize pdc hdr tag (-1) (content ++ [0; 0] ++ rest) (off + zlen hdr)
                 (exp_forest ch (S level) (off + zlen hdr) ++ [LCloseI level (off + zlen hdr + fsize_of ch) (zlen hdr + fsize_of ch + 2)])
                 PD_FINISHED (0 + fsize_of ch + 2) rest (off + zlen hdr + fsize_of ch + 2) F2 F7).
      * change (-1 =? -1) with true. cbn [exp_lines is_indef node_code]. rewrite Hhl, Hsize, Hfs.
        unfold exp_forest. cbn [app]. f_equal; eqs.
      * rewrite Hfs. lia.
      * change (-1 =? -1) with true. cbv iota. cbn [app].
        apply forest_indef; [exact IH | exact Hch | unfold zlen in Hhdr2; cbn [app] in Hf; unfold ser_forest; fold content; lia |].
        unfold sub_limit. destruct (limit =? -1) eqn:E; lia.
Qed.

(* ------------------------------------------------------------------ *)
(* 5. unber on a serialised document (one or more top-level encodings) *)

Lemma unber_loop_forest ts : forall f off fsize,
  wf_forest ts -> (length (ser_forest ts) < f)%nat ->
  unber_loop f (ser_forest ts) off fsize = (exp_forest ts 0 off, XOk).
Proof.
  induction ts as [|t ts IH]; intros f off fsize Hwf Hf.
  - destruct f as [|f']; [cbn in Hf; lia|]. reflexivity.
  - destruct Hwf as [Hwt Hwts].
    pose proof (ser_nonempty _ _ Hwt) as Hne.
    unfold ser_forest in *. cbn [flat_map] in *.
    destruct f as [|f']; [lia|].
    cbn [unber_loop].
    rewrite <- (app_nil_r (flat_map ser ts)) at 1. rewrite app_assoc, app_nil_r.
    pose proof (node_ok_all t f' 0%nat (-1) 0 false fsize PD_FINISHED (flat_map ser ts) off Hwt ltac:(lia) ltac:(lia)) as Hn.
    rewrite Hn. rewrite sub_limit_m1.
    assert (Hnext : pd_next (pd f') (is_indef t) 0 (-1) (0 + tsize t) false (fsize + tsize t) (node_code t PD_FINISHED)
                            (flat_map ser ts) (off + tsize t)
                    = PDone [] PD_FINISHED (fsize + tsize t) (flat_map ser ts) (off + tsize t)).
    { unfold pd_next. destruct t as [? ?|? [|] ?]; reflexivity. }
    rewrite Hnext. cbn [emit].
    rewrite app_length in Hf.
    rewrite (IH f' (off + tsize t) (fsize + tsize t) Hwts ltac:(lia)).
    unfold exp_forest. cbn [exp_all]. rewrite app_nil_r. reflexivity.
Qed.

Theorem unber_ser ts : wf_forest ts -> unber (ser_forest ts) = (exp_forest ts 0 0, XOk).
Proof. intros H. apply unber_loop_forest; [exact H|lia]. Qed.

(* ---- fields ---- *)

Lemma opens_app a b : opens (a ++ b) = opens a ++ opens b.
Proof. apply flat_map_app. Qed.

Lemma opens_exp_all ch : Forall (fun c => forall lv off, opens (exp_lines c lv off) = nodes c off) ch ->
  forall lv off, opens (exp_all (fun c o => exp_lines c lv o) ch off) = nodes_all nodes ch off.
Proof.
  induction 1 as [|c ch Hc Hch IH]; intros lv off; cbn [exp_all nodes_all]; [reflexivity|].
  rewrite opens_app, Hc, IH. reflexivity.
Qed.

Lemma opens_exp_lines t : forall lv off, opens (exp_lines t lv off) = nodes t off.
Proof.
  induction t as [tag body|tag d ch IH] using ber_tree_ind'; intros lv off.
  - reflexivity.
  - destruct d; cbn [exp_lines nodes]; rewrite app_comm_cons, opens_app;
      change (opens [_]) with (@nil (Z * Z * Z * Z)); rewrite app_nil_r;
      cbn [opens flat_map app]; fold (opens (exp_all (fun c o => exp_lines c (S lv) o) ch (off + hdr_len (Cons tag true ch))));
      fold (opens (exp_all (fun c o => exp_lines c (S lv) o) ch (off + hdr_len (Cons tag false ch))));
      rewrite (opens_exp_all ch IH); reflexivity.
Qed.

Theorem unber_fields_forest ts : wf_forest ts ->
  opens (fst (unber (ser_forest ts))) = nodes_forest ts 0 /\ snd (unber (ser_forest ts)) = XOk.
Proof.
  intros H. rewrite (unber_ser ts H). cbn [fst snd]. split; [|reflexivity].
  unfold exp_forest, nodes_forest. apply opens_exp_all.
  apply Forall_forall. intros c _ lv off. apply opens_exp_lines.
Qed.

(* ------------------------------------------------------------------ *)
(* 6. enber on the lines unber prints *)

Lemma enber_app a : forall b x y r, enber a = (x, None) -> enber b = (y, r) -> enber (a ++ b) = (x ++ y, r).
Proof.
  induction a as [|l a IH]; intros b x y r Ha Hb.
  - cbn in Ha. injection Ha as <-. exact Hb.
  - cbn [app enber] in *. destruct (enber_line l) as [bs [e|]]; [discriminate|].
    destruct (enber a) as [bs' r'] eqn:Ea. injection Ha as <- ->.
    rewrite (IH b bs' y r eq_refl Hb). rewrite app_assoc. reflexivity.
Qed.

Lemma reparse_tag_ok tag : tag_ok tag -> reparse_tag tag = Some tag.
Proof.
  intros [H0 H1]. unfold reparse_tag. unfold two30 in H1. unfold two32.
  assert (Hq : 0 <= tag / 4) by (apply Z.div_pos; lia).
  destruct (4294967296 <=? tag / 4) eqn:E; [lia|].
  pose proof (Z.div_mod tag 4 ltac:(lia)) as Hdm. pose proof (Z.mod_pos_bound tag 4 ltac:(lia)).
  rewrite Z.mod_small by lia. f_equal. lia.
Qed.

Lemma set_constr_mark bs tag : tag_ok tag -> set_constr (tag_serialize tag ++ bs) = mark_constructed (tag_serialize tag) ++ bs.
Proof.
  intros Ht. destruct (tag_serialize_shape tag Ht) as (b & tl & -> & _ & Hcb & _).
  cbn [app set_constr mark_constructed]. rewrite Hcb. reflexivity.
Qed.

Lemma enber_tl_def kind tag n : tag_ok tag -> 0 <= n <= rssize_max -> (kind = 0 \/ kind = 1) ->
  enber_tl kind tag (zlen (tag_serialize tag) + zlen (len_serialize n)) n =
  ((if kind =? 0 then tag_serialize tag else mark_constructed (tag_serialize tag)) ++ len_serialize n, None).
Proof.
  intros Ht Hn Hk. unfold enber_tl.
  destruct (tag_serialize_shape tag Ht) as (b & tl & Hts & _ & _ & _ & Htl5).
  destruct (len_serialize_shape n Hn) as (lb & ltl & Hls & _ & Hltl8).
  assert (H2 : 2 <= zlen (tag_serialize tag) + zlen (len_serialize n)).
  { rewrite Hts, Hls, !zlen_cons. pose proof (zlen_nonneg tl). pose proof (zlen_nonneg ltl). lia. }
  assert (H15 : zlen (tag_serialize tag) + zlen (len_serialize n) <= 15).
  { rewrite Hts, Hls, !zlen_cons. unfold zlen. lia. }
  replace (kind =? 2) with false by lia.
  set (T := zlen (tag_serialize tag) + zlen (len_serialize n)) in *.
  unfold rssize_max in Hn.
  replace ((negb (T =? 0) && (T <? 2)) || (two63 <=? T) || (n <? 0) || (two63 <=? n)) with false by (unfold two63; lia).
  rewrite (reparse_tag_ok tag Ht). rewrite zlen_app. fold T. rewrite Z.eqb_refl.
  replace (negb (T =? 0) && negb true) with false by (cbn; lia).
  destruct Hk as [-> | ->]; cbn [Z.eqb]; [reflexivity|]. rewrite set_constr_mark by exact Ht. reflexivity.
Qed.

Lemma enber_tl_indef tag : tag_ok tag ->
  enber_tl 2 tag (zlen (tag_serialize tag) + 1) (-1) = (mark_constructed (tag_serialize tag) ++ [128], None).
Proof.
  intros Ht. unfold enber_tl.
  destruct (tag_serialize_shape tag Ht) as (b & tl & Hts & _ & _ & _ & Htl5).
  assert (H2 : 2 <= zlen (tag_serialize tag) + 1).
  { rewrite Hts, !zlen_cons. pose proof (zlen_nonneg tl). lia. }
  change (2 =? 2) with true. cbv iota.
  assert (H15 : zlen (tag_serialize tag) + 1 <= 15).
  { rewrite Hts, !zlen_cons. unfold zlen. lia. }
  set (T := zlen (tag_serialize tag) + 1) in *.
  replace ((negb (T =? 0) && (T <? 2)) || (two63 <=? T) || (0 <? 0) || (two63 <=? 0)) with false by (unfold two63; lia).
  rewrite (reparse_tag_ok tag Ht). rewrite zlen_app. change (zlen [128]) with 1. fold T. rewrite Z.eqb_refl.
  replace (negb (T =? 0) && negb true) with false by (cbn; lia).
  change (2 =? 0) with false. cbv iota. rewrite set_constr_mark by exact Ht. reflexivity.
Qed.

Definition enber_ok (t : ber_tree) : Prop :=
  forall b lv off, wf_tree t b -> enber (exp_lines t lv off) = (ser t, None).

Lemma enber_exp_all ch : Forall enber_ok ch -> forall b lv off,
  allP (fun c => wf_tree c b) ch ->
  enber (exp_all (fun c o => exp_lines c lv o) ch off) = (flat_map ser ch, None).
Proof.
  induction 1 as [|c ch Hc Hch IH]; intros b lv off Hwf; [reflexivity|].
  destruct Hwf as [Hw Hws]. cbn [exp_all flat_map].
  apply enber_app; [apply (Hc b); exact Hw|apply (IH b); exact Hws].
Qed.

Lemma enber_ok_all t : enber_ok t.
Proof.
  induction t as [tag body|tag d ch IH] using ber_tree_ind'; intros b lv off Hwf.
  - cbn [wf_tree] in Hwf. destruct Hwf as (Htag & Hbody & Hlen & _).
    pose proof (zlen_nonneg body).
    cbn [exp_lines hdr_len enber enber_line].
    rewrite (enber_tl_def 0 tag (zlen body) Htag ltac:(lia) ltac:(lia)).
    rewrite Z.eqb_refl. change (0 =? 0) with true. cbv iota. rewrite app_nil_r, <- app_assoc. reflexivity.
  - cbn [wf_tree] in Hwf. destruct Hwf as (Htag & Hch & Hlen).
    destruct d.
    + specialize (Hlen eq_refl). pose proof (zlen_nonneg (flat_map ser ch)) as Hc0.
      cbn [exp_lines hdr_len]. unfold fsize_of, ser_forest.
      change (LOpen lv off tag (zlen (tag_serialize tag) + zlen (len_serialize (zlen (flat_map ser ch)))) (zlen (flat_map ser ch))
              :: exp_all (fun c o => exp_lines c (S lv) o) ch (off + (zlen (tag_serialize tag) + zlen (len_serialize (zlen (flat_map ser ch)))))
                 ++ [LClose lv (off + tsize (Cons tag true ch)) tag (tsize (Cons tag true ch))])
        with ([LOpen lv off tag (zlen (tag_serialize tag) + zlen (len_serialize (zlen (flat_map ser ch)))) (zlen (flat_map ser ch))]
              ++ exp_all (fun c o => exp_lines c (S lv) o) ch (off + (zlen (tag_serialize tag) + zlen (len_serialize (zlen (flat_map ser ch)))))
                 ++ [LClose lv (off + tsize (Cons tag true ch)) tag (tsize (Cons tag true ch))]).
      cbn [ser]. rewrite (app_assoc (mark_constructed (tag_serialize tag))).
      apply enber_app.
      * cbn [enber enber_line]. replace (zlen (flat_map ser ch) =? -1) with false by lia.
        rewrite (enber_tl_def 1 tag (zlen (flat_map ser ch)) Htag ltac:(lia) ltac:(lia)). change (1 =? 0) with false. cbv iota.
        rewrite app_nil_r. reflexivity.
      * rewrite <- (app_nil_r (flat_map ser ch)) at 2.
        apply enber_app; [apply (enber_exp_all ch IH (negb true)); exact Hch | reflexivity].
    + cbn [exp_lines hdr_len].
      change (LOpen lv off tag (zlen (tag_serialize tag) + 1) (-1)
              :: exp_all (fun c o => exp_lines c (S lv) o) ch (off + (zlen (tag_serialize tag) + 1))
                 ++ [LCloseI lv (off + tsize (Cons tag false ch) - 2) (tsize (Cons tag false ch))])
        with ([LOpen lv off tag (zlen (tag_serialize tag) + 1) (-1)]
              ++ exp_all (fun c o => exp_lines c (S lv) o) ch (off + (zlen (tag_serialize tag) + 1))
                 ++ [LCloseI lv (off + tsize (Cons tag false ch) - 2) (tsize (Cons tag false ch))]).
      cbn [ser]. rewrite (app_assoc (mark_constructed (tag_serialize tag))).
      apply enber_app.
      * cbn [enber enber_line]. change (-1 =? -1) with true. cbv iota.
        rewrite (enber_tl_indef tag Htag). rewrite app_nil_r. reflexivity.
      * apply enber_app; [apply (enber_exp_all ch IH (negb false)); exact Hch | reflexivity].
Qed.

Theorem xxber_inverse_forest ts : wf_forest ts -> xxber (ser_forest ts) = (ser_forest ts, None).
Proof.
  intros H. unfold xxber. rewrite (unber_ser ts H). cbn [fst].
  apply (enber_exp_all ts (proj2 (Forall_forall _ _) (fun c _ => enber_ok_all c)) false 0%nat 0 H).
Qed.

Theorem xxber_inverse t : wf_tree t false -> xxber (ser t) = (ser t, None).
Proof.
  intros H. pose proof (xxber_inverse_forest [t] (conj H I)) as E.
  unfold ser_forest in E. cbn [flat_map] in E. rewrite app_nil_r in E. exact E.
Qed.

(* ------------------------------------------------------------------ *)
(* 7. arbitrary input: no assert() fires, the stated fuel suffices, the stream
      position never passes the end of the input *)

Lemma bytes_ok_app a b : bytes_ok (a ++ b) <-> bytes_ok a /\ bytes_ok b.
Proof. unfold bytes_ok. apply Forall_app. Qed.

Lemma read_tl_inv limit eoc : forall inp pre off tagbuf tag len tn ln inp1 off1,
  read_tl limit eoc pre inp off = ROk tagbuf tag len tn ln inp1 off1 ->
  exists suf, inp = suf ++ inp1 /\ tagbuf = pre ++ suf /\ suf <> [] /\ off1 = off + zlen suf /\
              zlen tagbuf <= 32 /\ (0 <= limit -> zlen tagbuf <= limit) /\
              (tn + ln)%nat = length tagbuf /\ fetch_tag tagbuf = FOk tag tn /\
              fetch_length (is_constr tagbuf) (skipn tn tagbuf) = FOk len ln.
Proof.
  induction inp as [|ch inp IH]; intros pre off tagbuf tag len tn ln inp1 off1 H; cbn [read_tl] in H.
  - destruct (limit =? 0); [discriminate|].
    destruct ((0 <=? limit) && (limit <=? zlen pre)); [discriminate|].
    destruct (32 <=? zlen pre); [discriminate|].
    destruct ((0 <? limit) || eoc); discriminate.
  - destruct (limit =? 0) eqn:E0; [discriminate|].
    destruct ((0 <=? limit) && (limit <=? zlen pre)) eqn:E1; [discriminate|].
    destruct (32 <=? zlen pre) eqn:E2; [discriminate|].
    assert (Hrec : read_tl limit eoc (pre ++ [ch]) inp (off + 1) = ROk tagbuf tag len tn ln inp1 off1 ->
                   exists suf, ch :: inp = suf ++ inp1 /\ tagbuf = pre ++ suf /\ suf <> [] /\ off1 = off + zlen suf /\
                     zlen tagbuf <= 32 /\ (0 <= limit -> zlen tagbuf <= limit) /\
                     (tn + ln)%nat = length tagbuf /\ fetch_tag tagbuf = FOk tag tn /\
                     fetch_length (is_constr tagbuf) (skipn tn tagbuf) = FOk len ln).
    { intros Hr. destruct (IH _ _ _ _ _ _ _ _ _ Hr) as (suf & -> & -> & _ & -> & R).
      exists (ch :: suf). rewrite <- app_assoc in *. cbn [app] in *.
      destruct R as (R1 & R2 & R3 & R4 & R5).
      repeat split; try assumption; try discriminate.
      rewrite zlen_cons. lia. }
    destruct (fetch_tag (pre ++ [ch])) as [tg tnn| |] eqn:Et; [|exact (Hrec H)|discriminate].
    destruct (fetch_length (is_constr (pre ++ [ch])) (skipn tnn (pre ++ [ch]))) as [lv lnn| |] eqn:El; [|exact (Hrec H)|discriminate].
    destruct (Nat.eqb (tnn + lnn) (length (pre ++ [ch]))) eqn:Eq; [|discriminate].
    injection H as <- <- <- <- <- <- <-.
    exists [ch]. apply Nat.eqb_eq in Eq.
    repeat split; try assumption; try discriminate.
    + rewrite zlen_snoc. lia.
    + rewrite zlen_snoc. intros. lia.
Qed.

Lemma read_tl_eof limit eoc : forall inp pre off off',
  read_tl limit eoc pre inp off = REof off' -> off' = off + zlen inp.
Proof.
  induction inp as [|ch inp IH]; intros pre off off' H; cbn [read_tl] in H.
  - destruct (limit =? 0); [discriminate|].
    destruct ((0 <=? limit) && (limit <=? zlen pre)); [discriminate|].
    destruct (32 <=? zlen pre); [discriminate|].
    destruct ((0 <? limit) || eoc); [discriminate|]. injection H as <-. unfold zlen. cbn. lia.
  - destruct (limit =? 0); [discriminate|].
    destruct ((0 <=? limit) && (limit <=? zlen pre)); [discriminate|].
    destruct (32 <=? zlen pre); [discriminate|].
    rewrite zlen_cons.
    destruct (fetch_tag (pre ++ [ch])) as [tg tnn| |]; [|apply IH in H; lia|discriminate].
    destruct (fetch_length (is_constr (pre ++ [ch])) (skipn tnn (pre ++ [ch]))) as [lv lnn| |]; [|apply IH in H; lia|discriminate].
    destruct (Nat.eqb (tnn + lnn) (length (pre ++ [ch]))); discriminate.
Qed.

Lemma read_v_spec : forall inp n bs rest, 0 <= n ->
  read_v inp n = (bs, rest, true) -> inp = bs ++ rest /\ zlen bs = n.
Proof.
  induction inp as [|b inp IH]; intros n bs rest Hn H; cbn [read_v] in H.
  - destruct (n <=? 0) eqn:E; [|discriminate]. injection H as <- <-. split; [reflexivity|unfold zlen; cbn; lia].
  - destruct (n <=? 0) eqn:E.
    + injection H as <- <-. split; [reflexivity|unfold zlen; cbn; lia].
    + destruct (read_v inp (n - 1)) as [[bs' rest'] ok] eqn:Er. injection H as <- <- ->.
      assert (Hn1 : 0 <= n - 1) by lia.
      destruct (IH _ _ _ Hn1 Er) as [-> Hz]. split; [reflexivity|rewrite zlen_cons; lia].
Qed.

Lemma fetch_len_loop_nonneg k : forall buf acc sk v n, fetch_len_loop k buf acc sk = FOk v n -> 0 <= v.
Proof.
  induction k as [|k IH]; intros buf acc sk v n H; cbn [fetch_len_loop] in H.
  - destruct ((acc <? 0) || (rssize_max <? acc)) eqn:E; [discriminate|]. injection H as <- _. lia.
  - destruct buf as [|b tl]; [discriminate|]. destruct (acc <? two55); [|discriminate]. eapply IH; exact H.
Qed.

Lemma fetch_length_prim buf v n : bytes_ok buf -> fetch_length false buf = FOk v n -> 0 <= v.
Proof.
  intros Hok. destruct buf as [|b tl]; cbn [fetch_length]; [discriminate|].
  inversion Hok as [|? ? Hb _]; subst. unfold byte_ok in Hb.
  destruct (b <? 128); [intros H; injection H as <- _; lia|].
  cbn [andb]. destruct (b =? 255); [discriminate|]. apply fetch_len_loop_nonneg.
Qed.

(* result of a loop started with [limit], [fsize] on an input that ends at
   stream offset [fin] and has at most [n] octets left *)
Definition goodr (limit fsize : Z) (n : nat) (fin : Z) (r : pdres) : Prop :=
  match r with
  | PDone _ _ fsize' rest off' =>
      (length rest <= n)%nat /\ bytes_ok rest /\ (0 <= limit -> fsize' - fsize <= limit) /\ off' + zlen rest = fin
  | PFail _ _ => True
  | PAbort _ => False
  | POutOfFuel => False
  end.

Lemma goodr_emit ls limit fsize n fin r : goodr limit fsize n fin (emit ls r) <-> goodr limit fsize n fin r.
Proof. destruct r; reflexivity. Qed.

Definition self_good (self : loop_t) (n : nat) : Prop :=
  forall level limit esize eoc fsize pdc inp off,
    (length inp <= n)%nat -> bytes_ok inp -> -1 <= limit ->
    goodr limit fsize (length inp) (off + zlen inp) (self level limit esize eoc fsize pdc inp off).

Lemma pd_next_good self n indef level limit2 esize2 eoc fsize2 c inp2 off2 :
  self_good self n -> (length inp2 <= n)%nat -> bytes_ok inp2 -> -1 <= limit2 ->
  goodr limit2 fsize2 (length inp2) (off2 + zlen inp2)
        (pd_next self indef level limit2 esize2 eoc fsize2 c inp2 off2).
Proof.
  intros Hs Hl Hb Hlim.
  assert (Hdone : goodr limit2 fsize2 (length inp2) (off2 + zlen inp2) (PDone [] c fsize2 inp2 off2)).
  { cbn [goodr]. repeat split; try assumption; try lia. }
  unfold pd_next. destruct indef.
  - destruct c; [destruct ((limit2 <? 0) && negb eoc); [exact Hdone|]|]; apply Hs; assumption.
  - destruct level; [destruct ((limit2 =? -1) && negb eoc); [exact Hdone|]|]; apply Hs; assumption.
Qed.

Lemma goodr_weaken limit fsize limit' fsize' n n' fin r :
  goodr limit' fsize' n' fin r -> (n' <= n)%nat ->
  (0 <= limit -> 0 <= limit' /\ limit' + (fsize' - fsize) <= limit) ->
  goodr limit fsize n fin r.
Proof.
  destruct r; cbn [goodr]; auto. intros (A & B & C & D) Hn Hl. repeat split; try assumption; lia.
Qed.

Lemma pd_tlv_good self n level limit esize eoc fsize pdc tagbuf tag len inp1 off1 :
  self_good self n -> (length inp1 <= n)%nat -> bytes_ok inp1 -> -1 <= limit ->
  (0 <= limit -> zlen tagbuf <= limit) -> 0 <= zlen tagbuf -> -1 <= len ->
  (is_constr tagbuf = false -> 0 <= len) ->
  goodr limit fsize (length inp1) (off1 + zlen inp1)
        (pd_tlv self level limit esize eoc fsize pdc tagbuf tag len (zlen tagbuf) inp1 off1).
Proof.
  intros Hs Hl Hb Hlim Htl Htl0 Hlen Hprim. unfold pd_tlv.
  set (tl := zlen tagbuf) in *.
  set (is_eoc := eoc && (nth 0 tagbuf 0 =? 0) && (nth 1 tagbuf 0 =? 0)).
  set (cut := if is_eoc then [] else _).
  assert (Hl1 : -1 <= sub_limit limit tl /\ (limit = -1 -> sub_limit limit tl = -1) /\
                (limit <> -1 -> sub_limit limit tl = limit - tl /\ 0 <= limit - tl)).
  { unfold sub_limit. destruct (limit =? -1) eqn:E; lia. }
  set (limit1 := sub_limit limit tl) in *.
  destruct (negb (limit =? -1) && (limit1 <? 0)) eqn:G1; [lia|].
  destruct (negb (limit =? -1) && (limit1 <? len)) eqn:G2; [exact I|].
  destruct is_eoc.
  - cbn [goodr]. repeat split; try assumption; try lia.
  - destruct (is_constr tagbuf) eqn:Ec.
    + set (climit := if len =? -1 then limit1 else len).
      assert (Hcl : -1 <= climit) by (unfold climit; destruct (len =? -1) eqn:E; lia).
      pose proof (Hs (S level) climit tl (len =? -1) 0 PD_FINISHED inp1 off1 Hl Hb Hcl) as Hchild.
      destruct (self (S level) climit tl (len =? -1) 0 PD_FINISHED inp1 off1) as [o c dec inp2 off2| | |];
        cbn [goodr] in Hchild; try contradiction; [|exact I].
      destruct Hchild as (C1 & C2 & C3 & C4).
      assert (Hdec : limit <> -1 -> dec <= limit1).
      { intros Hne. unfold climit in C3. destruct (len =? -1) eqn:E; lia. }
      destruct (negb (limit1 =? -1) && (limit1 <? dec)) eqn:G3; [lia|].
      apply goodr_emit.
      assert (Hl2 : -1 <= sub_limit limit1 dec) by (unfold sub_limit; destruct (limit1 =? -1) eqn:E; lia).
      rewrite <- C4.
      eapply goodr_weaken.
      * apply (pd_next_good self n); try assumption; lia.
      * lia.
      * intros H0. unfold sub_limit. destruct (limit1 =? -1) eqn:E; lia.
      (* end offsets agree *)
    + specialize (Hprim eq_refl).
      destruct (len <? 0) eqn:G4; [lia|].
      destruct (read_v inp1 len) as [[bs inp2] ok] eqn:Er.
      destruct ok; [|exact I].
      destruct (read_v_spec _ _ _ _ Hprim Er) as [-> Hz].
      apply bytes_ok_app in Hb. destruct Hb as [_ Hb2].
      rewrite app_length in *. rewrite zlen_app.
      apply goodr_emit.
      assert (Hl2 : -1 <= sub_limit limit1 len) by (unfold sub_limit; destruct (limit1 =? -1) eqn:E; lia).
      replace (off1 + (zlen bs + zlen inp2)) with (off1 + len + zlen inp2) by lia.
      eapply goodr_weaken.
      * apply (pd_next_good self n); try assumption; lia.
      * lia.
      * intros H0. unfold sub_limit. destruct (limit1 =? -1) eqn:E; lia.
Qed.

Lemma read_tl_fin limit eoc : forall inp pre off, read_tl limit eoc pre inp off = RFinished -> limit = 0.
Proof.
  induction inp as [|ch inp IH]; intros pre off H; cbn [read_tl] in H.
  - destruct (limit =? 0) eqn:E; [lia|].
    destruct ((0 <=? limit) && (limit <=? zlen pre)); [discriminate|].
    destruct (32 <=? zlen pre); [discriminate|].
    destruct ((0 <? limit) || eoc); discriminate.
  - destruct (limit =? 0) eqn:E; [lia|].
    destruct ((0 <=? limit) && (limit <=? zlen pre)); [discriminate|].
    destruct (32 <=? zlen pre); [discriminate|].
    destruct (fetch_tag (pre ++ [ch])) as [tg tnn| |]; [|eapply IH; exact H|discriminate].
    destruct (fetch_length (is_constr (pre ++ [ch])) (skipn tnn (pre ++ [ch]))) as [lv lnn| |]; [|eapply IH; exact H|discriminate].
    destruct (Nat.eqb (tnn + lnn) (length (pre ++ [ch]))); discriminate.
Qed.

Lemma bytes_ok_skipn k bs : bytes_ok bs -> bytes_ok (skipn k bs).
Proof.
  revert bs. induction k as [|k IH]; intros [|b bs] H; cbn [skipn]; try assumption.
  apply IH. inversion H; assumption.
Qed.

(* after a header has been read: the input got shorter and the iteration is good *)
Lemma pd_body_rok self n level limit esize eoc fsize pdc inp off tagbuf tag len tn ln inp1 off1 :
  self_good self n -> (length inp <= S n)%nat -> bytes_ok inp -> -1 <= limit ->
  read_tl limit eoc [] inp off = ROk tagbuf tag len tn ln inp1 off1 ->
  (length inp1 < length inp)%nat /\ off1 + zlen inp1 = off + zlen inp /\ (2 <= zlen tagbuf <= 32) /\
  goodr limit fsize (length inp1) (off1 + zlen inp1)
        (pd_tlv self level limit esize eoc fsize pdc tagbuf tag len (Z.of_nat tn + Z.of_nat ln) inp1 off1).
Proof.
  intros Hs Hl Hb Hlim Er.
  destruct (read_tl_inv _ _ _ _ _ _ _ _ _ _ _ _ Er) as (suf & -> & Htb & Hne & -> & H32 & Hlt & Hlen & Hft & Hfl).
  cbn [app] in Htb. subst tagbuf.
  apply bytes_ok_app in Hb. destruct Hb as [Hb1 Hb2].
  pose proof (fetch_tag_consumed _ _ _ Hft) as Htn.
  destruct (fetch_length_consumed _ _ _ _ (bytes_ok_skipn tn suf Hb1) Hfl) as [Hln Hrange].
  replace (Z.of_nat tn + Z.of_nat ln) with (zlen suf) by (unfold zlen; lia).
  rewrite app_length in *. rewrite zlen_app.
  split; [lia|]. split; [lia|]. split; [unfold zlen in *; lia|].
  apply (pd_tlv_good self n); try assumption; try lia.
  - apply zlen_nonneg.
  - intros Hc. rewrite Hc in Hfl. eapply fetch_length_prim; [|exact Hfl]. apply bytes_ok_skipn. exact Hb1.
Qed.

Lemma pd_body_good self n : self_good self n -> self_good (pd_body self) (S n).
Proof.
  intros Hs level limit esize eoc fsize pdc inp off Hl Hb Hlim. unfold pd_body.
  destruct (read_tl limit eoc [] inp off) as [|off'|d|tagbuf tag len tn ln inp1 off1] eqn:Er.
  - cbn [goodr]. repeat split; try assumption; lia.
  - apply read_tl_eof in Er. cbn [goodr]. change (zlen (@nil Z)) with 0. cbn [length].
    repeat split; try (constructor); lia.
  - exact I.
  - destruct (pd_body_rok self n level limit esize eoc fsize pdc _ _ _ _ _ _ _ _ _ Hs Hl Hb Hlim Er) as (P1 & P2 & _ & P3).
    rewrite <- P2. eapply goodr_weaken; [exact P3|lia|lia].
Qed.

(* an iteration that returns PD_FINISHED with limit <> 0 has consumed a header *)
Lemma pd_body_progress self n level limit esize eoc fsize pdc inp off o fs' inp' off' :
  self_good self n -> (length inp <= S n)%nat -> bytes_ok inp -> -1 <= limit -> limit <> 0 ->
  pd_body self level limit esize eoc fsize pdc inp off = PDone o PD_FINISHED fs' inp' off' ->
  (length inp' < length inp)%nat.
Proof.
  intros Hs Hl Hb Hlim Hl0. unfold pd_body.
  destruct (read_tl limit eoc [] inp off) as [|off''|d|tagbuf tag len tn ln inp1 off1] eqn:Er; intros H.
  - apply read_tl_fin in Er. lia.
  - discriminate.
  - discriminate.
  - destruct (pd_body_rok self n level limit esize eoc fsize pdc _ _ _ _ _ _ _ _ _ Hs Hl Hb Hlim Er) as (P1 & _ & _ & P3).
    rewrite H in P3. cbn [goodr] in P3. lia.
Qed.

Lemma pd_self_good f : self_good (pd (S f)) f.
Proof.
  induction f as [|f IH].
  - rewrite pd_S. intros level limit esize eoc fsize pdc inp off Hl Hb Hlim.
    destruct inp as [|? ?]; [|cbn in Hl; lia].
    unfold pd_body. destruct (read_tl limit eoc [] [] off) as [|off'|d|tagbuf tag len tn ln inp1 off1] eqn:Er.
    + cbn [goodr]. repeat split; try assumption; lia.
    + apply read_tl_eof in Er. cbn [goodr]. change (zlen (@nil Z)) with 0 in *. cbn [length].
      repeat split; try (constructor); lia.
    + exact I.
    + apply read_tl_inv in Er. destruct Er as (suf & Hs & _ & Hne & _). destruct suf; [congruence|discriminate].
  - rewrite pd_S. apply pd_body_good. exact IH.
Qed.

(* the fuel that suffices, no assert(), position within the input *)
Theorem pd_fuel fuel level limit esize eoc fsize pdc inp off :
  (length inp < fuel)%nat -> bytes_ok inp -> -1 <= limit ->
  goodr limit fsize (length inp) (off + zlen inp) (pd fuel level limit esize eoc fsize pdc inp off).
Proof.
  intros Hl Hb Hlim. destruct fuel as [|f]; [lia|].
  eapply goodr_weaken; [apply (pd_self_good f); try assumption; lia|lia|lia].
Qed.

Lemma unber_loop_total fuel : forall inp off fsize,
  (length inp < fuel)%nat -> bytes_ok inp ->
  exists ls x, unber_loop fuel inp off fsize = (ls, x) /\ (x = XOk \/ exists d, x = XFail d).
Proof.
  induction fuel as [|f IH]; intros inp off fsize Hl Hb; [lia|].
  cbn [unber_loop].
  pose proof (pd_fuel (S f) 0%nat (-1) 0 false fsize PD_FINISHED inp off Hl Hb ltac:(lia)) as Hg.
  destruct (pd (S f) 0%nat (-1) 0 false fsize PD_FINISHED inp off) as [o c fs' inp' off'|o d|o|] eqn:Ep;
    cbn [goodr] in Hg; try contradiction.
  - destruct c.
    + destruct Hg as (G1 & G2 & _ & _).
      assert (Hlt : (length inp' < length inp)%nat).
      { destruct f as [|f']; [destruct inp; [|cbn in Hl; lia]; cbn in Ep; discriminate|].
        rewrite pd_S in Ep.
        eapply (pd_body_progress (pd (S f')) f'); [apply pd_self_good| | | | |exact Ep]; try assumption; lia. }
      destruct (IH inp' off' fs' ltac:(lia) G2) as (ls & x & E & Hx).
      exists (o ++ ls), x. rewrite E. split; [reflexivity|exact Hx].
    + exists o, XOk. split; [reflexivity|left; reflexivity].
  - exists o, (XFail d). split; [reflexivity|right; exists d; reflexivity].
Qed.

Theorem unber_total bs : bytes_ok bs ->
  exists ls x, unber bs = (ls, x) /\ (x = XOk \/ exists d, x = XFail d).
Proof. intros H. apply unber_loop_total; [lia|exact H]. Qed.

(* every header process_deeper accepts fits tagbuf[32] and has at least two
   octets: the reads of tagbuf[0], tagbuf[1] and all writes are in range *)
Theorem read_tl_tagbuf limit eoc inp off tagbuf tag len tn ln inp1 off1 :
  bytes_ok inp ->
  read_tl limit eoc [] inp off = ROk tagbuf tag len tn ln inp1 off1 ->
  2 <= zlen tagbuf <= 32 /\ zlen tagbuf = Z.of_nat tn + Z.of_nat ln /\
  inp = tagbuf ++ inp1 /\ off1 = off + zlen tagbuf /\ (0 <= limit -> zlen tagbuf <= limit).
Proof.
  intros Hb Er.
  destruct (read_tl_inv _ _ _ _ _ _ _ _ _ _ _ _ Er) as (suf & -> & Htb & Hne & -> & H32 & Hlt & Hlen & Hft & Hfl).
  cbn [app] in Htb. subst tagbuf.
  apply bytes_ok_app in Hb. destruct Hb as [Hb1 Hb2].
  pose proof (fetch_tag_consumed _ _ _ Hft) as Htn.
  destruct (fetch_length_consumed _ _ _ _ (bytes_ok_skipn tn suf Hb1) Hfl) as [Hln Hrange].
  unfold zlen in *. repeat split; try assumption; lia.
Qed.

(* ------------------------------------------------------------------ *)
(* 8. the full property (all well-formed BER) is false of the tools *)

Theorem xxber_inverse_refuted :
  exists tag body k,
    tag_ok tag /\ bytes_ok body /\ (1 <= k <= 126)%nat /\ zlen body < 256 ^ Z.of_nat k /\
    let x := tag_serialize tag ++ long_len k (zlen body) ++ body in
    unber x = ([LPrim 0 0 tag (zlen (tag_serialize tag) + 1 + Z.of_nat k) (zlen body) body], XOk) /\
    xxber x = ([], Some ECannotEncodeTL).
Proof.
  exists 16, [0], 1%nat.
  split; [unfold tag_ok, two30; split; [lia|reflexivity]|].
  split; [repeat constructor; unfold byte_ok; lia|].
  split; [lia|]. split; [reflexivity|].
  split; vm_compute; reflexivity.
Qed.

(* identifier octets of tag number 2^30 (X.690 8.1.2.4), empty contents *)
Theorem xxber_tag_limit_refuted :
  unber (31 :: mark_cont (digits 128 5 two30) ++ [0]) = ([], XFail (DTagErr 5)).
Proof. vm_compute. reflexivity. Qed.

(* non-vacuity: a document mixing classes, long tags, definite and indefinite lengths *)
Definition example_tree : ber_tree :=
  Cons 64 false [Prim 16 [65; 0; 255]; Cons ((1000 * 4) + 2) true [Prim 0 []; Cons 67 false []]; Prim 0 [0]].

Example example_wf : wf_tree example_tree false.
Proof.
  unfold example_tree. cbn [wf_tree allP negb].
  repeat split; try (unfold two30; cbn; lia); try (repeat constructor; unfold byte_ok; lia);
    try (intros _; vm_compute; discriminate); try (intros _ [H1 H2]; discriminate); try discriminate.
Qed.

Example example_run :
  ser example_tree = [48; 128; 4; 3; 65; 0; 255; 191; 135; 104; 6; 0; 0; 240; 128; 0; 0; 0; 1; 0; 0; 0] /\
  xxber (ser example_tree) = (ser example_tree, None) /\
  opens (fst (unber (ser example_tree))) =
    [(0, 64, 2, -1); (2, 16, 2, 3); (7, 4002, 4, 6); (11, 0, 2, 0); (13, 67, 2, -1); (17, 0, 2, 1)].
Proof. vm_compute. repeat split; reflexivity. Qed.
