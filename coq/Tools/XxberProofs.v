(* Tools/XxberProofs.v — proofs about the unber/enber models (C20). *)
From Coq Require Import ZArith List Lia Bool ZifyBool.
From A1 Require Import Base.Bytes Base.Digits Leaf.BerTL Leaf.BerTLProofs Tools.Unber Tools.Enber Tools.BerTree.
Import ListNotations.
Local Open Scope Z_scope.

(* ------------------------------------------------------------------ *)
(* 1. ber_fetch_tag / ber_fetch_length on a prefix of a buffer they accept:
      "want more" until the header is complete, then the same answer.
      (process_deeper feeds them tagbuf[0..tblen) after every octet read.) *)

Lemma fetch_tag_loop_prefix p : forall q val sk v n,
  fetch_tag_loop (p ++ q) val sk = FOk v n ->
  ((n < sk + length p)%nat -> fetch_tag_loop p val sk = FOk v n) /\
  ((sk + length p <= n)%nat -> fetch_tag_loop p val sk = FMore).
Proof.
  induction p as [|b p IH]; intros q val sk v n H.
  - cbn [app] in H. apply fetch_tag_loop_consumed in H. cbn [length fetch_tag_loop]. split; intros; [lia|reflexivity].
  - cbn [app fetch_tag_loop length] in *.
    destruct (128 <=? b).
    + destruct (two23 <=? val * 128 + (b - 128)); [discriminate|].
      apply IH in H. destruct H as [H1 H2]. split; intros; [apply H1|apply H2]; lia.
    + injection H as Hv Hn. subst. split; intros; [reflexivity|lia].
Qed.

Lemma fetch_tag_prefix p q v n :
  fetch_tag (p ++ q) = FOk v n ->
  ((n <= length p)%nat -> fetch_tag p = FOk v n) /\
  ((length p < n)%nat -> fetch_tag p = FMore).
Proof.
  destruct p as [|b p].
  - intros H. apply fetch_tag_consumed in H. cbn [length fetch_tag]. split; intros; [lia|reflexivity].
  - cbn [app fetch_tag length].
    destruct (b mod 32 =? 31).
    + destruct (fetch_tag_loop (p ++ q) 0 2) eqn:E; try discriminate.
      intros H. injection H as Hv Hn. subst.
      apply fetch_tag_loop_prefix in E. destruct E as [E1 E2].
      split; intros Hl; [rewrite E1 by lia|rewrite E2 by lia]; reflexivity.
    + intros H. injection H as Hv Hn. subst. split; intros; [reflexivity|lia].
Qed.

Lemma fetch_len_loop_prefix k : forall p q acc sk v n,
  fetch_len_loop k (p ++ q) acc sk = FOk v n ->
  ((k <= length p)%nat -> fetch_len_loop k p acc sk = FOk v n) /\
  ((length p < k)%nat -> fetch_len_loop k p acc sk = FMore).
Proof.
  induction k as [|k IH]; intros p q acc sk v n H.
  - cbn [fetch_len_loop] in *. split; intros; [assumption|lia].
  - destruct p as [|b p]; cbn [app fetch_len_loop length] in *.
    + split; intros; [lia|reflexivity].
    + destruct (acc <? two55); [|discriminate].
      apply IH in H. destruct H as [H1 H2]. split; intros; [apply H1|apply H2]; lia.
Qed.

Lemma fetch_length_prefix c p q v n :
  fetch_length c (p ++ q) = FOk v n ->
  ((n <= length p)%nat -> fetch_length c p = FOk v n) /\
  ((length p < n)%nat -> fetch_length c p = FMore).
Proof.
  destruct p as [|b p].
  - intros H. cbn [length fetch_length]. split; intros Hl; [|reflexivity].
    cbn [app] in H. destruct q as [|o q]; cbn [fetch_length] in H; [discriminate|].
    destruct (o <? 128); [injection H as _ Hn; lia|].
    destruct (c && (o =? 128)); [injection H as _ Hn; lia|].
    destruct (o =? 255); [discriminate|].
    apply fetch_len_loop_consumed in H. lia.
  - cbn [app fetch_length length].
    destruct (b <? 128); [intros H; injection H as Hv Hn; subst; split; intros; [reflexivity|lia]|].
    destruct (c && (b =? 128)); [intros H; injection H as Hv Hn; subst; split; intros; [reflexivity|lia]|].
    destruct (b =? 255); [discriminate|].
    intros H. pose proof (fetch_len_loop_consumed _ _ _ _ _ _ H) as [Hn _].
    apply fetch_len_loop_prefix in H. destruct H as [H1 H2].
    split; intros Hl; [apply H1|apply H2]; lia.
Qed.

(* ------------------------------------------------------------------ *)
(* 2. read_tl *)

Lemma is_constr_app p q : p <> [] -> is_constr (p ++ q) = is_constr p.
Proof. destruct p; [congruence|reflexivity]. Qed.

Lemma zlen_snoc {A} (l : list A) x : zlen (l ++ [x]) = zlen l + 1.
Proof. rewrite zlen_app. reflexivity. Qed.

(* a complete header hdr = pre ++ suf, of which pre is already in tagbuf *)
Lemma read_tl_ok limit eoc hdr tag len tn ln rest :
  fetch_tag hdr = FOk tag tn ->
  fetch_length (is_constr hdr) (skipn tn hdr) = FOk len ln ->
  length hdr = (tn + ln)%nat ->
  zlen hdr <= 32 -> (limit = -1 \/ zlen hdr <= limit) ->
  forall suf pre off, hdr = pre ++ suf -> suf <> [] ->
  read_tl limit eoc pre (suf ++ rest) off = ROk hdr tag len tn ln rest (off + zlen suf).
Proof.
  intros Ht Hl Hlen H32 Hlim.
  induction suf as [|ch suf IH]; intros pre off Hh Hne; [congruence|].
  assert (Hpre : zlen pre < zlen hdr).
  { rewrite Hh, zlen_app, zlen_cons. pose proof (zlen_nonneg suf). lia. }
  cbn [app read_tl].
  destruct (limit =? 0) eqn:E0; [pose proof (zlen_nonneg pre); lia|].
  destruct ((0 <=? limit) && (limit <=? zlen pre)) eqn:E1; [lia|].
  destruct (32 <=? zlen pre) eqn:E2; [lia|].
  assert (Hh' : hdr = (pre ++ [ch]) ++ suf) by (rewrite <- app_assoc; exact Hh).
  destruct suf as [|c2 suf].
  - rewrite app_nil_r in Hh'. rewrite <- Hh'. rewrite Ht, Hl.
    rewrite <- Hlen, Nat.eqb_refl. cbn [app]. reflexivity.
  - assert (Hlt : (length (pre ++ [ch]) < length hdr)%nat).
    { rewrite Hh', (app_length (pre ++ [ch])). cbn [length]. lia. }
    assert (Hne' : pre ++ [ch] <> []) by (destruct pre; discriminate).
    rewrite Hh' in Ht. destruct (fetch_tag_prefix _ _ _ _ Ht) as [T1 T2].
    destruct (le_lt_dec tn (length (pre ++ [ch]))) as [Hc|Hc].
    + rewrite T1 by exact Hc.
      rewrite Hh' in Hl. rewrite is_constr_app in Hl by exact Hne'.
      rewrite skipn_app in Hl.
      replace (tn - length (pre ++ [ch]))%nat with 0%nat in Hl by lia. cbn [skipn] in Hl.
      destruct (fetch_length_prefix _ _ _ _ _ Hl) as [_ L2].
      rewrite L2 by (rewrite skipn_length; lia).
      rewrite <- Hh' in Ht.
      rewrite (IH (pre ++ [ch]) (off + 1) Hh' ltac:(discriminate)).
      f_equal. rewrite !zlen_cons. lia.
    + rewrite T2 by exact Hc. rewrite <- Hh' in Ht.
      rewrite (IH (pre ++ [ch]) (off + 1) Hh' ltac:(discriminate)).
      f_equal. rewrite !zlen_cons. lia.
Qed.

Lemma read_tl_hdr limit eoc hdr tag len tn ln rest off :
  fetch_tag hdr = FOk tag tn ->
  fetch_length (is_constr hdr) (skipn tn hdr) = FOk len ln ->
  length hdr = (tn + ln)%nat ->
  zlen hdr <= 32 -> (limit = -1 \/ zlen hdr <= limit) ->
  read_tl limit eoc [] (hdr ++ rest) off = ROk hdr tag len tn ln rest (off + zlen hdr).
Proof.
  intros Ht Hl Hlen H32 Hlim.
  apply (read_tl_ok limit eoc hdr tag len tn ln rest Ht Hl Hlen H32 Hlim hdr [] off eq_refl).
  intros ->. cbn in Hlen. apply fetch_tag_consumed in Ht. cbn in Ht. lia.
Qed.

(* ------------------------------------------------------------------ *)
(* 3. the header octets written by ser *)

Lemma constr_bit_first c v : 0 <= c < 4 -> 0 <= v < 32 -> constr_bit (c * 64 + v) = false.
Proof.
  intros Hc Hv. unfold constr_bit. apply Z.eqb_neq.
  rewrite <- (Z.div_unique (c * 64 + v) 32 (2 * c) v) by lia.
  rewrite Z.mul_comm, Z.mod_mul by lia. discriminate.
Qed.

Lemma tag_serialize_shape tag : tag_ok tag ->
  exists b tl, tag_serialize tag = b :: tl /\ 0 <= b < 256 /\ constr_bit b = false /\
               (b = 0 -> tag = 0 /\ tl = []) /\ (length tl <= 5)%nat.
Proof.
  intros [H0 H1]. unfold tag_serialize.
  pose proof (Z.mod_pos_bound tag 4 ltac:(lia)) as Hm.
  assert (Hq : 0 <= tag / 4) by (apply Z.div_pos; lia).
  destruct (tag / 4 <=? 30) eqn:E.
  - exists (tag mod 4 * 64 + tag / 4), []. unfold constr_bit.
    split; [reflexivity|]. split; [lia|]. split.
    + apply constr_bit_first; lia.
    + split; [|cbn; lia]. intros Hb. split; [|reflexivity].
      pose proof (Z.div_mod tag 4 ltac:(lia)). lia.
  - exists (tag mod 4 * 64 + 31), (mark_cont (digits 128 (tag_required_size (tag / 4)) (tag / 4))).
    unfold constr_bit.
    split; [reflexivity|]. split; [lia|]. split.
    + apply constr_bit_first; lia.
    + split; [lia|].
      rewrite mark_cont_length, digits_length.
      pose proof (tag_required_size_spec (tag / 4) ltac:(lia)) as [_ Hr]. lia.
Qed.

Lemma fetch_tag_bit5 b l : 0 <= b -> constr_bit b = false -> fetch_tag ((b + 32) :: l) = fetch_tag (b :: l).
Proof.
  intros Hb Hc. unfold constr_bit in Hc. apply Z.eqb_neq in Hc.
  cbn [fetch_tag].
  assert (E1 : (b + 32) mod 32 = b mod 32).
  { replace (b + 32) with (b + 1 * 32) by lia. apply Z.mod_add. lia. }
  assert (E2 : (b + 32) / 64 = b / 64).
  { pose proof (Z.mod_pos_bound (b / 32) 2 ltac:(lia)).
    pose proof (Z.div_mod b 32 ltac:(lia)). pose proof (Z.mod_pos_bound b 32 ltac:(lia)).
    pose proof (Z.div_mod (b / 32) 2 ltac:(lia)).
    assert (Hb64 : b = 64 * (b / 32 / 2) + b mod 32) by lia.
    rewrite <- (Z.div_unique (b + 32) 64 (b / 32 / 2) (b mod 32 + 32)) by lia.
    rewrite <- (Z.div_unique b 64 (b / 32 / 2) (b mod 32)) by lia. reflexivity. }
  rewrite E1, E2. reflexivity.
Qed.

Lemma len_serialize_shape n : 0 <= n <= rssize_max ->
  exists b tl, len_serialize n = b :: tl /\ (b = 0 -> n = 0) /\ (length tl <= 8)%nat.
Proof.
  intros Hn. unfold len_serialize. destruct (n <=? 127) eqn:E.
  - exists n, []. split; [reflexivity|]. split; [lia|cbn; lia].
  - destruct (len_required_size_spec n ltac:(lia)) as (_ & Hr).
    exists (128 + Z.of_nat (len_required_size n)), (be_bytes (len_required_size n) n).
    split; [reflexivity|]. split; [lia|]. rewrite be_bytes_length. lia.
Qed.

(* the header of a definite-length encoding *)
Definition hdr_of (c : bool) (tag n : Z) : list Z :=
  (if c then mark_constructed (tag_serialize tag) else tag_serialize tag) ++ len_serialize n.

Lemma hdr_of_facts c tag n : tag_ok tag -> 0 <= n <= rssize_max ->
  let hdr := hdr_of c tag n in
  let tn := length (tag_serialize tag) in
  let ln := length (len_serialize n) in
  fetch_tag hdr = FOk tag tn /\ is_constr hdr = c /\
  fetch_length c (skipn tn hdr) = FOk n ln /\ length hdr = (tn + ln)%nat /\ zlen hdr <= 32 /\
  (c = false -> ~ (tag = 0 /\ n = 0) -> (nth 0 hdr 0 =? 0) && (nth 1 hdr 0 =? 0) = false) /\
  (c = true -> (nth 0 hdr 0 =? 0) = false).
Proof.
  intros Ht Hn hdr tn ln.
  destruct (tag_serialize_shape tag Ht) as (b & tl & Hts & Hb & Hcb & Hb0 & Htl).
  destruct (len_serialize_shape n Hn) as (lb & ltl & Hls & Hlb0 & Hltl).
  assert (Hlen_ts : forall c' : bool, length (if c' then mark_constructed (tag_serialize tag) else tag_serialize tag) = tn).
  { intros [|]; [|reflexivity]. unfold tn. rewrite Hts. reflexivity. }
  assert (Hft : fetch_tag hdr = FOk tag tn).
  { unfold hdr, hdr_of. destruct c.
    - rewrite Hts. cbn [mark_constructed app]. rewrite fetch_tag_bit5 by (lia || exact Hcb).
      change (b :: tl ++ len_serialize n) with ((b :: tl) ++ len_serialize n). rewrite <- Hts.
      apply tag_roundtrip; exact Ht.
    - apply tag_roundtrip; exact Ht. }
  split; [exact Hft|].
  assert (Hic : is_constr hdr = c).
  { unfold hdr, hdr_of. rewrite Hts. destruct c; cbn [mark_constructed app is_constr]; [|exact Hcb].
    unfold constr_bit in *. apply Z.eqb_neq in Hcb. apply Z.eqb_eq.
    replace (b + 32) with (b + 1 * 32) by lia. rewrite Z.div_add by lia.
    pose proof (Z.mod_pos_bound (b / 32) 2 ltac:(lia)).
    replace (b / 32 + 1) with (b / 32 + 1) by lia.
    rewrite Z.add_mod by lia. replace ((b / 32) mod 2) with 0 by lia. reflexivity. }
  split; [exact Hic|].
  split.
  { unfold hdr, hdr_of. rewrite skipn_app, (Hlen_ts c), Nat.sub_diag.
    rewrite skipn_all2 by (rewrite (Hlen_ts c); lia). cbn [skipn app].
    rewrite <- (app_nil_r (len_serialize n)). apply length_roundtrip; exact Hn. }
  split; [unfold hdr, hdr_of; rewrite app_length, (Hlen_ts c); reflexivity|].
  split.
  { unfold zlen, hdr, hdr_of. rewrite app_length, (Hlen_ts c). unfold tn. rewrite Hts, Hls. cbn [length]. lia. }
  split.
  - intros -> Hnz. unfold hdr, hdr_of. rewrite Hts, Hls.
    destruct (b =? 0) eqn:Eb.
    + destruct (Hb0 ltac:(lia)) as [-> ->]. cbn [app nth].
      destruct (lb =? 0) eqn:El; [|rewrite andb_false_r; reflexivity].
      exfalso. apply Hnz. split; [reflexivity|apply Hlb0; lia].
    + cbn [app nth]. rewrite Eb. reflexivity.
  - intros ->. unfold hdr, hdr_of. rewrite Hts. cbn [mark_constructed app nth]. lia.
Qed.

(* the header of an indefinite-length encoding *)
Definition hdr_indef (tag : Z) : list Z := mark_constructed (tag_serialize tag) ++ [128].

Lemma hdr_indef_facts tag : tag_ok tag ->
  let hdr := hdr_indef tag in
  let tn := length (tag_serialize tag) in
  fetch_tag hdr = FOk tag tn /\ is_constr hdr = true /\
  fetch_length true (skipn tn hdr) = FOk (-1) 1 /\ length hdr = (tn + 1)%nat /\ zlen hdr <= 32 /\
  (nth 0 hdr 0 =? 0) = false.
Proof.
  intros Ht hdr tn.
  destruct (tag_serialize_shape tag Ht) as (b & tl & Hts & Hb & Hcb & Hb0 & Htl).
  assert (Hlen_ts : length (mark_constructed (tag_serialize tag)) = tn) by (unfold tn; rewrite Hts; reflexivity).
  split.
  { unfold hdr, hdr_indef. rewrite Hts. cbn [mark_constructed app]. rewrite fetch_tag_bit5 by (lia || exact Hcb).
    change (b :: tl ++ [128]) with ((b :: tl) ++ [128]). rewrite <- Hts. apply tag_roundtrip; exact Ht. }
  split.
  { unfold hdr, hdr_indef. rewrite Hts. cbn [mark_constructed app is_constr].
    unfold constr_bit in *. apply Z.eqb_neq in Hcb. apply Z.eqb_eq.
    replace (b + 32) with (b + 1 * 32) by lia. rewrite Z.div_add by lia.
    pose proof (Z.mod_pos_bound (b / 32) 2 ltac:(lia)).
    rewrite Z.add_mod by lia. replace ((b / 32) mod 2) with 0 by lia. reflexivity. }
  split.
  { unfold hdr, hdr_indef. rewrite skipn_app, Hlen_ts, Nat.sub_diag.
    rewrite skipn_all2 by (rewrite Hlen_ts; lia). reflexivity. }
  split; [unfold hdr, hdr_indef; rewrite app_length, Hlen_ts; reflexivity|].
  split.
  { unfold zlen, hdr, hdr_indef. rewrite app_length, Hlen_ts. unfold tn. rewrite Hts. cbn [length]. lia. }
  unfold hdr, hdr_indef. rewrite Hts. cbn [mark_constructed app nth]. lia.
Qed.
