(* Tools/Enber.v — executable model of asn1-tools/enber/enber.c (process,
   process_line and its emitter) at the level of the line records of
   Tools/Unber.v.  What process_line extracts from the text of a line is:
   the element name (P/C/I, '/' for closers), T (class word + decimal number),
   TL, V and, for P, the content up to the next '<' with "&#xNN;" un-escaped.
   The decimal/attribute scanning itself is below this interface (it is covered
   by the tie only, on the real text).  Output already written when a
   diagnostic stops the program is kept (stdout is flushed by exit()).
   No proofs in this file. *)
From Coq Require Import ZArith List Lia Bool.
From A1 Require Import Base.Bytes Leaf.BerTL Tools.Unber.
Import ListNotations.
Local Open Scope Z_scope.

Definition two32 : Z := 4294967296.
Definition two63 : Z := 9223372036854775808.

Inductive eerr :=
| EInvalidTLV        (* Invalid TL or V value *)
| EInvalidTag        (* Invalid tag value *)
| ECannotEncodeTL    (* Cannot encode TL at line %d in the given number of bytes *)
| EValueLen.         (* Could not encode value of %ld chars at line %d in %ld bytes *)

(* *buf |= 0x20 *)
Definition set_constr (bs : list Z) : list Z :=
  match bs with
  | b :: tl => (if constr_bit b then b else b + 32) :: tl
  | [] => []
  end.

(* tlv_tag = ((tag_value << 2) | tag_class) in a 32-bit ber_tlv_tag_t, with
   tag_value = strtoul(...) <= UINT_MAX read back from "[CLASS number]" *)
Definition reparse_tag (tag : Z) : option Z :=
  if two32 <=? tag / 4 then None
  else Some (((tag / 4) * 4) mod two32 + tag mod 4).

(* the TL octets of an opening line; kind: 0 = P, 1 = C, 2 = I.
   TL and V are read with strtoul into the signed ber_tlv_len_t: a decimal
   >= 2^63 becomes negative (or sets errno at >= 2^64) and fails the test
   "errno || (opt_tl_len && opt_tl_len < 2) || tlv_len < 0"; a missing TL
   attribute is tl = 0. *)
Definition enber_tl (kind : Z) (tag tl vlen : Z) : list Z * option eerr :=
  let tlv_len := if kind =? 2 then 0 else vlen in
  if (negb (tl =? 0) && (tl <? 2)) || (two63 <=? tl) || (tlv_len <? 0) || (two63 <=? tlv_len) then ([], Some EInvalidTLV)
  else match reparse_tag tag with
       | None => ([], Some EInvalidTag)
       | Some tlv_tag =>
           let hdr := tag_serialize tlv_tag ++ (if kind =? 2 then [128] else len_serialize tlv_len) in
           if negb (tl =? 0) && negb (zlen hdr =? tl) then ([], Some ECannotEncodeTL)
           else (if kind =? 0 then hdr else set_constr hdr, None)
       end.

(* process_line on one record: octets written, diagnostic if the program stops *)
Definition enber_line (l : line) : list Z * option eerr :=
  match l with
  | LOpen _ _ tag tl vlen => enber_tl (if vlen =? -1 then 2 else 1) tag tl vlen
  | LPrim _ _ tag tl vlen body =>
      match enber_tl 0 tag tl vlen with
      | (hdr, Some e) => (hdr, Some e)
      | (hdr, None) =>
          if zlen body =? vlen then (hdr ++ body, None) else (hdr ++ body, Some EValueLen)
      end
  | LClose _ _ _ _ => ([], None)                 (* closing tags are ignored ... *)
  | LCloseI _ _ _ => ([0; 0], None)              (* ... but "</I" writes the end-of-content octets *)
  | LTrunc _ _ _ _ _ _ _ => ([], None)           (* no '\n': process() never hands the last, unterminated line over *)
  end.

Fixpoint enber (ls : list line) : list Z * option eerr :=
  match ls with
  | [] => ([], None)
  | l :: tl =>
      match enber_line l with
      | (bs, Some e) => (bs, Some e)
      | (bs, None) => let (bs', r) := enber tl in (bs ++ bs', r)
      end
  end.

(* unber -p x | enber - *)
Definition xxber (inp : list Z) : list Z * option eerr := enber (fst (unber inp)).
