(* Base/Bytes.v — byte lists, big-endian values, two's complement.
   Definitions are executable (extracted); lemmas about them live here too
   because every leaf file needs them. *)
From Coq Require Import ZArith List Lia Bool ZifyBool.
Import ListNotations.
Local Open Scope Z_scope.

Definition byte_ok (b : Z) : Prop := 0 <= b < 256.
Definition bytes_ok (bs : list Z) : Prop := Forall byte_ok bs.

Definition byte_okb (b : Z) : bool := (0 <=? b) && (b <? 256).
Definition bytes_okb (bs : list Z) : bool := forallb byte_okb bs.

Definition zlen {A} (l : list A) : Z := Z.of_nat (length l).

(* unsigned big-endian value of a byte list *)
Fixpoint be_val (bs : list Z) : Z :=
  match bs with
  | [] => 0
  | b :: tl => b * 256 ^ zlen tl + be_val tl
  end.

(* the n low-order base-256 digits of v, most significant first *)
Fixpoint be_bytes (n : nat) (v : Z) : list Z :=
  match n with
  | O => []
  | S k => (v / 256 ^ Z.of_nat k) mod 256 :: be_bytes k v
  end.

(* two's-complement value of a byte list of any length ([] denotes 0) *)
Definition twos_value (bs : list Z) : Z :=
  match bs with
  | [] => 0
  | b :: _ => if 128 <=? b then be_val bs - 256 ^ zlen bs else be_val bs
  end.

(* X.690 8.3.2: contents octets of an INTEGER are minimal *)
Definition minimal_twos (bs : list Z) : bool :=
  match bs with
  | [] => false
  | [_] => true
  | b :: b1 :: _ =>
      negb ((b =? 0) && (b1 <? 128)) && negb ((b =? 255) && (128 <=? b1))
  end.

(* ---------------------------------------------------------------- *)

Lemma bytes_okb_spec bs : bytes_okb bs = true <-> bytes_ok bs.
Proof.
  unfold bytes_okb, bytes_ok. rewrite forallb_forall, Forall_forall.
  unfold byte_okb, byte_ok. split; intros H x Hx; specialize (H x Hx); lia.
Qed.

Lemma pow256_pos n : 0 < 256 ^ Z.of_nat n.
Proof. apply Z.pow_pos_nonneg; lia. Qed.

Lemma pow256_S n : 256 ^ Z.of_nat (S n) = 256 * 256 ^ Z.of_nat n.
Proof. rewrite Nat2Z.inj_succ, Z.pow_succ_r by lia. reflexivity. Qed.

Lemma zlen_cons {A} (x : A) l : zlen (x :: l) = zlen l + 1.
Proof. unfold zlen. cbn [length]. lia. Qed.

Lemma zlen_nonneg {A} (l : list A) : 0 <= zlen l.
Proof. unfold zlen. lia. Qed.

Lemma zlen_app {A} (l1 l2 : list A) : zlen (l1 ++ l2) = zlen l1 + zlen l2.
Proof. unfold zlen. rewrite app_length. lia. Qed.

Lemma pow256_zlen_cons {A} (x : A) l : 256 ^ zlen (x :: l) = 256 * 256 ^ zlen l.
Proof. unfold zlen. apply pow256_S. Qed.

Lemma be_val_bound bs : bytes_ok bs -> 0 <= be_val bs < 256 ^ zlen bs.
Proof.
  induction 1 as [|b tl Hb Htl IH]; cbn [be_val].
  - unfold zlen; simpl. lia.
  - rewrite pow256_zlen_cons. unfold byte_ok in Hb.
    pose proof (pow256_pos (length tl)) as HP. fold (zlen tl) in HP. nia.
Qed.

Lemma be_val_app l1 l2 :
  be_val (l1 ++ l2) = be_val l1 * 256 ^ zlen l2 + be_val l2.
Proof.
  induction l1 as [|b tl IH]; cbn [be_val app]; [lia|].
  rewrite IH, zlen_app, Z.pow_add_r by apply zlen_nonneg. ring.
Qed.

Lemma be_bytes_length n v : length (be_bytes n v) = n.
Proof. induction n; simpl; auto. Qed.

Lemma be_bytes_ok n v : bytes_ok (be_bytes n v).
Proof.
  induction n; cbn [be_bytes]; constructor; auto.
  unfold byte_ok. apply Z.mod_pos_bound. lia.
Qed.

Lemma be_val_be_bytes n v : be_val (be_bytes n v) = v mod 256 ^ Z.of_nat n.
Proof.
  induction n as [|n IH]; cbn [be_bytes be_val].
  - simpl. now rewrite Z.mod_1_r.
  - unfold zlen. rewrite be_bytes_length, IH, pow256_S.
    pose proof (pow256_pos n) as HP. set (P := 256 ^ Z.of_nat n) in *.
    rewrite (Z.mul_comm 256 P), Z.rem_mul_r by lia. lia.
Qed.

(* the loop "value = (value << 8) | *b" without wrap-around *)
Lemma fold_be_val bs a0 :
  fold_left (fun a b => a * 256 + b) bs a0 = a0 * 256 ^ zlen bs + be_val bs.
Proof.
  revert a0. induction bs as [|b tl IH]; intros a0; cbn [fold_left be_val].
  - unfold zlen; simpl. lia.
  - rewrite IH, pow256_zlen_cons. ring.
Qed.

(* the same loop on a 2^k-bit unsigned register, k a multiple of 8 *)
Lemma fold_be_val_mod M bs a0 :
  0 < M -> M mod 256 = 0 -> bytes_ok bs -> 0 <= a0 < M ->
  fold_left (fun a b => (a * 256) mod M + b) bs a0
  = (a0 * 256 ^ zlen bs + be_val bs) mod M.
Proof.
  intros HM H256 Hbs. revert a0.
  induction Hbs as [|b tl Hb Htl IH]; intros a0 Ha; cbn [fold_left be_val].
  - unfold zlen; simpl. rewrite Z.mod_small; lia.
  - assert (Hstep : (a0 * 256) mod M + b = (a0 * 256 + b) mod M).
    { unfold byte_ok in Hb.
      assert (Hdiv : M = (M / 256) * 256).
      { pose proof (Z.div_mod M 256 ltac:(lia)). lia. }
      set (q := M / 256) in *.
      assert (0 < q) by lia.
      rewrite <- (Z.add_mod_idemp_l (a0 * 256) b M) by lia.
      assert (Hx : (a0 * 256) mod M = (a0 mod q) * 256).
      { rewrite Hdiv. apply Z.mul_mod_distr_r; lia. }
      rewrite Hx. pose proof (Z.mod_pos_bound a0 q ltac:(lia)).
      symmetry. apply Z.mod_small. nia. }
    rewrite Hstep. rewrite IH.
    + rewrite pow256_zlen_cons.
      set (X := a0 * 256 + b). set (P := 256 ^ zlen tl). set (V := be_val tl).
      replace (a0 * (256 * P) + (b * P + V)) with (X * P + V) by (subst X; ring).
      rewrite <- (Z.add_mod_idemp_l (X mod M * P) V M) by lia.
      rewrite (Z.mul_mod_idemp_l X P M) by lia.
      rewrite (Z.add_mod_idemp_l (X * P) V M) by lia. reflexivity.
    + apply Z.mod_pos_bound. lia.
Qed.
