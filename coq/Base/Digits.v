(* Base/Digits.v — big-endian digit lists in an arbitrary base (used with base
   128 for tag numbers and OID subidentifiers, base 256 elsewhere). *)
From Coq Require Import ZArith List Lia Bool ZifyBool.
From A1 Require Import Base.Bytes.
Import ListNotations.
Local Open Scope Z_scope.

Fixpoint dval (B : Z) (ds : list Z) : Z :=
  match ds with
  | [] => 0
  | d :: tl => d * B ^ zlen tl + dval B tl
  end.

Fixpoint digits (B : Z) (n : nat) (v : Z) : list Z :=
  match n with
  | O => []
  | S k => (v / B ^ Z.of_nat k) mod B :: digits B k v
  end.

Definition digits_ok (B : Z) (ds : list Z) : Prop := Forall (fun d => 0 <= d < B) ds.

Section Base.
  Variable B : Z.
  Hypothesis HB : 1 < B.

  Lemma powB_pos n : 0 < B ^ Z.of_nat n.
  Proof. apply Z.pow_pos_nonneg; lia. Qed.

  Lemma powB_S n : B ^ Z.of_nat (S n) = B * B ^ Z.of_nat n.
  Proof. rewrite Nat2Z.inj_succ, Z.pow_succ_r by lia. reflexivity. Qed.

  Lemma powB_zlen_cons {A} (x : A) l : B ^ zlen (x :: l) = B * B ^ zlen l.
  Proof. unfold zlen. apply powB_S. Qed.

  Lemma digits_length n v : length (digits B n v) = n.
  Proof. induction n; simpl; auto. Qed.

  Lemma digits_ok_digits n v : digits_ok B (digits B n v).
  Proof.
    induction n; cbn [digits]; constructor; auto.
    apply Z.mod_pos_bound. lia.
  Qed.

  Lemma dval_bound ds : digits_ok B ds -> 0 <= dval B ds < B ^ zlen ds.
  Proof.
    induction 1 as [|d tl Hd Htl IH]; cbn [dval].
    - unfold zlen; simpl. lia.
    - rewrite powB_zlen_cons. pose proof (powB_pos (length tl)) as HP. fold (zlen tl) in HP. nia.
  Qed.

  Lemma dval_digits n v : dval B (digits B n v) = v mod B ^ Z.of_nat n.
  Proof.
    induction n as [|n IH]; cbn [digits dval].
    - simpl. now rewrite Z.mod_1_r.
    - unfold zlen. rewrite digits_length, IH, powB_S.
      pose proof (powB_pos n) as HP. set (P := B ^ Z.of_nat n) in *.
      rewrite (Z.mul_comm B P), Z.rem_mul_r by lia. lia.
  Qed.

  Lemma dval_app l1 l2 : dval B (l1 ++ l2) = dval B l1 * B ^ zlen l2 + dval B l2.
  Proof.
    induction l1 as [|d tl IH]; cbn [dval app]; [lia|].
    rewrite IH, zlen_app, Z.pow_add_r by apply zlen_nonneg. ring.
  Qed.

  (* the accumulation loop "val = val * B + d" *)
  Lemma fold_dval ds a0 :
    fold_left (fun a d => a * B + d) ds a0 = a0 * B ^ zlen ds + dval B ds.
  Proof.
    revert a0. induction ds as [|d tl IH]; intros a0; cbn [fold_left dval].
    - unfold zlen; simpl. lia.
    - rewrite IH, powB_zlen_cons. ring.
  Qed.
End Base.
