(* Leaf/NativeWide.v — executable model of the two C representations of one
   abstract INTEGER / ENUMERATED value that the option -fwide-types switches
   between, and of the paths that take each of them to the byte producers
   (skeletons/NativeInteger.c, NativeInteger_oer.c, NativeEnumerated.c vs INTEGER.c).

   native: a 64-bit register [reg] (0 <= reg < 2^64), read as `long` when the
           generated asn_INTEGER_specifics_t has field_unsigned = 0 and as
           `unsigned long` when field_unsigned = 1;
   wide:   INTEGER_t = the contents octets (any byte list denoting the value
           in two's complement, not necessarily minimal).

   Modelled as the code is (LP64):
   - INTEGER_encode_der has its own copy of the strip loop ([der_strip] below,
     transcribed from INTEGER.c:79-96, not shared with asn_imax2INTEGER);
   - NativeInteger_encode_der never looks at field_unsigned: it serialises the
     8 octets of the register (`unsigned long native = *ptr; buf[i] = native >> ..`)
     and calls INTEGER_encode_der on them, i.e. strips them as a SIGNED number;
   - NativeInteger_decode_ber: asn_INTEGER2ulong (field_unsigned) or
     asn_INTEGER2long on the contents octets, result stored in the register;
   - NativeInteger_encode_uper / _encode_oer: asn_ulong2INTEGER or
     asn_long2INTEGER into a temporary INTEGER_t which is handed to
     INTEGER_encode_uper / INTEGER_encode_oer (the wide encoders);
   - INTEGER_decode_ber = ber_decode_primitive: the contents octets are kept as
     they are.
   NativeEnumerated_encode_der = NativeInteger_encode_der and ENUMERATED_t =
   INTEGER_t with INTEGER_encode_der, so the same model covers ENUMERATED. *)
From Coq Require Import ZArith List Lia Bool.
From A1 Require Import Base.Bytes Leaf.IntegerConv.
Import ListNotations.
Local Open Scope Z_scope.

(* INTEGER_encode_der, the loop "Compute the number of superfluous leading bytes":
     for(; buf < end1; buf++) { switch( *buf ) {
        case 0x00: if((buf[1] & 0x80) == 0) continue; break;
        case 0xff: if((buf[1] & 0x80)) continue; break; }
        break; }                                                          *)
Fixpoint der_strip (bs : list Z) : list Z :=
  match bs with
  | [] => []
  | [b] => [b]
  | b :: ((b1 :: _) as tl) =>
      if b =? 0 then (if b1 <? 128 then der_strip tl else bs)
      else if b =? 255 then (if 128 <=? b1 then der_strip tl else bs)
      else bs
  end.

(* wide: contents octets INTEGER_encode_der hands to der_encode_primitive (st->buf non-NULL) *)
Definition INTEGER_der_contents (bs : list Z) : list Z := der_strip bs.

(* native: the register's 8-octet big-endian image through INTEGER_encode_der *)
Definition NativeInteger_der_contents (reg : Z) : list Z :=
  INTEGER_der_contents (be_bytes 8 (reg mod two64)).

(* the register holding an abstract value, and the abstract value of a register *)
Definition reg_of (v : Z) : Z := v mod two64.
Definition abs_of (unsigned : bool) (reg : Z) : Z :=
  if unsigned then reg else to_signed64 reg.

(* NativeInteger_decode_ber on the contents octets: None = RC_FAIL *)
Definition NativeInteger_decode_contents (unsigned : bool) (cs : list Z) : option Z :=
  if unsigned then
    match INTEGER2ulong cs with COk u => Some u | CErange => None end
  else
    match INTEGER2long cs with COk v => Some (to_unsigned64 v) | CErange => None end.

(* INTEGER_decode_ber (ber_decode_primitive) keeps the contents octets *)
Definition INTEGER_decode_contents (cs : list Z) : list Z := cs.

(* the INTEGER_t NativeInteger_encode_uper / NativeInteger_encode_oer build and
   pass to the wide encoder *)
Definition native_to_INTEGER (unsigned : bool) (reg : Z) : list Z :=
  if unsigned then ulong2INTEGER reg else long2INTEGER (to_signed64 reg).

(* the value NativeInteger_decode_uper / _decode_oer store from the INTEGER_t the
   wide decoder produced *)
Definition INTEGER_to_native (unsigned : bool) (cs : list Z) : option Z :=
  NativeInteger_decode_contents unsigned cs.

(* complete primitive TLV: identifier octet 0x02 and a short-form length (contents
   of a register never exceed 8 octets) — used by the front end of the tie *)
Definition native_der_tlv (reg : Z) : list Z :=
  let c := NativeInteger_der_contents reg in 2 :: zlen c :: c.
