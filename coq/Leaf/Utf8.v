(* Leaf/Utf8.v — C08: skeletons/UTF8String.c, UTF8String__process() and its three callers
   UTF8String_length(), UTF8String_to_wcs(), UTF8String_constraint() — the length / validation
   state machine every UTF8String checker goes through (the built-in one and the SIZE test
   `size = UTF8String_length(st); if((ssize_t)size < 0) ...` of a generated checker).

   Model  [process]: the loop of the C, octet by octet:
            want = UTF8String_ht[0][ch >> 4]; -1 => UTF8String_ht[1][ch & 0x0F]; -1 / 0 => U8E_ILLSTART;
            buf + want > end => U8E_TRUNC;
            value = ch & (0xff >> want);
            every one of the want-1 following octets: ch < 0x80 || ch > 0xbf => U8E_NOTCONT,
                                                     value = (value << 6) | (ch & 0x3F);
            value < UTF8String_mv[want] => U8E_NOTMIN;   record value, length++.
          (value << 6) | (ch & 0x3F) is written value * 64 + (ch land 63): the six low bits of the
          shifted value are clear; value never leaves int32_t ([Utf8Proofs.wfseq_value_int32]).
   Spec   [WfSeq] / [Chars]: ONE character = a start octet whose table entry is `want`, exactly
          want-1 continuation octets 0x80..0xBF, the value not below the minimum of that length;
          a string = a concatenation of characters.  This is the generalised UTF-8 of the C's tables
          (1..6 octets, up to 0x7FFFFFFF, surrogates included), NOT the Unicode standard's table 3-7:
          [uwf] is the latter; Utf8Proofs has the exact theorem against [Chars], the inclusion
          [uwf -> accepted] and the refuted converse.
   No proofs in this file. *)
From Coq Require Import ZArith List Bool.
Import ListNotations.
Local Open Scope Z_scope.

Definition zlen {A} (l : list A) : Z := Z.of_nat (length l).

(* static const int UTF8String_ht[2][16] *)
Definition ht0 : list Z := [1; 1; 1; 1; 1; 1; 1; 1; 0; 0; 0; 0; 2; 2; 3; -1].
Definition ht1 : list Z := [4; 4; 4; 4; 4; 4; 4; 4; 5; 5; 5; 5; 6; 6; -1; -1].
(* static const int32_t UTF8String_mv[7] *)
Definition mv : list Z := [0; 0; 128; 2048; 65536; 2097152; 67108864].
Definition mv_of (want : Z) : Z := nth (Z.to_nat want) mv 0.

(* "Compute the sequence length": None = U8E_ILLSTART *)
Definition want_of (ch : Z) : option Z :=
  let w := nth (Z.to_nat (Z.shiftr ch 4)) ht0 0 in
  if w =? -1 then
    let w2 := nth (Z.to_nat (Z.land ch 15)) ht1 0 in
    if w2 =? -1 then None else Some w2
  else if w =? 0 then None
  else Some w.

(* value = ch & (0xff >> want) *)
Definition lead (ch want : Z) : Z := Z.land ch (Z.shiftr 255 want).

(* the inner loop over the continuation octets; None = U8E_NOTCONT *)
Fixpoint conts (value : Z) (cs : list Z) : option Z :=
  match cs with
  | [] => Some value
  | ch :: r => if (ch <? 128) || (191 <? ch) then None
               else conts (value * 64 + Z.land ch 63) r
  end.

Inductive u8res :=
| U8Ok (cps : list Z)       (* the recorded values; the returned length is their number *)
| U8Trunc | U8IllStart | U8NotCont | U8NotMin
| U8Fuel.                   (* not a result of the C: the fuel of the model ran out *)

(* the outer loop; every iteration consumes at least one octet: fuel = number of octets suffices *)
Fixpoint process (fuel : nat) (bs : list Z) : u8res :=
  match bs with
  | [] => U8Ok []
  | ch :: tl =>
      match fuel with
      | O => U8Fuel
      | S f =>
          match want_of ch with
          | None => U8IllStart
          | Some want =>
              if zlen tl <? want - 1 then U8Trunc
              else
                match conts (lead ch want) (firstn (Z.to_nat (want - 1)) tl) with
                | None => U8NotCont
                | Some value =>
                    if value <? mv_of want then U8NotMin
                    else
                      match process f (skipn (Z.to_nat (want - 1)) tl) with
                      | U8Ok cps => U8Ok (value :: cps)
                      | e => e
                      end
                end
          end
      end
  end.

Definition u8_process (bs : list Z) : u8res := process (length bs) bs.

(* the ssize_t the C returns: U8E_TRUNC -1, U8E_ILLSTART -2, U8E_NOTCONT -3, U8E_NOTMIN -4, U8E_EINVAL -5 *)
Definition code_of (r : u8res) : Z :=
  match r with
  | U8Ok cps => zlen cps
  | U8Trunc => -1 | U8IllStart => -2 | U8NotCont => -3 | U8NotMin => -4
  | U8Fuel => -100
  end.

(* UTF8String_length(st): st == NULL or st->buf == NULL is None *)
Definition utf8_length (st : option (list Z)) : Z :=
  match st with
  | None => -5
  | Some bs => code_of (u8_process bs)
  end.

(* UTF8String_constraint(): -1 iff the length is negative *)
Definition utf8_constraint (st : option (list Z)) : Z := if utf8_length st <? 0 then -1 else 0.

(* UTF8String_to_wcs(st, dst, dstlen): (return value, what is stored into dst[0 .. dstlen)).
   Values are recorded while there is room, then one terminating 0 if there is still room.
   A failing scan has already stored the values of the characters in front of the broken one
   (and no terminator); its return value is 0. *)
Fixpoint recorded (fuel : nat) (bs : list Z) : list Z :=
  match bs with
  | [] => []
  | ch :: tl =>
      match fuel with
      | O => []
      | S f =>
          match want_of ch with
          | None => []
          | Some want =>
              if zlen tl <? want - 1 then []
              else
                match conts (lead ch want) (firstn (Z.to_nat (want - 1)) tl) with
                | None => []
                | Some value =>
                    if value <? mv_of want then []
                    else value :: recorded f (skipn (Z.to_nat (want - 1)) tl)
                end
          end
      end
  end.

Definition utf8_to_wcs (bs : list Z) (dstlen : nat) : Z * list Z :=
  match u8_process bs with
  | U8Ok cps => (zlen cps, firstn dstlen cps ++ (if Nat.ltb (length cps) dstlen then [0] else []))
  | _ => (0, firstn dstlen (recorded (length bs) bs))
  end.

(* ------------------------------------------------------------------ Spec, written from the tables *)
Inductive WfSeq : list Z -> Z -> Prop :=
| WfSeq_intro : forall ch cs want value,
    want_of ch = Some want ->
    zlen cs = want - 1 ->
    conts (lead ch want) cs = Some value ->
    mv_of want <= value ->
    WfSeq (ch :: cs) value.

Inductive Chars : list Z -> list Z -> Prop :=
| Chars_nil : Chars [] []
| Chars_cons : forall s v rest vs, WfSeq s v -> Chars rest vs -> Chars (s ++ rest) (v :: vs).

(* the start octets by bit pattern (what the two table rows spell) *)
Definition want_ranges (ch : Z) : option Z :=
  if ch <? 128 then Some 1          (* 0xxxxxxx *)
  else if ch <? 192 then None       (* 10xxxxxx: a continuation octet *)
  else if ch <? 224 then Some 2     (* 110xxxxx *)
  else if ch <? 240 then Some 3     (* 1110xxxx *)
  else if ch <? 248 then Some 4     (* 11110xxx *)
  else if ch <? 252 then Some 5     (* 111110xx *)
  else if ch <? 254 then Some 6     (* 1111110x *)
  else None.                        (* FE, FF *)

(* ------------------------------------------------------------------ the Unicode standard (table 3-7) *)
Definition inr (lo hi x : Z) : bool := (lo <=? x) && (x <=? hi).

(* well-formed UTF-8 byte sequences of the Unicode standard: U+0000..U+10FFFF without the surrogates,
   shortest form only *)
Fixpoint uwf (bs : list Z) : bool :=
  match bs with
  | [] => true
  | b0 :: t0 =>
      if inr 0 127 b0 then uwf t0
      else
        match t0 with
        | [] => false
        | b1 :: t1 =>
            if inr 194 223 b0 then inr 128 191 b1 && uwf t1
            else
              match t1 with
              | [] => false
              | b2 :: t2 =>
                  if inr 224 239 b0 then
                    (if b0 =? 224 then inr 160 191 b1
                     else if b0 =? 237 then inr 128 159 b1
                     else inr 128 191 b1) && inr 128 191 b2 && uwf t2
                  else
                    match t2 with
                    | [] => false
                    | b3 :: t3 =>
                        inr 240 244 b0 &&
                        (if b0 =? 240 then inr 144 191 b1
                         else if b0 =? 244 then inr 128 143 b1
                         else inr 128 191 b1) && inr 128 191 b2 && inr 128 191 b3 && uwf t3
                    end
              end
        end
  end.

Definition is_ok (r : u8res) : bool := match r with U8Ok _ => true | _ => false end.
