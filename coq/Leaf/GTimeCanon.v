(* Leaf/GTimeCanon.v — C06: the DER canonicaliser of the time types, as the C does it.

   GeneralizedTime_encode_der (skeletons/GeneralizedTime.c):
       tloc = asn_GT2time_frac(sptr, &fv, &fd, &tm, 1);      as_gmt = 1
       if(tloc == -1 && errno != EPERM) ASN__ENCODE_FAILED;
       st = asn_time2GT_frac(0, &tm, fv, fd, 1);              force_gmt = 1
       OCTET_STRING_encode_der(td, st, ...)
   With as_gmt = 1 the struct tm handed back is, when the text carries "Z" or an offset,
   tm_s as normalised by timegm (CivilTime.timegm: gmtime of the value returned), and
   otherwise gmtime_r(&tloc): in both branches gmtime tloc with tm_gmtoff = 0.  The shared
   model Leaf/GTime.GT2time_frac returns (tloc, fvalue, fdigits) and turns the C's
   "tloc == -1" into GtFail, so the canonicaliser is the composition below.

   UTCTime (fix 05 of notes/fixes/I): [ut_canon] is what UTCTime_encode_der and the
   XER_F_CANONICAL branch of UTCTime_encode_xer compute and write (asn_UT2time as_gmt = 1,
   then asn_time2UT force_gmt = 1).  UTCTime_encode_der writes the stored text when
   asn_UT2time does not read it ([ut_der]); the canonical XER encoder fails then.

   [gt_fast_ok] / [gt_canon_fast] model the "already canonical" fast path of the seeded
   change C06-7 (10, 12 or 14 leading digits are accepted), [gt_fast14_ok] the same with
   exactly 14 digits required.
   No proofs in this file. *)
From Coq Require Import ZArith List Bool.
From A1 Require Import Base.Bytes Leaf.Decimal Leaf.CivilTime Leaf.GTime.
Import ListNotations.
Local Open Scope Z_scope.

(* [lg]: the offset of the local zone (used for a text without "Z" / offset only) *)
Definition gt_canon (bs : list Z) (lg : Z) : option (list Z) :=
  match GT2time_frac bs lg with
  | GtOk t fv fd => time2GT_frac (gmtime t) fv fd true
  | _ => None
  end.

Definition ut_canon (bs : list Z) (lg : Z) : option (list Z) :=
  match UT2time bs lg with
  | GtOk t _ _ => time2UT (gmtime t) true
  | _ => None
  end.

(* UTCTime_encode_der: the canonical form of what asn_UT2time read; a text it does not read is written as stored *)
Definition ut_der (bs : list Z) (lg : Z) : list Z :=
  match ut_canon bs lg with Some out => out | None => bs end.

(* ---- what the output depends on ---- *)

(* the fraction as a number of units of 10^-9 s (digits beyond the ninth are cut) *)
Definition nanos (fv fd : Z) : Z :=
  if fd <=? 9 then fv * 10 ^ (9 - fd) else fv / 10 ^ (fd - 9).

(* the digits of fv written with j+1 places, up to the last non-zero one (one digit at least) *)
Fixpoint tdigs (j : nat) (fv : Z) : list Z :=
  let d := fv / 10 ^ Z.of_nat j in
  let r := fv mod 10 ^ Z.of_nat j in
  match j with
  | O => [d + 48]
  | S j' => (d + 48) :: (if 0 <? r then tdigs j' r else [])
  end.

Definition frac_canon (n : Z) : list Z := if n =? 0 then [] else 46 :: tdigs 8 n.

(* ---- the fast path of seeded/C06-7 ---- *)

Fixpoint count_digits (bs : list Z) : Z :=
  match bs with
  | c :: tl => if is_dig c then 1 + count_digits tl else 0
  | [] => 0
  end.

Fixpoint all_digits (bs : list Z) : bool :=
  match bs with
  | c :: tl => is_dig c && all_digits tl
  | [] => true
  end.

(* GeneralizedTime__is_canonical, [accept n] deciding which numbers of leading digits pass *)
Definition gt_fast_shape (accept : Z -> bool) (bs : list Z) : bool :=
  if zlen bs <? 11 then false
  else
    let last := zlen bs - 1 in
    if negb (nth (Z.to_nat last) bs 0 =? 90) then false
    else
      let n := count_digits (firstn (Z.to_nat last) bs) in
      if negb (accept n) then false
      else if n =? last then true
      else if negb (n =? 14) || negb (nth 14 bs 0 =? 46) then false
      else if (last - n <? 2) || (10 <? last - n) then false
      else all_digits (firstn (Z.to_nat (last - 15)) (skipn 15 bs))
           && negb (nth (Z.to_nat (last - 1)) bs 0 =? 48).

Definition gt_fast_ok : list Z -> bool := gt_fast_shape (fun n => (n =? 10) || (n =? 12) || (n =? 14)).
Definition gt_fast14_ok : list Z -> bool := gt_fast_shape (fun n => n =? 14).

(* the changed encoder: validated with asn_GT2time, then written verbatim *)
Definition gt_canon_with (ok : list Z -> bool) (bs : list Z) (lg : Z) : option (list Z) :=
  if ok bs then
    match GT2time bs lg with
    | GtOk _ _ _ => Some bs
    | _ => None
    end
  else gt_canon bs lg.

Definition gt_canon_fast := gt_canon_with gt_fast_ok.
Definition gt_canon_fast14 := gt_canon_with gt_fast14_ok.

(* ---- compare_struct: the fraction branch of GeneralizedTime_compare (instants equal) ----
   (as repaired by notes/design/C06-fix-9.diff, round fixI)
   if(afrac_digits == bfrac_digits) by the values; else (double)afrac_value / 10^afrac_digits
   against (double)bfrac_value / 10^bfrac_digits (the scales built by repeated *= 10, exact
   for the at most 10 digits asn_GT2time_frac counts).  value < 10^digits, so both quotients
   lie in [0, 1); each is the correctly rounded image of the exact rational, so equal
   rationals give the same double and distinct ones (at least 10^-10 apart) different
   doubles in the same order: the doubles are modelled by cross-multiplication. *)
Definition frac_cmp_c (av ad bv bd : Z) : comparison :=
  if ad =? bd then av ?= bv
  else av * 10 ^ bd ?= bv * 10 ^ ad.

(* the specification: the order of the fraction VALUES value / 10^digits (the comparison
   notes/design/C06-fix-9.diff proposed; the name is kept for the extracted command) *)
Definition frac_cmp_fix (av ad bv bd : Z) : comparison := av * 10 ^ bd ?= bv * 10 ^ ad.
