(* Leaf/RealConv.v — executable model of asn_double2REAL and asn_REAL2double of
   skeletons/REAL.c (binary and special forms), plus the Spec-side definitions
   der_real_form / real_value (X.690 8.5 and 11.3).

   A double is its 64-bit pattern d in [0, 2^64):
     sign = d / 2^63, biased exponent e = (d / 2^52) mod 2^11, fraction f = d mod 2^52.
   libc functions the C calls are modelled here on that decomposition (glibc,
   x86-64): ilogb, isnan, isfinite, copysign(1.0, d) < 0, ldexp.  Only the
   correspondence run ties them to the real libc.

   Not modelled: the ISO 6093 decimal text form (first octet 01/02/03; it goes
   through libc strtod) — the model answers [RDecimal] and the tie does not call
   the C for it; NULL arguments; allocation failure.  No proofs in this file. *)
From Coq Require Import ZArith List Lia Bool.
From A1 Require Import Base.Bytes Leaf.IntegerConv.
Import ListNotations.
Local Open Scope Z_scope.

Definition two52 : Z := 4503599627370496.
Definition two53 : Z := 9007199254740992.
Definition two1024 : Z := 2 ^ 1024.
Definition INT_MAX : Z := 2147483647.

Definition d_sign (d : Z) : Z := d / two63.
Definition d_exp (d : Z) : Z := (d / two52) mod 2048.
Definition d_frac (d : Z) : Z := d mod two52.
Definition mk_double (s e f : Z) : Z := s * two63 + e * two52 + f.

Definition pos_inf_bits : Z := mk_double 0 2047 0.
Definition neg_inf_bits : Z := mk_double 1 2047 0.
Definition neg_zero_bits : Z := mk_double 1 0 0.

(* ---- libc, as glibc/x86-64 answers on the decomposition ---- *)
Definition is_nan (d : Z) : bool := (d_exp d =? 2047) && negb (d_frac d =? 0).
Definition is_finite (d : Z) : bool := negb (d_exp d =? 2047).
(* FP_ILOGB0 = FP_ILOGBNAN = INT_MIN, ilogb(inf) = INT_MAX; a subnormal answers
   the position of its leading fraction bit *)
Definition ilogb (d : Z) : Z :=
  let e := d_exp d in
  let f := d_frac d in
  if e =? 2047 then (if f =? 0 then INT_MAX else - INT_MAX - 1)
  else if e =? 0 then (if f =? 0 then - INT_MAX - 1 else Z.log2 f - 1074)
  else e - 1023.

(* ================================================================ *)
(* asn_double2REAL                                                  *)

(* for(mstop = d = dscr; ...; d++, s--) { *d = *s; if( *d ) mstop = d; }
   index of the last non-zero byte, 0 if there is none *)
Fixpoint last_nonzero (i cur : Z) (l : list Z) : Z :=
  match l with
  | [] => cur
  | b :: t => last_nonzero (i + 1) (if b =? 0 then cur else i) t
  end.
Definition mstop_of (l : list Z) : Z := last_nonzero 0 0 l.

(* if(!(mval & 0x0f)) shift_count = 4;
   while(((mval >> shift_count) & 1) == 0) shift_count++;   (mval is even, non-zero) *)
Fixpoint find_bit (fuel : nat) (mval sc : Z) : Z :=
  match fuel with
  | O => sc
  | S k => if (mval / 2 ^ sc) mod 2 =? 0 then find_bit k mval (sc + 1) else sc
  end.
Definition shift_count (mval : Z) : Z :=
  find_bit 8 mval (if mval mod 16 =? 0 then 4 else 1).

(* for(mptr = dscr; mptr <= mstop; mptr++) {
     mval = *mptr; *mptr = accum | (mval >> shift_count); accum = mval << ishift; }
   the store truncates to 8 bits *)
Fixpoint shr_bytes (sc accum : Z) (l : list Z) : list Z :=
  match l with
  | [] => []
  | mval :: t =>
      (Z.lor accum (mval / 2 ^ sc)) mod 256 :: shr_bytes sc (mval * 2 ^ (8 - sc)) t
  end.

(* first octet and exponent octets; expval >> k on a negative int is floor division.
   bmsign is 0x80 or 0xC0, so bmsign | 0x01 = bmsign + 1 etc. *)
Definition exp_octets (bmsign expval : Z) : list Z :=
  if expval <? 0 then
    if expval / 128 =? -1 then [bmsign; expval mod 256]
    else if expval / 32768 =? -1 then [bmsign + 1; (expval / 256) mod 256; expval mod 256]
    else [bmsign + 2; (expval / 65536) mod 256; (expval / 256) mod 256; expval mod 256]
  else if expval <=? 127 then [bmsign; expval mod 256]
  else if expval <=? 32767 then [bmsign + 1; (expval / 256) mod 256; expval mod 256]
  else [bmsign + 2; (expval / 65536) mod 256; (expval / 256) mod 256; expval mod 256].

(* if(expval < DBL_MIN_EXP - 1) { dscr[0] &= 0x0f; expval = DBL_MIN_EXP - 1; }
   else dscr[0] = 0x10 | (dscr[0] & 0x0f);
   a subnormal has no hidden bit and the exponent of the smallest normal *)
Definition DBL_MIN_EXP : Z := -1021.
Definition set_lead (sub : bool) (dscr : list Z) : list Z :=
  match dscr with
  | [] => []
  | b0 :: t => (if sub then b0 mod 16 else 16 + b0 mod 16) :: t
  end.

(* mstart = dscr; while(mstart < mstop && *mstart == 0) mstart++;
   on the bytes dscr[0..mstop]: leading zero bytes go, the last byte always stays *)
Fixpoint skip_lead_zeros (l : list Z) : list Z :=
  match l with
  | b :: (_ :: _) as t => if b =? 0 then skip_lead_zeros t else l
  | _ => l
  end.

Definition double2REAL (d : Z) : list Z :=
  let ex := ilogb d in
  if (ex <=? - INT_MAX) || (ex =? INT_MAX) then
    if is_nan d then [66]
    else if negb (is_finite d) then (if d_sign d =? 1 then [65] else [64])
    else if d_sign d =? 0 then [] else [67]
  else
    let dscr0 := be_bytes 7 d in             (* bytes 6..0 of the little-endian double *)
    let mstop := mstop_of dscr0 in           (* found on the scratch pad BEFORE dscr[0] is rewritten *)
    let bmsign := 128 + 64 * d_sign d in     (* 0x80 | ((s[1] >> 1) & 0x40) *)
    let sub := ex <? DBL_MIN_EXP - 1 in
    let dscr := set_lead sub dscr0 in
    let ex0 := if sub then DBL_MIN_EXP - 1 else ex in
    let ex1 := ex0 - (8 * (mstop + 1) - 4) in
    let kept := firstn (Z.to_nat (mstop + 1)) dscr in
    let mval := nth (Z.to_nat mstop) dscr 0 in
    if negb (mval =? 0) && (mval mod 2 =? 0) then
      let sc := shift_count mval in
      exp_octets bmsign (ex1 + sc) ++ skip_lead_zeros (shr_bytes sc 0 kept)
    else
      exp_octets bmsign ex1 ++ skip_lead_zeros kept.

(* ================================================================ *)
(* asn_REAL2double                                                  *)

Inductive r2d_res :=
| ROk (bits : Z)       (* rc 0, *dbl_value has this bit pattern *)
| RNaN                 (* rc 0, *dbl_value is a NaN *)
| RErange | REinval    (* rc -1, errno *)
| RDecimal             (* ISO 6093 text form: not modelled *)
| ROob.                (* a read outside the buffer: shown unreachable *)

(* round-to-nearest-even of a non-negative integer to 53 significant bits: the
   double nearest to x (x below 2^1024) *)
Definition rnd53 (x : Z) : Z :=
  if x <? two53 then x
  else
    let s := Z.log2 x - 52 in
    let q := x / 2 ^ s in
    let r := x mod 2 ^ s in
    let h := 2 ^ (s - 1) in
    if r <? h then q * 2 ^ s
    else if h <? r then (q + 1) * 2 ^ s
    else if Z.even q then q * 2 ^ s else (q + 1) * 2 ^ s.

(* the accumulator "double m": a non-negative integer-valued double, or +inf *)
Inductive mant := MFin (m : Z) | MInf.

(* m = ldexp(m, 8) + *ptr *)
Definition mant_step (m : mant) (b : Z) : mant :=
  match m with
  | MInf => MInf
  | MFin v => if two1024 <=? v * 256 then MInf else MFin (rnd53 (v * 256 + b))
  end.

(* q = m / dv rounded to nearest, ties to even *)
Definition rne_div (m dv : Z) : Z :=
  let q := m / dv in
  let r := m mod dv in
  if 2 * r <? dv then q
  else if dv <? 2 * r then q + 1
  else if Z.even q then q else q + 1.

(* ldexp(m, ex) for an integer-valued double m >= 0 (at most 53 significant
   bits): bit pattern of the result with the sign bit clear, None = +inf.
   Normal results are exact; subnormal results are exact when representable
   and rounded to nearest-even otherwise (one rounding, as glibc's scalbn). *)
Definition ldexp_bits (m ex : Z) : option Z :=
  if m =? 0 then Some 0
  else
    let L := Z.log2 m in
    let E := L + ex in
    if 1024 <=? E then None
    else if -1022 <=? E then
      let sig := if L <=? 52 then m * 2 ^ (52 - L) else m / 2 ^ (L - 52) in
      Some ((E + 1023) * two52 + (sig - two52))
    else if E <? -1075 then Some 0
    else
      let k := ex + 1074 in
      if 0 <=? k then Some (m * 2 ^ k) else Some (rne_div m (2 ^ (- k))).

Definition REAL2double (bs : list Z) : r2d_res :=
  match bs with
  | [] => ROk 0
  | octv :: rest =>
    let top := octv / 64 in                         (* octv & 0xC0 *)
    if top =? 1 then
      if octv =? 64 then ROk pos_inf_bits
      else if octv =? 65 then ROk neg_inf_bits
      else if octv =? 66 then RNaN
      else if octv =? 67 then ROk neg_zero_bits
      else REinval
    else if top =? 0 then
      if (octv =? 0) || negb ((octv / 4) mod 16 =? 0) then REinval else RDecimal
    else
      let bf := (octv / 16) mod 4 in
      if bf =? 3 then REinval
      else
        let baseF := if bf =? 0 then 1 else if bf =? 1 then 3 else 4 in
        let sign := (octv / 64) mod 2 in
        let scaleF := (octv / 4) mod 4 in
        let size := zlen bs in
        if size <=? 1 + octv mod 4 then REinval
        else
          (* (elen, octets from the first exponent octet on) *)
          let hdr :=
            if octv mod 4 =? 3 then
              match rest with
              | [] => None
              | l :: t => if (l =? 0) || (size <=? 2 + l) then None else Some (l, t)
              end
            else Some (octv mod 4, rest) in
          match hdr with
          | None => REinval
          | Some (elen, p) =>
            match p with
            | [] => ROob
            | e0 :: p1 =>
              let expval0 := if 128 <=? e0 then e0 - 256 else e0 in   (* (int)*(int8_t * )ptr *)
              if 3 <=? elen then RErange                              (* elen >= sizeof(expval)-1 *)
              else
                let n := Z.to_nat elen in
                let expval := fold_left (fun a b => a * 256 + b) (firstn n p1) expval0 in
                match fold_left mant_step (skipn n p1) (MFin 0) with
                | MInf => RErange
                | MFin mv =>
                  match ldexp_bits mv (expval * baseF + scaleF) with
                  | None => RErange
                  | Some bits => ROk (sign * two63 + bits)
                  end
                end
            end
          end
  end.

(* ================================================================ *)
(* Spec: X.690 8.5 (REAL contents octets) and 11.3 (DER restrictions) *)

(* the exponent octets and the mantissa octets of a binary encoding whose
   exponent-length code is 0, 1 or 2 *)
Definition split_binary (bs : list Z) : option (Z * list Z * list Z) :=
  match bs with
  | [] => None
  | b :: rest =>
      if (128 <=? b) && (b mod 4 <? 3) && (b mod 4 + 1 <=? zlen rest) then
        let n := Z.to_nat (b mod 4 + 1) in
        Some (b, firstn n rest, skipn n rest)
      else None
  end.

Definition last_byte (l : list Z) : Z := last l 0.

(* DER form of the contents octets of a REAL that is a binary64 value:
   no octets (plus zero); one of the SpecialRealValue octets; or binary encoding
   with base 2 (bits 6-5 = 00), scaling factor 0 (bits 4-3 = 00), exponent in
   1..3 octets in minimal two's complement with the matching length code
   (a longer exponent never arises from a binary64 value), mantissa non-empty,
   odd, without a leading zero octet *)
Definition der_real_form (bs : list Z) : bool :=
  match bs with
  | [] => true
  | [b] => (64 <=? b) && (b <=? 67)
  | _ =>
      match split_binary bs with
      | None => false
      | Some (b, ex, mn) =>
          ((b / 4) mod 16 =? 0) && minimal_twos ex &&
          match mn with
          | [] => false
          | m0 :: _ => negb (m0 =? 0) && (last_byte mn mod 2 =? 1)
          end
      end
  end.

(* (sign, N, E) such that the encoding denotes (-1)^sign * N * 2^E; binary
   encodings with a 1..3-octet exponent, any base and scaling factor *)
Definition real_value (bs : list Z) : option (Z * Z * Z) :=
  match split_binary bs with
  | None => None
  | Some (b, ex, mn) =>
      let bf := (b / 16) mod 4 in
      if bf =? 3 then None
      else
        let baseF := if bf =? 0 then 1 else if bf =? 1 then 3 else 4 in
        Some ((b / 64) mod 2, be_val mn, twos_value ex * baseF + (b / 4) mod 4)
  end.
