(* Leaf/CivilTime.v — proleptic Gregorian calendar arithmetic on Z and the
   model of the libc functions the time helpers call (gmtime_r, localtime_r,
   timegm, mktime).  The libc is modelled, not verified: the correspondence run
   of C17 ties these definitions to glibc on the generated cases.  A zone enters
   only as the offset [gmtoff] the libc reports in tm_gmtoff.
   No proofs in this file. *)
From Coq Require Import ZArith List Bool.
Import ListNotations.
Local Open Scope Z_scope.

(* days since 1970-01-01 of the civil date y-m-d (m = 1..12); the year is
   shifted to start in March, 400-year eras of 146097 days *)
Definition days_from_civil (y m d : Z) : Z :=
  let y' := if m <=? 2 then y - 1 else y in
  let era := y' / 400 in
  let yoe := y' - era * 400 in
  let mp := if 2 <? m then m - 3 else m + 9 in
  let doy := (153 * mp + 2) / 5 + d - 1 in
  let doe := yoe * 365 + yoe / 4 - yoe / 100 + doy in
  era * 146097 + doe - 719468.

Definition yoe_of_doe (doe : Z) : Z := (doe - doe / 1460 + doe / 36524 - doe / 146096) / 365.

Definition civil_from_days (z : Z) : Z * Z * Z :=
  let z' := z + 719468 in
  let era := z' / 146097 in
  let doe := z' - era * 146097 in
  let yoe := yoe_of_doe doe in
  let y := yoe + era * 400 in
  let doy := doe - (365 * yoe + yoe / 4 - yoe / 100) in
  let mp := (5 * doy + 2) / 153 in
  let d := doy - (153 * mp + 2) / 5 + 1 in
  let m := if mp <? 10 then mp + 3 else mp - 9 in
  (if m <=? 2 then y + 1 else y, m, d).

Definition is_leap (y : Z) : bool :=
  ((y mod 4 =? 0) && negb (y mod 100 =? 0)) || (y mod 400 =? 0).

Definition days_in_month (y m : Z) : Z :=
  if m =? 2 then (if is_leap y then 29 else 28)
  else if (m =? 4) || (m =? 6) || (m =? 9) || (m =? 11) then 30 else 31.

Definition valid_date (y m d : Z) : bool :=
  (1 <=? m) && (m <=? 12) && (1 <=? d) && (d <=? days_in_month y m).

(* struct tm, the fields the helpers read or write *)
Record tm := mkTm { tm_sec : Z; tm_min : Z; tm_hour : Z; tm_mday : Z; tm_mon : Z;
                    tm_year : Z; tm_gmtoff : Z }.

Definition gmtime (t : Z) : tm :=
  let days := t / 86400 in
  let rem := t mod 86400 in
  let '(y, m, d) := civil_from_days days in
  mkTm (rem mod 60) (rem / 60 mod 60) (rem / 3600) d (m - 1) (y - 1900) 0.

(* localtime_r under a zone whose offset at t is gmtoff *)
Definition localtime (t gmtoff : Z) : tm :=
  let g := gmtime (t + gmtoff) in
  mkTm (tm_sec g) (tm_min g) (tm_hour g) (tm_mday g) (tm_mon g) (tm_year g) gmtoff.

(* timegm: any field may be out of its range; months carry into the year, the
   rest is linear *)
Definition timegm_val (x : tm) : Z :=
  let y := tm_year x + 1900 + tm_mon x / 12 in
  let m := tm_mon x mod 12 + 1 in
  (days_from_civil y m 1 + (tm_mday x - 1)) * 86400
  + tm_hour x * 3600 + tm_min x * 60 + tm_sec x.

(* value returned, and the normalised struct written back *)
Definition timegm (x : tm) : Z * tm := (timegm_val x, gmtime (timegm_val x)).

(* mktime with tm_isdst = -1: the libc picks the zone offset [lgmtoff] in force
   at that local time (handed in by the harness) *)
Definition mktime (x : tm) (lgmtoff : Z) : Z := timegm_val x - lgmtoff.

Definition set_sec (x : tm) (s : Z) : tm :=
  mkTm s (tm_min x) (tm_hour x) (tm_mday x) (tm_mon x) (tm_year x) (tm_gmtoff x).
