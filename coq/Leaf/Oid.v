(* Leaf/Oid.v — executable model of the arc helpers of
   skeletons/OBJECT_IDENTIFIER.c and skeletons/RELATIVE-OID.c:
     OBJECT_IDENTIFIER_get_single_arc   OBJECT_IDENTIFIER_set_single_arc
     OBJECT_IDENTIFIER_get_first_arcs   OBJECT_IDENTIFIER_get_arcs
     OBJECT_IDENTIFIER_set_arcs         OBJECT_IDENTIFIER_parse_arcs
     RELATIVE_OID_get_arcs              RELATIVE_OID_set_arcs
   asn_oid_arc_t is uint32_t: the accumulator of get_single_arc and the
   expression arc0 * 40 + arc1 of set_arcs are written with an explicit
   [mod two32].  A (buf,size) pair is a list of bytes; the arc array handed to
   the C is assumed large enough (arc_slots >= number of arcs), NULL arguments
   and allocation failure are not modelled.  No proofs in this file. *)
From Coq Require Import ZArith List Lia Bool.
From A1 Require Import Base.Bytes Leaf.IntegerConv.
Import ListNotations.
Local Open Scope Z_scope.

Definition two32 : Z := 4294967296.
Definition arc_max : Z := two32 - 1.          (* ASN_OID_ARC_MAX *)

(* ------------------------------------------------------------------ *)
(* OBJECT_IDENTIFIER_get_single_arc.
     GNone        rd = 0  (empty buffer)
     GOk v rd tl  rd > 0, value v, [tl] = the bytes after the rd consumed
     GErange      -1/ERANGE (the test accum <= ASN_OID_ARC_MAX; kept as written)
     GEinval      -1/EINVAL (buffer ends inside a subidentifier) *)
Inductive garc := GNone | GOk (v rd : Z) (tl : list Z) | GErange | GEinval.

(* accum = (accum << 7) | ( *b & ~0x80) on a uint32_t *)
Definition arc_step (accum b : Z) : Z := (accum * 128) mod two32 + b mod 128.

Fixpoint gsa_loop (bs : list Z) (accum n : Z) : garc :=
  match bs with
  | [] => GEinval
  | b :: tl =>
      let accum' := arc_step accum b in
      if b <? 128 then                       (* ( *b & 0x80) == 0 *)
        if accum' <=? arc_max then GOk accum' (n + 1) tl else GErange
      else gsa_loop tl accum' (n + 1)
  end.

Definition get_single_arc (bs : list Z) : garc :=
  match bs with
  | [] => GNone
  | _ => gsa_loop bs 0 0
  end.

(* OBJECT_IDENTIFIER_get_first_arcs: value -> (arc0, arc1) *)
Definition split_first (value : Z) : Z * Z :=
  if 80 <=? value then (2, value - 80)
  else if 40 <=? value then (1, value - 40)
  else (0, value).

(* result of get_arcs: the arcs, or -1, or the model's fuel ran out (shown
   unreachable in OidProofs.get_arcs_total) *)
Inductive ores := OArcs (arcs : list Z) | OFail | OFuel.

(* the loop "for(off = rd; ; )" shared by OBJECT_IDENTIFIER_get_arcs and
   RELATIVE_OID_get_arcs; each call of get_single_arc is on buf+off, i.e. on the
   remaining bytes.  (get_single_arc returns 0 only on an empty remainder, so
   the C's final test off != st->size never fires.) *)
Fixpoint get_rest (fuel : nat) (bs : list Z) : ores :=
  match fuel with
  | O => OFuel
  | S k =>
      match get_single_arc bs with
      | GNone => OArcs []
      | GOk v _ tl =>
          match get_rest k tl with
          | OArcs l => OArcs (v :: l)
          | r => r
          end
      | _ => OFail
      end
  end.

Definition get_arcs (bs : list Z) : ores :=
  match get_single_arc bs with
  | GOk value _ tl =>
      let '(arc0, arc1) := split_first value in
      match get_rest (S (length tl)) tl with
      | OArcs l => OArcs (arc0 :: arc1 :: l)
      | r => r
      end
  | _ => OFail                                (* rd <= 0 *)
  end.

Definition reloid_get_arcs (bs : list Z) : ores := get_rest (S (length bs)) bs.

(* ------------------------------------------------------------------ *)
(* OBJECT_IDENTIFIER_set_single_arc: the scratch array has
   (32 + 6) / 7 = 5 octets, filled from its end:
     for(b = scratch_end, mask = 0; ; mask = 0x80, b--) {
         *b = mask | (value & 0x7f); value >>= 7; if(!value) break; }
   [acc] is the part of scratch already written.  A uint32_t value leaves the
   loop within 5 rounds (OidProofs.ssa_loop_spec). *)
Fixpoint ssa_loop (fuel : nat) (value mask : Z) (acc : list Z) : list Z :=
  match fuel with
  | O => acc
  | S k =>
      let acc' := (mask + value mod 128) :: acc in
      let value' := value / 128 in
      if value' =? 0 then acc' else ssa_loop k value' 128 acc'
  end.

Definition arc_octets (value : Z) : list Z := ssa_loop 5 value 0 [].

(* None = -1 (result_len > arcbuf_len) *)
Definition set_single_arc (arcbuf_len value : Z) : option (list Z) :=
  let r := arc_octets value in
  if arcbuf_len <? zlen r then None else Some r.

(* the loop "for(i = …; i < arc_slots; i++)" with its remaining [size] *)
Fixpoint set_rest (arcs : list Z) (size : Z) : option (list Z) :=
  match arcs with
  | [] => Some []
  | a :: tl =>
      match set_single_arc size a with
      | None => None
      | Some w =>
          match set_rest tl (size - zlen w) with
          | None => None
          | Some r => Some (w ++ r)
          end
      end
  end.

Inductive setres := SetOk (bs : list Z) | SetEinval | SetErange | SetFail.

Definition set_arcs (arcs : list Z) : setres :=
  match arcs with
  | arc0 :: arc1 :: tl =>
      let go :=
        let size := 5 * zlen arcs in
        match set_single_arc size ((arc0 * 40 + arc1) mod two32) with
        | None => SetFail
        | Some w =>
            match set_rest tl (size - zlen w) with
            | None => SetFail
            | Some r => SetOk (w ++ r)
            end
        end in
      if arc0 <=? 1 then
        if 40 <=? arc1 then SetErange else go
      else if arc0 =? 2 then
        if arc_max - 80 <? arc1 then SetErange else go
      else SetErange
  | _ => SetEinval                             (* arc_slots < 2 *)
  end.

Definition reloid_set_arcs (arcs : list Z) : setres :=
  match set_rest arcs (5 * zlen arcs) with
  | None => SetFail
  | Some r => SetOk r
  end.

(* ------------------------------------------------------------------ *)
(* OBJECT_IDENTIFIER_parse_arcs over the bytes oid_text .. oid_text+length.
   Result: return value / errno and the offset stored in *opt_oid_text_end. *)
Inductive pstate := LeadSpace | TailSpace | AfterValue | WaitDigits.
Inductive pres := POk (arcs : list Z) (endpos : Z)
                | PEinval (endpos : Z) | PErange (endpos : Z) | PFuel.

Definition is_ws (c : Z) : bool := (c =? 9) || (c =? 10) || (c =? 13) || (c =? 32).

(* "Finalize last arc": the switch after the for loop *)
Definition parse_finish (st : pstate) (pos : Z) (racc : list Z) : pres :=
  match st with
  | LeadSpace => POk [] pos
  | WaitDigits => PEinval pos
  | AfterValue | TailSpace => POk (rev racc) pos
  end.

(* [racc] = arcs captured so far, last first.  Each round consumes at least one
   character; fuel = number of characters + 1 (OidProofs.parse_arcs_total). *)
Fixpoint parse_loop (fuel : nat) (cs : list Z) (st : pstate) (pos : Z) (racc : list Z) : pres :=
  match fuel with
  | O => PFuel
  | S k =>
      match cs with
      | [] => parse_finish st pos racc
      | c :: tl =>
          if is_ws c then
            match st with
            | LeadSpace | TailSpace => parse_loop k tl st (pos + 1) racc
            | AfterValue => parse_loop k tl TailSpace (pos + 1) racc
            | WaitDigits => parse_finish WaitDigits pos racc     (* break; break *)
            end
          else if c =? 46 then
            match st with
            | AfterValue => parse_loop k tl WaitDigits (pos + 1) racc
            | _ => PEinval pos
            end
          else if is_digit c then
            match st with
            | TailSpace | AfterValue => PEinval pos
            | LeadSpace | WaitDigits =>
                (* _OID_CAPTURE_ARC *)
                match strtoul_lim cs with
                | (SOk, p, value) | (SExtra, p, value) =>
                    if value <=? arc_max
                    then parse_loop k (skipn (Z.to_nat p) cs) AfterValue (pos + p) (value :: racc)
                    else PErange pos
                | (SRange, _, _) => PErange pos
                | (_, _, _) => PEinval pos
                end
            end
          else parse_finish WaitDigits pos racc                  (* default: *)
      end
  end.

Definition parse_arcs (cs : list Z) : pres := parse_loop (S (length cs)) cs LeadSpace 0 [].
