(* Leaf/IntegerConvProofs.v — theorems about Leaf/IntegerConv.v (C16, integer part) *)
From Coq Require Import ZArith List Lia Bool ZifyBool.
From A1 Require Import Base.Bytes Leaf.IntegerConv.
Import ListNotations.
Local Open Scope Z_scope.

Definition sbyte (b : Z) : Z := if 128 <=? b then b - 256 else b.

Lemma twos_value_cons b tl :
  twos_value (b :: tl) = sbyte b * 256 ^ zlen tl + be_val tl.
Proof.
  unfold twos_value, sbyte. cbn [be_val]. rewrite pow256_zlen_cons.
  destruct (128 <=? b); ring.
Qed.

Lemma bytes_ok_inv b tl : bytes_ok (b :: tl) -> 0 <= b < 256 /\ bytes_ok tl.
Proof. intros H. inversion H; subst. split; assumption. Qed.

Lemma zlen_pos_pow {A} (l : list A) : 0 < 256 ^ zlen l.
Proof. apply pow256_pos. Qed.

(* ---------------- the strip loop ---------------- *)

Lemma strip_cons2 b b1 tl :
  strip (b :: b1 :: tl) =
  if (b =? 0) && (b1 <? 128) then strip (b1 :: tl)
  else if (b =? 255) && (128 <=? b1) then strip (b1 :: tl)
  else b :: b1 :: tl.
Proof. reflexivity. Qed.

Lemma strip_spec bs :
  bytes_ok bs -> bs <> [] ->
  twos_value (strip bs) = twos_value bs /\ minimal_twos (strip bs) = true /\
  bytes_ok (strip bs) /\ (length (strip bs) <= length bs)%nat /\ strip bs <> [].
Proof.
  induction bs as [|b tl IH]; intros Hok Hne; [congruence|].
  destruct tl as [|b1 tl'].
  - cbn [strip minimal_twos]. repeat split; auto.
  - apply bytes_ok_inv in Hok. destruct Hok as [Hb Htl].
    pose proof (bytes_ok_inv _ _ Htl) as [Hb1 Htl'].
    specialize (IH Htl ltac:(congruence)).
    destruct IH as (IHv & IHm & IHok & IHlen & IHne).
    rewrite strip_cons2.
    destruct ((b =? 0) && (b1 <? 128)) eqn:E0.
    { repeat split; auto; [|cbn [length] in *; lia].
      rewrite IHv. rewrite (twos_value_cons b), (twos_value_cons b1).
      cbn [be_val]. unfold sbyte.
      destruct (128 <=? b) eqn:?; destruct (128 <=? b1) eqn:?; try lia;
      try (replace b with 0 by lia; ring). }
    destruct ((b =? 255) && (128 <=? b1)) eqn:E1.
    { repeat split; auto; [|cbn [length] in *; lia].
      rewrite IHv. rewrite (twos_value_cons b), (twos_value_cons b1).
      cbn [be_val]. unfold sbyte. rewrite pow256_zlen_cons.
      destruct (128 <=? b) eqn:?; destruct (128 <=? b1) eqn:?; try lia;
      try (replace b with 255 by lia; ring). }
    repeat split; auto; try congruence; try (constructor; auto; fail);
      try (cbn [minimal_twos]; rewrite E0, E1; reflexivity).
Qed.

(* a minimal form with n >= 2 octets denotes a value that needs n octets *)
Lemma minimal_big b b1 tl :
  bytes_ok (b :: b1 :: tl) -> minimal_twos (b :: b1 :: tl) = true ->
  128 * 256 ^ zlen tl <= twos_value (b :: b1 :: tl) \/
  twos_value (b :: b1 :: tl) < - (128 * 256 ^ zlen tl).
Proof.
  intros Hok Hmin.
  apply bytes_ok_inv in Hok. destruct Hok as [Hb Htl].
  apply bytes_ok_inv in Htl. destruct Htl as [Hb1 Htl].
  pose proof (be_val_bound tl Htl) as Hv.
  pose proof (zlen_pos_pow tl) as HP.
  rewrite twos_value_cons. cbn [be_val]. rewrite pow256_zlen_cons.
  set (P := 256 ^ zlen tl) in *. set (V := be_val tl) in *.
  cbn [minimal_twos] in Hmin. unfold sbyte.
  destruct (128 <=? b) eqn:Eb.
  - right.
    destruct (b =? 255) eqn:E255.
    + assert (b1 < 128) by lia. replace b with 255 by lia. nia.
    + assert (b <= 254) by lia. nia.
  - left.
    destruct (b =? 0) eqn:E0.
    + assert (128 <= b1) by lia. replace b with 0 by lia. nia.
    + assert (1 <= b) by lia. nia.
Qed.

(* ---------------- asn__integer_convert ---------------- *)

Lemma pow256_le_8 n : 0 <= n <= 8 -> 256 ^ n <= two64.
Proof.
  intros H. change two64 with (256 ^ 8). apply Z.pow_le_mono_r; lia.
Qed.

Lemma pow256_le_7 n : 0 <= n <= 7 -> 128 * 256 ^ n <= two63.
Proof.
  intros H. change two63 with (128 * 256 ^ 7).
  apply Z.mul_le_mono_nonneg_l; [lia|]. apply Z.pow_le_mono_r; lia.
Qed.

Lemma pow256_divides_two64 n : 0 <= n <= 8 -> exists k, 0 < k /\ two64 = k * 256 ^ n.
Proof.
  intros H. exists (256 ^ (8 - n)). split.
  - apply Z.pow_pos_nonneg; lia.
  - rewrite <- Z.pow_add_r by lia. replace (8 - n + n) with 8 by lia. reflexivity.
Qed.

Lemma convert_small bs :
  bytes_ok bs -> bs <> [] -> zlen bs <= 8 ->
  integer_convert bs = twos_value bs /\ - two63 <= twos_value bs < two63.
Proof.
  intros Hok Hne Hlen. destruct bs as [|b tl]; [congruence|].
  pose proof (bytes_ok_inv _ _ Hok) as [Hb Htl].
  pose proof (be_val_bound tl Htl) as Hv.
  pose proof (zlen_pos_pow tl) as HP.
  rewrite zlen_cons in Hlen. pose proof (zlen_nonneg tl) as Hn.
  pose proof (pow256_le_7 (zlen tl) ltac:(lia)) as H7.
  unfold integer_convert.
  rewrite fold_be_val_mod; [| unfold two64; lia | reflexivity | exact Hok
                             | destruct (128 <=? b); unfold two64; lia].
  rewrite twos_value_cons. cbn [be_val]. rewrite pow256_zlen_cons.
  set (P := 256 ^ zlen tl) in *. set (V := be_val tl) in *.
  unfold sbyte. destruct (128 <=? b) eqn:Eb.
  - (* negative *)
    destruct (pow256_divides_two64 (zlen tl + 1) ltac:(lia)) as (k & Hk & Hk2).
    rewrite Z.pow_add_r in Hk2 by lia. change (256 ^ 1) with 256 in Hk2. fold P in Hk2.
    assert (Hval : ((two64 - 1) * (256 * P) + (b * P + V)) mod two64
                   = two64 + ((b - 256) * P + V)).
    { symmetry. apply Z.mod_unique_pos with (q := 256 * P - 1); [unfold two64, two63 in *; nia|]. ring. }
    rewrite Hval. unfold to_signed64.
    destruct (two64 + ((b - 256) * P + V) <? two63) eqn:E; [unfold two64, two63 in *; nia|].
    split; [ring|]. unfold two63, two64 in *. nia.
  - change (0 * (256 * P)) with 0. rewrite Z.add_0_l.
    assert (b * P + V < two63) by nia.
    rewrite Z.mod_small by (unfold two63, two64 in *; nia).
    unfold to_signed64. destruct (b * P + V <? two63) eqn:E; [|lia].
    split; [reflexivity|]. unfold two63 in *. nia.
Qed.

(* ---------------- asn_INTEGER2imax: exact range behaviour ---------------- *)

Definition in_imax (v : Z) : bool := (- two63 <=? v) && (v <? two63).

Theorem INTEGER2imax_exact bs :
  bytes_ok bs -> bs <> [] ->
  INTEGER2imax bs = if in_imax (twos_value bs) then COk (twos_value bs) else CErange.
Proof.
  intros Hok Hne. unfold INTEGER2imax.
  destruct (8 <? zlen bs) eqn:Elen.
  - destruct (strip_spec bs Hok Hne) as (Hv & Hm & Hsok & Hslen & Hsne).
    rewrite <- Hv.
    destruct (8 <? zlen (strip bs)) eqn:Elen2.
    + (* still too long: value really is out of range *)
      destruct (strip bs) as [|b [|b1 tl]] eqn:Es; [congruence| |].
      * unfold zlen in Elen2. cbn in Elen2. lia.
      * destruct (minimal_big b b1 tl Hsok Hm) as [Hbig|Hbig];
        assert (7 <= zlen tl) by (rewrite !zlen_cons in Elen2; lia);
        assert (two63 <= 128 * 256 ^ zlen tl)
          by (change two63 with (128 * 256 ^ 7);
              apply Z.mul_le_mono_nonneg_l; [lia|]; apply Z.pow_le_mono_r; lia);
        unfold in_imax;
        destruct ((- two63 <=? twos_value (b :: b1 :: tl)) && (twos_value (b :: b1 :: tl) <? two63)) eqn:E;
        try reflexivity; lia.
    + destruct (convert_small (strip bs) Hsok Hsne ltac:(lia)) as [Hc Hr].
      unfold in_imax.
      destruct ((- two63 <=? twos_value (strip bs)) && (twos_value (strip bs) <? two63)) eqn:E; [|lia].
      destruct (strip bs); [congruence|]. rewrite Hc. reflexivity.
  - rewrite Elen.
    destruct (convert_small bs Hok Hne ltac:(lia)) as [Hc Hr].
    unfold in_imax.
    destruct ((- two63 <=? twos_value bs) && (twos_value bs <? two63)) eqn:E; [|lia].
    destruct bs; [congruence|]. rewrite Hc. reflexivity.
Qed.

(* ---------------- asn_imax2INTEGER ---------------- *)

Lemma be8_twos v :
  - two63 <= v < two63 -> twos_value (be_bytes 8 (to_unsigned64 v)) = v.
Proof.
  intros Hv. unfold to_unsigned64.
  set (u := v mod two64).
  assert (Hu : 0 <= u < two64) by (apply Z.mod_pos_bound; unfold two64; lia).
  assert (Hbe : be_val (be_bytes 8 u) = u).
  { rewrite be_val_be_bytes. change (256 ^ Z.of_nat 8) with two64.
    apply Z.mod_small; lia. }
  remember (be_bytes 8 u) as bs eqn:Ebs.
  cbn [be_bytes] in Ebs.
  destruct bs as [|b tl]; [discriminate|].
  injection Ebs as Eb Etl.
  unfold twos_value. rewrite Hbe.
  assert (Hz : zlen (b :: tl) = 8).
  { unfold zlen. rewrite Etl. reflexivity. }
  rewrite Hz. change (256 ^ 8) with two64.
  change (256 ^ Z.of_nat 7) with 72057594037927936 in Eb.
  assert (Hb : b = u / 72057594037927936).
  { rewrite Eb. apply Z.mod_small. unfold two64 in Hu.
    split; [apply Z.div_pos; lia|]. apply Z.div_lt_upper_bound; lia. }
  destruct (Z_lt_le_dec v 0) as [Hneg|Hpos].
  - assert (u = v + two64).
    { subst u. symmetry. apply Z.mod_unique_pos with (q := -1); unfold two64, two63 in *; lia. }
    assert (128 <= b).
    { rewrite Hb. apply Z.div_le_lower_bound; unfold two64, two63 in *; lia. }
    destruct (128 <=? b) eqn:E; lia.
  - assert (u = v) by (subst u; apply Z.mod_small; unfold two64, two63 in *; lia).
    assert (b < 128).
    { rewrite Hb. apply Z.div_lt_upper_bound; unfold two64, two63 in *; lia. }
    destruct (128 <=? b) eqn:E; lia.
Qed.

Theorem imax2INTEGER_canonical v :
  - two63 <= v < two63 ->
  twos_value (imax2INTEGER v) = v /\ minimal_twos (imax2INTEGER v) = true /\
  bytes_ok (imax2INTEGER v) /\ imax2INTEGER v <> [].
Proof.
  intros Hv. unfold imax2INTEGER.
  assert (Hne : be_bytes 8 (to_unsigned64 v) <> []) by (cbn [be_bytes]; congruence).
  destruct (strip_spec _ (be_bytes_ok 8 (to_unsigned64 v)) Hne) as (H1 & H2 & H3 & _ & H5).
  rewrite H1, be8_twos by exact Hv. auto.
Qed.

Theorem imax_roundtrip v :
  - two63 <= v < two63 -> INTEGER2imax (imax2INTEGER v) = COk v.
Proof.
  intros Hv. destruct (imax2INTEGER_canonical v Hv) as (H1 & _ & H3 & H4).
  rewrite INTEGER2imax_exact by assumption. rewrite H1.
  unfold in_imax. destruct ((- two63 <=? v) && (v <? two63)) eqn:E; [reflexivity|lia].
Qed.

Theorem long_roundtrip v :
  - two63 <= v < two63 -> INTEGER2long (long2INTEGER v) = COk v.
Proof.
  intros Hv. unfold INTEGER2long, long2INTEGER. rewrite imax_roundtrip by exact Hv.
  destruct ((v <? - two63) || (two63 - 1 <? v)) eqn:E; [lia|reflexivity].
Qed.

Theorem INTEGER2long_exact bs :
  bytes_ok bs -> bs <> [] ->
  INTEGER2long bs = if in_imax (twos_value bs) then COk (twos_value bs) else CErange.
Proof.
  intros Hok Hne. unfold INTEGER2long. rewrite INTEGER2imax_exact by assumption.
  unfold in_imax.
  destruct ((- two63 <=? twos_value bs) && (twos_value bs <? two63)) eqn:E; [|reflexivity].
  destruct ((twos_value bs <? - two63) || (two63 - 1 <? twos_value bs)) eqn:E2; [lia|reflexivity].
Qed.

(* ---------------- unsigned side ---------------- *)

Lemma skip_zeros_spec n bs :
  bytes_ok bs ->
  match skip_zeros n bs with
  | Some bs' => be_val bs' = be_val bs /\ bytes_ok bs' /\
                length bs' = (length bs - Nat.min n (length bs))%nat
  | None => 256 ^ Z.of_nat (length bs - n) <= be_val bs
  end.
Proof.
  revert bs. induction n as [|n IH]; intros bs Hok; cbn [skip_zeros].
  - repeat split; auto. cbn. lia.
  - destruct bs as [|b tl]; [repeat split; auto|].
    pose proof (bytes_ok_inv _ _ Hok) as [Hb Htl].
    destruct (b =? 0) eqn:E0.
    + specialize (IH tl Htl). destruct (skip_zeros n tl).
      * destruct IH as (H1 & H2 & H3). split; [|split]; auto;
          try (cbn [be_val]; rewrite H1; lia);
          try (cbn [length]; rewrite H3; cbn; lia).
      * cbn [be_val length]. replace (S (length tl) - S n)%nat with (length tl - n)%nat by lia. lia.
    + cbn [be_val length]. pose proof (be_val_bound tl Htl).
      assert (256 ^ Z.of_nat (S (length tl) - S n) <= 256 ^ zlen tl).
      { unfold zlen. apply Z.pow_le_mono_r; lia. }
      pose proof (zlen_pos_pow tl). nia.
Qed.

(* INTEGER2umax is exact on non-negative contents ... *)
Theorem INTEGER2umax_exact_nonneg bs :
  bytes_ok bs -> 0 <= twos_value bs -> be_val bs = twos_value bs ->
  INTEGER2umax bs = if twos_value bs <? two64 then COk (twos_value bs) else CErange.
Proof.
  intros Hok Hnn Hbe. unfold INTEGER2umax.
  pose proof (skip_zeros_spec (length bs - 8) bs Hok) as Hs.
  destruct (skip_zeros (length bs - 8) bs) as [bs'|].
  - destruct Hs as (H1 & H2 & H3).
    assert (Hl : zlen bs' <= 8) by (unfold zlen; lia).
    pose proof (be_val_bound bs' H2) as Hb.
    pose proof (pow256_le_8 (zlen bs') ltac:(pose proof (zlen_nonneg bs'); lia)).
    rewrite fold_be_val_mod; [| unfold two64; lia | reflexivity | exact H2 | unfold two64; lia].
    rewrite Z.mul_0_l, Z.add_0_l, Z.mod_small by lia.
    rewrite <- Hbe, <- H1. destruct (be_val bs' <? two64) eqn:E; [reflexivity|lia].
  - assert (two64 <= 256 ^ Z.of_nat (length bs - (length bs - 8))).
    { destruct (le_lt_dec (length bs) 8) as [Hle|Hgt].
      - exfalso. replace (length bs - 8)%nat with 0%nat in Hs by lia.
        replace (length bs - 0)%nat with (length bs) in Hs by lia.
        pose proof (be_val_bound bs Hok). unfold zlen in *. lia.
      - replace (length bs - (length bs - 8))%nat with 8%nat by lia. reflexivity. }
    rewrite <- Hbe. destruct (be_val bs <? two64) eqn:E; [lia|reflexivity].
Qed.

(* ... but silently accepts negative ones (FIXME in INTEGER.c): the full
   "range error exactly when the value does not fit" is false of the code. *)
Theorem INTEGER2umax_exact_refuted :
  exists bs, bytes_ok bs /\ twos_value bs < 0 /\ INTEGER2umax bs = COk 255.
Proof.
  exists [255]. split; [repeat constructor; unfold byte_ok; lia|].
  split; vm_compute; reflexivity.
Qed.

Lemma nonneg_be_val bs : bytes_ok bs -> 0 <= twos_value bs -> bs <> [] -> be_val bs = twos_value bs.
Proof.
  intros Hok Hnn Hne. destruct bs as [|b tl]; [congruence|].
  pose proof (bytes_ok_inv _ _ Hok) as [Hb Htl].
  pose proof (be_val_bound tl Htl). pose proof (zlen_pos_pow tl).
  rewrite twos_value_cons in *. cbn [be_val]. unfold sbyte in *.
  destruct (128 <=? b) eqn:E; [nia|reflexivity].
Qed.

Theorem umax2INTEGER_canonical u :
  0 <= u < two64 ->
  twos_value (umax2INTEGER u) = u /\ minimal_twos (umax2INTEGER u) = true /\
  bytes_ok (umax2INTEGER u) /\ umax2INTEGER u <> [].
Proof.
  intros Hu. unfold umax2INTEGER.
  destruct (u <=? two63 - 1) eqn:E.
  - apply imax2INTEGER_canonical. unfold two63 in *. lia.
  - assert (Hbe : be_val (be_bytes 8 u) = u).
    { rewrite be_val_be_bytes. change (256 ^ Z.of_nat 8) with two64. apply Z.mod_small; lia. }
    assert (Hlen : zlen (be_bytes 8 u) = 8) by (unfold zlen; rewrite be_bytes_length; reflexivity).
    split; [|split; [|split]].
    + rewrite twos_value_cons. unfold sbyte. cbn [Z.leb Z.compare]. rewrite Hbe. lia.
    + remember (be_bytes 8 u) as bs eqn:Ebs. cbn [be_bytes] in Ebs.
      destruct bs as [|b tl]; [discriminate|]. injection Ebs as Eb Etl.
      cbn [minimal_twos]. change (256 ^ Z.of_nat 7) with 72057594037927936 in Eb.
      assert (128 <= b).
      { rewrite Eb. rewrite Z.mod_small.
        - apply Z.div_le_lower_bound; unfold two63, two64 in *; lia.
        - split; [apply Z.div_pos; lia|]. apply Z.div_lt_upper_bound; unfold two64 in *; lia. }
      destruct (b <? 128) eqn:E2; [lia|]. reflexivity.
    + constructor; [unfold byte_ok; lia|apply be_bytes_ok].
    + congruence.
Qed.

Theorem umax_roundtrip u :
  0 <= u < two64 -> INTEGER2umax (umax2INTEGER u) = COk u.
Proof.
  intros Hu. destruct (umax2INTEGER_canonical u Hu) as (H1 & _ & H3 & H4).
  rewrite INTEGER2umax_exact_nonneg; auto.
  - rewrite H1. destruct (u <? two64) eqn:E; [reflexivity|lia].
  - lia.
  - apply nonneg_be_val; auto. lia.
Qed.

(* asn_ulong2INTEGER goes through the signed path *)
Theorem ulong2INTEGER_canonical_partial u :
  0 <= u < two63 ->
  twos_value (ulong2INTEGER u) = u /\ minimal_twos (ulong2INTEGER u) = true.
Proof.
  intros Hu. unfold ulong2INTEGER, to_signed64.
  destruct (u <? two63) eqn:E; [|lia].
  destruct (imax2INTEGER_canonical u ltac:(unfold two63 in *; lia)) as (H1 & H2 & _). auto.
Qed.

Theorem ulong_roundtrip_partial u :
  0 <= u < two63 -> INTEGER2ulong (ulong2INTEGER u) = COk u.
Proof.
  intros Hu. unfold INTEGER2ulong, ulong2INTEGER, to_signed64.
  destruct (u <? two63) eqn:E; [|lia].
  destruct (imax2INTEGER_canonical u ltac:(unfold two63 in *; lia)) as (H1 & _ & H3 & H4).
  rewrite INTEGER2umax_exact_nonneg; auto.
  - rewrite H1. destruct (u <? two64) eqn:E2; [|unfold two63, two64 in *; lia].
    destruct (two64 - 1 <? u) eqn:E3; [unfold two63, two64 in *; lia|reflexivity].
  - lia.
  - apply nonneg_be_val; auto. lia.
Qed.

(* full statements for unsigned long are false of the code *)
Theorem ulong_canonical_refuted :
  exists u, 0 <= u < two64 /\ twos_value (ulong2INTEGER u) <> u.
Proof. exists two63. split; [unfold two63, two64; lia|]. vm_compute. discriminate. Qed.

Theorem ulong_roundtrip_refuted :
  exists u, 0 <= u < two64 /\ INTEGER2ulong (ulong2INTEGER u) <> COk u.
Proof. exists (two64 - 1). split; [unfold two64; lia|]. vm_compute. discriminate. Qed.
