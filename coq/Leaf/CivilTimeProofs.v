(* Leaf/CivilTimeProofs.v — days_from_civil and civil_from_days are mutually
   inverse on all of Z (every day number, every valid proleptic Gregorian date),
   and the modelled timegm inverts the modelled gmtime/localtime. *)
From Coq Require Import ZArith List Lia Bool ZifyBool.
From A1 Require Import Leaf.CivilTime.
Import ListNotations.
Local Open Scope Z_scope.

Ltac Zify.zify_post_hook ::= Z.div_mod_to_equations.

(* the 400-year cycle: day-of-era <-> (year-of-era, day-of-year); day 365 of a
   March-based year exists only when the following February has 29 days *)
Definition doy_ok (yoe doy : Z) : Prop :=
  0 <= doy /\ (doy <= 364 \/ (doy = 365 /\ yoe mod 4 = 3 /\ (yoe mod 100 <> 99 \/ yoe = 399))).

Lemma doe_bounds doe : 0 <= doe <= 146096 ->
  0 <= yoe_of_doe doe <= 399 /\
  doy_ok (yoe_of_doe doe)
         (doe - (365 * yoe_of_doe doe + yoe_of_doe doe / 4 - yoe_of_doe doe / 100)).
Proof. intros H. unfold doy_ok, yoe_of_doe. lia. Qed.

Lemma yoe_recover yoe doy : 0 <= yoe <= 399 -> doy_ok yoe doy ->
  yoe_of_doe (yoe * 365 + yoe / 4 - yoe / 100 + doy) = yoe.
Proof. intros H1 H2. unfold doy_ok, yoe_of_doe in *. lia. Qed.

(* what civil_from_days computes, with the ranges of the intermediate values *)
Lemma civil_from_days_spec n :
  exists era yoe doy mp,
    0 <= yoe <= 399 /\ doy_ok yoe doy /\ 0 <= mp <= 11 /\ mp = (5 * doy + 2) / 153 /\
    n + 719468 = era * 146097 + (yoe * 365 + yoe / 4 - yoe / 100 + doy) /\
    civil_from_days n =
      (if mp <? 10 then yoe + era * 400 else yoe + era * 400 + 1,
       if mp <? 10 then mp + 3 else mp - 9,
       doy - (153 * mp + 2) / 5 + 1).
Proof.
  unfold civil_from_days. cbv zeta.
  set (era := (n + 719468) / 146097).
  set (doe := n + 719468 - era * 146097).
  assert (Hdoe : 0 <= doe <= 146096) by (subst doe era; lia).
  destruct (doe_bounds doe Hdoe) as [Hy Hd].
  set (yoe := yoe_of_doe doe) in *.
  set (doy := doe - (365 * yoe + yoe / 4 - yoe / 100)) in *.
  set (mp := (5 * doy + 2) / 153).
  assert (Hmp : 0 <= mp <= 11) by (unfold doy_ok in Hd; subst mp; lia).
  exists era, yoe, doy, mp. repeat split; try (unfold doy_ok in Hd; lia).
  destruct (mp <? 10) eqn:E.
  - destruct (mp + 3 <=? 2) eqn:E2; [lia|]. reflexivity.
  - destruct (mp - 9 <=? 2) eqn:E2; [|lia]. reflexivity.
Qed.

(* every day number: converting to a date and back is the identity *)
Theorem days_civil_days n :
  let '(y, m, d) := civil_from_days n in days_from_civil y m d = n.
Proof.
  destruct (civil_from_days_spec n) as (era & yoe & doy & mp & Hy & Hd & Hmp & Hmpe & Hn & Hc).
  rewrite Hc. clear Hc. unfold days_from_civil. cbv zeta.
  destruct (mp <? 10) eqn:E.
  - destruct (mp + 3 <=? 2) eqn:E2; [lia|]. destruct (2 <? mp + 3) eqn:E3; [|lia].
    replace (mp + 3 - 3) with mp by lia.
    replace ((yoe + era * 400) / 400) with era by lia.
    replace (yoe + era * 400 - era * 400) with yoe by lia. lia.
  - destruct (mp - 9 <=? 2) eqn:E2; [|lia]. destruct (2 <? mp - 9) eqn:E3; [lia|].
    replace (mp - 9 + 9) with mp by lia.
    replace (yoe + era * 400 + 1 - 1) with (yoe + era * 400) by lia.
    replace ((yoe + era * 400) / 400) with era by lia.
    replace (yoe + era * 400 - era * 400) with yoe by lia. lia.
Qed.

Lemma is_leap_shift yoe era : 0 <= yoe <= 399 ->
  is_leap (yoe + era * 400 + 1) = true <-> (yoe mod 4 = 3 /\ (yoe mod 100 <> 99 \/ yoe = 399)).
Proof. intros H. unfold is_leap. lia. Qed.

(* the date it yields is a valid one *)
Theorem civil_from_days_valid n :
  let '(y, m, d) := civil_from_days n in valid_date y m d = true.
Proof.
  destruct (civil_from_days_spec n) as (era & yoe & doy & mp & Hy & Hd & Hmp & Hmpe & Hn & Hc).
  rewrite Hc. clear Hc. unfold doy_ok in Hd.
  assert (Hcases : mp = 0 \/ mp = 1 \/ mp = 2 \/ mp = 3 \/ mp = 4 \/ mp = 5 \/ mp = 6 \/
                   mp = 7 \/ mp = 8 \/ mp = 9 \/ mp = 10 \/ mp = 11) by lia.
  unfold valid_date, days_in_month.
  destruct (mp <? 10) eqn:E10.
  - destruct (mp + 3 =? 2) eqn:E2; [lia|].
    destruct ((mp + 3 =? 4) || (mp + 3 =? 6) || (mp + 3 =? 9) || (mp + 3 =? 11)) eqn:E3;
      destruct Hcases as [H|[H|[H|[H|[H|[H|[H|[H|[H|[H|[H|H]]]]]]]]]]]; lia.
  - destruct (mp - 9 =? 2) eqn:E2.
    + destruct (is_leap (yoe + era * 400 + 1)) eqn:EL; [lia|].
      assert (HL : ~ (yoe mod 4 = 3 /\ (yoe mod 100 <> 99 \/ yoe = 399))).
      { intros HH. apply (is_leap_shift yoe era Hy) in HH. congruence. }
      lia.
    + destruct ((mp - 9 =? 4) || (mp - 9 =? 6) || (mp - 9 =? 9) || (mp - 9 =? 11)) eqn:E3; lia.
Qed.

(* every valid date: converting to a day number and back is the identity *)
Theorem civil_days_civil y m d : valid_date y m d = true ->
  civil_from_days (days_from_civil y m d) = (y, m, d).
Proof.
  intros Hv. unfold valid_date, days_in_month in Hv.
  assert (Hm : 1 <= m <= 12) by lia.
  assert (Hd1 : 1 <= d <= 31).
  { destruct (m =? 2); [destruct (is_leap y)|destruct ((m =? 4) || (m =? 6) || (m =? 9) || (m =? 11))]; lia. }
  unfold days_from_civil. cbv zeta.
  set (y' := if m <=? 2 then y - 1 else y).
  set (era := y' / 400). set (yoe := y' - era * 400).
  set (mp := if 2 <? m then m - 3 else m + 9).
  set (doy := (153 * mp + 2) / 5 + d - 1).
  assert (Hyoe : 0 <= yoe <= 399) by (subst yoe era; lia).
  assert (Hmp : 0 <= mp <= 11 /\ m = (if mp <? 10 then mp + 3 else mp - 9)).
  { subst mp. destruct (2 <? m) eqn:E.
    - destruct (m - 3 <? 10) eqn:E2; lia.
    - destruct (m + 9 <? 10) eqn:E2; lia. }
  destruct Hmp as [Hmp Hmm].
  assert (Hy : y = (if mp <? 10 then yoe + era * 400 else yoe + era * 400 + 1)).
  { subst yoe y' mp. destruct (2 <? m) eqn:E.
    - destruct (m - 3 <? 10) eqn:E2; [|lia]. destruct (m <=? 2) eqn:E3; lia.
    - destruct (m + 9 <? 10) eqn:E2; [lia|]. destruct (m <=? 2) eqn:E3; lia. }
  assert (Hdoy : doy_ok yoe doy /\ mp = (5 * doy + 2) / 153).
  { assert (Hcases : mp = 0 \/ mp = 1 \/ mp = 2 \/ mp = 3 \/ mp = 4 \/ mp = 5 \/ mp = 6 \/
                     mp = 7 \/ mp = 8 \/ mp = 9 \/ mp = 10 \/ mp = 11) by lia.
    unfold doy_ok. subst doy.
    destruct (mp <? 10) eqn:E10.
    - destruct (m =? 2) eqn:E2; [lia|].
      destruct ((m =? 4) || (m =? 6) || (m =? 9) || (m =? 11)) eqn:E3;
        destruct Hcases as [H|[H|[H|[H|[H|[H|[H|[H|[H|[H|[H|H]]]]]]]]]]]; lia.
    - destruct (m =? 2) eqn:E2.
      + assert (mp = 11) by lia.
        destruct (is_leap y) eqn:EL; [|lia].
        rewrite Hy in EL. apply (is_leap_shift yoe era Hyoe) in EL. lia.
      + destruct ((m =? 4) || (m =? 6) || (m =? 9) || (m =? 11)) eqn:E3; lia. }
  destruct Hdoy as [Hdoy Hmpe].
  set (doe := yoe * 365 + yoe / 4 - yoe / 100 + doy).
  assert (Hdoe : 0 <= doe <= 146096) by (unfold doy_ok in Hdoy; subst doe; lia).
  unfold civil_from_days. cbv zeta.
  replace (era * 146097 + doe - 719468 + 719468) with (era * 146097 + doe) by lia.
  replace ((era * 146097 + doe) / 146097) with era by lia.
  replace (era * 146097 + doe - era * 146097) with doe by lia.
  assert (Hrec : yoe_of_doe doe = yoe) by (subst doe; apply yoe_recover; assumption).
  rewrite Hrec.
  replace (doe - (365 * yoe + yoe / 4 - yoe / 100)) with doy by (subst doe; lia).
  rewrite <- Hmpe.
  replace (doy - (153 * mp + 2) / 5 + 1) with d by (subst doy; lia).
  destruct (mp <? 10) eqn:E10.
  - destruct (mp + 3 <=? 2) eqn:E2; [lia|]. rewrite Hy, Hmm. reflexivity.
  - destruct (mp - 9 <=? 2) eqn:E2; [|lia]. rewrite Hy, Hmm. reflexivity.
Qed.

(* ------------------------------------------------------------------ *)
(* the modelled libc: timegm inverts gmtime, and localtime with the offset
   taken out of tm_sec *)
Lemma tm_eta x : x = mkTm (tm_sec x) (tm_min x) (tm_hour x) (tm_mday x) (tm_mon x) (tm_year x) (tm_gmtoff x).
Proof. destruct x; reflexivity. Qed.

Theorem timegm_gmtime t : timegm_val (gmtime t) = t.
Proof.
  unfold gmtime.
  pose proof (days_civil_days (t / 86400)) as Hinv.
  pose proof (civil_from_days_valid (t / 86400)) as Hval.
  destruct (civil_from_days (t / 86400)) as [[y m] d].
  unfold valid_date in Hval. unfold timegm_val. cbn [tm_sec tm_min tm_hour tm_mday tm_mon tm_year].
  replace (y - 1900 + 1900 + (m - 1) / 12) with y by lia.
  replace ((m - 1) mod 12 + 1) with m by lia.
  assert (Hd : days_from_civil y m 1 + (d - 1) = days_from_civil y m d).
  { unfold days_from_civil. cbv zeta. lia. }
  rewrite Hd, Hinv. lia.
Qed.

Theorem timegm_localtime t gmtoff :
  let lt := localtime t gmtoff in
  timegm_val (set_sec lt (tm_sec lt - gmtoff)) = t.
Proof.
  cbv zeta. pose proof (timegm_gmtime (t + gmtoff)) as H.
  unfold localtime. destruct (gmtime (t + gmtoff)) as [s mi h d mo y off].
  unfold set_sec, timegm_val in *.
  cbn [tm_sec tm_min tm_hour tm_mday tm_mon tm_year] in *.
  set (D := days_from_civil _ _ _) in *. lia.
Qed.

(* field ranges of a broken-down time *)
Theorem gmtime_ranges t :
  let g := gmtime t in
  0 <= tm_sec g <= 59 /\ 0 <= tm_min g <= 59 /\ 0 <= tm_hour g <= 23 /\
  1 <= tm_mday g <= 31 /\ 0 <= tm_mon g <= 11 /\ tm_gmtoff g = 0.
Proof.
  cbv zeta. unfold gmtime.
  pose proof (civil_from_days_valid (t / 86400)) as Hval.
  destruct (civil_from_days (t / 86400)) as [[y m] d].
  unfold valid_date, days_in_month in Hval.
  cbn [tm_sec tm_min tm_hour tm_mday tm_mon tm_year tm_gmtoff].
  assert (Hd : 1 <= d <= 31).
  { destruct (m =? 2); [destruct (is_leap y)|destruct ((m =? 4) || (m =? 6) || (m =? 9) || (m =? 11))]; lia. }
  lia.
Qed.

(* the year printed: monotone in the day number, so a range of t is a range of years *)
Lemma days_from_civil_jan1_mono y1 y2 : y1 <= y2 -> days_from_civil y1 1 1 <= days_from_civil y2 1 1.
Proof. intros H. unfold days_from_civil. cbv zeta. cbn [Z.leb Z.ltb Z.compare Pos.compare Pos.compare_cont]. lia. Qed.

Example civil_example_epoch : civil_from_days 0 = (1970, 1, 1) /\ days_from_civil 2000 2 29 = 11016.
Proof. vm_compute. split; reflexivity. Qed.

Example civil_example_valid : valid_date 2000 2 29 = true /\ valid_date 1900 2 29 = false.
Proof. vm_compute. split; reflexivity. Qed.
