(* Leaf/RealConvBytes.v — byte-level lemmas for Leaf/RealConvProofs.v: the
   scratch pad and mstop, the make-odd shift (finite sweeps over byte values,
   bounds in the statements), parity, the exponent octets. *)
From Coq Require Import ZArith List Lia Bool ZifyBool.
From A1 Require Import Base.Bytes Leaf.IntegerConv Leaf.RealConv.
Import ListNotations.
Local Open Scope Z_scope.

(* ================================================================ *)
(* 1a. generic list / be_val facts                                   *)

Definition zeros (l : list Z) : Prop := Forall (fun b => b = 0) l.

Lemma be_val_zeros l : zeros l -> be_val l = 0.
Proof.
  induction 1 as [|b tl Hb Htl IH]; cbn [be_val]; [reflexivity|]. subst b. lia.
Qed.

Lemma be_val_snoc l x : be_val (l ++ [x]) = be_val l * 256 + x.
Proof. rewrite be_val_app. cbn [be_val]. unfold zlen. simpl. lia. Qed.

Lemma bytes_ok_app l1 l2 : bytes_ok (l1 ++ l2) <-> bytes_ok l1 /\ bytes_ok l2.
Proof. unfold bytes_ok. apply Forall_app. Qed.

Lemma be_bytes_S n v :
  be_bytes (S n) v = (v / 256 ^ Z.of_nat n) mod 256 :: be_bytes n v.
Proof. reflexivity. Qed.

Lemma zlen_be_bytes n v : zlen (be_bytes n v) = Z.of_nat n.
Proof. unfold zlen. now rewrite be_bytes_length. Qed.

Lemma firstn_snoc_app {A} (init : list A) x tl :
  firstn (S (length init)) (init ++ x :: tl) = init ++ [x].
Proof.
  induction init as [|a l IH]; cbn [length app firstn]; [reflexivity|].
  f_equal. exact IH.
Qed.

Lemma nth_middle0 (init : list Z) x tl : nth (length init) (init ++ x :: tl) 0 = x.
Proof. apply nth_middle. Qed.

(* ================================================================ *)
(* 1b. the scratch pad: mstop                                        *)

Lemma last_nonzero_spec : forall T i cur,
  (last_nonzero i cur T = cur /\ zeros T) \/
  (exists pre x post, T = pre ++ x :: post /\ x <> 0 /\ zeros post /\
                      last_nonzero i cur T = i + zlen pre).
Proof.
  induction T as [|b t IH]; intros i cur; cbn [last_nonzero].
  - left. split; [reflexivity|constructor].
  - destruct (IH (i + 1) (if b =? 0 then cur else i)) as [[Hr Hz]|(pre & x & post & Ht & Hx & Hz & Hr)].
    + destruct (b =? 0) eqn:Eb.
      * left. split; [exact Hr|]. constructor; [lia|exact Hz].
      * right. exists [], b, t. repeat split; try assumption; try lia.
        rewrite Hr. unfold zlen. simpl. lia.
    + right. exists (b :: pre), x, post. repeat split; try assumption.
      * rewrite Ht. reflexivity.
      * rewrite Hr, zlen_cons. lia.
Qed.

(* the scratch pad after its first byte was overwritten by a non-zero one:
   the kept bytes init ++ [mval], then zero bytes only; mval <> 0 *)
Lemma scratch_spec h b0 T : h <> 0 ->
  exists init mval zs,
    h :: T = init ++ mval :: zs /\ zeros zs /\
    zlen init = mstop_of (b0 :: T) /\ mval <> 0.
Proof.
  intros Hh. unfold mstop_of. cbn [last_nonzero].
  replace (if b0 =? 0 then 0 else 0) with 0 by (destruct (b0 =? 0); reflexivity).
  destruct (last_nonzero_spec T (0 + 1) 0) as [[Hr Hz]|(pre & x & post & Ht & Hx & Hz & Hr)].
  - exists [], h, T. repeat split; try assumption. rewrite Hr. reflexivity.
  - exists (h :: pre), x, post. repeat split; try assumption.
    + rewrite Ht. reflexivity.
    + rewrite Hr, zlen_cons. lia.
Qed.

(* the scratch pad of a subnormal (first byte kept as it is) holds the non-zero
   fraction: same decomposition *)
Lemma scratch_spec_nz b0 T : ~ zeros (b0 :: T) ->
  exists init mval zs,
    b0 :: T = init ++ mval :: zs /\ zeros zs /\
    zlen init = mstop_of (b0 :: T) /\ mval <> 0.
Proof.
  intros Hnz. unfold mstop_of.
  destruct (last_nonzero_spec (b0 :: T) 0 0) as [[_ Hz]|(pre & x & post & Ht & Hx & Hz & Hr)].
  - contradiction.
  - exists pre, x, post. repeat split; try assumption. rewrite Hr. lia.
Qed.

(* the copy skips leading zero bytes and keeps the last byte: same value, and a
   non-zero first byte whenever the value is not zero *)
Lemma skip_lead_zeros_spec l : bytes_ok l ->
  be_val (skip_lead_zeros l) = be_val l /\ bytes_ok (skip_lead_zeros l) /\
  (l <> [] -> skip_lead_zeros l <> []) /\
  (be_val l <> 0 -> hd 0 (skip_lead_zeros l) <> 0).
Proof.
  induction l as [|b tl IH]; intros Hok.
  - cbn. repeat split; try assumption; intros; congruence.
  - inversion Hok as [|? ? Hb Htl]; subst.
    destruct tl as [|c tl'].
    + cbn [skip_lead_zeros]. repeat split; try assumption; try congruence.
      cbn [be_val hd]. unfold zlen. simpl. lia.
    + cbn [skip_lead_zeros]. destruct (b =? 0) eqn:Eb.
      * destruct (IH Htl) as (Hv & Hk & Hne & Hhd).
        assert (Hb0 : b = 0) by lia. subst b.
        replace (be_val (0 :: c :: tl')) with (be_val (c :: tl')) by (cbn [be_val]; lia).
        repeat split; try assumption. intros _. apply Hne. congruence.
      * repeat split; try assumption; try congruence. cbn [hd]. lia.
Qed.

(* ================================================================ *)
(* 1c. shift count and the make-odd shift                            *)

Definition range256 : list Z := map Z.of_nat (seq 0 256).

Lemma range256_in b : 0 <= b < 256 -> In b range256.
Proof.
  intros H. unfold range256. apply in_map_iff. exists (Z.to_nat b). split; [lia|].
  apply in_seq. lia.
Qed.

Definition shift_count_ok (mval : Z) : bool :=
  (mval =? 0) || (mval mod 2 =? 1) ||
  let sc := shift_count mval in
  (1 <=? sc) && (sc <=? 7) && (mval mod 2 ^ sc =? 0) && ((mval / 2 ^ sc) mod 2 =? 1).

Lemma shift_count_sweep : forallb shift_count_ok range256 = true.
Proof. vm_compute. reflexivity. Qed.

Lemma shift_count_spec mval : 0 <= mval < 256 -> mval <> 0 -> mval mod 2 = 0 ->
  let sc := shift_count mval in
  1 <= sc <= 7 /\ mval mod 2 ^ sc = 0 /\ (mval / 2 ^ sc) mod 2 = 1.
Proof.
  intros Hb Hnz Hev.
  pose proof (proj1 (forallb_forall _ _) shift_count_sweep mval (range256_in mval Hb)) as H.
  unfold shift_count_ok in H. cbv zeta in *. lia.
Qed.

(* with mval = 0x1X kept alone (mstop = 0) the shift is at most 4 *)
Definition shift_count_ok16 (x : Z) : bool := shift_count (16 + x) <=? 4.
Lemma shift_count_sweep16 : forallb shift_count_ok16 (map Z.of_nat (seq 0 16)) = true.
Proof. vm_compute. reflexivity. Qed.

(* one step of the shift loop, all previous/current byte values and counts *)
Definition shr_step_ok (sc a b : Z) : bool :=
  (Z.lor (a * 2 ^ (8 - sc)) (b / 2 ^ sc)) mod 256 =? (a mod 2 ^ sc) * 2 ^ (8 - sc) + b / 2 ^ sc.

Lemma shr_step_sweep :
  forallb (fun sc => forallb (fun a => forallb (shr_step_ok sc a) range256) range256)
          [1; 2; 3; 4; 5; 6; 7] = true.
Proof. vm_compute. reflexivity. Qed.

Lemma shr_step sc a b : 1 <= sc <= 7 -> 0 <= a < 256 -> 0 <= b < 256 ->
  (Z.lor (a * 2 ^ (8 - sc)) (b / 2 ^ sc)) mod 256 = (a mod 2 ^ sc) * 2 ^ (8 - sc) + b / 2 ^ sc.
Proof.
  intros Hsc Ha Hb.
  pose proof (proj1 (forallb_forall _ _) shr_step_sweep sc) as H1.
  assert (Hin : In sc [1; 2; 3; 4; 5; 6; 7]) by (simpl; lia).
  specialize (H1 Hin). cbv beta in H1.
  pose proof (proj1 (forallb_forall _ _) H1 a (range256_in a Ha)) as H2. cbv beta in H2.
  pose proof (proj1 (forallb_forall _ _) H2 b (range256_in b Hb)) as H3.
  unfold shr_step_ok in H3. lia.
Qed.

Lemma pow2_split sc : 1 <= sc <= 7 -> 256 = 2 ^ sc * 2 ^ (8 - sc).
Proof. intros H. rewrite <- Z.pow_add_r by lia. replace (sc + (8 - sc)) with 8 by lia. reflexivity. Qed.

Lemma shr_bytes_val sc : 1 <= sc <= 7 -> forall l a, bytes_ok l -> 0 <= a < 256 ->
  be_val (shr_bytes sc (a * 2 ^ (8 - sc)) l) = ((a mod 2 ^ sc) * 256 ^ zlen l + be_val l) / 2 ^ sc
  /\ bytes_ok (shr_bytes sc (a * 2 ^ (8 - sc)) l)
  /\ length (shr_bytes sc (a * 2 ^ (8 - sc)) l) = length l.
Proof.
  intros Hsc. pose proof (pow2_split sc Hsc) as H256.
  assert (Hs : 0 < 2 ^ sc) by (apply Z.pow_pos_nonneg; lia).
  assert (Ht : 0 < 2 ^ (8 - sc)) by (apply Z.pow_pos_nonneg; lia).
  induction l as [|b tl IH]; intros a Hl Ha.
  - cbn [shr_bytes be_val length]. split; [|split; [constructor|reflexivity]].
    unfold zlen. simpl. rewrite Z.mul_1_r, Z.add_0_r.
    symmetry. apply Z.div_small. apply Z.mod_pos_bound. lia.
  - inversion Hl as [|? ? Hb Htl]; subst. unfold byte_ok in Hb.
    cbn [shr_bytes be_val length].
    destruct (IH b Htl Hb) as (IHv & IHok & IHlen).
    rewrite shr_step by assumption.
    split; [|split].
    + unfold zlen at 1. rewrite IHlen. fold (zlen tl). rewrite IHv.
      rewrite pow256_zlen_cons.
      set (P := 256 ^ zlen tl). set (V := be_val tl).
      set (s := 2 ^ sc) in *. set (t := 2 ^ (8 - sc)) in *.
      set (a' := a mod s).
      pose proof (Z.div_mod b s ltac:(lia)) as Hbdm.
      set (bq := b / s) in *. set (br := b mod s) in *.
      replace (a' * (256 * P) + (b * P + V))
        with ((a' * t * P + bq * P) * s + (br * P + V)) by (rewrite H256, Hbdm; ring).
      rewrite Z.div_add_l by lia. ring.
    + constructor; [|exact IHok]. unfold byte_ok.
      pose proof (Z.mod_pos_bound a (2 ^ sc) Hs).
      assert (0 <= b / 2 ^ sc < 2 ^ (8 - sc)).
      { split; [apply Z.div_pos; lia|]. apply Z.div_lt_upper_bound; lia. }
      nia.
    + f_equal. exact IHlen.
Qed.

Lemma shr_bytes_val0 sc l : 1 <= sc <= 7 -> bytes_ok l ->
  be_val (shr_bytes sc 0 l) = be_val l / 2 ^ sc /\ bytes_ok (shr_bytes sc 0 l)
  /\ length (shr_bytes sc 0 l) = length l.
Proof.
  intros Hsc Hl.
  pose proof (shr_bytes_val sc Hsc l 0 Hl ltac:(lia)) as H.
  rewrite Z.mul_0_l in H. rewrite Z.mod_0_l in H by (apply Z.pow_nonzero; lia).
  rewrite Z.mul_0_l, Z.add_0_l in H. exact H.
Qed.

(* parity of a big-endian value is the parity of its last byte *)
Lemma be_val_last_mod2 l : l <> [] -> be_val l mod 2 = last l 0 mod 2.
Proof.
  induction l as [|b tl IH]; intros Hne; [congruence|].
  destruct tl as [|b1 tl'].
  - cbn [be_val last]. unfold zlen. simpl. f_equal. lia.
  - cbn [be_val] in *. change (last (b :: b1 :: tl') 0) with (last (b1 :: tl') 0).
    rewrite <- IH by congruence. rewrite pow256_zlen_cons.
    replace (b * (256 * 256 ^ zlen tl')) with ((b * 128 * 256 ^ zlen tl') * 2) by ring.
    rewrite Z.add_comm. apply Z.mod_add. lia.
Qed.

(* ================================================================ *)
(* 1d. exponent octets                                               *)

Lemma exp_octets_spec bm E : -8388608 <= E < 8388608 ->
  exists eb, exp_octets bm E = (bm + (zlen eb - 1)) :: eb /\ 1 <= zlen eb <= 3 /\
             bytes_ok eb /\ twos_value eb = E /\ minimal_twos eb = true.
Proof.
  intros HE. unfold exp_octets.
  assert (Hb : forall x, byte_ok (x mod 256)) by (intros x; unfold byte_ok; apply Z.mod_pos_bound; lia).
  destruct (E <? 0) eqn:Eneg.
  - destruct (E / 128 =? -1) eqn:E1.
    { exists [E mod 256]. unfold zlen; simpl length. split; [f_equal; lia|]. split; [lia|].
      split; [repeat constructor; apply Hb|]. split; [|reflexivity].
      unfold twos_value. cbn [be_val]. unfold zlen; simpl.
      destruct (128 <=? E mod 256) eqn:C; Z.div_mod_to_equations; lia. }
    destruct (E / 32768 =? -1) eqn:E2.
    { exists [(E / 256) mod 256; E mod 256]. unfold zlen; simpl length. split; [f_equal; lia|]. split; [lia|].
      split; [repeat constructor; apply Hb|]. split.
      - unfold twos_value. cbn [be_val]. unfold zlen; simpl.
        destruct (128 <=? (E / 256) mod 256) eqn:C; Z.div_mod_to_equations; lia.
      - unfold minimal_twos. Z.div_mod_to_equations; lia. }
    { exists [(E / 65536) mod 256; (E / 256) mod 256; E mod 256]. unfold zlen; simpl length.
      split; [f_equal; lia|]. split; [lia|].
      split; [repeat constructor; apply Hb|]. split.
      - unfold twos_value. cbn [be_val]. unfold zlen; simpl.
        destruct (128 <=? (E / 65536) mod 256) eqn:C; Z.div_mod_to_equations; lia.
      - unfold minimal_twos. Z.div_mod_to_equations; lia. }
  - destruct (E <=? 127) eqn:E1.
    { exists [E mod 256]. unfold zlen; simpl length. split; [f_equal; lia|]. split; [lia|].
      split; [repeat constructor; apply Hb|]. split; [|reflexivity].
      unfold twos_value. cbn [be_val]. unfold zlen; simpl.
      destruct (128 <=? E mod 256) eqn:C; Z.div_mod_to_equations; lia. }
    destruct (E <=? 32767) eqn:E2.
    { exists [(E / 256) mod 256; E mod 256]. unfold zlen; simpl length. split; [f_equal; lia|]. split; [lia|].
      split; [repeat constructor; apply Hb|]. split.
      - unfold twos_value. cbn [be_val]. unfold zlen; simpl.
        destruct (128 <=? (E / 256) mod 256) eqn:C; Z.div_mod_to_equations; lia.
      - unfold minimal_twos. Z.div_mod_to_equations; lia. }
    { exists [(E / 65536) mod 256; (E / 256) mod 256; E mod 256]. unfold zlen; simpl length.
      split; [f_equal; lia|]. split; [lia|].
      split; [repeat constructor; apply Hb|]. split.
      - unfold twos_value. cbn [be_val]. unfold zlen; simpl.
        destruct (128 <=? (E / 65536) mod 256) eqn:C; Z.div_mod_to_equations; lia.
      - unfold minimal_twos. Z.div_mod_to_equations; lia. }
Qed.
