(* Leaf/OidProofs.v — theorems about the OBJECT IDENTIFIER arc model (C17):
   single-arc inverse, X.690 8.19 form of the stored octets, get/set round trip
   for OBJECT IDENTIFIER and RELATIVE-OID, totality (fuel), description of
   get_single_arc on arbitrary (over-long) subidentifiers, dotted-text round trip. *)
From Coq Require Import ZArith List Lia Bool ZifyBool.
From A1 Require Import Base.Bytes Leaf.IntegerConv Leaf.StrtoxProofs Leaf.Decimal Leaf.DecimalProofs Leaf.Oid.
Import ListNotations.
Local Open Scope Z_scope.

Ltac Zify.zify_post_hook ::= Z.div_mod_to_equations.

(* ------------------------------------------------------------------ *)
(* Spec layer, X.690 8.19.2: a subidentifier is a series of octets, bit 8 of
   each is one except for the last; bits 7..1 concatenated are the value; the
   leading octet is not 0x80 (fewest possible octets). *)
Definition subid_value (bs : list Z) : Z :=
  fold_left (fun a b => a * 128 + b mod 128) bs 0.

Fixpoint cont_then_last (bs : list Z) : Prop :=
  match bs with
  | [] => False
  | b :: tl =>
      match tl with
      | [] => 0 <= b < 128
      | _ => 128 <= b < 256 /\ cont_then_last tl
      end
  end.

Definition subid_form (bs : list Z) : Prop := cont_then_last bs /\ hd 0 bs <> 128.

Definition arc_ok (a : Z) : Prop := 0 <= a < two32.

(* exactly what OBJECT_IDENTIFIER_set_arcs accepts (8.19.4) *)
Definition valid_first_pair (arc0 arc1 : Z) : Prop :=
  (0 <= arc0 <= 1 /\ 0 <= arc1 < 40) \/ (arc0 = 2 /\ 0 <= arc1 <= arc_max - 80).

(* ------------------------------------------------------------------ *)
(* the continuation octets written for the bits above the low seven *)
Fixpoint hi_bytes (k : nat) (h : Z) : list Z :=
  match k with
  | O => []
  | S k' => if h =? 0 then [] else hi_bytes k' (h / 128) ++ [128 + h mod 128]
  end.

Lemma hi_bytes_S k h :
  hi_bytes (S k) h = if h =? 0 then [] else hi_bytes k (h / 128) ++ [128 + h mod 128].
Proof. reflexivity. Qed.

Lemma hi_bytes_0 k : hi_bytes k 0 = [].
Proof. destruct k; reflexivity. Qed.

Lemma ssa_loop_S k v mask acc :
  ssa_loop (S k) v mask acc =
  if v / 128 =? 0 then (mask + v mod 128) :: acc
  else ssa_loop k (v / 128) 128 ((mask + v mod 128) :: acc).
Proof. reflexivity. Qed.

Lemma pow128_S k : 128 ^ Z.of_nat (S k) = 128 * 128 ^ Z.of_nat k.
Proof. rewrite Nat2Z.inj_succ, Z.pow_succ_r by lia. reflexivity. Qed.

Lemma pow128_pos k : 0 < 128 ^ Z.of_nat k.
Proof. apply Z.pow_pos_nonneg; lia. Qed.

Lemma ssa_loop_spec k : forall v mask acc,
  0 <= v / 128 < 128 ^ Z.of_nat k ->
  ssa_loop (S k) v mask acc = hi_bytes k (v / 128) ++ (mask + v mod 128) :: acc.
Proof.
  induction k as [|k IH]; intros v mask acc Hv; rewrite ssa_loop_S.
  - change (128 ^ Z.of_nat 0) with 1 in Hv.
    destruct (v / 128 =? 0) eqn:E; [reflexivity|lia].
  - rewrite hi_bytes_S. destruct (v / 128 =? 0) eqn:E; [reflexivity|].
    rewrite pow128_S in Hv. pose proof (pow128_pos k) as HP.
    set (P := 128 ^ Z.of_nat k) in *.
    assert (Hq : 0 <= v / 128 / 128 < P).
    { split; [apply Z.div_pos; lia|apply Z.div_lt_upper_bound; lia]. }
    rewrite (IH (v / 128) 128 _ Hq). rewrite <- app_assoc. reflexivity.
Qed.

Lemma arc_octets_spec v : 0 <= v < two32 ->
  arc_octets v = hi_bytes 4 (v / 128) ++ [v mod 128].
Proof.
  intros Hv. unfold arc_octets. rewrite ssa_loop_spec.
  - reflexivity.
  - change (128 ^ Z.of_nat 4) with 268435456. unfold two32 in Hv. lia.
Qed.

Lemma hi_bytes_cont k : forall h, Forall (fun x => 128 <= x < 256) (hi_bytes k h).
Proof.
  induction k as [|k IH]; intros h; [constructor|].
  rewrite hi_bytes_S. destruct (h =? 0); [constructor|].
  apply Forall_app. split; [apply IH|]. constructor; [lia|constructor].
Qed.

Lemma hi_bytes_length k : forall h, (length (hi_bytes k h) <= k)%nat.
Proof.
  induction k as [|k IH]; intros h; [simpl; lia|].
  rewrite hi_bytes_S. destruct (h =? 0); [simpl; lia|].
  rewrite app_length. specialize (IH (h / 128)). simpl. lia.
Qed.

Lemma hi_bytes_hd k : forall h, 0 < h < 128 ^ Z.of_nat k ->
  exists b tl, hi_bytes k h = b :: tl /\ b <> 128.
Proof.
  induction k as [|k IH]; intros h Hh.
  - change (128 ^ Z.of_nat 0) with 1 in Hh. lia.
  - rewrite hi_bytes_S. destruct (h =? 0) eqn:E; [lia|].
    rewrite pow128_S in Hh. pose proof (pow128_pos k) as HP.
    destruct (h / 128 =? 0) eqn:E2.
    + assert (Hz : h / 128 = 0) by lia. rewrite Hz, hi_bytes_0.
      exists (128 + h mod 128), []. split; [reflexivity|lia].
    + assert (Hq : 0 < h / 128 < 128 ^ Z.of_nat k).
      { split; [|apply Z.div_lt_upper_bound; lia].
        assert (0 <= h / 128) by (apply Z.div_pos; lia). lia. }
      destruct (IH _ Hq) as (b & tl & Hb & Hn). rewrite Hb.
      exists b, (tl ++ [128 + h mod 128]). split; [reflexivity|exact Hn].
Qed.

(* ---- the two accumulations: unbounded and uint32_t ---- *)
Definition ufold (bs : list Z) (a : Z) : Z := fold_left (fun a b => a * 128 + b mod 128) bs a.
Definition mfold (bs : list Z) (a : Z) : Z := fold_left arc_step bs a.

Lemma ufold_cons x xs a : ufold (x :: xs) a = ufold xs (a * 128 + x mod 128).
Proof. reflexivity. Qed.
Lemma mfold_cons x xs a : mfold (x :: xs) a = mfold xs (arc_step a x).
Proof. reflexivity. Qed.

Lemma ufold_app xs ys a : ufold (xs ++ ys) a = ufold ys (ufold xs a).
Proof. unfold ufold. apply fold_left_app. Qed.

Lemma pow128_zlen_cons {A} (x : A) l : 128 ^ zlen (x :: l) = 128 * 128 ^ zlen l.
Proof. unfold zlen. apply pow128_S. Qed.

Lemma pow128_zlen_pos {A} (l : list A) : 0 < 128 ^ zlen l.
Proof. unfold zlen. apply pow128_pos. Qed.

Lemma ufold_lin xs : forall a, ufold xs a = a * 128 ^ zlen xs + ufold xs 0.
Proof.
  induction xs as [|x xs IH]; intros a.
  - unfold ufold, zlen. simpl. lia.
  - rewrite !ufold_cons. rewrite (IH (a * 128 + x mod 128)), (IH (0 * 128 + x mod 128)).
    rewrite pow128_zlen_cons. ring.
Qed.

Lemma ufold_ge xs : forall a, 0 <= a -> a <= ufold xs a.
Proof.
  induction xs as [|x xs IH]; intros a Ha; [unfold ufold; simpl; lia|].
  rewrite ufold_cons.
  assert (H : 0 <= a * 128 + x mod 128) by lia.
  specialize (IH _ H). lia.
Qed.

Lemma ufold_hi k : forall h a, 0 <= h < 128 ^ Z.of_nat k ->
  ufold (hi_bytes k h) a = a * 128 ^ zlen (hi_bytes k h) + h.
Proof.
  induction k as [|k IH]; intros h a Hh.
  - change (128 ^ Z.of_nat 0) with 1 in Hh. assert (h = 0) by lia. subst h.
    unfold ufold, zlen. simpl. lia.
  - rewrite hi_bytes_S. destruct (h =? 0) eqn:E.
    + unfold ufold, zlen. simpl. lia.
    + rewrite pow128_S in Hh. pose proof (pow128_pos k) as HP.
      assert (Hq : 0 <= h / 128 < 128 ^ Z.of_nat k).
      { split; [apply Z.div_pos; lia|apply Z.div_lt_upper_bound; lia]. }
      rewrite ufold_app, (IH _ a Hq). rewrite zlen_app.
      change (zlen [128 + h mod 128]) with 1.
      rewrite Z.pow_add_r by (try apply zlen_nonneg; lia). change (128 ^ 1) with 128.
      unfold ufold. cbn [fold_left].
      set (P := 128 ^ zlen (hi_bytes k (h / 128))). lia.
Qed.

Lemma arc_step_small a x : 0 <= a -> a * 128 + x mod 128 < two32 ->
  arc_step a x = a * 128 + x mod 128.
Proof. intros Ha H. unfold arc_step, two32 in *. rewrite Z.mod_small; lia. Qed.

Lemma mfold_ufold xs : forall a, 0 <= a -> ufold xs a < two32 -> mfold xs a = ufold xs a.
Proof.
  induction xs as [|x xs IH]; intros a Ha H; [reflexivity|].
  rewrite mfold_cons, ufold_cons in *.
  assert (H0 : 0 <= a * 128 + x mod 128) by lia.
  pose proof (ufold_ge xs _ H0) as Hge.
  rewrite arc_step_small by lia. apply IH; assumption.
Qed.

(* reading the continuation octets *)
Lemma gsa_loop_skip xs : forall ys a n, Forall (fun x => 128 <= x) xs ->
  gsa_loop (xs ++ ys) a n = gsa_loop ys (mfold xs a) (n + zlen xs).
Proof.
  induction xs as [|x xs IH]; intros ys a n Hx.
  - cbn [app]. unfold mfold, zlen. simpl. f_equal. lia.
  - inversion Hx as [|? ? Hx1 Hx2]; subst. cbn [app gsa_loop].
    destruct (x <? 128) eqn:E; [lia|].
    rewrite IH by assumption. rewrite mfold_cons, zlen_cons. f_equal. lia.
Qed.

Lemma Forall_cont_ge xs : Forall (fun x => 128 <= x < 256) xs -> Forall (fun x => 128 <= x) xs.
Proof. apply Forall_impl. intros; lia. Qed.

(* ---- single-arc inverse ---- *)
Theorem get_single_arc_octets v rest : arc_ok v ->
  get_single_arc (arc_octets v ++ rest) = GOk v (zlen (arc_octets v)) rest.
Proof.
  intros Hv. unfold arc_ok in Hv. rewrite (arc_octets_spec v Hv).
  set (hi := hi_bytes 4 (v / 128)).
  assert (Hne : exists b tl, (hi ++ [v mod 128]) ++ rest = b :: tl).
  { destruct hi as [|b tl]; cbn [app]; eauto. }
  destruct Hne as (b & tl & Hne). unfold get_single_arc. rewrite Hne, <- Hne.
  rewrite <- app_assoc. cbn [app].
  rewrite gsa_loop_skip by (apply Forall_cont_ge, hi_bytes_cont).
  assert (Hh : 0 <= v / 128 < 128 ^ Z.of_nat 4).
  { change (128 ^ Z.of_nat 4) with 268435456. unfold two32 in Hv. lia. }
  assert (Hu : ufold hi 0 = v / 128).
  { subst hi. rewrite ufold_hi by exact Hh. lia. }
  assert (Hm : mfold hi 0 = v / 128).
  { rewrite mfold_ufold; [exact Hu|lia|rewrite Hu; unfold two32 in *; lia]. }
  rewrite Hm. cbn [gsa_loop].
  destruct (v mod 128 <? 128) eqn:E; [|lia].
  assert (Hs : arc_step (v / 128) (v mod 128) = v).
  { unfold arc_step. pose proof (Z.div_mod v 128 ltac:(lia)) as Hdm.
    pose proof (Z.mod_pos_bound v 128 ltac:(lia)) as Hmb.
    rewrite (Z.mod_small (v / 128 * 128)) by (unfold two32 in *; lia).
    rewrite (Z.mod_small (v mod 128)) by lia. lia. }
  rewrite Hs. destruct (v <=? arc_max) eqn:E2; [|unfold arc_max, two32 in *; lia].
  f_equal. rewrite zlen_app. change (zlen [v mod 128]) with 1. lia.
Qed.

Lemma arc_octets_length v : arc_ok v -> (1 <= length (arc_octets v) <= 5)%nat.
Proof.
  intros Hv. rewrite (arc_octets_spec v Hv), app_length.
  pose proof (hi_bytes_length 4 (v / 128)) as H.
  change (length [v mod 128]) with 1%nat. lia.
Qed.

Lemma cont_then_last_app hi l : Forall (fun x => 128 <= x < 256) hi -> 0 <= l < 128 ->
  cont_then_last (hi ++ [l]).
Proof.
  intros Hhi Hl. induction Hhi as [|b tl Hb Htl IH]; cbn [app cont_then_last]; [exact Hl|].
  destruct (tl ++ [l]) eqn:E.
  - destruct tl; discriminate.
  - split; assumption.
Qed.

(* ---- X.690 8.19.2 form of one stored subidentifier ---- *)
Theorem arc_octets_form v : arc_ok v ->
  subid_form (arc_octets v) /\ subid_value (arc_octets v) = v.
Proof.
  intros Hv. unfold arc_ok in Hv. rewrite (arc_octets_spec v Hv).
  assert (Hh : 0 <= v / 128 < 128 ^ Z.of_nat 4).
  { change (128 ^ Z.of_nat 4) with 268435456. unfold two32 in Hv. lia. }
  split; [split|].
  - apply cont_then_last_app; [apply hi_bytes_cont|lia].
  - destruct (v / 128 =? 0) eqn:E.
    + assert (Hz : v / 128 = 0) by lia. rewrite Hz, hi_bytes_0. cbn. lia.
    + destruct (hi_bytes_hd 4 (v / 128)) as (b & tl & Hb & Hn); [lia|].
      rewrite Hb. cbn. exact Hn.
  - change (subid_value (hi_bytes 4 (v / 128) ++ [v mod 128]))
      with (ufold (hi_bytes 4 (v / 128) ++ [v mod 128]) 0).
    rewrite ufold_app, ufold_hi by exact Hh. unfold ufold. cbn [fold_left]. lia.
Qed.

(* ---- set_rest / get_rest ---- *)
Definition enc_all (arcs : list Z) : list Z := concat (map arc_octets arcs).

Lemma set_rest_spec arcs : forall size, Forall arc_ok arcs -> 5 * zlen arcs <= size ->
  set_rest arcs size = Some (enc_all arcs).
Proof.
  induction arcs as [|a tl IH]; intros size Ha Hs; [reflexivity|].
  inversion Ha as [|? ? Ha1 Ha2]; subst. cbn [set_rest].
  pose proof (arc_octets_length a Ha1) as HL. rewrite zlen_cons in Hs.
  unfold set_single_arc.
  assert (HZ : 1 <= zlen (arc_octets a) <= 5) by (unfold zlen; lia).
  pose proof (zlen_nonneg tl) as Hnn.
  destruct (size <? zlen (arc_octets a)) eqn:E; [lia|].
  rewrite IH by (try assumption; lia). reflexivity.
Qed.

Lemma get_rest_enc arcs : forall fuel, Forall arc_ok arcs ->
  (length (enc_all arcs) < fuel)%nat -> get_rest fuel (enc_all arcs) = OArcs arcs.
Proof.
  induction arcs as [|a tl IH]; intros fuel Ha Hf.
  - destruct fuel; [lia|]. reflexivity.
  - inversion Ha as [|? ? Ha1 Ha2]; subst.
    destruct fuel as [|k]; [lia|].
    change (enc_all (a :: tl)) with (arc_octets a ++ enc_all tl) in *.
    cbn [get_rest]. rewrite get_single_arc_octets by assumption.
    rewrite app_length in Hf. pose proof (arc_octets_length a Ha1).
    rewrite IH by (try assumption; lia). reflexivity.
Qed.

Lemma split_first_join arc0 arc1 : valid_first_pair arc0 arc1 ->
  split_first (arc0 * 40 + arc1) = (arc0, arc1) /\ arc_ok (arc0 * 40 + arc1).
Proof.
  unfold valid_first_pair, split_first, arc_ok, arc_max, two32.
  intros [[H0 H1]|[H0 H1]].
  - assert (arc0 = 0 \/ arc0 = 1) as [-> | ->] by lia.
    + destruct (80 <=? 0 * 40 + arc1) eqn:E1; [lia|].
      destruct (40 <=? 0 * 40 + arc1) eqn:E2; [lia|]. split; [f_equal; lia|lia].
    + destruct (80 <=? 1 * 40 + arc1) eqn:E1; [lia|].
      destruct (40 <=? 1 * 40 + arc1) eqn:E2; [|lia]. split; [f_equal; lia|lia].
  - subst arc0. destruct (80 <=? 2 * 40 + arc1) eqn:E1; [|lia]. split; [f_equal; lia|lia].
Qed.

Lemma set_arcs_spec arc0 arc1 tl :
  valid_first_pair arc0 arc1 -> Forall arc_ok tl ->
  set_arcs (arc0 :: arc1 :: tl) = SetOk (enc_all ((arc0 * 40 + arc1) :: tl)).
Proof.
  intros Hv Htl. destruct (split_first_join _ _ Hv) as [_ Hok].
  assert (Hmod : (arc0 * 40 + arc1) mod two32 = arc0 * 40 + arc1).
  { apply Z.mod_small. exact Hok. }
  pose proof (arc_octets_length _ Hok) as HL.
  assert (HZ : 1 <= zlen (arc_octets (arc0 * 40 + arc1)) <= 5) by (unfold zlen; lia).
  assert (Hgo :
    match set_single_arc (5 * zlen (arc0 :: arc1 :: tl)) ((arc0 * 40 + arc1) mod two32) with
    | None => SetFail
    | Some w => match set_rest tl (5 * zlen (arc0 :: arc1 :: tl) - zlen w) with
                | None => SetFail | Some r => SetOk (w ++ r) end
    end = SetOk (enc_all ((arc0 * 40 + arc1) :: tl))).
  { rewrite Hmod. unfold set_single_arc. rewrite !zlen_cons in *.
    pose proof (zlen_nonneg tl).
    destruct (5 * (zlen tl + 1 + 1) <? zlen (arc_octets (arc0 * 40 + arc1))) eqn:E; [lia|].
    rewrite set_rest_spec by (try assumption; lia). reflexivity. }
  unfold set_arcs. cbv zeta.
  unfold valid_first_pair, arc_max, two32 in Hv. unfold arc_max, two32.
  destruct Hv as [[H0 H1]|[H0 H1]].
  - destruct (arc0 <=? 1) eqn:E0; [|lia]. destruct (40 <=? arc1) eqn:E1; [lia|]. exact Hgo.
  - destruct (arc0 <=? 1) eqn:E0; [lia|]. destruct (arc0 =? 2) eqn:E2; [|lia].
    destruct (4294967296 - 1 - 80 <? arc1) eqn:E1; [lia|]. exact Hgo.
Qed.

(* ---- OBJECT IDENTIFIER: get (set arcs) = arcs ---- *)
Theorem oid_roundtrip arc0 arc1 tl :
  valid_first_pair arc0 arc1 -> Forall arc_ok tl ->
  exists bs, set_arcs (arc0 :: arc1 :: tl) = SetOk bs /\
             get_arcs bs = OArcs (arc0 :: arc1 :: tl).
Proof.
  intros Hv Htl. eexists. split; [apply set_arcs_spec; assumption|].
  destruct (split_first_join _ _ Hv) as [Hsp Hok].
  change (enc_all ((arc0 * 40 + arc1) :: tl)) with (arc_octets (arc0 * 40 + arc1) ++ enc_all tl).
  unfold get_arcs. rewrite get_single_arc_octets by assumption. rewrite Hsp.
  rewrite get_rest_enc by (try assumption; lia). reflexivity.
Qed.

(* the first-pair test rejects everything else *)
Theorem set_arcs_rejects arc0 arc1 tl :
  0 <= arc0 -> 0 <= arc1 -> ~ valid_first_pair arc0 arc1 ->
  set_arcs (arc0 :: arc1 :: tl) = SetErange.
Proof.
  intros H0 H1 Hn. unfold valid_first_pair, arc_max, two32 in Hn.
  unfold set_arcs, arc_max, two32. cbv zeta.
  destruct (arc0 <=? 1) eqn:E0.
  - destruct (40 <=? arc1) eqn:E1; [reflexivity|lia].
  - destruct (arc0 =? 2) eqn:E2; [|reflexivity].
    destruct (4294967296 - 1 - 80 <? arc1) eqn:E1; [reflexivity|lia].
Qed.

Theorem set_arcs_short arcs : (length arcs < 2)%nat -> set_arcs arcs = SetEinval.
Proof. destruct arcs as [|a [|b tl]]; simpl; intros; try reflexivity; lia. Qed.

(* ---- the stored octets are the X.690 8.19 subidentifier series ---- *)
Lemma enc_all_form arcs : Forall arc_ok arcs ->
  Forall subid_form (map arc_octets arcs) /\ map subid_value (map arc_octets arcs) = arcs.
Proof.
  induction 1 as [|a tl Ha Htl [IH1 IH2]]; cbn [map]; [split; [constructor|reflexivity]|].
  destruct (arc_octets_form a Ha) as [Hf Hval]. split.
  - constructor; assumption.
  - rewrite Hval, IH2. reflexivity.
Qed.

Theorem oid_x690_form arc0 arc1 tl :
  valid_first_pair arc0 arc1 -> Forall arc_ok tl ->
  exists subs, set_arcs (arc0 :: arc1 :: tl) = SetOk (concat subs) /\
               Forall subid_form subs /\
               map subid_value subs = (40 * arc0 + arc1) :: tl.
Proof.
  intros Hv Htl. exists (map arc_octets ((arc0 * 40 + arc1) :: tl)).
  destruct (split_first_join _ _ Hv) as [_ Hok].
  destruct (enc_all_form ((arc0 * 40 + arc1) :: tl)) as [Hf Hval]; [constructor; assumption|].
  split; [apply set_arcs_spec; assumption|]. split; [exact Hf|].
  rewrite Hval. f_equal. lia.
Qed.

(* ---- RELATIVE-OID ---- *)
Theorem reloid_roundtrip arcs : Forall arc_ok arcs ->
  exists bs, reloid_set_arcs arcs = SetOk bs /\ reloid_get_arcs bs = OArcs arcs /\
             bs = concat (map arc_octets arcs) /\
             Forall subid_form (map arc_octets arcs) /\
             map subid_value (map arc_octets arcs) = arcs.
Proof.
  intros Ha. exists (enc_all arcs). unfold reloid_set_arcs, reloid_get_arcs.
  rewrite set_rest_spec by (try assumption; lia).
  rewrite get_rest_enc by (try assumption; lia).
  destruct (enc_all_form arcs Ha) as [Hf Hval]. repeat split; assumption.
Qed.

(* ------------------------------------------------------------------ *)
(* Totality: the fuel the model hands to its loops always suffices *)
Lemma gsa_loop_shorter bs : forall a n v rd tl,
  gsa_loop bs a n = GOk v rd tl -> (length tl < length bs)%nat.
Proof.
  induction bs as [|b bs IH]; intros a n v rd tl H; cbn [gsa_loop] in H; [discriminate|].
  destruct (b <? 128).
  - destruct (arc_step a b <=? arc_max); [|discriminate]. inversion H; subst. simpl. lia.
  - apply IH in H. simpl. lia.
Qed.

Lemma get_single_arc_shorter bs v rd tl :
  get_single_arc bs = GOk v rd tl -> (length tl < length bs)%nat.
Proof. destruct bs; [discriminate|]. apply gsa_loop_shorter. Qed.

Lemma get_rest_total fuel : forall bs, (length bs < fuel)%nat -> get_rest fuel bs <> OFuel.
Proof.
  induction fuel as [|k IH]; intros bs Hl; [lia|]. cbn [get_rest].
  destruct (get_single_arc bs) eqn:E; try discriminate.
  apply get_single_arc_shorter in E.
  specialize (IH tl ltac:(lia)). destruct (get_rest k tl); try discriminate. congruence.
Qed.

Theorem get_arcs_total bs : get_arcs bs <> OFuel /\ reloid_get_arcs bs <> OFuel.
Proof.
  split.
  - unfold get_arcs. destruct (get_single_arc bs) eqn:E; try discriminate.
    destruct (split_first v) as [a0 a1].
    pose proof (get_rest_total (S (length tl)) tl ltac:(lia)) as H.
    destruct (get_rest (S (length tl)) tl); try discriminate. congruence.
  - unfold reloid_get_arcs. apply get_rest_total. lia.
Qed.

(* ------------------------------------------------------------------ *)
(* Observation (no claim in the property text): on any terminated
   subidentifier, however long, get_single_arc succeeds and returns the value
   reduced modulo 2^32 — the test accum <= ASN_OID_ARC_MAX cannot fail. *)
Lemma ufold_mod xs a : ufold xs (a mod two32) mod two32 = ufold xs a mod two32.
Proof.
  rewrite (ufold_lin xs (a mod two32)), (ufold_lin xs a).
  assert (H32 : two32 <> 0) by (unfold two32; lia).
  rewrite <- (Z.add_mod_idemp_l (a mod two32 * _)) by exact H32.
  rewrite Z.mul_mod_idemp_l by exact H32.
  rewrite Z.add_mod_idemp_l by exact H32. reflexivity.
Qed.

Lemma arc_step_mod a x : 0 <= a < two32 ->
  arc_step a x = (a * 128 + x mod 128) mod two32 /\ 0 <= arc_step a x < two32.
Proof. unfold arc_step, two32. intros. split; lia. Qed.

Lemma mfold_wraps xs : forall a, 0 <= a < two32 ->
  mfold xs a = ufold xs a mod two32 /\ 0 <= mfold xs a < two32.
Proof.
  induction xs as [|x xs IH]; intros a Ha.
  - unfold mfold, ufold. simpl. rewrite Z.mod_small by lia. lia.
  - rewrite mfold_cons, ufold_cons. destruct (arc_step_mod a x Ha) as [Hs Hr].
    destruct (IH _ Hr) as [IH1 IH2]. split; [|exact IH2].
    rewrite IH1, Hs. apply ufold_mod.
Qed.

Theorem get_single_arc_wraps xs l rest :
  Forall (fun x => 128 <= x < 256) xs -> 0 <= l < 128 ->
  get_single_arc (xs ++ l :: rest) = GOk (subid_value (xs ++ [l]) mod two32) (zlen xs + 1) rest.
Proof.
  intros Hx Hl.
  assert (Hne : exists b tl, xs ++ l :: rest = b :: tl) by (destruct xs; cbn [app]; eauto).
  destruct Hne as (b & tl & Hne). unfold get_single_arc. rewrite Hne, <- Hne.
  rewrite gsa_loop_skip by (apply Forall_cont_ge; exact Hx). cbn [gsa_loop].
  destruct (l <? 128) eqn:E; [|lia].
  assert (H0 : 0 <= 0 < two32) by (unfold two32; lia).
  destruct (mfold_wraps xs 0 H0) as [Hm Hr].
  destruct (arc_step_mod (mfold xs 0) l Hr) as [Hs Hsr].
  destruct (arc_step (mfold xs 0) l <=? arc_max) eqn:E2; [|unfold arc_max in *; lia].
  f_equal. rewrite Hs, Hm.
  change (subid_value (xs ++ [l])) with (ufold (xs ++ [l]) 0). rewrite ufold_app.
  unfold ufold at 3. cbn [fold_left].
  assert (H32 : two32 <> 0) by (unfold two32; lia).
  rewrite <- (Z.add_mod_idemp_l (ufold xs 0 mod two32 * 128)) by exact H32.
  rewrite Z.mul_mod_idemp_l by exact H32.
  rewrite Z.add_mod_idemp_l by exact H32. reflexivity.
Qed.

(* ------------------------------------------------------------------ *)
(* Dotted text.  [dotted dss] joins numerals with '.'; the theorem is stated for
   any non-empty digit strings (leading zeros allowed) whose numeral fits an
   arc, with optional white space before and after; the printed decimal form of
   an arc vector is the instance dss = map dec_digits arcs. *)
Fixpoint dotted (dss : list (list Z)) : list Z :=
  match dss with
  | [] => []
  | ds :: tl => match tl with [] => ds | _ => ds ++ 46 :: dotted tl end
  end.

Definition numeral_ok (ds : list Z) : Prop := ds <> [] /\ digits_ok ds /\ num ds <= arc_max.
Definition ws_ok (ws : list Z) : Prop := Forall (fun c => is_ws c = true) ws.

Lemma skipn_app_exact {A} (l r : list A) : skipn (length l) (l ++ r) = r.
Proof. induction l; cbn [length skipn app]; auto. Qed.

Lemma ws_not_digit c : is_ws c = true -> is_digit c = false.
Proof. unfold is_ws, is_digit. lia. Qed.

Lemma digit_class c : is_digit c = true -> is_ws c = false /\ (c =? 46) = false.
Proof. unfold is_ws, is_digit. lia. Qed.

Lemma parse_loop_S k cs st pos racc :
  parse_loop (S k) cs st pos racc =
  match cs with
  | [] => parse_finish st pos racc
  | c :: tl =>
      if is_ws c then
        match st with
        | LeadSpace | TailSpace => parse_loop k tl st (pos + 1) racc
        | AfterValue => parse_loop k tl TailSpace (pos + 1) racc
        | WaitDigits => parse_finish WaitDigits pos racc
        end
      else if c =? 46 then
        match st with
        | AfterValue => parse_loop k tl WaitDigits (pos + 1) racc
        | _ => PEinval pos
        end
      else if is_digit c then
        match st with
        | TailSpace | AfterValue => PEinval pos
        | LeadSpace | WaitDigits =>
            match strtoul_lim cs with
            | (SOk, p, value) | (SExtra, p, value) =>
                if value <=? arc_max
                then parse_loop k (skipn (Z.to_nat p) cs) AfterValue (pos + p) (value :: racc)
                else PErange pos
            | (SRange, _, _) => PErange pos
            | (_, _, _) => PEinval pos
            end
        end
      else parse_finish WaitDigits pos racc
  end.
Proof. reflexivity. Qed.

(* trailing white space after a value *)
Lemma parse_tail ws : forall fuel st pos racc, ws_ok ws ->
  st = AfterValue \/ st = TailSpace -> (length ws < fuel)%nat ->
  parse_loop fuel ws st pos racc = POk (rev racc) (pos + zlen ws).
Proof.
  induction ws as [|c ws IH]; intros fuel st pos racc Hws Hst Hf;
    (destruct fuel as [|k]; [lia|]); rewrite parse_loop_S.
  - unfold zlen; cbn [length Z.of_nat]. rewrite Z.add_0_r.
    destruct Hst; subst; reflexivity.
  - inversion Hws as [|? ? Hc Hws']; subst. rewrite Hc. cbn [length] in Hf.
    rewrite zlen_cons.
    destruct Hst; subst; (rewrite IH by (auto; lia)); f_equal; lia.
Qed.

(* leading white space *)
Lemma parse_lead ws : forall fuel cs pos racc, ws_ok ws ->
  parse_loop (length ws + fuel) (ws ++ cs) LeadSpace pos racc
  = parse_loop fuel cs LeadSpace (pos + zlen ws) racc.
Proof.
  induction ws as [|c ws IH]; intros fuel cs pos racc Hws.
  - cbn [length app Nat.add]. unfold zlen; cbn [length Z.of_nat]. rewrite Z.add_0_r. reflexivity.
  - inversion Hws as [|? ? Hc Hws']; subst. cbn [length app Nat.add].
    rewrite parse_loop_S, Hc, IH by assumption. rewrite zlen_cons. f_equal. lia.
Qed.

(* one numeral followed by a non-digit or the end: _OID_CAPTURE_ARC *)
Lemma parse_capture k ds rest st pos racc :
  numeral_ok ds -> stops rest -> st = LeadSpace \/ st = WaitDigits ->
  parse_loop (S k) (ds ++ rest) st pos racc
  = parse_loop k rest AfterValue (pos + zlen ds) (num ds :: racc).
Proof.
  intros (Hne & Hd & Hmax) Hstop Hst.
  pose proof (strtoul_exact false ds rest Hne Hd Hstop) as H. cbn zeta in H. cbn [app] in H.
  destruct (num ds <? two64) eqn:E; [|unfold arc_max, two32, two64 in *; lia].
  destruct ds as [|c ds']; [congruence|].
  inversion Hd as [|? ? Hc Hd']; subst. destruct (digit_class c Hc) as [Hw H46].
  rewrite parse_loop_S. cbn [app]. rewrite Hw, H46, Hc.
  change (c :: ds' ++ rest) with ((c :: ds') ++ rest). rewrite H.
  assert (Hskip : skipn (Z.to_nat (zlen (c :: ds'))) ((c :: ds') ++ rest) = rest).
  { unfold zlen. rewrite Nat2Z.id. apply skipn_app_exact. }
  destruct (num (c :: ds') <=? arc_max) eqn:E2; [|lia].
  destruct Hst; subst; destruct rest; rewrite Hskip; reflexivity.
Qed.

Lemma dotted_cons2 ds ds2 tl : dotted (ds :: ds2 :: tl) = ds ++ 46 :: dotted (ds2 :: tl).
Proof. reflexivity. Qed.

Lemma numeral_length ds : numeral_ok ds -> (1 <= length ds)%nat.
Proof. intros (Hne & _). destruct ds; [congruence|simpl; lia]. Qed.

Lemma parse_dotted_loop dss : forall fuel st pos racc ws,
  dss <> [] -> Forall numeral_ok dss -> ws_ok ws ->
  st = LeadSpace \/ st = WaitDigits ->
  (length (dotted dss ++ ws) < fuel)%nat ->
  parse_loop fuel (dotted dss ++ ws) st pos racc
  = POk (rev racc ++ map num dss) (pos + zlen (dotted dss ++ ws)).
Proof.
  induction dss as [|ds tl IH]; intros fuel st pos racc ws Hne Hall Hws Hst Hf; [congruence|].
  inversion Hall as [|? ? Hds Htl]; subst.
  pose proof (numeral_length ds Hds) as Hl1.
  destruct fuel as [|k]; [lia|].
  destruct tl as [|ds2 tl'].
  - (* last numeral, then optional white space *)
    cbn [dotted] in *.
    assert (Hstop : stops ws).
    { destruct ws as [|c ws']; [exact I|]. inversion Hws; subst. cbn [stops]. apply ws_not_digit. assumption. }
    rewrite parse_capture by assumption.
    rewrite app_length in Hf.
    rewrite parse_tail by (auto; lia).
    cbn [rev map]. rewrite zlen_app. f_equal. lia.
  - rewrite dotted_cons2 in *. rewrite <- app_assoc in *. cbn [app] in *.
    assert (Hstop : stops (46 :: dotted (ds2 :: tl') ++ ws)) by reflexivity.
    rewrite parse_capture by assumption.
    rewrite app_length in Hf. cbn [length] in Hf.
    destruct k as [|k']; [lia|].
    rewrite parse_loop_S.
    change (is_ws 46) with false. change (46 =? 46) with true. cbv iota.
    rewrite IH; [|discriminate|assumption|assumption|right; reflexivity|lia].
    cbn [rev map]. rewrite <- app_assoc. cbn [app].
    rewrite !zlen_app, !zlen_cons. f_equal. rewrite zlen_app. lia.
Qed.

Theorem oid_text_roundtrip_ws dss ws1 ws2 :
  dss <> [] -> Forall numeral_ok dss -> ws_ok ws1 -> ws_ok ws2 ->
  parse_arcs (ws1 ++ dotted dss ++ ws2)
  = POk (map num dss) (zlen (ws1 ++ dotted dss ++ ws2)).
Proof.
  intros Hne Hall H1 H2. unfold parse_arcs.
  rewrite app_length.
  replace (S (length ws1 + length (dotted dss ++ ws2)))
    with (length ws1 + S (length (dotted dss ++ ws2)))%nat by lia.
  rewrite parse_lead by assumption.
  rewrite parse_dotted_loop; [|assumption|assumption|assumption|left; reflexivity|lia].
  cbn [rev app]. rewrite (zlen_app ws1). f_equal.
Qed.

(* the printed dotted-decimal form of an arc vector *)
Definition oid_text (arcs : list Z) : list Z := dotted (map dec_digits arcs).

Lemma dec_digits_numeral a : arc_ok a -> numeral_ok (dec_digits a) /\ num (dec_digits a) = a.
Proof.
  intros Ha. unfold arc_ok, two32 in Ha.
  assert (H20 : 0 <= a < 10 ^ 20) by (change (10 ^ 20) with 100000000000000000000; lia).
  destruct (dec_digits_spec a H20) as (Hok & Hne & Hnum & _).
  split; [|exact Hnum]. split; [exact Hne|]. split; [exact Hok|].
  rewrite Hnum. unfold arc_max, two32. lia.
Qed.

Theorem oid_text_roundtrip arcs : arcs <> [] -> Forall arc_ok arcs ->
  parse_arcs (oid_text arcs) = POk arcs (zlen (oid_text arcs)).
Proof.
  intros Hne Ha. unfold oid_text.
  pose proof (oid_text_roundtrip_ws (map dec_digits arcs) [] []) as H.
  cbn [app] in H. rewrite app_nil_r in H. rewrite H.
  - f_equal. rewrite map_map. rewrite <- (map_id arcs) at 2.
    apply map_ext_in. intros a Hin. rewrite Forall_forall in Ha.
    apply (dec_digits_numeral a (Ha a Hin)).
  - destruct arcs; [congruence|discriminate].
  - rewrite Forall_forall in *. intros ds Hin. apply in_map_iff in Hin.
    destruct Hin as (a & <- & Hin). apply (dec_digits_numeral a (Ha a Hin)).
  - constructor.
  - constructor.
Qed.

(* Totality of the text machine: the fuel handed out by parse_arcs suffices
   for every input *)
Lemma strtox_loop_pos upper ldm neg cs : forall value pos st p v,
  strtox_loop upper ldm neg cs value pos = (st, p, v) -> pos <= p.
Proof.
  induction cs as [|c tl IH]; intros value pos st p v H; cbn [strtox_loop] in H.
  - inversion H; lia.
  - destruct (is_digit c).
    + destruct (value <? upper).
      * apply IH in H. lia.
      * destruct (value =? upper).
        -- destruct (c - 48 <=? ldm).
           ++ destruct tl as [|c' tl']; [inversion H; lia|].
              destruct (is_digit c'); inversion H; lia.
           ++ inversion H; lia.
        -- inversion H; lia.
    + inversion H; lia.
Qed.

Lemma strtoul_digit_pos c tl st p v :
  is_digit c = true -> strtoul_lim (c :: tl) = (st, p, v) -> st = SOk \/ st = SExtra -> 1 <= p.
Proof.
  intros Hc H Hst. unfold strtoul_lim, strtoumax_lim in H.
  destruct (first_digit_not_sign c Hc) as [H45 H43].
  destruct (c =? 45) eqn:E45; [lia|]. destruct (c =? 43) eqn:E43; [lia|].
  unfold strtoumax_loop in H.
  destruct (strtox_loop ((two64 - 1) / 10) ((two64 - 1) mod 10) false (c :: tl) 0 0)
    as [[st' p'] v'] eqn:EL.
  assert (Hp : 1 <= p' \/ st' = SRange).
  { cbn [strtox_loop] in EL. rewrite Hc in EL.
    change (0 <? (two64 - 1) / 10) with true in EL. cbv iota in EL.
    apply strtox_loop_pos in EL. lia. }
  destruct st'; try (inversion H; subst; destruct Hst; congruence);
    destruct (v' <=? two64 - 1); inversion H; subst; destruct Hp; try lia; try congruence;
    destruct Hst; congruence.
Qed.

Lemma parse_loop_total fuel : forall cs st pos racc,
  (length cs < fuel)%nat -> parse_loop fuel cs st pos racc <> PFuel.
Proof.
  induction fuel as [|k IH]; intros cs st pos racc Hf; [lia|].
  rewrite parse_loop_S. destruct cs as [|c tl].
  - destruct st; discriminate.
  - cbn [length] in Hf.
    destruct (is_ws c).
    { destruct st; try (apply IH; lia); discriminate. }
    destruct (c =? 46).
    { destruct st; try (apply IH; lia); discriminate. }
    destruct (is_digit c) eqn:Hc; [|discriminate].
    destruct st; try discriminate;
      (destruct (strtoul_lim (c :: tl)) as [[s p] v] eqn:ES;
       destruct s; try discriminate;
       (destruct (v <=? arc_max); [|discriminate]);
       (assert (Hp : 1 <= p) by (eapply strtoul_digit_pos; eauto));
       apply IH;
       rewrite skipn_length; cbn [length]; lia).
Qed.

Theorem parse_arcs_total cs : parse_arcs cs <> PFuel.
Proof. unfold parse_arcs. apply parse_loop_total. lia. Qed.

Theorem oid_total bs :
  (get_arcs bs <> OFuel /\ reloid_get_arcs bs <> OFuel) /\ parse_arcs bs <> PFuel.
Proof. split; [apply get_arcs_total|apply parse_arcs_total]. Qed.

(* non-vacuity: concrete instances of the hypotheses and of the conclusions *)
Example oid_example_rsadsi :
  set_arcs [1; 2; 840; 113549] = SetOk [42; 134; 72; 134; 247; 13] /\
  get_arcs [42; 134; 72; 134; 247; 13] = OArcs [1; 2; 840; 113549].
Proof. vm_compute. split; reflexivity. Qed.

Example oid_example_max_first_pair :
  valid_first_pair 2 (arc_max - 80) /\
  set_arcs [2; arc_max - 80; arc_max] = SetOk [143; 255; 255; 255; 127; 143; 255; 255; 255; 127].
Proof. split; [right; unfold arc_max, two32; lia|vm_compute; reflexivity]. Qed.

Example oid_example_overlong :
  get_single_arc [128; 144; 128; 128; 128; 5] = GOk 5 6 [].
Proof. vm_compute. reflexivity. Qed.

Example oid_example_text :
  parse_arcs (map Z.of_nat [32; 49; 46; 50; 46; 56; 52; 48; 10]%nat) = POk [1; 2; 840] 9.
Proof. vm_compute. reflexivity. Qed.
