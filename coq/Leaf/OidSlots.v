(* Leaf/OidSlots.v — the caller-supplied capacity of the OBJECT IDENTIFIER
   helpers (C17, second round).  Leaf/Oid.v assumes an arc array that is large
   enough; here the array is a parameter:
     OBJECT_IDENTIFIER_get_arcs(st, arcs, arc_slots)
     RELATIVE_OID_get_arcs(st, arcs, arcs_count)
     OBJECT_IDENTIFIER_parse_arcs(text, len, arcs, arcs_count, &end)
     OBJECT_IDENTIFIER_get_first_arcs(buf, len, &arc0, &arc1)
   The caller's array is a list of cells (its length is arc_slots, its contents
   are whatever the caller left there).  A store outside the array is not
   representable: every store of the C is written here with the guard the C
   puts in front of it (`if(num_arcs < arc_slots) arcs[num_arcs] = arc;`), and
   the counter is advanced exactly where the C advances it.  No proofs in this
   file (Leaf/OidSlotsProofs.v). *)
From Coq Require Import ZArith List Lia Bool.
From A1 Require Import Base.Bytes Leaf.IntegerConv Leaf.Oid.
Import ListNotations.
Local Open Scope Z_scope.

(* arcs[i] = v for i inside the array *)
Fixpoint upd (i : nat) (v : Z) (arr : list Z) : list Z :=
  match arr with
  | [] => []
  | x :: tl =>
      match i with
      | O => v :: tl
      | S j => x :: upd j v tl
      end
  end.

(* if(num_arcs < arc_slots) arcs[num_arcs] = v; *)
Definition store (arr : list Z) (num : nat) (v : Z) : list Z :=
  if (num <? length arr)%nat then upd num v arr else arr.

(* return value (number of arcs) and the array afterwards | -1 | model fuel *)
Inductive ires := IArcs (n : nat) (arr : list Z) | IFail | IFuel.

(* the loop "for(off = rd; ; )" of both get_arcs functions:
     off += rd; if(num_arcs < arc_slots) arcs[num_arcs] = arc; num_arcs++; *)
Fixpoint get_rest_into (fuel : nat) (bs : list Z) (num : nat) (arr : list Z) : ires :=
  match fuel with
  | O => IFuel
  | S k =>
      match get_single_arc bs with
      | GNone => IArcs num arr
      | GOk v _ tl => get_rest_into k tl (S num) (store arr num v)
      | _ => IFail
      end
  end.

(* num_arcs = 2;
   switch(arc_slots) { default: case 2: arcs[1] = arc1; case 1: arcs[0] = arc0; case 0: break; } *)
Definition first_two (arr : list Z) (arc0 arc1 : Z) : list Z :=
  match length arr with
  | O => arr
  | S O => upd 0 arc0 arr
  | _ => upd 0 arc0 (upd 1 arc1 arr)
  end.

Definition get_arcs_arr (bs : list Z) (arr : list Z) : ires :=
  match get_single_arc bs with
  | GOk value _ tl =>
      let '(arc0, arc1) := split_first value in
      get_rest_into (S (length tl)) tl 2 (first_two arr arc0 arc1)
  | _ => IFail                                   (* rd <= 0 *)
  end.

Definition reloid_get_arcs_arr (bs : list Z) (arr : list Z) : ires :=
  get_rest_into (S (length bs)) bs 0 arr.

(* the view asked for by the property: contents octets, number of slots ->
   (returned count, what the first min(count, slots) cells hold).  The array
   starts out filled with [blank] (no arc is negative). *)
Definition blank : Z := -1.

Definition into (r : ires) (slots : nat) : option (nat * list Z) :=
  match r with
  | IArcs n arr => Some (n, firstn (Nat.min n slots) arr)
  | _ => None
  end.

Definition get_arcs_into (bs : list Z) (slots : nat) : option (nat * list Z) :=
  into (get_arcs_arr bs (repeat blank slots)) slots.

Definition reloid_get_arcs_into (bs : list Z) (slots : nat) : option (nat * list Z) :=
  into (reloid_get_arcs_arr bs (repeat blank slots)) slots.

(* ------------------------------------------------------------------ *)
(* OBJECT_IDENTIFIER_get_first_arcs: rd <= 0 is passed through *)
Inductive fres := FNone | FOk (arc0 arc1 rd : Z) (tl : list Z) | FErange | FEinval.

Definition get_first_arcs (bs : list Z) : fres :=
  match get_single_arc bs with
  | GNone => FNone
  | GOk value rd tl => let '(arc0, arc1) := split_first value in FOk arc0 arc1 rd tl
  | GErange => FErange
  | GEinval => FEinval
  end.

(* ------------------------------------------------------------------ *)
(* OBJECT_IDENTIFIER_parse_arcs with its (arcs, arcs_count):
     _OID_CAPTURE_ARC: if(num_arcs < arcs_count) arcs[num_arcs] = value; num_arcs++; *)
Inductive qres := QOk (n : nat) (arr : list Z) (endpos : Z)
                | QEinval (endpos : Z) | QErange (endpos : Z) | QFuel.

(* "Finalize last arc": ST_LEADSPACE returns the literal 0 *)
Definition parse_finish_into (st : pstate) (pos : Z) (num : nat) (arr : list Z) : qres :=
  match st with
  | LeadSpace => QOk 0 arr pos
  | WaitDigits => QEinval pos
  | AfterValue | TailSpace => QOk num arr pos
  end.

Fixpoint parse_loop_into (fuel : nat) (cs : list Z) (st : pstate) (pos : Z)
         (num : nat) (arr : list Z) : qres :=
  match fuel with
  | O => QFuel
  | S k =>
      match cs with
      | [] => parse_finish_into st pos num arr
      | c :: tl =>
          if is_ws c then
            match st with
            | LeadSpace | TailSpace => parse_loop_into k tl st (pos + 1) num arr
            | AfterValue => parse_loop_into k tl TailSpace (pos + 1) num arr
            | WaitDigits => parse_finish_into WaitDigits pos num arr
            end
          else if c =? 46 then
            match st with
            | AfterValue => parse_loop_into k tl WaitDigits (pos + 1) num arr
            | _ => QEinval pos
            end
          else if is_digit c then
            match st with
            | TailSpace | AfterValue => QEinval pos
            | LeadSpace | WaitDigits =>
                match strtoul_lim cs with
                | (SOk, p, value) | (SExtra, p, value) =>
                    if value <=? arc_max
                    then parse_loop_into k (skipn (Z.to_nat p) cs) AfterValue (pos + p)
                                         (S num) (store arr num value)
                    else QErange pos
                | (SRange, _, _) => QErange pos
                | (_, _, _) => QEinval pos
                end
            end
          else parse_finish_into WaitDigits pos num arr
      end
  end.

Definition parse_arcs_arr (cs : list Z) (arr : list Z) : qres :=
  parse_loop_into (S (length cs)) cs LeadSpace 0 0%nat arr.

Definition parse_arcs_into (cs : list Z) (slots : nat) : option (nat * list Z) :=
  match parse_arcs_arr cs (repeat blank slots) with
  | QOk n arr _ => Some (n, firstn (Nat.min n slots) arr)
  | _ => None
  end.
