(* Leaf/BerTL.v — executable model of skeletons/ber_tlv_tag.c and
   skeletons/ber_tlv_length.c:
     ber_fetch_tag ber_tlv_tag_serialize ber_fetch_length der_tlv_length_serialize
   A tag is the C's ber_tlv_tag_t: (number << 2) | class.  Buffers are byte
   lists; "size" is the list length.  ber_tlv_tag_t is a 32-bit unsigned and
   ber_tlv_len_t a 64-bit ssize_t; the overflow guards of the C are modelled
   as the arithmetic comparisons they amount to (the guards keep every
   intermediate value below the width, see BerTLProofs). *)
From Coq Require Import ZArith List Lia Bool.
From A1 Require Import Base.Bytes Base.Digits.
Import ListNotations.
Local Open Scope Z_scope.

(* >0 (value, octets consumed) / 0 (want more) / -1 *)
Inductive fres := FOk (v : Z) (n : nat) | FMore | FErr.

(* the "how many digit groups" loops:
     for(r = 1, i = s; i < W; i += s) if(v >> i) r++; else break;          *)
Fixpoint req (fuel : nat) (s i v : Z) : nat :=
  match fuel with
  | O => O
  | S f => if v / 2 ^ i =? 0 then O else S (req f s (i + s) v)
  end.

(* ---------------- tags ---------------- *)

Definition two23 : Z := 8388608.
Definition two30 : Z := 1073741824.

Fixpoint fetch_tag_loop (buf : list Z) (val : Z) (skipped : nat) : fres :=
  match buf with
  | [] => FMore
  | oct :: tl =>
      if 128 <=? oct then
        let val' := val * 128 + (oct - 128) in
        (* if(val >> ((8 * sizeof(val)) - 9)) return -1; *)
        if two23 <=? val' then FErr else fetch_tag_loop tl val' (S skipped)
      else FOk (val * 128 + oct) skipped
  end.

Definition fetch_tag (buf : list Z) : fres :=
  match buf with
  | [] => FMore
  | b :: tl =>
      let tclass := b / 64 in
      let v := b mod 32 in
      if v =? 31 then
        match fetch_tag_loop tl 0 2 with
        | FOk n k => FOk (n * 4 + tclass) k
        | r => r
        end
      else FOk (v * 4 + tclass) 1
  end.

(* set the continuation bit on all digit groups but the last *)
Fixpoint mark_cont (ds : list Z) : list Z :=
  match ds with
  | [] => []
  | [d] => [d]
  | d :: tl => (128 + d) :: mark_cont tl
  end.

Definition tag_required_size (tval : Z) : nat := S (req 4 7 7 tval).

(* the octets written when the buffer is large enough; the return value of the
   C function is their number whatever the buffer size *)
Definition tag_serialize (tag : Z) : list Z :=
  let tclass := tag mod 4 in
  let tval := tag / 4 in
  if tval <=? 30 then [tclass * 64 + tval]
  else (tclass * 64 + 31) :: mark_cont (digits 128 (tag_required_size tval) tval).

(* ---------------- lengths ---------------- *)

Definition two55 : Z := 36028797018963968.
Definition rssize_max : Z := 4611686018427387903.      (* RSSIZE_MAX = 2^62 - 1 *)

Fixpoint fetch_len_loop (oct : nat) (buf : list Z) (len : Z) (skipped : nat) : fres :=
  match oct with
  | O => if (len <? 0) || (rssize_max <? len) then FErr else FOk len skipped
  | S o =>
      match buf with
      | [] => FMore
      | b :: tl =>
          (* if(!(len >> ((8 * sizeof(len)) - (8+1)))) len = (len << 8) | *buf; else return -1 *)
          if len <? two55 then fetch_len_loop o tl (len * 256 + b) (S skipped)
          else FErr
      end
  end.

(* indefinite length is reported as -1 *)
Definition fetch_length (constructed : bool) (buf : list Z) : fres :=
  match buf with
  | [] => FMore
  | oct :: tl =>
      if oct <? 128 then FOk oct 1
      else if constructed && (oct =? 128) then FOk (-1) 1
      else if oct =? 255 then FErr
      else fetch_len_loop (Z.to_nat (oct - 128)) tl 0 1
  end.

Definition len_required_size (len : Z) : nat := S (req 7 8 8 len).

Definition len_serialize (len : Z) : list Z :=
  if len <=? 127 then [len]
  else let r := len_required_size len in (128 + Z.of_nat r) :: be_bytes r len.
