(* Leaf/Utf8Proofs.v — C08: theorems about the model of UTF8String__process (Leaf/Utf8.v).
   Unbounded: induction over the octets (fuel = their number, shown to suffice).  The only
   computations are over the 256 octet values (the two 16-entry table rows against the bit
   patterns), lifted with forallb_forall, and the refuted witnesses. *)
From Coq Require Import ZArith List Bool Lia ZifyBool.
From A1 Require Import Leaf.Utf8.
Import ListNotations.
Local Open Scope Z_scope.

(* ------------------------------------------------------------------ lists *)
Lemma zlen_nonneg {A} (l : list A) : 0 <= zlen l.
Proof. unfold zlen. lia. Qed.
Lemma zlen_app {A} (l r : list A) : zlen (l ++ r) = zlen l + zlen r.
Proof. unfold zlen. rewrite app_length. lia. Qed.
Lemma zlen_cons {A} (a : A) (l : list A) : zlen (a :: l) = 1 + zlen l.
Proof. unfold zlen. simpl length. lia. Qed.
Lemma firstn_len_app {A} (l r : list A) : firstn (length l) (l ++ r) = l.
Proof. induction l; simpl; congruence. Qed.
Lemma skipn_len_app {A} (l r : list A) : skipn (length l) (l ++ r) = r.
Proof. induction l; simpl; congruence. Qed.
Lemma to_nat_zlen {A} (l : list A) (w : Z) : zlen l = w -> Z.to_nat w = length l.
Proof. unfold zlen. intros <-. apply Nat2Z.id. Qed.

(* ------------------------------------------------------------------ the table rows *)
Lemma ht0_values : forall n, In (nth n ht0 0) [1; 0; 2; 3; -1].
Proof. intro n. unfold ht0. do 17 (destruct n as [|n]; [simpl; tauto|]). simpl. tauto. Qed.
Lemma ht1_values : forall n, (n < 16)%nat -> In (nth n ht1 0) [4; 5; 6; -1].
Proof. intros n H. unfold ht1. do 16 (destruct n as [|n]; [simpl; tauto|]). lia. Qed.
Lemma land15_lt : forall ch, (Z.to_nat (Z.land ch 15) < 16)%nat.
Proof.
  intro ch. change 15 with (Z.ones 4). rewrite Z.land_ones by lia.
  pose proof (Z.mod_pos_bound ch (2 ^ 4) ltac:(lia)). lia.
Qed.

(* the assert of the C: want >= 1 && want <= 6, for ANY int ch *)
Lemma want_of_bounds : forall ch w, want_of ch = Some w -> 1 <= w <= 6.
Proof.
  intros ch w. unfold want_of.
  pose proof (ht0_values (Z.to_nat (Z.shiftr ch 4))) as H0.
  pose proof (ht1_values (Z.to_nat (Z.land ch 15)) (land15_lt ch)) as H1.
  set (a := nth (Z.to_nat (Z.shiftr ch 4)) ht0 0) in *.
  set (b := nth (Z.to_nat (Z.land ch 15)) ht1 0) in *.
  simpl in H0, H1.
  destruct (a =? -1) eqn:Ea.
  - destruct (b =? -1) eqn:Eb; [discriminate|]. intro H; inversion H; subst. lia.
  - destruct (a =? 0) eqn:Ez; [discriminate|]. intro H; inversion H; subst. lia.
Qed.

Definition byte_range : list Z := map Z.of_nat (seq 0 256).
Lemma in_byte_range : forall ch, 0 <= ch < 256 -> In ch byte_range.
Proof.
  intros ch H. unfold byte_range. apply in_map_iff. exists (Z.to_nat ch). split; [lia|].
  apply in_seq. lia.
Qed.

Definition opt_eqb (a b : option Z) : bool :=
  match a, b with Some x, Some y => x =? y | None, None => true | _, _ => false end.
Lemma opt_eqb_eq : forall a b, opt_eqb a b = true -> a = b.
Proof. intros [x|] [y|]; simpl; try discriminate; auto. intro H. f_equal. lia. Qed.

(* the two rows of UTF8String_ht spell the start-octet bit patterns *)
Lemma want_of_ranges : forall ch, 0 <= ch < 256 -> want_of ch = want_ranges ch.
Proof.
  intros ch H. apply opt_eqb_eq.
  assert (A : forallb (fun c => opt_eqb (want_of c) (want_ranges c)) byte_range = true) by (vm_compute; reflexivity).
  rewrite forallb_forall in A. apply A, in_byte_range, H.
Qed.

(* value = ch & (0xff >> want): the payload bits of the start octet *)
Definition lead_ranges (ch : Z) : Z :=
  if ch <? 128 then ch else if ch <? 192 then 0 else if ch <? 224 then ch - 192 else if ch <? 240 then ch - 224
  else if ch <? 248 then ch - 240 else if ch <? 252 then ch - 248 else ch - 252.
Lemma lead_eq : forall ch w, 0 <= ch < 256 -> want_of ch = Some w -> lead ch w = lead_ranges ch.
Proof.
  intros ch w H Hw.
  assert (A : forallb (fun c => match want_of c with Some x => lead c x =? lead_ranges c | None => true end) byte_range = true)
    by (vm_compute; reflexivity).
  rewrite forallb_forall in A. specialize (A ch (in_byte_range ch H)). rewrite Hw in A. lia.
Qed.

(* ch & 0x3F of a continuation octet *)
Lemma cont_land : forall c, 128 <= c <= 191 -> Z.land c 63 = c - 128.
Proof.
  intros c H.
  assert (A : forallb (fun x => if (128 <=? x) && (x <=? 191) then Z.land x 63 =? x - 128 else true) byte_range = true)
    by (vm_compute; reflexivity).
  rewrite forallb_forall in A. assert (Hb : 0 <= c < 256) by lia. specialize (A c (in_byte_range c Hb)).
  destruct ((128 <=? c) && (c <=? 191)) eqn:E; lia.
Qed.

Lemma conts_cons_ok : forall v c r, 128 <= c <= 191 -> conts v (c :: r) = conts (v * 64 + (c - 128)) r.
Proof.
  intros v c r H. cbn [conts]. rewrite cont_land by exact H.
  destruct ((c <? 128) || (191 <? c)) eqn:E; [lia|reflexivity].
Qed.

(* ------------------------------------------------------------------ accepted <-> a concatenation of characters *)
Lemma chars_nil_inv : forall cps, Chars [] cps -> cps = [].
Proof.
  intros cps H. inversion H as [|s v rest vs Hs Hc Heq]; [reflexivity|].
  inversion Hs; subst. discriminate.
Qed.

Lemma process_exact_fuel : forall fuel bs, (length bs <= fuel)%nat ->
  forall cps, process fuel bs = U8Ok cps <-> Chars bs cps.
Proof.
  induction fuel as [|fuel IH]; intros bs Hlen cps.
  - destruct bs as [|ch tl]; [|simpl in Hlen; lia]. simpl. split.
    + intro H; inversion H; subst. constructor.
    + intro H. apply chars_nil_inv in H. subst. reflexivity.
  - destruct bs as [|ch tl].
    + simpl. split.
      * intro H; inversion H; subst. constructor.
      * intro H. apply chars_nil_inv in H. subst. reflexivity.
    + simpl in Hlen. cbn [process]. split.
      * destruct (want_of ch) as [want|] eqn:Ew; [|discriminate].
        pose proof (want_of_bounds _ _ Ew) as Hwb.
        destruct (zlen tl <? want - 1) eqn:Et; [discriminate|].
        destruct (conts (lead ch want) (firstn (Z.to_nat (want - 1)) tl)) as [value|] eqn:Ec; [|discriminate].
        destruct (value <? mv_of want) eqn:Em; [discriminate|].
        destruct (process fuel (skipn (Z.to_nat (want - 1)) tl)) as [vs| | | | |] eqn:Ep; try discriminate.
        intro H; inversion H; subst cps.
        assert (Hn : (Z.to_nat (want - 1) <= length tl)%nat) by (unfold zlen in Et; lia).
        apply IH in Ep; [|rewrite skipn_length; lia].
        replace (ch :: tl) with ((ch :: firstn (Z.to_nat (want - 1)) tl) ++ skipn (Z.to_nat (want - 1)) tl)
          by (simpl; rewrite firstn_skipn; reflexivity).
        apply Chars_cons; [|exact Ep].
        apply WfSeq_intro with (want := want); auto; [|lia].
        unfold zlen. rewrite firstn_length. lia.
      * intro H. inversion H as [|s v rest vs Hs Hc Heq Hv]. subst cps.
        inversion Hs as [ch' cs want value Ew Hl Hcn Hmin Hs1 Hs2]. subst s v.
        simpl in Heq. injection Heq as Eh Et0. subst ch' tl.
        rewrite Ew. rewrite zlen_app.
        pose proof (zlen_nonneg rest).
        destruct (zlen cs + zlen rest <? want - 1) eqn:Et; [lia|].
        rewrite (to_nat_zlen cs (want - 1) Hl).
        rewrite firstn_len_app, skipn_len_app, Hcn.
        destruct (value <? mv_of want) eqn:Em; [lia|].
        assert (Hr : process fuel rest = U8Ok vs).
        { apply IH; [|exact Hc]. rewrite app_length in Hlen. lia. }
        rewrite Hr. reflexivity.
Qed.

Theorem utf8_process_exact : forall bs cps, u8_process bs = U8Ok cps <-> Chars bs cps.
Proof. intros. unfold u8_process. apply process_exact_fuel. lia. Qed.

(* the fuel never runs out *)
Lemma process_fuel_suffices : forall fuel bs, (length bs <= fuel)%nat -> process fuel bs <> U8Fuel.
Proof.
  induction fuel as [|fuel IH]; intros bs Hlen.
  - destruct bs; [simpl; discriminate|simpl in Hlen; lia].
  - destruct bs as [|ch tl]; [simpl; discriminate|]. simpl in Hlen. cbn [process].
    destruct (want_of ch) as [want|] eqn:Ew; [|discriminate].
    destruct (zlen tl <? want - 1); [discriminate|].
    destruct (conts _ _); [|discriminate].
    destruct (_ <? mv_of want); [discriminate|].
    assert (Hs : process fuel (skipn (Z.to_nat (want - 1)) tl) <> U8Fuel)
      by (apply IH; rewrite skipn_length; lia).
    destruct (process fuel (skipn (Z.to_nat (want - 1)) tl)); try discriminate. contradiction.
Qed.
Theorem utf8_process_total : forall bs, u8_process bs <> U8Fuel.
Proof. intro bs. apply process_fuel_suffices. lia. Qed.

Lemma chars_count_fun : forall bs c1 c2, Chars bs c1 -> Chars bs c2 -> c1 = c2.
Proof.
  intros bs c1 c2 H1 H2. apply utf8_process_exact in H1. apply utf8_process_exact in H2. congruence.
Qed.

(* UTF8String_length: a non-negative return value is the number of characters of the (unique)
   decomposition; any other string gets one of the negative codes *)
Theorem utf8_length_counts_characters : forall bs n, 0 <= n ->
  (utf8_length (Some bs) = n <-> exists cps, Chars bs cps /\ zlen cps = n).
Proof.
  intros bs n Hn. unfold utf8_length. split.
  - pose proof (utf8_process_total bs) as Hf.
    destruct (u8_process bs) as [cps| | | | |] eqn:E; simpl; try lia; try contradiction.
    intro H. exists cps. split; [apply utf8_process_exact; exact E|exact H].
  - intros (cps & Hc & Hl). apply utf8_process_exact in Hc. rewrite Hc. exact Hl.
Qed.

Theorem utf8_length_negative_iff_illformed : forall bs,
  (utf8_length (Some bs) < 0 <-> ~ exists cps, Chars bs cps).
Proof.
  intro bs. unfold utf8_length. split.
  - intros Hneg (cps & Hc). apply utf8_process_exact in Hc. rewrite Hc in Hneg. simpl in Hneg.
    pose proof (zlen_nonneg cps). lia.
  - intro Hno. destruct (u8_process bs) as [cps| | | | |] eqn:E; simpl; try lia.
    exfalso. apply Hno. exists cps. apply utf8_process_exact. exact E.
Qed.

(* UTF8String_constraint *)
Theorem utf8_constraint_exact : forall bs, utf8_constraint (Some bs) = 0 <-> exists cps, Chars bs cps.
Proof.
  intro bs. unfold utf8_constraint.
  pose proof (utf8_length_negative_iff_illformed bs) as [H1 H2].
  destruct (utf8_length (Some bs) <? 0) eqn:E; split; intro H.
  - discriminate.
  - exfalso. apply H1; [lia|exact H].
  - destruct (u8_process bs) as [cps| | | | |] eqn:Ep; unfold utf8_length in E; rewrite Ep in E; simpl in E; try lia.
    exists cps. apply utf8_process_exact. exact Ep.
  - reflexivity.
Qed.
Lemma utf8_constraint_null : utf8_constraint None = -1.
Proof. reflexivity. Qed.

(* the first failure decides, in the order of the octets: a broken character behind well-formed ones *)
Lemma process_prefix_fuel : forall fuel s v rest, (length (s ++ rest) <= fuel)%nat -> WfSeq s v ->
  process fuel (s ++ rest) =
    match process (fuel - 1) rest with U8Ok cps => U8Ok (v :: cps) | e => e end.
Proof.
  intros fuel s v rest Hlen Hs.
  inversion Hs as [ch cs want value Ew Hl Hcn Hmin Hs1 Hs2]. subst s v.
  destruct fuel as [|fuel]; [simpl in Hlen; lia|].
  cbn [app process]. rewrite Ew, zlen_app.
  pose proof (zlen_nonneg rest).
  destruct (zlen cs + zlen rest <? want - 1) eqn:Et; [lia|].
  rewrite (to_nat_zlen cs (want - 1) Hl), firstn_len_app, skipn_len_app, Hcn.
  destruct (value <? mv_of want) eqn:Em; [lia|].
  replace (S fuel - 1)%nat with fuel by lia. reflexivity.
Qed.

(* ------------------------------------------------------------------ against the Unicode standard *)
Lemma wf1 : forall b0, 0 <= b0 <= 127 -> WfSeq [b0] b0.
Proof.
  intros b0 H. assert (Hb : 0 <= b0 < 256) by lia.
  assert (Ew : want_of b0 = Some 1) by (rewrite want_of_ranges by exact Hb; unfold want_ranges; destruct (b0 <? 128) eqn:E; [reflexivity|lia]).
  apply WfSeq_intro with (want := 1); [exact Ew|reflexivity| |].
  - cbn [conts]. rewrite (lead_eq _ _ Hb Ew). unfold lead_ranges. destruct (b0 <? 128) eqn:E; [reflexivity|lia].
  - change (mv_of 1) with 0. lia.
Qed.

Ltac range_case H :=
  unfold want_ranges, lead_ranges in *;
  repeat match goal with |- context [?a <? ?b] => let E := fresh "E" in destruct (a <? b) eqn:E; try lia end.

Lemma wf2 : forall b0 b1, 194 <= b0 <= 223 -> 128 <= b1 <= 191 ->
  WfSeq [b0; b1] ((b0 - 192) * 64 + (b1 - 128)).
Proof.
  intros b0 b1 H0 H1. assert (Hb : 0 <= b0 < 256) by lia.
  assert (Ew : want_of b0 = Some 2) by (rewrite want_of_ranges by exact Hb; range_case H0; reflexivity).
  assert (El : lead b0 2 = b0 - 192) by (rewrite (lead_eq _ _ Hb Ew); range_case H0; reflexivity).
  apply WfSeq_intro with (want := 2); [exact Ew|reflexivity| |].
  - rewrite El, conts_cons_ok by exact H1. reflexivity.
  - change (mv_of 2) with 128. lia.
Qed.

Lemma wf3 : forall b0 b1 b2, 224 <= b0 <= 239 -> 128 <= b1 <= 191 -> 128 <= b2 <= 191 ->
  (b0 = 224 -> 160 <= b1) ->
  WfSeq [b0; b1; b2] (((b0 - 224) * 64 + (b1 - 128)) * 64 + (b2 - 128)).
Proof.
  intros b0 b1 b2 H0 H1 H2 Hm. assert (Hb : 0 <= b0 < 256) by lia.
  assert (Ew : want_of b0 = Some 3) by (rewrite want_of_ranges by exact Hb; range_case H0; reflexivity).
  assert (El : lead b0 3 = b0 - 224) by (rewrite (lead_eq _ _ Hb Ew); range_case H0; reflexivity).
  apply WfSeq_intro with (want := 3); [exact Ew|reflexivity| |].
  - rewrite El, conts_cons_ok by exact H1. rewrite conts_cons_ok by exact H2. reflexivity.
  - change (mv_of 3) with 2048. lia.
Qed.

Lemma wf4 : forall b0 b1 b2 b3, 240 <= b0 <= 247 -> 128 <= b1 <= 191 -> 128 <= b2 <= 191 -> 128 <= b3 <= 191 ->
  (b0 = 240 -> 144 <= b1) ->
  WfSeq [b0; b1; b2; b3] ((((b0 - 240) * 64 + (b1 - 128)) * 64 + (b2 - 128)) * 64 + (b3 - 128)).
Proof.
  intros b0 b1 b2 b3 H0 H1 H2 H3 Hm. assert (Hb : 0 <= b0 < 256) by lia.
  assert (Ew : want_of b0 = Some 4) by (rewrite want_of_ranges by exact Hb; range_case H0; reflexivity).
  assert (El : lead b0 4 = b0 - 240) by (rewrite (lead_eq _ _ Hb Ew); range_case H0; reflexivity).
  apply WfSeq_intro with (want := 4); [exact Ew|reflexivity| |].
  - rewrite El, conts_cons_ok by exact H1. rewrite conts_cons_ok by exact H2. rewrite conts_cons_ok by exact H3. reflexivity.
  - change (mv_of 4) with 65536. lia.
Qed.

Lemma uwf_chars_len : forall n bs, (length bs <= n)%nat -> uwf bs = true -> exists cps, Chars bs cps.
Proof.
  induction n as [|n IH]; intros bs Hlen Hu.
  - destruct bs; [exists []; constructor|simpl in Hlen; lia].
  - destruct bs as [|b0 t0]; [exists []; constructor|].
    simpl in Hlen. cbn [uwf] in Hu. unfold inr in Hu.
    destruct ((0 <=? b0) && (b0 <=? 127)) eqn:E1.
    { destruct (IH t0 ltac:(lia) Hu) as (cps & Hc). exists (b0 :: cps).
      change (b0 :: t0) with ([b0] ++ t0). apply Chars_cons; [apply wf1; lia|exact Hc]. }
    destruct t0 as [|b1 t1]; [discriminate|]. simpl in Hlen.
    destruct ((194 <=? b0) && (b0 <=? 223)) eqn:E2.
    { apply andb_true_iff in Hu. destruct Hu as [Hb1 Hu].
      destruct (IH t1 ltac:(lia) Hu) as (cps & Hc). eexists.
      change (b0 :: b1 :: t1) with ([b0; b1] ++ t1). apply Chars_cons; [apply wf2; lia|exact Hc]. }
    destruct t1 as [|b2 t2]; [discriminate|]. simpl in Hlen.
    destruct ((224 <=? b0) && (b0 <=? 239)) eqn:E3.
    { apply andb_true_iff in Hu. destruct Hu as [Hu Hu3]. apply andb_true_iff in Hu. destruct Hu as [Hb1 Hb2].
      destruct (IH t2 ltac:(lia) Hu3) as (cps & Hc). eexists.
      change (b0 :: b1 :: b2 :: t2) with ([b0; b1; b2] ++ t2). apply Chars_cons; [|exact Hc].
      destruct (b0 =? 224) eqn:Ea; [|destruct (b0 =? 237) eqn:Eb]; apply wf3; lia. }
    destruct t2 as [|b3 t3]; [discriminate|]. simpl in Hlen.
    apply andb_true_iff in Hu. destruct Hu as [Hu Hu4]. apply andb_true_iff in Hu. destruct Hu as [Hu Hb3].
    apply andb_true_iff in Hu. destruct Hu as [Hu Hb2]. apply andb_true_iff in Hu. destruct Hu as [Hb0 Hb1].
    destruct (IH t3 ltac:(lia) Hu4) as (cps & Hc). eexists.
    change (b0 :: b1 :: b2 :: b3 :: t3) with ([b0; b1; b2; b3] ++ t3). apply Chars_cons; [|exact Hc].
    destruct (b0 =? 240) eqn:Ea; [|destruct (b0 =? 244) eqn:Eb]; apply wf4; lia.
Qed.

(* every string the Unicode standard calls well-formed UTF-8 is accepted ... *)
Theorem utf8_accepts_unicode_partial : forall bs, uwf bs = true -> utf8_constraint (Some bs) = 0.
Proof.
  intros bs H. apply utf8_constraint_exact. apply (uwf_chars_len (length bs) bs); [lia|exact H].
Qed.

(* ... but not only those: surrogates, code points beyond U+10FFFF and the 5 / 6 octet forms pass *)
Theorem utf8_accepts_only_unicode_refuted :
  exists b1 b2 b3 b4,
    (utf8_constraint (Some b1) = 0 /\ uwf b1 = false) /\       (* ED A0 80: the surrogate U+D800 *)
    (utf8_constraint (Some b2) = 0 /\ uwf b2 = false) /\       (* F4 90 80 80: 0x110000 *)
    (utf8_constraint (Some b3) = 0 /\ uwf b3 = false) /\       (* F8 88 80 80 80: five octets *)
    (utf8_constraint (Some b4) = 0 /\ uwf b4 = false).         (* FD BF BF BF BF BF: 0x7FFFFFFF *)
Proof.
  exists [237; 160; 128], [244; 144; 128; 128], [248; 136; 128; 128; 128], [253; 191; 191; 191; 191; 191].
  vm_compute. repeat split.
Qed.

(* ------------------------------------------------------------------ the seeded variant: top bit only *)
(* `if(!(ch & 0x80)) return U8E_NOTCONT;` accepts C0..FF at a continuation position *)
Fixpoint conts_topbit (value : Z) (cs : list Z) : option Z :=
  match cs with
  | [] => Some value
  | ch :: r => if ch <? 128 then None else conts_topbit (value * 64 + Z.land ch 63) r
  end.
Theorem conts_topbit_differs : exists v cs, conts v cs = None /\ conts_topbit v cs <> None.
Proof. exists 16, [208]. vm_compute. split; [reflexivity|discriminate]. Qed.

(* a continuation position holds 0x80..0xBF in every accepted string *)
Lemma conts_all_cont : forall cs v v', conts v cs = Some v' -> Forall (fun c => 128 <= c <= 191) cs.
Proof.
  induction cs as [|c r IH]; intros v v' H; [constructor|].
  cbn [conts] in H. destruct ((c <? 128) || (191 <? c)) eqn:E; [discriminate|].
  constructor; [lia|]. eapply IH; exact H.
Qed.
Theorem wfseq_continuations : forall ch cs v, WfSeq (ch :: cs) v -> Forall (fun c => 128 <= c <= 191) cs.
Proof.
  intros ch cs v H. inversion H; subst. eapply conts_all_cont; eassumption.
Qed.

(* ------------------------------------------------------------------ the value stays inside int32_t *)
Lemma conts_bound : forall cs v v', 0 <= v -> conts v cs = Some v' -> 0 <= v' /\ v' + 1 <= (v + 1) * 64 ^ zlen cs.
Proof.
  induction cs as [|c r IH]; intros v v' Hv H.
  - cbn [conts] in H. inversion H; subst. change (zlen (@nil Z)) with 0. simpl. lia.
  - cbn [conts] in H. destruct ((c <? 128) || (191 <? c)) eqn:E; [discriminate|].
    assert (Hc : 128 <= c <= 191) by lia. rewrite cont_land in H by exact Hc.
    apply IH in H; [|lia]. destruct H as [H0 H1]. split; [exact H0|].
    rewrite zlen_cons. pose proof (zlen_nonneg r).
    replace (64 ^ (1 + zlen r)) with (64 * 64 ^ zlen r) by (rewrite Z.pow_add_r by lia; reflexivity).
    set (P := 64 ^ zlen r) in *. assert (0 < P) by (apply Z.pow_pos_nonneg; lia). nia.
Qed.

Theorem wfseq_value_int32 : forall ch cs v, 0 <= ch < 256 -> WfSeq (ch :: cs) v -> 0 <= v < 2147483648.
Proof.
  intros ch cs v Hb H. inversion H as [ch' cs' want value Ew Hl Hc Hmin E1 E2]. subst ch' cs' value.
  pose proof (lead_eq _ _ Hb Ew) as El. rewrite want_of_ranges in Ew by exact Hb.
  assert (Hl0 : 0 <= lead ch want) by (rewrite El; range_case Hb).
  destruct (conts_bound _ _ _ Hl0 Hc) as [Hv0 Hv1]. rewrite Hl in Hv1. rewrite El in Hv1.
  split; [exact Hv0|].
  unfold want_ranges in Ew. unfold lead_ranges in Hv1.
  destruct (ch <? 128) eqn:E1; [inversion Ew; subst want; simpl in Hv1; lia|].
  destruct (ch <? 192) eqn:E2; [discriminate|].
  destruct (ch <? 224) eqn:E3; [inversion Ew; subst want; simpl in Hv1; lia|].
  destruct (ch <? 240) eqn:E4; [inversion Ew; subst want; simpl in Hv1; lia|].
  destruct (ch <? 248) eqn:E5; [inversion Ew; subst want; simpl in Hv1; lia|].
  destruct (ch <? 252) eqn:E6; [inversion Ew; subst want; simpl in Hv1; lia|].
  destruct (ch <? 254) eqn:E7; [inversion Ew; subst want; simpl in Hv1; lia|discriminate].
Qed.
