(* Leaf/RealConvProofs.v — theorems about the model in Leaf/RealConv.v of
   asn_double2REAL / asn_REAL2double.  Layers (byte-level lemmas are in
   Leaf/RealConvBytes.v):
     2. d2R_shape: what double2REAL writes for every non-special double
     3. R2d_binary: what REAL2double reads from octets of that shape
     4. ldexp_bits on the written triple
     5. the theorems (round trip, DER form, exact value; refuted/partial pairs) *)
From Coq Require Import ZArith List Lia Bool ZifyBool.
From A1 Require Import Base.Bytes Leaf.IntegerConv Leaf.RealConv Leaf.RealConvBytes.
Import ListNotations.
Local Open Scope Z_scope.

Definition in64 (d : Z) : Prop := 0 <= d < two64.
Definition two48 : Z := 281474976710656.

Lemma d_fields d : in64 d ->
  0 <= d_sign d <= 1 /\ 0 <= d_exp d < 2048 /\ 0 <= d_frac d < two52 /\
  d = mk_double (d_sign d) (d_exp d) (d_frac d).
Proof.
  unfold in64, d_sign, d_exp, d_frac, mk_double, two64, two63, two52. intros H.
  Z.div_mod_to_equations. lia.
Qed.

Lemma mk_double_fields s e f : 0 <= s <= 1 -> 0 <= e < 2048 -> 0 <= f < two52 ->
  in64 (mk_double s e f) /\ d_sign (mk_double s e f) = s /\
  d_exp (mk_double s e f) = e /\ d_frac (mk_double s e f) = f.
Proof.
  unfold in64, d_sign, d_exp, d_frac, mk_double, two64, two63, two52. intros Hs He Hf.
  Z.div_mod_to_equations. lia.
Qed.

(* ================================================================ *)
(* 2. what double2REAL writes                                        *)

Lemma log2_frac f : 0 < f < two52 -> 0 <= Z.log2 f < 52.
Proof.
  intros H. split; [apply Z.log2_nonneg|].
  apply Z.log2_lt_pow2; [lia|]. change (2 ^ 52) with two52. lia.
Qed.

Lemma ilogb_nonspecial d : in64 d -> d_exp d <> 2047 -> (d_exp d <> 0 \/ d_frac d <> 0) ->
  -1074 <= ilogb d <= 1023.
Proof.
  intros Hd He Hnz. destruct (d_fields d Hd) as (_ & Hexp & Hf & _).
  unfold ilogb.
  destruct (d_exp d =? 2047) eqn:E1; [lia|].
  destruct (d_exp d =? 0) eqn:E0; [|lia].
  destruct (d_frac d =? 0) eqn:F0; [lia|].
  pose proof (log2_frac (d_frac d) ltac:(lia)). lia.
Qed.

Lemma pow256_pow2 z : 0 <= z -> 256 ^ z = 2 ^ (8 * z).
Proof. intros H. rewrite Z.pow_mul_r by lia. reflexivity. Qed.

(* the part of asn_double2REAL after the scratch pad is set up, on any pad
   h :: T (7 bytes) whose kept bytes are init ++ [mval]: M is the integer on the
   pad, ex0 the exponent the C starts from *)
Lemma d2R_core bm ex0 h T init mval zs M :
  bytes_ok (h :: T) -> zlen T = 6 -> be_val (h :: T) = M ->
  h :: T = init ++ mval :: zs -> zeros zs -> mval <> 0 ->
  -2000 <= ex0 <= 2000 ->
  exists eb mant t,
    (if negb (mval =? 0) && (mval mod 2 =? 0)
     then exp_octets bm (ex0 - (8 * (zlen init + 1) - 4) + shift_count mval)
            ++ skip_lead_zeros (shr_bytes (shift_count mval) 0 (init ++ [mval]))
     else exp_octets bm (ex0 - (8 * (zlen init + 1) - 4)) ++ skip_lead_zeros (init ++ [mval]))
    = (bm + (zlen eb - 1)) :: eb ++ mant /\
    1 <= zlen eb <= 3 /\ bytes_ok eb /\ minimal_twos eb = true /\
    twos_value eb = ex0 - 52 + t /\
    bytes_ok mant /\ mant <> [] /\ 0 <= t /\
    be_val mant * 2 ^ t = M /\ be_val mant mod 2 = 1 /\ hd 0 mant <> 0.
Proof.
  intros Hok HlenT HM Hdec Hzs Hmv Hex.
  rewrite Hdec in Hok.
  apply bytes_ok_app in Hok. destruct Hok as (Hinit & Hok2).
  pose proof (Forall_inv Hok2) as Hmvb. unfold byte_ok in Hmvb.
  assert (Hlen : zlen init + 1 + zlen zs = 7).
  { assert (zlen (h :: T) = zlen (init ++ mval :: zs)) by (rewrite Hdec; reflexivity).
    rewrite zlen_cons, zlen_app, zlen_cons in H. lia. }
  pose proof (zlen_nonneg init) as Hi0. pose proof (zlen_nonneg zs) as Hz0.
  set (K := be_val init * 256 + mval).
  assert (HK : K * 2 ^ (8 * zlen zs) = be_val (h :: T)).
  { rewrite Hdec. rewrite be_val_app. cbn [be_val]. rewrite (be_val_zeros zs Hzs).
    rewrite pow256_zlen_cons. rewrite <- pow256_pow2 by lia. unfold K. ring. }
  assert (HKsnoc : be_val (init ++ [mval]) = K) by apply be_val_snoc.
  assert (Hoks : bytes_ok (init ++ [mval])).
  { apply bytes_ok_app. split; [exact Hinit|]. constructor; [exact Hmvb|constructor]. }
  pose proof (be_val_bound init Hinit) as HBi.
  assert (Hmb : negb (mval =? 0) = true) by lia. rewrite Hmb. cbn [andb].
  destruct (mval mod 2 =? 0) eqn:Epar.
  - (* even last byte: make-odd shift *)
    destruct (shift_count_spec mval Hmvb Hmv ltac:(lia)) as (Hsc & Hm0 & Hm1).
    set (sc := shift_count mval) in *.
    pose proof (pow2_split sc Hsc) as H256.
    assert (Hs : 0 < 2 ^ sc) by (apply Z.pow_pos_nonneg; lia).
    destruct (shr_bytes_val0 sc (init ++ [mval]) Hsc Hoks) as (Hv & Hbo & Hl).
    destruct (skip_lead_zeros_spec _ Hbo) as (Hsv & Hsok & Hsne & Hshd).
    destruct (exp_octets_spec bm (ex0 - (8 * (zlen init + 1) - 4) + sc) ltac:(lia))
      as (eb & Heb & Hlen_eb & Hok_eb & Htw & Hmin).
    exists eb, (skip_lead_zeros (shr_bytes sc 0 (init ++ [mval]))), (8 * zlen zs + sc).
    rewrite Heb. split; [reflexivity|].
    split; [exact Hlen_eb|]. split; [exact Hok_eb|]. split; [exact Hmin|].
    split; [rewrite Htw; lia|]. split; [exact Hsok|].
    split. { apply Hsne. intros C. rewrite C in Hl. rewrite app_length in Hl. simpl in Hl. lia. }
    split; [lia|].
    rewrite Hsv, Hv, HKsnoc.
    assert (HKq : K = (be_val init * 2 ^ (8 - sc) + mval / 2 ^ sc) * 2 ^ sc).
    { unfold K. rewrite H256 at 1.
      pose proof (Z.div_mod mval (2 ^ sc) ltac:(lia)) as Hdm. rewrite Hm0 in Hdm. lia. }
    assert (HKd : K / 2 ^ sc = be_val init * 2 ^ (8 - sc) + mval / 2 ^ sc).
    { rewrite HKq at 1. apply Z.div_mul. lia. }
    assert (Hodd : (K / 2 ^ sc) mod 2 = 1).
    { rewrite HKd.
      replace (2 ^ (8 - sc)) with (2 ^ (7 - sc) * 2).
      2:{ replace (8 - sc) with (7 - sc + 1) by lia. rewrite Z.pow_add_r by lia. reflexivity. }
      rewrite Z.mul_assoc, Z.add_comm, Z.mod_add by lia. exact Hm1. }
    split; [|split].
    + rewrite Z.pow_add_r by lia. rewrite <- HM, <- HK. rewrite HKq at 2. rewrite HKd. ring.
    + exact Hodd.
    + apply Hshd. rewrite Hv, HKsnoc. intros C. rewrite C in Hodd. discriminate Hodd.
  - (* odd last byte *)
    destruct (skip_lead_zeros_spec _ Hoks) as (Hsv & Hsok & Hsne & Hshd).
    destruct (exp_octets_spec bm (ex0 - (8 * (zlen init + 1) - 4)) ltac:(lia))
      as (eb & Heb & Hlen_eb & Hok_eb & Htw & Hmin).
    exists eb, (skip_lead_zeros (init ++ [mval])), (8 * zlen zs).
    rewrite Heb. split; [reflexivity|].
    split; [exact Hlen_eb|]. split; [exact Hok_eb|]. split; [exact Hmin|].
    split; [rewrite Htw; lia|]. split; [exact Hsok|].
    split. { apply Hsne. intros C. apply app_eq_nil in C. destruct C; discriminate. }
    split; [lia|]. rewrite Hsv, HKsnoc.
    assert (Hodd : K mod 2 = 1).
    { unfold K. rewrite Z.add_comm.
      replace (be_val init * 256) with (be_val init * 128 * 2) by ring.
      rewrite Z.mod_add by lia. Z.div_mod_to_equations. lia. }
    split; [rewrite <- HM; exact HK|].
    split; [exact Hodd|].
    apply Hshd. rewrite HKsnoc. intros C. rewrite C in Hodd. discriminate Hodd.
Qed.

(* the integer significand and the exponent of its unit bit: a double is
   sig_of d * 2 ^ ulp_exp d (subnormals have no hidden bit) *)
Definition sig_of (d : Z) : Z := if d_exp d =? 0 then d_frac d else two52 + d_frac d.
Definition ulp_exp (d : Z) : Z := if d_exp d =? 0 then -1074 else d_exp d - 1075.

Lemma zeros_be_val_nz l : be_val l <> 0 -> ~ zeros l.
Proof. intros H Hz. apply H. apply be_val_zeros. exact Hz. Qed.

Lemma d2R_shape d : in64 d -> d_exp d <> 2047 -> (d_exp d <> 0 \/ d_frac d <> 0) ->
  exists eb mant t,
    double2REAL d = (128 + 64 * d_sign d + (zlen eb - 1)) :: eb ++ mant /\
    1 <= zlen eb <= 3 /\ bytes_ok eb /\ minimal_twos eb = true /\
    twos_value eb = ulp_exp d + t /\
    bytes_ok mant /\ mant <> [] /\ 0 <= t /\
    be_val mant * 2 ^ t = sig_of d /\ be_val mant mod 2 = 1 /\ hd 0 mant <> 0.
Proof.
  intros Hd He Hnz.
  pose proof (ilogb_nonspecial d Hd He Hnz) as Hil.
  destruct (d_fields d Hd) as (Hs & Hexp & Hf & Hmk).
  unfold double2REAL. cbv zeta.
  replace ((ilogb d <=? - INT_MAX) || (ilogb d =? INT_MAX)) with false by (unfold INT_MAX; lia).
  rewrite (be_bytes_S 6 d). cbn [set_lead].
  set (b0 := (d / 256 ^ Z.of_nat 6) mod 256).
  set (T := be_bytes 6 d).
  assert (Hb0 : 0 <= b0 < 256) by (apply Z.mod_pos_bound; lia).
  assert (HT : bytes_ok T) by apply be_bytes_ok.
  assert (HlenT : zlen T = 6) by apply (zlen_be_bytes 6 d).
  unfold sig_of, ulp_exp, DBL_MIN_EXP.
  destruct (d_exp d =? 0) eqn:E0.
  - (* subnormal: the pad holds the fraction *)
    assert (Hf0 : d_frac d <> 0) by lia.
    assert (Hilog : ilogb d = Z.log2 (d_frac d) - 1074).
    { unfold ilogb. replace (d_exp d =? 2047) with false by lia. rewrite E0.
      replace (d_frac d =? 0) with false by lia. reflexivity. }
    pose proof (log2_frac (d_frac d) ltac:(lia)) as Hlg.
    replace (ilogb d <? -1021 - 1) with true by lia.
    assert (Hb16 : b0 mod 16 = b0).
    { unfold b0. change (256 ^ Z.of_nat 6) with two48.
      unfold d_exp, d_frac, two52, two48 in *. Z.div_mod_to_equations. lia. }
    rewrite Hb16.
    assert (HM : be_val (b0 :: T) = d_frac d).
    { cbn [be_val]. rewrite HlenT. unfold T. rewrite be_val_be_bytes.
      unfold b0. change (256 ^ Z.of_nat 6) with two48. change (256 ^ 6) with two48.
      unfold d_exp, d_frac, two52, two48 in *. Z.div_mod_to_equations. lia. }
    assert (Hok : bytes_ok (b0 :: T)) by (constructor; [unfold byte_ok; lia|exact HT]).
    destruct (scratch_spec_nz b0 T (zeros_be_val_nz _ ltac:(rewrite HM; exact Hf0)))
      as (init & mval & zs & Hdec & Hzs & Hms & Hmv).
    rewrite <- Hms. rewrite Hdec.
    replace (Z.to_nat (zlen init + 1)) with (S (length init)) by (unfold zlen; lia).
    replace (Z.to_nat (zlen init)) with (length init) by (unfold zlen; lia).
    rewrite firstn_snoc_app, nth_middle0.
    destruct (d2R_core (128 + 64 * d_sign d) (-1021 - 1) b0 T init mval zs (d_frac d)
                Hok HlenT HM Hdec Hzs Hmv ltac:(lia))
      as (eb & mant & t & Henc & H1 & H2 & H3 & Htw & H5 & H6 & H7 & H8 & H9 & H10).
    exists eb, mant, t. rewrite Henc.
    repeat split; try assumption; try lia.
  - (* normal: hidden bit set *)
    assert (Hilog : ilogb d = d_exp d - 1023).
    { unfold ilogb. replace (d_exp d =? 2047) with false by lia. rewrite E0. reflexivity. }
    replace (ilogb d <? -1021 - 1) with false by lia.
    set (h := 16 + b0 mod 16).
    assert (Hh : 0 <= h < 256 /\ h <> 0) by (unfold h; Z.div_mod_to_equations; lia).
    assert (HM : be_val (h :: T) = two52 + d_frac d).
    { cbn [be_val]. rewrite HlenT. unfold T. rewrite be_val_be_bytes.
      unfold h, b0, d_frac, two52. change (256 ^ Z.of_nat 6) with two48. change (256 ^ 6) with two48.
      unfold two48. Z.div_mod_to_equations. lia. }
    assert (Hok : bytes_ok (h :: T)) by (constructor; [unfold byte_ok; lia|exact HT]).
    destruct (scratch_spec h b0 T (proj2 Hh)) as (init & mval & zs & Hdec & Hzs & Hms & Hmv).
    rewrite <- Hms. rewrite Hdec.
    replace (Z.to_nat (zlen init + 1)) with (S (length init)) by (unfold zlen; lia).
    replace (Z.to_nat (zlen init)) with (length init) by (unfold zlen; lia).
    rewrite firstn_snoc_app, nth_middle0.
    destruct (d2R_core (128 + 64 * d_sign d) (ilogb d) h T init mval zs (two52 + d_frac d)
                Hok HlenT HM Hdec Hzs Hmv ltac:(lia))
      as (eb & mant & t & Henc & H1 & H2 & H3 & Htw & H5 & H6 & H7 & H8 & H9 & H10).
    exists eb, mant, t. rewrite Henc.
    repeat split; try assumption; try lia.
Qed.

(* ================================================================ *)
(* 3. what REAL2double reads from octets of that shape               *)

Lemma two53_lt_two1024 : two53 < two1024.
Proof. vm_compute. reflexivity. Qed.

Lemma rnd53_small x : x < two53 -> rnd53 x = x.
Proof. intros H. unfold rnd53. replace (x <? two53) with true by lia. reflexivity. Qed.

Lemma mant_fold l : bytes_ok l -> forall v, 0 <= v ->
  v * 256 ^ zlen l + be_val l < two53 ->
  fold_left mant_step l (MFin v) = MFin (v * 256 ^ zlen l + be_val l).
Proof.
  induction 1 as [|b tl Hb Htl IH]; intros v Hv Hlt; cbn [fold_left be_val] in *.
  - unfold zlen; simpl. f_equal. lia.
  - rewrite pow256_zlen_cons in *. unfold byte_ok in Hb.
    pose proof (pow256_pos (length tl)) as HP. fold (zlen tl) in HP.
    pose proof (be_val_bound tl Htl) as HV.
    set (P := 256 ^ zlen tl) in *. set (V := be_val tl) in *.
    assert (HX : v * 256 + b < two53) by nia.
    cbn [mant_step].
    pose proof two53_lt_two1024 as H1024.
    replace (two1024 <=? v * 256) with false by lia.
    rewrite rnd53_small by exact HX.
    rewrite IH by nia. f_equal. ring.
Qed.

Lemma firstn_app_len {A} (l1 l2 : list A) : firstn (length l1) (l1 ++ l2) = l1.
Proof. induction l1 as [|a l IH]; cbn [length app firstn]; [reflexivity|]. now rewrite IH. Qed.

Lemma skipn_app_len {A} (l1 l2 : list A) : skipn (length l1) (l1 ++ l2) = l2.
Proof. induction l1 as [|a l IH]; cbn [length app skipn]; [reflexivity|exact IH]. Qed.

Lemma R2d_binary s eb mant :
  0 <= s <= 1 -> 1 <= zlen eb <= 3 -> bytes_ok eb -> bytes_ok mant -> be_val mant < two53 ->
  REAL2double ((128 + 64 * s + (zlen eb - 1)) :: eb ++ mant) =
  match ldexp_bits (be_val mant) (twos_value eb) with
  | None => RErange
  | Some b => ROk (s * two63 + b)
  end.
Proof.
  intros Hs Hlen Hok_eb Hok_m Hlt.
  destruct eb as [|e0 eb']; [unfold zlen in Hlen; simpl in Hlen; lia|].
  rewrite zlen_cons in *. pose proof (zlen_nonneg eb') as Hl0.
  inversion Hok_eb as [|? ? He0 Hok_eb']; subst. unfold byte_ok in He0.
  replace (zlen eb' + 1 - 1) with (zlen eb') by lia.
  set (hdr := 128 + 64 * s + zlen eb').
  assert (H64 : hdr / 64 = 2 + s) by (unfold hdr; Z.div_mod_to_equations; lia).
  assert (H16 : (hdr / 16) mod 4 = 0) by (unfold hdr; Z.div_mod_to_equations; lia).
  assert (H4 : (hdr / 4) mod 4 = 0) by (unfold hdr; Z.div_mod_to_equations; lia).
  assert (Hel : hdr mod 4 = zlen eb') by (unfold hdr; Z.div_mod_to_equations; lia).
  assert (Hsz : zlen (hdr :: (e0 :: eb') ++ mant) = 2 + zlen eb' + zlen mant).
  { rewrite zlen_cons, zlen_app, zlen_cons. lia. }
  pose proof (zlen_nonneg mant) as Hm0.
  unfold REAL2double. cbv zeta. rewrite Hsz, H64, H16, H4, Hel.
  replace (2 + s =? 1) with false by lia.
  replace (2 + s =? 0) with false by lia.
  replace (0 =? 3) with false by reflexivity.
  replace (0 =? 0) with true by reflexivity.
  replace (2 + zlen eb' + zlen mant <=? 1 + zlen eb') with false by lia.
  replace (zlen eb' =? 3) with false by lia.
  cbn [app].
  replace (3 <=? zlen eb') with false by lia.
  replace (Z.to_nat (zlen eb')) with (length eb') by (unfold zlen; lia).
  rewrite firstn_app_len, skipn_app_len.
  rewrite fold_be_val.
  pose proof (mant_fold mant Hok_m 0 ltac:(lia) ltac:(lia)) as Hmf.
  rewrite Hmf. rewrite Z.mul_0_l, Z.add_0_l.
  rewrite Z.mul_1_r, Z.add_0_r.
  replace ((2 + s) mod 2) with s by (Z.div_mod_to_equations; lia).
  replace ((if 128 <=? e0 then e0 - 256 else e0) * 256 ^ zlen eb' + be_val eb')
    with (twos_value (e0 :: eb')).
  2:{ unfold twos_value. cbn [be_val]. rewrite pow256_zlen_cons.
      destruct (128 <=? e0); ring. }
  reflexivity.
Qed.

(* ================================================================ *)
(* 4. ldexp on the written triple                                    *)

Lemma pow2_pos t : 0 <= t -> 0 < 2 ^ t.
Proof. intros. apply Z.pow_pos_nonneg; lia. Qed.

Lemma triple_log2 N t f : 0 <= f < two52 -> 0 <= t -> N * 2 ^ t = two52 + f ->
  t <= 52 /\ 0 < N < two53 /\ Z.log2 N = 52 - t.
Proof.
  intros Hf Ht HN. pose proof (pow2_pos t Ht) as HP.
  assert (HNpos : 0 < N) by (unfold two52 in *; nia).
  assert (Ht52 : t <= 52).
  { destruct (Z.le_gt_cases t 52) as [|Hgt]; [assumption|exfalso].
    assert (2 ^ 53 <= 2 ^ t) by (apply Z.pow_le_mono_r; lia).
    change (2 ^ 53) with two53 in H. unfold two52, two53 in *. nia. }
  assert (Hsplit : 2 ^ (52 - t) * 2 ^ t = two52).
  { rewrite <- Z.pow_add_r by lia. replace (52 - t + t) with 52 by lia. reflexivity. }
  pose proof (pow2_pos (52 - t) ltac:(lia)) as HQ.
  split; [exact Ht52|]. split; [unfold two52, two53 in *; nia|].
  apply Z.log2_unique; [lia|].
  replace (52 - t + 1) with (Z.succ (52 - t)) by lia. rewrite Z.pow_succ_r by lia.
  unfold two52 in *. nia.
Qed.

Lemma ldexp_bits_exact N t e f :
  1 <= e <= 2046 -> 0 <= f < two52 -> 0 <= t -> N * 2 ^ t = two52 + f ->
  ldexp_bits N (e - 1075 + t) = Some (e * two52 + f).
Proof.
  intros He Hf Ht HN.
  destruct (triple_log2 N t f Hf Ht HN) as (Ht52 & HNr & Hlog).
  unfold ldexp_bits. cbv zeta. rewrite Hlog.
  replace (N =? 0) with false by lia.
  replace (1024 <=? 52 - t + (e - 1075 + t)) with false by lia.
  replace (-1022 <=? 52 - t + (e - 1075 + t)) with true by lia.
  replace (52 - t <=? 52) with true by lia.
  replace (52 - (52 - t)) with t by lia. rewrite HN. f_equal. lia.
Qed.

(* a subnormal result that is representable is exact: N * 2^t = f < 2^52 at
   exponent -1074 + t gives the pattern f *)
Lemma ldexp_bits_subnormal N t f :
  0 < f < two52 -> 0 <= t -> N * 2 ^ t = f ->
  ldexp_bits N (-1074 + t) = Some f.
Proof.
  intros Hf Ht HN. pose proof (pow2_pos t Ht) as HP.
  assert (HNpos : 0 < N) by nia.
  assert (Hlog : Z.log2 f = t + Z.log2 N) by (rewrite <- HN; apply Z.log2_mul_pow2; lia).
  pose proof (log2_frac f Hf) as Hlf. pose proof (Z.log2_nonneg N) as HlN.
  unfold ldexp_bits. cbv zeta.
  replace (N =? 0) with false by lia.
  replace (1024 <=? Z.log2 N + (-1074 + t)) with false by lia.
  replace (-1022 <=? Z.log2 N + (-1074 + t)) with false by lia.
  replace (Z.log2 N + (-1074 + t) <? -1075) with false by lia.
  replace (-1074 + t + 1074) with t by lia.
  replace (0 <=? t) with true by lia. rewrite HN. reflexivity.
Qed.

(* ================================================================ *)
(* 5. theorems                                                       *)

Definition normal (d : Z) : Prop := in64 d /\ 1 <= d_exp d <= 2046.
Definition subnormal (d : Z) : Prop := in64 d /\ d_exp d = 0 /\ d_frac d <> 0.

Lemma sig_normal d : 1 <= d_exp d <= 2046 ->
  sig_of d = two52 + d_frac d /\ ulp_exp d = d_exp d - 1075.
Proof. intros H. unfold sig_of, ulp_exp. replace (d_exp d =? 0) with false by lia. split; reflexivity. Qed.

Lemma sig_subnormal d : d_exp d = 0 -> sig_of d = d_frac d /\ ulp_exp d = -1074.
Proof. intros H. unfold sig_of, ulp_exp. rewrite H. split; reflexivity. Qed.

(* (a) every normal double comes back bit for bit *)
Theorem real_roundtrip_normal d : normal d -> REAL2double (double2REAL d) = ROk d.
Proof.
  intros (Hd & He).
  destruct (d_fields d Hd) as (Hs & _ & Hf & Hmk).
  destruct (sig_normal d He) as (Hsig & Hulp).
  destruct (d2R_shape d Hd ltac:(lia) ltac:(lia))
    as (eb & mant & t & Henc & Hlen & Hok_eb & _ & Htw & Hok_m & _ & Ht & HN & _).
  rewrite Hsig in HN. rewrite Hulp in Htw.
  destruct (triple_log2 _ t _ Hf Ht HN) as (_ & HNr & _).
  rewrite Henc, R2d_binary by (try assumption; lia).
  rewrite Htw.
  rewrite (ldexp_bits_exact _ t (d_exp d) (d_frac d)) by assumption.
  f_equal. rewrite Hmk at 4. unfold mk_double. ring.
Qed.

(* ... and so does every subnormal one *)
Theorem real_roundtrip_subnormal d : subnormal d -> REAL2double (double2REAL d) = ROk d.
Proof.
  intros (Hd & He & Hf0).
  destruct (d_fields d Hd) as (Hs & _ & Hf & Hmk).
  destruct (sig_subnormal d He) as (Hsig & Hulp).
  destruct (d2R_shape d Hd ltac:(lia) ltac:(lia))
    as (eb & mant & t & Henc & Hlen & Hok_eb & _ & Htw & Hok_m & _ & Ht & HN & _).
  rewrite Hsig in HN. rewrite Hulp in Htw.
  pose proof (pow2_pos t Ht) as HP.
  assert (HNr : be_val mant < two53) by (unfold two52, two53 in *; nia).
  rewrite Henc, R2d_binary by (try assumption; lia).
  rewrite Htw.
  rewrite (ldexp_bits_subnormal _ t (d_frac d)) by (try assumption; lia).
  f_equal. rewrite Hmk at 3. rewrite He. unfold mk_double. ring.
Qed.

(* zeros and infinities of both signs: closed terms *)
Theorem real_roundtrip_specials :
  REAL2double (double2REAL 0) = ROk 0 /\
  REAL2double (double2REAL neg_zero_bits) = ROk neg_zero_bits /\
  REAL2double (double2REAL pos_inf_bits) = ROk pos_inf_bits /\
  REAL2double (double2REAL neg_inf_bits) = ROk neg_inf_bits /\
  double2REAL 0 = [] /\ double2REAL neg_zero_bits = [67] /\
  double2REAL pos_inf_bits = [64] /\ double2REAL neg_inf_bits = [65].
Proof. vm_compute. repeat split; reflexivity. Qed.

(* every NaN bit pattern is stored as NOT-A-NUMBER and read back as a NaN *)
Theorem real_roundtrip_nan d : in64 d -> is_nan d = true ->
  double2REAL d = [66] /\ REAL2double (double2REAL d) = RNaN.
Proof.
  intros Hd Hn.
  assert (H : double2REAL d = [66]).
  { unfold double2REAL. cbv zeta. unfold ilogb. unfold is_nan in *.
    replace (d_exp d =? 2047) with true by lia.
    replace (d_frac d =? 0) with false by lia.
    replace ((- INT_MAX - 1 <=? - INT_MAX) || (- INT_MAX - 1 =? INT_MAX)) with true by (unfold INT_MAX; lia).
    cbn [andb negb]. reflexivity. }
  split; [exact H|]. rewrite H. reflexivity.
Qed.

(* the whole domain: all 2^64 bit patterns *)
Theorem real_roundtrip d : in64 d ->
  REAL2double (double2REAL d) = if is_nan d then RNaN else ROk d.
Proof.
  intros Hd.
  destruct (d_fields d Hd) as (Hs & He & Hf & Hmk).
  destruct real_roundtrip_specials as (Z0 & Z1 & I0 & I1 & _).
  destruct (Z.eq_dec (d_exp d) 2047) as [E2047|NE2047].
  - destruct (Z.eq_dec (d_frac d) 0) as [F0|NF0].
    + replace (is_nan d) with false by (unfold is_nan; lia).
      rewrite Hmk, E2047, F0.
      assert (Hs2 : d_sign d = 0 \/ d_sign d = 1) by lia.
      destruct Hs2 as [-> | ->]; assumption.
    + assert (Hn : is_nan d = true) by (unfold is_nan; lia).
      rewrite Hn. exact (proj2 (real_roundtrip_nan d Hd Hn)).
  - replace (is_nan d) with false by (unfold is_nan; lia).
    destruct (Z.eq_dec (d_exp d) 0) as [E0|NE0].
    + destruct (Z.eq_dec (d_frac d) 0) as [F0|NF0].
      * rewrite Hmk, E0, F0.
        assert (Hs2 : d_sign d = 0 \/ d_sign d = 1) by lia.
        destruct Hs2 as [-> | ->]; assumption.
      * apply real_roundtrip_subnormal. repeat split; auto; apply Hd.
    + apply real_roundtrip_normal. split; [exact Hd|lia].
Qed.

(* ---------------------------------------------------------------- *)
(* (b) DER form, (c) exact value                                     *)

Lemma split_binary_shape s eb mant : 0 <= s <= 1 -> 1 <= zlen eb <= 3 ->
  split_binary ((128 + 64 * s + (zlen eb - 1)) :: eb ++ mant)
  = Some (128 + 64 * s + (zlen eb - 1), eb, mant).
Proof.
  intros Hs Hlen. unfold split_binary.
  set (hdr := 128 + 64 * s + (zlen eb - 1)).
  assert (Hel : hdr mod 4 = zlen eb - 1) by (unfold hdr; Z.div_mod_to_equations; lia).
  rewrite Hel. pose proof (zlen_nonneg mant).
  replace ((128 <=? hdr) && (zlen eb - 1 <? 3) && (zlen eb - 1 + 1 <=? zlen (eb ++ mant)))
    with true by (rewrite zlen_app; unfold hdr; lia).
  replace (Z.to_nat (zlen eb - 1 + 1)) with (length eb) by (unfold zlen; lia).
  rewrite firstn_app_len, skipn_app_len. reflexivity.
Qed.

Lemma der_real_form_long bs : 2 <= zlen bs ->
  der_real_form bs =
  match split_binary bs with
  | None => false
  | Some (b, ex, mn) =>
      ((b / 4) mod 16 =? 0) && minimal_twos ex &&
      match mn with
      | [] => false
      | m0 :: _ => negb (m0 =? 0) && (last_byte mn mod 2 =? 1)
      end
  end.
Proof.
  destruct bs as [|b [|c l]]; unfold zlen; simpl length; intros H; try lia. reflexivity.
Qed.

Lemma der_shape s eb mant :
  0 <= s <= 1 -> 1 <= zlen eb <= 3 -> minimal_twos eb = true ->
  mant <> [] -> be_val mant mod 2 = 1 -> hd 0 mant <> 0 ->
  der_real_form ((128 + 64 * s + (zlen eb - 1)) :: eb ++ mant) = true.
Proof.
  intros Hs Hlen Hmin Hne Hodd Hhd.
  set (bs := (128 + 64 * s + (zlen eb - 1)) :: eb ++ mant).
  assert (H2 : 2 <= zlen bs).
  { unfold bs. rewrite zlen_cons, zlen_app. pose proof (zlen_nonneg mant). lia. }
  rewrite der_real_form_long by exact H2.
  unfold bs. rewrite split_binary_shape by assumption. rewrite Hmin.
  replace ((128 + 64 * s + (zlen eb - 1)) / 4 mod 16 =? 0) with true
    by (Z.div_mod_to_equations; lia).
  rewrite be_val_last_mod2 in Hodd by exact Hne. fold (last_byte mant) in Hodd.
  destruct mant as [|m0 tl]; [congruence|]. cbn [hd andb] in *.
  replace (last_byte (m0 :: tl) mod 2 =? 1) with true by lia.
  replace (m0 =? 0) with false by lia. reflexivity.
Qed.

Lemma real_value_shape s eb mant : 0 <= s <= 1 -> 1 <= zlen eb <= 3 ->
  real_value ((128 + 64 * s + (zlen eb - 1)) :: eb ++ mant)
  = Some (s, be_val mant, twos_value eb).
Proof.
  intros Hs Hlen. unfold real_value. rewrite split_binary_shape by assumption.
  set (hdr := 128 + 64 * s + (zlen eb - 1)).
  replace ((hdr / 16) mod 4) with 0 by (unfold hdr; Z.div_mod_to_equations; lia).
  replace ((hdr / 64) mod 2) with s by (unfold hdr; Z.div_mod_to_equations; lia).
  replace ((hdr / 4) mod 4) with 0 by (unfold hdr; Z.div_mod_to_equations; lia).
  cbn [Z.eqb]. rewrite Z.mul_1_r, Z.add_0_r. reflexivity.
Qed.

(* "stored octets are the DER form" (X.690 8.5 + 11.3, the fewest mantissa
   octets included), for EVERY bit pattern *)
Theorem real_der_form d : in64 d -> der_real_form (double2REAL d) = true.
Proof.
  intros Hd.
  destruct (d_fields d Hd) as (Hs & He & Hf & Hmk).
  destruct real_roundtrip_specials as (_ & _ & _ & _ & Z0 & Z1 & I0 & I1).
  assert (Hs2 : d_sign d = 0 \/ d_sign d = 1) by lia.
  destruct (Z.eq_dec (d_exp d) 2047) as [E2047|NE2047].
  - destruct (Z.eq_dec (d_frac d) 0) as [F0|NF0].
    + rewrite Hmk, E2047, F0.
      destruct Hs2 as [-> | ->];
        [rewrite (I0 : double2REAL (mk_double 0 2047 0) = [64])|rewrite (I1 : double2REAL (mk_double 1 2047 0) = [65])]; reflexivity.
    + assert (Hn : is_nan d = true) by (unfold is_nan; lia).
      rewrite (proj1 (real_roundtrip_nan d Hd Hn)). reflexivity.
  - destruct (Z.eq_dec (d_exp d) 0) as [E0|NE0]; [destruct (Z.eq_dec (d_frac d) 0) as [F0|NF0]|].
    + rewrite Hmk, E0, F0.
      destruct Hs2 as [-> | ->];
        [rewrite (Z0 : double2REAL (mk_double 0 0 0) = [])|rewrite (Z1 : double2REAL (mk_double 1 0 0) = [67])]; reflexivity.
    + destruct (d2R_shape d Hd NE2047 ltac:(lia))
        as (eb & mant & t & Henc & Hlen & _ & Hmin & _ & _ & Hne & _ & _ & Hodd & Hhd).
      rewrite Henc. apply der_shape; assumption.
    + destruct (d2R_shape d Hd NE2047 ltac:(lia))
        as (eb & mant & t & Henc & Hlen & _ & Hmin & _ & _ & Hne & _ & _ & Hodd & Hhd).
      rewrite Henc. apply der_shape; assumption.
Qed.

(* (c) the written triple denotes exactly the double: N * 2^E = (2^52+f) * 2^(e-1075),
   N odd *)
Theorem real_value_exact d : normal d ->
  exists N E, real_value (double2REAL d) = Some (d_sign d, N, E) /\
              d_exp d - 1075 <= E /\ N mod 2 = 1 /\
              N * 2 ^ (E - (d_exp d - 1075)) = two52 + d_frac d.
Proof.
  intros (Hd & He).
  destruct (d_fields d Hd) as (Hs & _ & _ & _).
  destruct (sig_normal d He) as (Hsig & Hulp).
  destruct (d2R_shape d Hd ltac:(lia) ltac:(lia))
    as (eb & mant & t & Henc & Hlen & _ & _ & Htw & _ & _ & Ht & HN & Hodd & _).
  rewrite Hsig in HN. rewrite Hulp in Htw.
  exists (be_val mant), (twos_value eb).
  rewrite Henc, real_value_shape by assumption.
  rewrite Htw.
  split; [reflexivity|]. split; [lia|]. split; [exact Hodd|].
  replace (d_exp d - 1075 + t - (d_exp d - 1075)) with t by lia. exact HN.
Qed.

(* subnormals: N * 2^E = f * 2^-1074 (no hidden bit), N odd *)
Theorem real_value_exact_subnormal d : subnormal d ->
  exists N E, real_value (double2REAL d) = Some (d_sign d, N, E) /\
              -1074 <= E /\ N mod 2 = 1 /\
              N * 2 ^ (E + 1074) = d_frac d.
Proof.
  intros (Hd & He & Hf).
  destruct (d_fields d Hd) as (Hs & _ & _ & _).
  destruct (sig_subnormal d He) as (Hsig & Hulp).
  destruct (d2R_shape d Hd ltac:(lia) ltac:(lia))
    as (eb & mant & t & Henc & Hlen & _ & _ & Htw & _ & _ & Ht & HN & Hodd & _).
  rewrite Hsig in HN. rewrite Hulp in Htw.
  exists (be_val mant), (twos_value eb).
  rewrite Henc, real_value_shape by assumption.
  rewrite Htw.
  split; [reflexivity|]. split; [lia|]. split; [exact Hodd|].
  replace (-1074 + t + 1074) with t by lia. exact HN.
Qed.

(* ---------------------------------------------------------------- *)
(* non-vacuity: concrete instances of the hypotheses; the two former defect
   witnesses (2^-1023, stored 81 fc 00 03 before the repair, and 1.0078125,
   stored 80 f9 00 81) with what is stored now *)

Definition subnormal_witness : Z := 2251799813685248.   (* 0x0008000000000000 = 2^-1023 *)
Definition leadzero_witness : Z := 4607217603172106240.   (* 0x3ff0200000000000 = 1.0078125 *)

Example normal_one : normal 4607182418800017408 /\ double2REAL 4607182418800017408 = [128; 0; 1].
Proof. unfold normal, in64. vm_compute. repeat split; try reflexivity; discriminate. Qed.

Example normal_max : normal 9218868437227405311 /\
  double2REAL 9218868437227405311 = [129; 3; 203; 31; 255; 255; 255; 255; 255; 255].
Proof. unfold normal, in64. vm_compute. repeat split; try reflexivity; discriminate. Qed.

Example nan_instance : in64 18442240474082181121 /\ is_nan 18442240474082181121 = true.
Proof. unfold in64. vm_compute. repeat split; try reflexivity; discriminate. Qed.

Example subnormal_instance : subnormal subnormal_witness /\ subnormal 1 /\
  double2REAL subnormal_witness = [129; 252; 1; 1] /\
  REAL2double [129; 252; 1; 1] = ROk subnormal_witness /\
  double2REAL 1 = [129; 251; 206; 1] /\
  double2REAL (two52 - 1) = [129; 251; 206; 15; 255; 255; 255; 255; 255; 255].
Proof. unfold subnormal, in64. vm_compute. repeat split; try reflexivity; discriminate. Qed.

Example leadzero_instance : normal leadzero_witness /\
  double2REAL leadzero_witness = [128; 249; 129] /\
  double2REAL 4643176031446892544 = [128; 0; 255].     (* 255.0 *)
Proof. unfold normal, in64. vm_compute. repeat split; try reflexivity; discriminate. Qed.
