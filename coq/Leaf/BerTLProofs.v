(* Leaf/BerTLProofs.v — BER tag and length octets: serialise/fetch are inverse,
   the serialised forms are the X.690 minimal ones, fetchers never consume more
   than they were given. *)
From Coq Require Import ZArith List Lia Bool ZifyBool.
From A1 Require Import Base.Bytes Base.Digits Leaf.BerTL.
Import ListNotations.
Local Open Scope Z_scope.

(* ---------------- the digit-group counting loop ---------------- *)

Lemma req_spec s v : 0 < s -> 0 <= v ->
  forall fuel k, 1 <= k ->
  (k = 1 \/ 2 ^ (s * (k - 1)) <= v) ->
  v < 2 ^ (s * (k + Z.of_nat fuel)) ->
  let r := k + Z.of_nat (req fuel s (s * k) v) in
  (r = 1 \/ 2 ^ (s * (r - 1)) <= v) /\ v < 2 ^ (s * r) /\ r <= k + Z.of_nat fuel.
Proof.
  intros Hs Hv. induction fuel as [|f IH]; intros k Hk Hlow Hhi; cbn [req]; cbn zeta.
  - replace (k + Z.of_nat 0) with k in * by lia. repeat split; auto; lia.
  - assert (HP : 0 < 2 ^ (s * k)) by (apply Z.pow_pos_nonneg; nia).
    destruct (v / 2 ^ (s * k) =? 0) eqn:E.
    + apply Z.eqb_eq in E. apply Z.div_small_iff in E; [|lia].
      replace (k + Z.of_nat 0) with k by lia. repeat split; auto; lia.
    + apply Z.eqb_neq in E.
      assert (Hge : 2 ^ (s * k) <= v).
      { destruct (Z_lt_le_dec v (2 ^ (s * k))); [|lia]. exfalso. apply E. apply Z.div_small. lia. }
      specialize (IH (k + 1) ltac:(lia)).
      replace (k + 1 - 1) with k in IH by lia.
      specialize (IH (or_intror Hge)).
      replace (k + 1 + Z.of_nat f) with (k + Z.of_nat (S f)) in IH by lia.
      specialize (IH Hhi). cbn zeta in IH.
      replace (s * (k + 1)) with (s * k + s) in IH by ring.
      replace (k + Z.of_nat (S (req f s (s * k + s) v)))
        with (k + 1 + Z.of_nat (req f s (s * k + s) v)) by lia.
      exact IH.
Qed.

(* ---------------- tags ---------------- *)

Lemma mark_cont_length ds : length (mark_cont ds) = length ds.
Proof.
  induction ds as [|d [|d' tl] IH]; cbn [mark_cont length] in *; auto.
Qed.

Lemma mark_cont_cons2 d d' tl : mark_cont (d :: d' :: tl) = (128 + d) :: mark_cont (d' :: tl).
Proof. reflexivity. Qed.

Lemma pow128_pos {A} (l : list A) : 0 < 128 ^ zlen l.
Proof. apply Z.pow_pos_nonneg; [lia|apply zlen_nonneg]. Qed.

Lemma fetch_tag_loop_digits ds : forall rest acc sk,
  ds <> [] -> digits_ok 128 ds -> 0 <= acc ->
  acc * 128 ^ zlen ds + dval 128 ds < two30 ->
  fetch_tag_loop (mark_cont ds ++ rest) acc sk
  = FOk (acc * 128 ^ zlen ds + dval 128 ds) (sk + length ds - 1).
Proof.
  assert (H128 : 1 < 128) by lia.
  induction ds as [|d tl IH]; intros rest acc sk Hne Hok Hacc Hb; [congruence|].
  inversion Hok as [|? ? Hd Htl]; subst.
  destruct tl as [|d' tl'].
  - cbn [mark_cont app fetch_tag_loop dval]. unfold zlen; cbn [length Z.of_nat].
    destruct (128 <=? d) eqn:E; [lia|].
    rewrite Z.pow_0_r, Z.pow_1_r. f_equal; lia.
  - rewrite mark_cont_cons2. cbn [app fetch_tag_loop].
    destruct (128 <=? 128 + d) eqn:E; [|lia].
    replace (128 + d - 128) with d by lia.
    pose proof (dval_bound 128 H128 (d' :: tl') Htl) as Hdv.
    pose proof (pow128_pos tl') as HP.
    cbn [dval] in Hb. rewrite (powB_zlen_cons 128 d (d' :: tl')) in Hb.
    rewrite (powB_zlen_cons 128 d' tl') in *.
    set (P := 128 ^ zlen tl') in *.
    assert (HR : 0 <= d' * P + dval 128 tl') by (cbn [dval] in Hdv; fold P in Hdv; lia).
    assert (HX : 0 <= acc * 128 + d) by lia.
    assert (HXP : (acc * 128 + d) * 128 <= (acc * 128 + d) * 128 * P) by nia.
    assert (Hsmall : acc * 128 + d < two23) by (unfold two23, two30 in *; lia).
    destruct (two23 <=? acc * 128 + d) eqn:E2; [lia|].
    rewrite IH; [| congruence | exact Htl | lia | ].
    + cbn [dval]. rewrite (powB_zlen_cons 128 d (d' :: tl')).
      rewrite (powB_zlen_cons 128 d' tl'). fold P.
      f_equal; [ring | cbn [length]; lia].
    + try rewrite (powB_zlen_cons 128 d' tl'). try fold P.
      cbn [dval] in *. try fold P in Hb. try fold P. nia.
Qed.

Lemma tag_required_size_spec tval : 31 <= tval < two30 ->
  let r := Z.of_nat (tag_required_size tval) in
  128 ^ (r - 1) <= tval < 128 ^ r /\ 1 <= r <= 5.
Proof.
  intros Ht. unfold tag_required_size.
  pose proof (req_spec 7 tval ltac:(lia) ltac:(lia) 4 1 ltac:(lia) (or_introl eq_refl)) as H.
  change (7 * (1 + Z.of_nat 4)) with 35 in H. change (7 * 1) with 7 in H.
  assert (Hhi : tval < 2 ^ 35) by (unfold two30 in Ht; change (2 ^ 35) with 34359738368; lia).
  specialize (H Hhi). cbn zeta in H.
  set (q := req 4 7 7 tval) in *.
  replace (Z.of_nat (S q)) with (1 + Z.of_nat q) by lia.
  destruct H as (H1 & H2 & H3).
  assert (Hpow : forall x, 0 <= x -> 2 ^ (7 * x) = 128 ^ x).
  { intros x Hx. rewrite Z.pow_mul_r by lia. reflexivity. }
  rewrite Hpow in H2 by lia.
  split; [|lia]. split; [|exact H2].
  destruct H1 as [H1|H1].
  - rewrite H1. change (128 ^ (1 - 1)) with 1. lia.
  - rewrite Hpow in H1 by lia. exact H1.
Qed.

Definition tag_ok (tag : Z) : Prop := 0 <= tag /\ tag / 4 < two30.

Theorem tag_roundtrip tag rest : tag_ok tag ->
  fetch_tag (tag_serialize tag ++ rest) = FOk tag (length (tag_serialize tag)).
Proof.
  intros [H0 H1]. unfold tag_serialize.
  pose proof (Z.div_mod tag 4 ltac:(lia)) as Hdm.
  pose proof (Z.mod_pos_bound tag 4 ltac:(lia)) as Hm.
  assert (Hq : 0 <= tag / 4) by (apply Z.div_pos; lia).
  set (c := tag mod 4) in *. set (t := tag / 4) in *.
  destruct (t <=? 30) eqn:E.
  - cbn [app fetch_tag length].
    assert (Hc : (c * 64 + t) / 64 = c).
    { rewrite Z.div_add_l by lia. rewrite Z.div_small by lia. lia. }
    assert (Hv : (c * 64 + t) mod 32 = t).
    { replace (c * 64 + t) with (t + (c * 2) * 32) by ring.
      rewrite Z.mod_add by lia. apply Z.mod_small. lia. }
    rewrite Hc, Hv. destruct (t =? 31) eqn:E2; [lia|]. f_equal. lia.
  - cbn [app fetch_tag].
    assert (Hc : (c * 64 + 31) / 64 = c).
    { rewrite Z.div_add_l by lia. rewrite Z.div_small by lia. lia. }
    assert (Hv : (c * 64 + 31) mod 32 = 31).
    { replace (c * 64 + 31) with (31 + (c * 2) * 32) by ring.
      rewrite Z.mod_add by lia. apply Z.mod_small. lia. }
    rewrite Hc, Hv. cbn [Z.eqb Pos.eqb].
    destruct (tag_required_size_spec t ltac:(lia)) as ((Hlo & Hhi) & Hr).
    set (r := tag_required_size t) in *.
    assert (Hdv : dval 128 (digits 128 r t) = t).
    { rewrite dval_digits by lia. apply Z.mod_small. lia. }
    assert (Hne : digits 128 r t <> []).
    { intro Hnil. apply (f_equal (@length Z)) in Hnil. rewrite digits_length in Hnil. cbn in Hnil. lia. }
    rewrite fetch_tag_loop_digits; auto.
    + rewrite Z.mul_0_l, Z.add_0_l, Hdv. cbn [length]. rewrite mark_cont_length.
      f_equal; lia.
    + apply digits_ok_digits. lia.
    + lia.
    + rewrite Z.mul_0_l, Z.add_0_l, Hdv. exact H1.
Qed.

(* X.690 8.1.2: low tag numbers in one octet; high tag numbers as 0x1f followed
   by the minimal base-128 digits (leading digit non-zero), bit 8 set on all but
   the last *)
Theorem tag_serialize_x690 tag : tag_ok tag ->
  let c := tag mod 4 in let t := tag / 4 in
  (t <= 30 -> tag_serialize tag = [c * 64 + t]) /\
  (31 <= t -> exists ds,
      tag_serialize tag = (c * 64 + 31) :: mark_cont ds /\
      digits_ok 128 ds /\ dval 128 ds = t /\
      (exists d tl, ds = d :: tl /\ (0 < d \/ tl = []))).
Proof.
  intros [H0 H1] c t. unfold tag_serialize. fold c t. split; intros Ht.
  - destruct (t <=? 30) eqn:E; [reflexivity|lia].
  - destruct (t <=? 30) eqn:E; [lia|].
    destruct (tag_required_size_spec t ltac:(subst t; lia)) as ((Hlo & Hhi) & Hr).
    set (r := tag_required_size t) in *.
    exists (digits 128 r t). split; [reflexivity|].
    split; [apply digits_ok_digits; lia|].
    split; [rewrite dval_digits by lia; apply Z.mod_small; lia|].
    destruct r as [|k] eqn:Er; [lia|]. cbn [digits].
    eexists; eexists; split; [reflexivity|]. left.
    replace (Z.of_nat (S k) - 1) with (Z.of_nat k) in Hlo by lia.
    assert (HP : 0 < 128 ^ Z.of_nat k) by (apply Z.pow_pos_nonneg; lia).
    rewrite Z.mod_small.
    + apply Z.div_str_pos. lia.
    + split; [apply Z.div_pos; lia|]. apply Z.div_lt_upper_bound; [lia|].
      rewrite Nat2Z.inj_succ, Z.pow_succ_r in Hhi by lia. lia.
Qed.

Lemma fetch_tag_loop_consumed buf : forall val sk v n,
  fetch_tag_loop buf val sk = FOk v n -> (sk <= n < sk + length buf)%nat.
Proof.
  induction buf as [|b tl IH]; intros val sk v n H; cbn [fetch_tag_loop] in H; [discriminate|].
  destruct (128 <=? b).
  - destruct (two23 <=? val * 128 + (b - 128)); [discriminate|].
    apply IH in H. cbn [length]. lia.
  - injection H as _ Hn. cbn [length]. lia.
Qed.

(* C04 at the leaf: a successful fetch consumed between 1 and size octets *)
Theorem fetch_tag_consumed buf v n :
  fetch_tag buf = FOk v n -> (1 <= n <= length buf)%nat.
Proof.
  destruct buf as [|b tl]; cbn [fetch_tag]; [discriminate|].
  destruct (b mod 32 =? 31).
  - destruct (fetch_tag_loop tl 0 2) eqn:E; try discriminate.
    intros H. injection H as _ Hn. subst. apply fetch_tag_loop_consumed in E. cbn [length]. lia.
  - intros H. injection H as _ Hn. subst. cbn [length]. lia.
Qed.

(* ---------------- lengths ---------------- *)

Lemma fetch_len_loop_be : forall n v acc sk rest,
  0 <= v -> 0 <= acc -> acc * 256 ^ Z.of_nat n + v mod 256 ^ Z.of_nat n <= rssize_max ->
  fetch_len_loop n (be_bytes n v ++ rest) acc sk
  = FOk (acc * 256 ^ Z.of_nat n + v mod 256 ^ Z.of_nat n) (sk + n).
Proof.
  induction n as [|n IH]; intros v acc sk rest Hv Hacc Hb.
  - cbn [fetch_len_loop be_bytes app]. change (256 ^ Z.of_nat 0) with 1 in *.
    rewrite Z.mod_1_r in *. replace (acc * 1 + 0) with acc in * by lia.
    destruct ((acc <? 0) || (rssize_max <? acc)) eqn:E; [lia|]. f_equal. lia.
  - cbn [fetch_len_loop be_bytes app].
    rewrite pow256_S in *. pose proof (pow256_pos n) as HP.
    set (P := 256 ^ Z.of_nat n) in *.
    pose proof (Z.mod_pos_bound v (256 * P) ltac:(lia)) as Hm.
    assert (Hsplit : v mod (256 * P) = ((v / P) mod 256) * P + v mod P).
    { rewrite (Z.mul_comm 256 P). rewrite Z.rem_mul_r by lia. lia. }
    pose proof (Z.mod_pos_bound (v / P) 256 ltac:(lia)).
    pose proof (Z.mod_pos_bound v P HP).
    assert (acc < two55) by (unfold two55, rssize_max in *; nia).
    destruct (acc <? two55) eqn:E; [|lia].
    rewrite IH.
    + f_equal; [|lia]. rewrite Hsplit. ring.
    + exact Hv.
    + lia.
    + rewrite Hsplit in Hb. lia.
Qed.

Lemma len_required_size_spec len : 128 <= len <= rssize_max ->
  let r := Z.of_nat (len_required_size len) in
  256 ^ (r - 1) <= len < 256 ^ r /\ 1 <= r <= 8.
Proof.
  intros Hl. unfold len_required_size.
  pose proof (req_spec 8 len ltac:(lia) ltac:(lia) 7 1 ltac:(lia) (or_introl eq_refl)) as H.
  change (8 * (1 + Z.of_nat 7)) with 64 in H. change (8 * 1) with 8 in H.
  assert (Hhi : len < 2 ^ 64) by (unfold rssize_max in Hl; change (2 ^ 64) with 18446744073709551616; lia).
  specialize (H Hhi). cbn zeta in H.
  set (q := req 7 8 8 len) in *.
  replace (Z.of_nat (S q)) with (1 + Z.of_nat q) by lia.
  destruct H as (H1 & H2 & H3).
  assert (Hpow : forall x, 0 <= x -> 2 ^ (8 * x) = 256 ^ x).
  { intros x Hx. rewrite Z.pow_mul_r by lia. reflexivity. }
  rewrite Hpow in H2 by lia.
  split; [|lia]. split; [|exact H2].
  destruct H1 as [H1|H1].
  - rewrite H1. change (256 ^ (1 - 1)) with 1. lia.
  - rewrite Hpow in H1 by lia. exact H1.
Qed.

Theorem length_roundtrip len rest constructed : 0 <= len <= rssize_max ->
  fetch_length constructed (len_serialize len ++ rest) = FOk len (length (len_serialize len)).
Proof.
  intros [H0 H1]. unfold len_serialize.
  destruct (len <=? 127) eqn:E.
  - cbn [app fetch_length length]. destruct (len <? 128) eqn:E2; [reflexivity|lia].
  - destruct (len_required_size_spec len ltac:(lia)) as ((Hlo & Hhi) & Hr).
    set (r := len_required_size len) in *.
    cbn [app fetch_length].
    destruct (128 + Z.of_nat r <? 128) eqn:E3; [lia|].
    destruct (constructed && (128 + Z.of_nat r =? 128)) eqn:E4; [lia|].
    destruct (128 + Z.of_nat r =? 255) eqn:E5; [lia|].
    replace (128 + Z.of_nat r - 128) with (Z.of_nat r) by lia. rewrite Nat2Z.id.
    rewrite fetch_len_loop_be; try lia.
    + rewrite Z.mod_small by lia. cbn [length]. rewrite be_bytes_length. f_equal; lia.
    + rewrite Z.mod_small by lia. lia.
Qed.

(* X.690 10.1: DER lengths are minimal: short form up to 127, else the fewest octets *)
Theorem len_serialize_minimal len : 0 <= len <= rssize_max ->
  (len <= 127 -> len_serialize len = [len]) /\
  (128 <= len -> exists r bs,
      len_serialize len = (128 + Z.of_nat r) :: bs /\ length bs = r /\ bytes_ok bs /\
      be_val bs = len /\ (1 <= r <= 8)%nat /\ (exists b tl, bs = b :: tl /\ 0 < b)).
Proof.
  intros [H0 H1]. unfold len_serialize. split; intros Hl.
  - destruct (len <=? 127) eqn:E; [reflexivity|lia].
  - destruct (len <=? 127) eqn:E; [lia|].
    destruct (len_required_size_spec len ltac:(lia)) as ((Hlo & Hhi) & Hr).
    set (r := len_required_size len) in *.
    exists r, (be_bytes r len). split; [reflexivity|].
    split; [apply be_bytes_length|]. split; [apply be_bytes_ok|].
    split; [rewrite be_val_be_bytes; apply Z.mod_small; lia|].
    split; [lia|].
    destruct r as [|k] eqn:Er; [lia|]. cbn [be_bytes].
    eexists; eexists; split; [reflexivity|].
    replace (Z.of_nat (S k) - 1) with (Z.of_nat k) in Hlo by lia.
    pose proof (pow256_pos k) as HP.
    rewrite Z.mod_small.
    + apply Z.div_str_pos. lia.
    + split; [apply Z.div_pos; lia|]. apply Z.div_lt_upper_bound; [lia|].
      rewrite pow256_S in Hhi. lia.
Qed.

Lemma fetch_len_loop_consumed oct : forall buf len sk v n,
  fetch_len_loop oct buf len sk = FOk v n -> (n = sk + oct /\ oct <= length buf)%nat.
Proof.
  induction oct as [|o IH]; intros buf len sk v n H; cbn [fetch_len_loop] in H.
  - destruct ((len <? 0) || (rssize_max <? len)); [discriminate|]. injection H as _ Hn. lia.
  - destruct buf as [|b tl]; [discriminate|].
    destruct (len <? two55); [|discriminate].
    apply IH in H. cbn [length]. lia.
Qed.

Theorem fetch_length_consumed constructed buf v n : bytes_ok buf ->
  fetch_length constructed buf = FOk v n -> (1 <= n <= length buf)%nat /\ -1 <= v <= rssize_max.
Proof.
  intros Hok.
  destruct buf as [|b tl]; cbn [fetch_length]; [discriminate|].
  inversion Hok as [|? ? Hb Htl]; subst. unfold byte_ok in Hb.
  destruct (b <? 128) eqn:E1.
  - intros H. injection H as Hv Hn. subst. cbn [length]. unfold rssize_max. lia.
  - destruct (constructed && (b =? 128)).
    + intros H. injection H as Hv Hn. subst. cbn [length]. unfold rssize_max. lia.
    + destruct (b =? 255); [discriminate|]. intros H.
      pose proof H as H'. apply fetch_len_loop_consumed in H. cbn [length].
      split; [lia|].
      clear H. revert H'. generalize (Z.to_nat (b - 128)) 0 1%nat tl.
      induction n0 as [|o IHo]; intros len sk buf H'; cbn [fetch_len_loop] in H'.
      * destruct ((len <? 0) || (rssize_max <? len)) eqn:Er; [discriminate|].
        injection H' as Hv _. lia.
      * destruct buf as [|b0 tl0]; [discriminate|].
        destruct (len <? two55); [|discriminate]. eapply IHo; eauto.
Qed.
