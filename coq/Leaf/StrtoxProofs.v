(* Leaf/StrtoxProofs.v — asn_strto{imax,umax,l,ul}_lim accept exactly the
   in-range numerals (C16, text part). *)
From Coq Require Import ZArith List Lia Bool ZifyBool.
From A1 Require Import Base.Bytes Leaf.IntegerConv.
Import ListNotations.
Local Open Scope Z_scope.

Definition digits_ok (cs : list Z) : Prop := Forall (fun c => is_digit c = true) cs.

(* value of a numeral (most significant digit first) *)
Fixpoint num (cs : list Z) : Z :=
  match cs with
  | [] => 0
  | c :: tl => (c - 48) * 10 ^ zlen tl + num tl
  end.

(* what may follow the digits: nothing, or a non-digit character *)
Definition stops (rest : list Z) : Prop :=
  match rest with [] => True | c :: _ => is_digit c = false end.

Lemma pow10_pos {A} (l : list A) : 0 < 10 ^ zlen l.
Proof. apply Z.pow_pos_nonneg; [lia|apply zlen_nonneg]. Qed.

Lemma pow10_cons {A} (x : A) l : 10 ^ zlen (x :: l) = 10 * 10 ^ zlen l.
Proof. rewrite zlen_cons, Z.pow_add_r by (pose proof (zlen_nonneg l); lia). change (10 ^ 1) with 10. ring. Qed.

Lemma num_bound cs : digits_ok cs -> 0 <= num cs < 10 ^ zlen cs.
Proof.
  induction 1 as [|c tl Hc Htl IH]; cbn [num].
  - unfold zlen; simpl; lia.
  - rewrite pow10_cons. pose proof (pow10_pos tl). unfold is_digit in Hc. nia.
Qed.

Section Loop.
  Variables upper ldm : Z.
  Variable neg : bool.
  Hypothesis Hupper : 0 < upper.
  Hypothesis Hldm : 0 <= ldm <= 9.
  Let limit := upper * 10 + ldm.
  Let fin (v : Z) := if neg then - v else v.

  Lemma strtox_loop_spec cs : forall rest value pos,
    digits_ok cs -> stops rest -> 0 <= value <= limit ->
    let total := value * 10 ^ zlen cs + num cs in
    if total <=? limit
    then strtox_loop upper ldm neg (cs ++ rest) value pos
         = (match rest with [] => SOk | _ => SExtra end, pos + zlen cs, fin total)
    else exists p, strtox_loop upper ldm neg (cs ++ rest) value pos = (SRange, p, 0).
  Proof.
    induction cs as [|c tl IH]; intros rest value pos Hd Hst Hv; cbn zeta.
    - cbn [num app]. unfold zlen; cbn [length Z.of_nat]. rewrite Z.pow_0_r.
      replace (value * 1 + 0) with value by ring.
      destruct (value <=? limit) eqn:E; [|lia].
      destruct rest as [|c rest']; cbn [strtox_loop].
      + f_equal. f_equal. lia.
      + cbn [stops] in Hst. rewrite Hst. f_equal. f_equal. lia.
    - inversion Hd as [|? ? Hc Htl]; subst.
      pose proof (num_bound tl Htl) as Hn. pose proof (pow10_pos tl) as HP.
      cbn [num app strtox_loop]. rewrite Hc. rewrite pow10_cons.
      set (d := c - 48) in *. assert (Hdr : 0 <= d <= 9) by (unfold is_digit in Hc; lia).
      set (P := 10 ^ zlen tl) in *. set (N := num tl) in *.
      destruct (value <? upper) eqn:E1.
      + (* keep accumulating *)
        specialize (IH rest (value * 10 + d) (pos + 1) Htl Hst ltac:(subst limit; lia)).
        cbn zeta in IH. fold P N in IH.
        replace (value * (10 * P) + (d * P + N)) with ((value * 10 + d) * P + N) by ring.
        destruct ((value * 10 + d) * P + N <=? limit) eqn:E.
        * rewrite IH. rewrite zlen_cons. f_equal. f_equal. lia.
        * exact IH.
      + destruct (value =? upper) eqn:E2.
        * assert (value = upper) by lia. subst value.
          destruct (d <=? ldm) eqn:E3.
          -- destruct tl as [|c' tl'].
             ++ (* last digit *)
                cbn [app]. unfold zlen in P. cbn in P. subst P. cbn [num] in N. subst N.
                destruct (upper * (10 * 1) + (d * 1 + 0) <=? limit) eqn:E; [|subst limit; lia].
                replace (pos + zlen [c]) with (pos + 1) by (unfold zlen; cbn; lia).
                replace (fin (upper * (10 * 1) + (d * 1 + 0)))
                  with (if neg then - upper * 10 - d else upper * 10 + d)
                  by (subst fin; cbn beta; destruct neg; ring).
                destruct rest as [|c' rest']; [reflexivity|].
                cbn [stops] in Hst. rewrite Hst. reflexivity.
             ++ (* more digits follow: out of range *)
                cbn [app]. inversion Htl as [|? ? Hc' Htl']; subst. rewrite Hc'.
                assert (10 <= P) by (subst P; rewrite pow10_cons; pose proof (pow10_pos tl'); lia).
                destruct (upper * (10 * P) + (d * P + N) <=? limit) eqn:E; [subst limit; nia|].
                eexists; reflexivity.
          -- destruct (upper * (10 * P) + (d * P + N) <=? limit) eqn:E; [subst limit; nia|].
             eexists; reflexivity.
        * destruct (value * (10 * P) + (d * P + N) <=? limit) eqn:E; [subst limit; nia|].
          eexists; reflexivity.
  Qed.
End Loop.

(* ---- instantiation ---- *)

Definition imax_limit (neg : bool) : Z := if neg then two63 else two63 - 1.

Lemma strtoimax_loop_spec (neg : bool) (cs rest : list Z) (pos : Z) :
  digits_ok cs -> stops rest ->
  let ldm := if neg then 8 else 7 in
  if num cs <=? imax_limit neg
  then strtoimax_loop neg ldm (cs ++ rest) 0 pos
       = (match rest with [] => SOk | _ => SExtra end, pos + zlen cs,
          if neg then - num cs else num cs)
  else exists p, strtoimax_loop neg ldm (cs ++ rest) 0 pos = (SRange, p, 0).
Proof.
  intros Hd Hst ldm. unfold strtoimax_loop.
  change ((two63 - 1) / 10) with 922337203685477580.
  assert (Hu : 0 < 922337203685477580) by lia.
  assert (Hl : 0 <= ldm <= 9) by (subst ldm; destruct neg; lia).
  assert (Hv0 : 0 <= 0 <= 922337203685477580 * 10 + ldm) by (subst ldm; destruct neg; lia).
  pose proof (strtox_loop_spec _ _ neg Hu Hl cs rest 0 pos Hd Hst Hv0) as H.
  cbn zeta in H. rewrite Z.mul_0_l, Z.add_0_l in H.
  replace (922337203685477580 * 10 + ldm) with (imax_limit neg) in H
    by (subst ldm; unfold imax_limit, two63; destruct neg; reflexivity).
  exact H.
Qed.

Definition sign_prefix (s : option bool) : list Z :=
  match s with None => [] | Some true => [45] | Some false => [43] end.
Definition is_neg (s : option bool) : bool :=
  match s with Some true => true | _ => false end.

(* digits only start with a digit, so the sign dispatch falls through *)
Lemma first_digit_not_sign c : is_digit c = true -> c <> 45 /\ c <> 43.
Proof. unfold is_digit. lia. Qed.

Definition in_imax (v : Z) : bool := (- two63 <=? v) && (v <? two63).

Theorem strtoimax_exact s cs rest :
  cs <> [] -> digits_ok cs -> stops rest ->
  let v := if is_neg s then - num cs else num cs in
  if in_imax v
  then strtoimax_lim (sign_prefix s ++ cs ++ rest)
       = (match rest with [] => SOk | _ => SExtra end, zlen (sign_prefix s ++ cs), v)
  else exists p, strtoimax_lim (sign_prefix s ++ cs ++ rest) = (SRange, p, 0).
Proof.
  intros Hne Hd Hst v.
  pose proof (num_bound cs Hd) as Hn.
  destruct cs as [|c tl]; [congruence|].
  inversion Hd as [|? ? Hc Htl]; subst.
  destruct (first_digit_not_sign c Hc) as [H45 H43].
  change ((two63 - 1) mod 10) with 7 in *.
  assert (Hlim : forall neg, (num (c :: tl) <=? imax_limit neg)
                 = in_imax (if neg then - num (c :: tl) else num (c :: tl))).
  { intros neg. unfold in_imax, imax_limit, two63 in *. destruct neg; lia. }
  destruct s as [[|]|]; cbn [sign_prefix is_neg app] in *; subst v.
  - (* "-" *)
    unfold strtoimax_lim. change ((two63 - 1) mod 10 + 1) with 8.
    cbn [Z.eqb Pos.eqb].
    pose proof (strtoimax_loop_spec true (c :: tl) rest 1 Hd Hst) as H. cbn zeta in H.
    rewrite Hlim in H. cbn [app] in H.
    destruct (in_imax (- num (c :: tl))).
    + rewrite H. rewrite !zlen_cons. f_equal. f_equal. lia.
    + exact H.
  - (* "+" *)
    unfold strtoimax_lim. change ((two63 - 1) mod 10) with 7.
    cbn [Z.eqb Pos.eqb].
    pose proof (strtoimax_loop_spec false (c :: tl) rest 1 Hd Hst) as H. cbn zeta in H.
    rewrite Hlim in H. cbn [app] in H.
    destruct (in_imax (num (c :: tl))).
    + rewrite H. rewrite !zlen_cons. f_equal. f_equal. lia.
    + exact H.
  - unfold strtoimax_lim. change ((two63 - 1) mod 10) with 7.
    destruct (c =? 45) eqn:E45; [lia|]. destruct (c =? 43) eqn:E43; [lia|].
    pose proof (strtoimax_loop_spec false (c :: tl) rest 0 Hd Hst) as H. cbn zeta in H.
    rewrite Hlim in H. cbn [app] in H.
    destruct (in_imax (num (c :: tl))).
    + rewrite H. f_equal.
    + exact H.
Qed.

(* asn_strtol_lim: same statement (long = intmax_t on LP64) *)
Theorem strtol_exact s cs rest :
  cs <> [] -> digits_ok cs -> stops rest ->
  let v := if is_neg s then - num cs else num cs in
  if in_imax v
  then strtol_lim (sign_prefix s ++ cs ++ rest)
       = (match rest with [] => SOk | _ => SExtra end, zlen (sign_prefix s ++ cs), v)
  else exists p, strtol_lim (sign_prefix s ++ cs ++ rest) = (SRange, p, 0).
Proof.
  intros Hne Hd Hst v. pose proof (strtoimax_exact s cs rest Hne Hd Hst) as H.
  cbn zeta in H. fold v in H. unfold strtol_lim.
  destruct (in_imax v) eqn:E.
  - rewrite H. unfold in_imax in E.
    destruct rest;
      (destruct ((- two63 <=? v) && (v <=? two63 - 1)) eqn:E2; [reflexivity|lia]).
  - destruct H as [p Hp]. rewrite Hp. eexists; reflexivity.
Qed.

(* unsigned: optional '+', a leading '-' is always invalid *)
Theorem strtoumax_exact (plus : bool) cs rest :
  cs <> [] -> digits_ok cs -> stops rest ->
  let pre := if plus then [43] else [] in
  if num cs <? two64
  then strtoumax_lim (pre ++ cs ++ rest)
       = (match rest with [] => SOk | _ => SExtra end, zlen (pre ++ cs), num cs)
  else exists p, strtoumax_lim (pre ++ cs ++ rest) = (SRange, p, 0).
Proof.
  intros Hne Hd Hst pre.
  destruct cs as [|c tl]; [congruence|].
  inversion Hd as [|? ? Hc Htl]; subst.
  destruct (first_digit_not_sign c Hc) as [H45 H43].
  assert (Hspec : forall pos,
    if num (c :: tl) <? two64
    then strtoumax_loop ((c :: tl) ++ rest) 0 pos
         = (match rest with [] => SOk | _ => SExtra end, pos + zlen (c :: tl), num (c :: tl))
    else exists p, strtoumax_loop ((c :: tl) ++ rest) 0 pos = (SRange, p, 0)).
  { intros pos. unfold strtoumax_loop.
    change ((two64 - 1) / 10) with 1844674407370955161.
    change ((two64 - 1) mod 10) with 5.
    assert (Hu : 0 < 1844674407370955161) by lia.
    assert (Hl : 0 <= 5 <= 9) by lia.
    assert (Hv0 : 0 <= 0 <= 1844674407370955161 * 10 + 5) by lia.
    pose proof (strtox_loop_spec _ _ false Hu Hl (c :: tl) rest 0 pos Hd Hst Hv0) as H.
    cbn zeta in H. rewrite Z.mul_0_l, Z.add_0_l in H.
    replace (num (c :: tl) <? two64) with (num (c :: tl) <=? 1844674407370955161 * 10 + 5)
      by (unfold two64; lia).
    exact H. }
  destruct plus; subst pre; cbn [app].
  - unfold strtoumax_lim. cbn [Z.eqb Pos.eqb].
    specialize (Hspec 1). cbn [app] in Hspec.
    destruct (num (c :: tl) <? two64).
    + rewrite Hspec. rewrite !zlen_cons. f_equal. f_equal. lia.
    + exact Hspec.
  - unfold strtoumax_lim.
    destruct (c =? 45) eqn:E45; [lia|]. destruct (c =? 43) eqn:E43; [lia|].
    specialize (Hspec 0). cbn [app] in Hspec.
    destruct (num (c :: tl) <? two64).
    + rewrite Hspec. f_equal.
    + exact Hspec.
Qed.

Theorem strtoumax_minus_invalid cs : strtoumax_lim (45 :: cs) = (SInval, 0, 0).
Proof. reflexivity. Qed.

Theorem strtoul_exact (plus : bool) cs rest :
  cs <> [] -> digits_ok cs -> stops rest ->
  let pre := if plus then [43] else [] in
  if num cs <? two64
  then strtoul_lim (pre ++ cs ++ rest)
       = (match rest with [] => SOk | _ => SExtra end, zlen (pre ++ cs), num cs)
  else exists p, strtoul_lim (pre ++ cs ++ rest) = (SRange, p, 0).
Proof.
  intros Hne Hd Hst pre. pose proof (strtoumax_exact plus cs rest Hne Hd Hst) as H.
  cbn zeta in H. fold pre in H. unfold strtoul_lim.
  destruct (num cs <? two64) eqn:E.
  - rewrite H. destruct rest; (destruct (num cs <=? two64 - 1) eqn:E2; [reflexivity|lia]).
  - destruct H as [p Hp]. rewrite Hp. eexists; reflexivity.
Qed.

(* non-vacuity: the hypotheses are met by a boundary numeral *)
Example strtoimax_example :
  strtoimax_lim (map Z.of_nat [45;57;50;50;51;51;55;50;48;51;54;56;53;52;55;55;53;56;48;56]%nat)
  = (SOk, 20, - two63).
Proof. vm_compute. reflexivity. Qed.
