(* Leaf/GTimeCanonProofs.v — C06, time types: the DER canonicaliser of GeneralizedTime
   depends only on (instant, fraction value), has the X.690 11.7 shape and is idempotent;
   the "already canonical" fast path of seeded/C06-7 and UTCTime's verbatim DER do not. *)
From Coq Require Import ZArith List Lia Bool ZifyBool.
From A1 Require Import Base.Bytes Leaf.IntegerConv Leaf.StrtoxProofs Leaf.Decimal Leaf.DecimalProofs
  Leaf.CivilTime Leaf.CivilTimeProofs Leaf.GTime Leaf.GTimeProofs Leaf.GTimeCanon.
Import ListNotations.
Local Open Scope Z_scope.

(* ------------------------------------------------------------------ *)
(* the digit loop of asn_time2GT_frac writes [tdigs] *)

Lemma frac_loop_S k fv fbase nz racc :
  frac_loop (S k) fv fbase nz racc =
  if 9 <? fv / fbase then None
  else if (0 <? fbase / 10) && (0 <? fv mod fbase) && (nz + 1 <? 9)
       then frac_loop k (fv mod fbase) (fbase / 10) (nz + 1) ((fv / fbase + 48) :: racc)
       else Some ((fv / fbase + 48) :: racc).
Proof. reflexivity. Qed.

Lemma tdigs_O fv : tdigs 0 fv = [fv + 48].
Proof. unfold tdigs. change (10 ^ Z.of_nat 0) with 1. rewrite Z.div_1_r. reflexivity. Qed.

Lemma tdigs_S j fv :
  tdigs (S j) fv = (fv / 10 ^ Z.of_nat (S j) + 48)
                   :: (if 0 <? fv mod 10 ^ Z.of_nat (S j) then tdigs j (fv mod 10 ^ Z.of_nat (S j)) else []).
Proof. reflexivity. Qed.

Lemma frac_loop_tdigs j : forall fuel fv nz racc, (j < fuel)%nat ->
  0 <= fv < 10 ^ Z.of_nat (S j) -> 0 <= nz -> nz + Z.of_nat j + 1 <= 9 ->
  frac_loop fuel fv (10 ^ Z.of_nat j) nz racc = Some (rev (tdigs j fv) ++ racc).
Proof.
  induction j as [|j IH]; intros fuel fv nz racc Hf Hfv Hnz Hb; (destruct fuel as [|fuel]; [lia|]);
    rewrite frac_loop_S.
  - change (10 ^ Z.of_nat 0) with 1 in *. change (10 ^ Z.of_nat 1) with 10 in Hfv.
    rewrite Z.div_1_r. destruct (9 <? fv) eqn:E; [lia|].
    change (1 / 10) with 0. cbn [Z.ltb Z.compare andb]. rewrite tdigs_O. reflexivity.
  - rewrite tdigs_S. rewrite (pow10_S (S j)) in Hfv. rewrite (pow10_S j) in *.
    pose proof (pow10_nat_pos j) as HP. set (P := 10 ^ Z.of_nat j) in *.
    assert (Hd : 0 <= fv / (10 * P) <= 9).
    { split; [apply Z.div_pos; lia|]. apply Z.lt_succ_r. apply Z.div_lt_upper_bound; lia. }
    destruct (9 <? fv / (10 * P)) eqn:E; [lia|].
    assert (Hq : 10 * P / 10 = P) by (rewrite Z.mul_comm; apply Z.div_mul; lia).
    rewrite Hq.
    pose proof (Z.mod_pos_bound fv (10 * P) ltac:(lia)) as Hr.
    destruct (0 <? fv mod (10 * P)) eqn:E1.
    + destruct ((0 <? P) && true && (nz + 1 <? 9)) eqn:E2; [|lia].
      rewrite IH; [|lia|lia|lia|lia].
      cbn [rev]. rewrite <- app_assoc. reflexivity.
    + destruct ((0 <? P) && false && (nz + 1 <? 9)) eqn:E2; [lia|]. reflexivity.
Qed.

Lemma tdigs_zero j : tdigs j 0 = [48].
Proof.
  destruct j; [rewrite tdigs_O; reflexivity|].
  rewrite tdigs_S, Zdiv_0_l, Zmod_0_l. reflexivity.
Qed.

Lemma strip_zeros_nz c tl : c <> 48 -> strip_zeros (c :: tl) = c :: tl.
Proof.
  intros H. destruct c as [|p|p]; try reflexivity.
  repeat (destruct p as [p|p|]; try reflexivity). exfalso. apply H. reflexivity.
Qed.

(* the last digit written is not '0' *)
Lemma tdigs_rev_head j : forall fv, 0 < fv < 10 ^ Z.of_nat (S j) ->
  exists c l, rev (tdigs j fv) = c :: l /\ c <> 48.
Proof.
  induction j as [|j IH]; intros fv Hfv.
  - rewrite tdigs_O. exists (fv + 48), []. split; [reflexivity|lia].
  - rewrite tdigs_S. rewrite (pow10_S (S j)) in Hfv.
    pose proof (pow10_nat_pos (S j)) as HP. set (P := 10 ^ Z.of_nat (S j)) in *.
    pose proof (Z.mod_pos_bound fv P HP) as Hr. pose proof (Z.div_mod fv P ltac:(lia)) as Hdm.
    destruct (0 <? fv mod P) eqn:E.
    + destruct (IH (fv mod P) ltac:(lia)) as (c & l & Hrev & Hc).
      exists c, (l ++ [fv / P + 48]). cbn [rev]. rewrite Hrev. split; [reflexivity|exact Hc].
    + exists (fv / P + 48), []. split; [reflexivity|].
      assert (fv mod P = 0) by lia. assert (0 < fv / P) by nia. lia.
Qed.

(* they are digits, at most j+1 of them, and denote fv *)
Lemma tdigs_num j : forall fv, 0 <= fv < 10 ^ Z.of_nat (S j) ->
  digits_ok (tdigs j fv) /\ 1 <= zlen (tdigs j fv) <= Z.of_nat (S j) /\
  num (tdigs j fv) * 10 ^ (Z.of_nat (S j) - zlen (tdigs j fv)) = fv.
Proof.
  induction j as [|j IH]; intros fv Hfv.
  - rewrite tdigs_O. change (10 ^ Z.of_nat 1) with 10 in Hfv.
    split; [constructor; [unfold is_digit; lia|constructor]|].
    split; [unfold zlen; cbn; lia|].
    rewrite num_single. unfold zlen. cbn [length]. change (Z.of_nat 1 - Z.of_nat 1) with 0. lia.
  - rewrite tdigs_S. rewrite (pow10_S (S j)) in Hfv.
    pose proof (pow10_nat_pos (S j)) as HP. set (P := 10 ^ Z.of_nat (S j)) in *.
    pose proof (Z.mod_pos_bound fv P HP) as Hr. pose proof (Z.div_mod fv P ltac:(lia)) as Hdm.
    assert (Hd : 0 <= fv / P <= 9).
    { split; [apply Z.div_pos; lia|]. apply Z.lt_succ_r. apply Z.div_lt_upper_bound; lia. }
    assert (Hdig : is_digit (fv / P + 48) = true) by (unfold is_digit; lia).
    destruct (0 <? fv mod P) eqn:E.
    + destruct (IH (fv mod P) ltac:(lia)) as (Hok & Hlen & Hnum).
      set (T := tdigs j (fv mod P)) in *.
      split; [constructor; assumption|]. rewrite zlen_cons. split; [lia|].
      cbn [num].
      replace (Z.of_nat (S (S j)) - (zlen T + 1)) with (Z.of_nat (S j) - zlen T) by lia.
      set (e := Z.of_nat (S j) - zlen T) in *.
      assert (HPe : 10 ^ zlen T * 10 ^ e = P).
      { rewrite <- Z.pow_add_r by lia. unfold P, e. f_equal. lia. }
      replace (fv / P + 48 - 48) with (fv / P) by lia.
      rewrite Z.mul_add_distr_r, <- Z.mul_assoc, HPe, Hnum. lia.
    + split; [constructor; [assumption|constructor]|].
      split; [unfold zlen; cbn [length]; lia|].
      rewrite num_single. unfold zlen. cbn [length].
      replace (Z.of_nat (S (S j)) - Z.of_nat 1) with (Z.of_nat (S j)) by lia. fold P. lia.
Qed.

(* a trailing zero of the value does not change the digits written *)
Lemma tdigs_scale j : forall fv, tdigs (S j) (10 * fv) = tdigs j fv.
Proof.
  induction j as [|j IH]; intros fv.
  - rewrite tdigs_S, !tdigs_O. change (10 ^ Z.of_nat 1) with 10.
    rewrite (Z.mul_comm 10 fv), Z.div_mul, Z.mod_mul by lia. reflexivity.
  - rewrite (tdigs_S (S j)), (tdigs_S j fv). rewrite (pow10_S (S j)).
    pose proof (pow10_nat_pos (S j)) as HP. set (P := 10 ^ Z.of_nat (S j)) in *.
    rewrite Z.div_mul_cancel_l by lia. rewrite Z.mul_mod_distr_l by lia.
    destruct (0 <? fv mod P) eqn:E.
    + destruct (0 <? 10 * (fv mod P)) eqn:E1; [|lia]. rewrite IH. reflexivity.
    + destruct (0 <? 10 * (fv mod P)) eqn:E1; [lia|]. reflexivity.
Qed.

Lemma tdigs_scale_n m : forall j fv, tdigs (m + j) (10 ^ Z.of_nat m * fv) = tdigs j fv.
Proof.
  induction m as [|m IH]; intros j fv.
  - change (10 ^ Z.of_nat 0) with 1. rewrite Z.mul_1_l. reflexivity.
  - rewrite pow10_S. replace (10 * 10 ^ Z.of_nat m * fv) with (10 * (10 ^ Z.of_nat m * fv)) by ring.
    change (S m + j)%nat with (S (m + j)). rewrite tdigs_scale. apply IH.
Qed.

Lemma nanos_bound fv fd : 0 <= fd -> 0 <= fv < 10 ^ fd -> 0 <= nanos fv fd < 10 ^ 9.
Proof.
  intros Hfd Hfv. unfold nanos. destruct (fd <=? 9) eqn:E.
  - assert (H9 : 10 ^ 9 = 10 ^ fd * 10 ^ (9 - fd)).
    { rewrite <- Z.pow_add_r by lia. f_equal. lia. }
    rewrite H9. assert (0 < 10 ^ (9 - fd)) by (apply Z.pow_pos_nonneg; lia). nia.
  - assert (HP : 0 < 10 ^ (fd - 9)) by (apply Z.pow_pos_nonneg; lia).
    split; [apply Z.div_pos; lia|]. apply Z.div_lt_upper_bound; [lia|].
    rewrite <- Z.pow_add_r by lia. replace (fd - 9 + 9) with fd by lia. lia.
Qed.

(* asn_time2GT_frac's fraction text depends on the fraction value only *)
Theorem frac_text_nanos fv fd : 0 <= fd -> 0 <= fv < 10 ^ fd ->
  frac_text fv fd = frac_canon (nanos fv fd).
Proof.
  intros Hfd Hfv. unfold frac_text, frac_canon.
  destruct (0 <? fv) eqn:E0.
  2:{ assert (fv = 0) by lia. subst fv. cbn [andb]. unfold nanos.
      destruct (fd <=? 9); [rewrite Z.mul_0_l|rewrite Zdiv_0_l]; reflexivity. }
  assert (Hfd1 : 1 <= fd).
  { destruct (Z.eq_dec fd 0) as [->|]; [change (10 ^ 0) with 1 in Hfv; lia|lia]. }
  destruct (0 <? fd) eqn:E1; [|lia]. cbn [andb].
  set (j := Z.to_nat (Z.min fd 9 - 1)).
  replace (Z.min fd 9 - 1) with (Z.of_nat j) by lia.
  set (fv' := fv / 10 ^ Z.max 0 (fd - 9)).
  assert (Hn : nanos fv fd = (if fd <=? 9 then fv * 10 ^ (9 - fd) else fv')).
  { unfold nanos, fv'. destruct (fd <=? 9) eqn:E; [reflexivity|]. f_equal. f_equal. lia. }
  assert (Hfv' : 0 <= fv' < 10 ^ Z.of_nat (S j)).
  { unfold fv'. destruct (fd <=? 9) eqn:E.
    - replace (Z.max 0 (fd - 9)) with 0 by lia. change (10 ^ 0) with 1. rewrite Z.div_1_r.
      replace (Z.of_nat (S j)) with fd by lia. exact Hfv.
    - replace (Z.max 0 (fd - 9)) with (fd - 9) by lia. replace (Z.of_nat (S j)) with 9 by lia.
      pose proof (nanos_bound fv fd Hfd Hfv) as Hb. unfold nanos in Hb. rewrite E in Hb. exact Hb. }
  rewrite (frac_loop_tdigs j 10 fv' 0 []); [|lia|exact Hfv'|lia|lia]. rewrite app_nil_r.
  destruct (Z.eq_dec fv' 0) as [Hz|Hnz].
  - rewrite Hz, tdigs_zero. cbn [rev app strip_zeros].
    destruct (fd <=? 9) eqn:E.
    + exfalso. unfold fv' in Hz. replace (Z.max 0 (fd - 9)) with 0 in Hz by lia.
      change (10 ^ 0) with 1 in Hz. rewrite Z.div_1_r in Hz. lia.
    + rewrite Hn, Hz. reflexivity.
  - destruct (tdigs_rev_head j fv' ltac:(lia)) as (c & l & Hrev & Hc).
    rewrite Hrev, (strip_zeros_nz c l Hc), <- Hrev, rev_involutive.
    destruct (fd <=? 9) eqn:E.
    + assert (Hfv'eq : fv' = fv).
      { unfold fv'. replace (Z.max 0 (fd - 9)) with 0 by lia. change (10 ^ 0) with 1. apply Z.div_1_r. }
      rewrite Hn. assert (0 < 10 ^ (9 - fd)) by (apply Z.pow_pos_nonneg; lia).
      destruct (fv * 10 ^ (9 - fd) =? 0) eqn:E2; [nia|].
      rewrite Hfv'eq. f_equal.
      set (m := Z.to_nat (9 - fd)).
      replace (9 - fd) with (Z.of_nat m) by lia.
      replace 8%nat with (m + j)%nat by lia.
      rewrite (Z.mul_comm fv). symmetry. apply tdigs_scale_n.
    + rewrite Hn. destruct (fv' =? 0) eqn:E2; [lia|].
      replace j with 8%nat by lia. reflexivity.
Qed.

(* ------------------------------------------------------------------ *)
(* what asn_GT2time_frac hands back: never -1, and fvalue < 10^fdigits *)

Definition res_ok (t fv fd : Z) : Prop := t <> -1 /\ 0 <= fd /\ 0 <= fv < 10 ^ fd.
Definition finv (f : gtfields) : Prop := 0 <= g_fd f /\ 0 <= g_fv f < 10 ^ g_fd f.

Lemma frac_digits_loop_inv bs : forall fv fd fv' fd' rest,
  0 <= fd -> 0 <= fv < 10 ^ fd -> frac_digits_loop bs fv fd = (fv', fd', rest) ->
  0 <= fd' /\ 0 <= fv' < 10 ^ fd'.
Proof.
  induction bs as [|v tl IH]; intros fv fd fv' fd' rest Hfd Hfv H; cbn [frac_digits_loop] in H.
  - inversion H; subst. split; assumption.
  - destruct (is_dig v) eqn:Ed.
    + destruct (fv <? int_max_div10) eqn:El.
      * apply IH in H; [exact H|lia|].
        rewrite Z.pow_add_r by lia. change (10 ^ 1) with 10. unfold is_dig in Ed. lia.
      * apply IH in H; [exact H|lia|exact Hfv].
    + inversion H; subst. split; assumption.
Qed.

Lemma gt_finish_res f g o lg t fv fd : finv f ->
  gt_finish f g o lg = GtOk t fv fd -> res_ok t fv fd.
Proof.
  intros [Hfd Hfv] H. unfold gt_finish in H.
  destruct ((12 <? g_mon f) || (g_mon f <? 1) || (31 <? g_mday f) || (g_mday f <? 1)
            || (23 <? g_hour f) || (60 <? g_sec f)); [discriminate|].
  match type of H with (if ?c then _ else _) = _ => destruct c eqn:E end; [discriminate|].
  inversion H; subst. unfold res_ok. split; [apply Z.eqb_neq; exact E|]. split; assumption.
Qed.

Lemma gt_offset_res f bs lg t fv fd : finv f ->
  gt_offset f bs lg = GtOk t fv fd -> res_ok t fv fd.
Proof.
  intros Hf H. unfold gt_offset in H. destruct bs as [|sgn tl]; [discriminate|].
  destruct (zlen (sgn :: tl) <? 3); [discriminate|].
  destruct (b2f 2 0 tl) as [h rest| |]; try discriminate.
  destruct (zlen rest =? 2).
  - destruct (b2f 2 0 rest) as [m r2| |]; try discriminate. eapply gt_finish_res; eassumption.
  - destruct rest; [|discriminate]. eapply gt_finish_res; eassumption.
Qed.

Lemma gt_tail_res f bs lg t fv fd : finv f ->
  gt_tail f bs lg = GtOk t fv fd -> res_ok t fv fd.
Proof.
  intros Hf H. unfold gt_tail in H. destruct bs as [|c tl].
  - eapply gt_finish_res; eassumption.
  - destruct ((c =? 43) || (c =? 45)); [eapply gt_offset_res; eassumption|].
    destruct (c =? 90); [eapply gt_finish_res; eassumption|discriminate].
Qed.

Lemma gt_frac_res f bs lg t fv fd : finv f ->
  gt_frac f bs lg = GtOk t fv fd -> res_ok t fv fd.
Proof.
  intros Hf H. unfold gt_frac in H. destruct bs as [|c tl].
  - eapply gt_finish_res; eassumption.
  - destruct ((c =? 44) || (c =? 46)).
    + destruct (frac_digits_loop tl 0 0) as [[fv' fd'] rest] eqn:El.
      apply frac_digits_loop_inv in El; [|lia|change (10 ^ 0) with 1; lia].
      eapply gt_tail_res; [|eassumption]. unfold finv, set_frac. cbn [g_fv g_fd]. exact El.
    + eapply gt_tail_res; eassumption.
Qed.

Lemma gt_two_res f bs lg set next t fv fd :
  (forall f0 v, finv f0 -> finv (set f0 v)) ->
  (forall f0 r, finv f0 -> next f0 r = GtOk t fv fd -> res_ok t fv fd) ->
  finv f -> gt_two f bs lg set next = GtOk t fv fd -> res_ok t fv fd.
Proof.
  intros Hset Hnext Hf H. unfold gt_two in H. destruct bs as [|c tl].
  - eapply gt_finish_res; eassumption.
  - destruct (is_dig c).
    + destruct tl as [|c2 tl2]; [discriminate|].
      destruct (b2f 1 (c - 48) (c2 :: tl2)) as [v rest| |]; try discriminate.
      eapply Hnext; [apply Hset; exact Hf|exact H].
    + destruct ((c =? 43) || (c =? 45)); [eapply gt_offset_res; eassumption|].
      destruct (c =? 90); [eapply gt_finish_res; eassumption|discriminate].
Qed.

Theorem GT2time_frac_res bs lg t fv fd :
  GT2time_frac bs lg = GtOk t fv fd -> res_ok t fv fd.
Proof.
  intros H. unfold GT2time_frac in H.
  destruct (zlen bs <? 10); [discriminate|].
  destruct (b2f 4 0 bs) as [year r1| |]; try discriminate.
  destruct (b2f 2 0 r1) as [mon r2| |]; try discriminate.
  destruct (b2f 2 0 r2) as [mday r3| |]; try discriminate.
  destruct (b2f 2 0 r3) as [hour r4| |]; try discriminate.
  assert (H0 : finv (mkGtf year mon mday hour 0 0 0 0)).
  { unfold finv. cbn [g_fv g_fd]. change (10 ^ 0) with 1. lia. }
  eapply gt_two_res; [| |exact H0|exact H].
  - intros f0 v Hf0. exact Hf0.
  - intros f5 r5 Hf5 H5. eapply gt_two_res; [| |exact Hf5|exact H5].
    + intros f0 v Hf0. exact Hf0.
    + intros f6 r6 Hf6 H6. cbv beta in H6. eapply gt_frac_res; eassumption.
Qed.

(* ------------------------------------------------------------------ *)
(* the canonicaliser *)

Lemma gmtime_gmtoff t : tm_gmtoff (gmtime t) = 0.
Proof. unfold gmtime. destruct (civil_from_days (t / 86400)) as [[y m] d]. reflexivity. Qed.

Lemma time2GT_frac_gmtime t fv fd :
  time2GT_frac (gmtime t) fv fd true
  = if negb (zlen (gt_body (gmtime t)) =? 14) then None
    else Some (gt_body (gmtime t) ++ frac_text fv fd ++ [90]).
Proof.
  unfold time2GT_frac. rewrite gmtime_gmtoff. change (true && negb (0 =? 0)) with false. cbv iota.
  fold (gt_body (gmtime t)). destruct (negb (zlen (gt_body (gmtime t)) =? 14)); [reflexivity|].
  rewrite <- app_assoc. reflexivity.
Qed.

Lemma gt_canon_unfold bs lg t fv fd : GT2time_frac bs lg = GtOk t fv fd ->
  gt_canon bs lg = time2GT_frac (gmtime t) fv fd true.
Proof. intros H. unfold gt_canon. rewrite H. reflexivity. Qed.

(* DER of a GeneralizedTime is a function of the instant and of the fraction value:
   two accepted spellings with the same (t, nanos) give the same octets *)
Theorem gt_canon_same_value s1 lg1 s2 lg2 t fv1 fd1 fv2 fd2 :
  GT2time_frac s1 lg1 = GtOk t fv1 fd1 -> GT2time_frac s2 lg2 = GtOk t fv2 fd2 ->
  nanos fv1 fd1 = nanos fv2 fd2 ->
  gt_canon s1 lg1 = gt_canon s2 lg2.
Proof.
  intros H1 H2 Hn.
  destruct (GT2time_frac_res _ _ _ _ _ H1) as (_ & Hd1 & Hv1).
  destruct (GT2time_frac_res _ _ _ _ _ H2) as (_ & Hd2 & Hv2).
  rewrite (gt_canon_unfold _ _ _ _ _ H1), (gt_canon_unfold _ _ _ _ _ H2), !time2GT_frac_gmtime.
  rewrite (frac_text_nanos fv1 fd1 Hd1 Hv1), (frac_text_nanos fv2 fd2 Hd2 Hv2), Hn. reflexivity.
Qed.

(* fractions equal as rationals (nine digits at most each) have equal nanos *)
Theorem nanos_equal_fractions fv1 fd1 fv2 fd2 : 0 <= fd1 <= 9 -> 0 <= fd2 <= 9 ->
  fv1 * 10 ^ fd2 = fv2 * 10 ^ fd1 -> nanos fv1 fd1 = nanos fv2 fd2.
Proof.
  intros H1 H2 He. unfold nanos.
  destruct (fd1 <=? 9) eqn:E1; [|lia]. destruct (fd2 <=? 9) eqn:E2; [|lia].
  assert (HA : 10 ^ fd1 * 10 ^ (9 - fd1) = 10 ^ 9) by (rewrite <- Z.pow_add_r by lia; f_equal; lia).
  assert (HB : 10 ^ fd2 * 10 ^ (9 - fd2) = 10 ^ 9) by (rewrite <- Z.pow_add_r by lia; f_equal; lia).
  assert (PA : 0 < 10 ^ fd1) by (apply Z.pow_pos_nonneg; lia).
  assert (PB : 0 < 10 ^ fd2) by (apply Z.pow_pos_nonneg; lia).
  set (A := 10 ^ fd1) in *. set (B := 10 ^ fd2) in *.
  set (A' := 10 ^ (9 - fd1)) in *. set (B' := 10 ^ (9 - fd2)) in *.
  apply Z.mul_reg_r with (p := A * B); [nia|].
  replace (fv1 * A' * (A * B)) with (fv1 * B * (A * A')) by ring.
  replace (fv2 * B' * (A * B)) with (fv2 * A * (B * B')) by ring.
  rewrite HA, HB, He. reflexivity.
Qed.

(* the text written: 14 digits, the minimal fraction, Z (years 0..9999) *)
Theorem gt_canon_spec bs lg t fv fd : GT2time_frac bs lg = GtOk t fv fd -> t_min <= t < t_max ->
  gt_canon bs lg = Some (gt_body (gmtime t) ++ frac_canon (nanos fv fd) ++ [90]).
Proof.
  intros H Ht. destruct (GT2time_frac_res _ _ _ _ _ H) as (_ & Hd & Hv).
  rewrite (gt_canon_unfold _ _ _ _ _ H), time2GT_frac_gmtime.
  destruct (gt_body_spec t Ht) as [_ Hlen]. unfold zlen. rewrite Hlen.
  change (negb (Z.of_nat 14 =? 14)) with false. cbv iota.
  rewrite (frac_text_nanos fv fd Hd Hv). reflexivity.
Qed.

Definition min_fraction (fr : list Z) : Prop :=
  fr = [] \/ exists fds, fr = 46 :: fds /\ digits_ok fds /\ 1 <= zlen fds <= 9 /\ last fds 0 <> 48.

Lemma frac_canon_shape n : 0 <= n < 10 ^ 9 -> min_fraction (frac_canon n).
Proof.
  intros Hn. unfold frac_canon, min_fraction. destruct (n =? 0) eqn:E; [left; reflexivity|right].
  exists (tdigs 8 n). split; [reflexivity|].
  destruct (tdigs_num 8 n ltac:(change (10 ^ Z.of_nat 9) with (10 ^ 9); lia)) as (Hok & Hlen & _).
  split; [exact Hok|]. split; [change (Z.of_nat 9) with 9 in Hlen; exact Hlen|].
  destruct (tdigs_rev_head 8 n ltac:(change (10 ^ Z.of_nat 9) with (10 ^ 9); lia)) as (c & l & Hrev & Hc).
  assert (Ht : tdigs 8 n = rev l ++ [c]).
  { rewrite <- (rev_involutive (tdigs 8 n)), Hrev. reflexivity. }
  rewrite Ht, last_last. exact Hc.
Qed.

Theorem gt_canon_shape bs lg t fv fd : GT2time_frac bs lg = GtOk t fv fd -> t_min <= t < t_max ->
  exists ds fr, gt_canon bs lg = Some (ds ++ fr ++ [90]) /\
    digits_ok ds /\ length ds = 14%nat /\ min_fraction fr.
Proof.
  intros H Ht. destruct (GT2time_frac_res _ _ _ _ _ H) as (_ & Hd & Hv).
  exists (gt_body (gmtime t)), (frac_canon (nanos fv fd)).
  split; [apply gt_canon_spec; assumption|].
  destruct (gt_body_spec t Ht) as [Hok Hlen]. split; [exact Hok|]. split; [exact Hlen|].
  apply frac_canon_shape. apply nanos_bound; assumption.
Qed.

(* canonicalising twice = once: the output is read back as the same (t, nanos) in any zone *)
Theorem gt_canon_idempotent bs lg t fv fd : GT2time_frac bs lg = GtOk t fv fd -> t_min <= t < t_max ->
  exists out, gt_canon bs lg = Some out /\ forall lg', gt_canon out lg' = Some out.
Proof.
  intros H Ht. destruct (GT2time_frac_res _ _ _ _ _ H) as (Hne & Hd & Hv).
  exists (gt_body (gmtime t) ++ frac_canon (nanos fv fd) ++ [90]).
  split; [apply gt_canon_spec; assumption|]. intros lg'.
  pose proof (nanos_bound fv fd Hd Hv) as Hb. set (n := nanos fv fd) in *.
  unfold frac_canon. destruct (n =? 0) eqn:E.
  - cbn [app]. pose proof (GT2time_frac_body t lg' Ht Hne) as Hr.
    rewrite (gt_canon_spec _ _ _ _ _ Hr Ht). unfold nanos. change (0 <=? 9) with true. cbv iota.
    rewrite Z.mul_0_l. reflexivity.
  - destruct (tdigs_num 8 n ltac:(change (10 ^ Z.of_nat 9) with (10 ^ 9); lia)) as (Hok & Hlen & Hnum).
    change (Z.of_nat 9) with 9 in *. set (T := tdigs 8 n) in *.
    cbn [app].
    pose proof (gt_frac_read t T lg' Ht Hne Hok ltac:(lia)) as Hr.
    rewrite (gt_canon_spec _ _ _ _ _ Hr Ht).
    assert (Hnn : nanos (num T) (zlen T) = n).
    { unfold nanos. destruct (zlen T <=? 9) eqn:E9; [exact Hnum|lia]. }
    rewrite Hnn. unfold frac_canon. rewrite E. reflexivity.
Qed.

(* ------------------------------------------------------------------ *)
(* the fast path of seeded/C06-7 *)

(* it changes nothing where it does not apply *)
Theorem gt_canon_fast_partial ok bs lg : ok bs = false -> gt_canon_with ok bs lg = gt_canon bs lg.
Proof. intros H. unfold gt_canon_with. rewrite H. reflexivity. Qed.

Definition str (l : list nat) : list Z := map Z.of_nat l.
Definition s_2026_hm : list Z := str [50;48;50;54;48;49;48;49;49;50;48;48;90]%nat.          (* 202601011200Z *)
Definition s_2026_h : list Z := str [50;48;50;54;48;49;48;49;49;50;90]%nat.                (* 2026010112Z *)
Definition s_2026 : list Z := str [50;48;50;54;48;49;48;49;49;50;48;48;48;48;90]%nat.      (* 20260101120000Z *)
Definition s_leap : list Z := str [50;48;49;54;49;50;51;49;50;51;53;57;54;48;90]%nat.      (* 20161231235960Z *)
Definition s_2017 : list Z := str [50;48;49;55;48;49;48;49;48;48;48;48;48;48;90]%nat.      (* 20170101000000Z *)

(* two spellings of one instant, one DER with the unchanged encoder, two with the fast path;
   the fast path's output is not of the X.690 11.7 shape (13 and 11 octets) *)
Theorem gt_canon_fast_refuted :
  GT2time_frac s_2026_hm 0 = GtOk 1767268800 0 0 /\ GT2time_frac s_2026_h 0 = GtOk 1767268800 0 0 /\
  GT2time_frac s_2026 0 = GtOk 1767268800 0 0 /\
  gt_canon s_2026_hm 0 = Some s_2026 /\ gt_canon s_2026_h 0 = Some s_2026 /\ gt_canon s_2026 0 = Some s_2026 /\
  gt_canon_fast s_2026_hm 0 = Some s_2026_hm /\ gt_canon_fast s_2026_h 0 = Some s_2026_h /\
  gt_canon_fast s_2026 0 = Some s_2026 /\ s_2026_hm <> s_2026 /\ s_2026_h <> s_2026.
Proof. vm_compute. repeat split; congruence. Qed.

(* requiring all 14 digits does not repair it: the reader carries second 60 (and day 31 of
   a short month, minute 99) into the next unit, the verbatim text does not *)
Theorem gt_canon_fast14_refuted :
  gt_fast14_ok s_leap = true /\ GT2time_frac s_leap 0 = GtOk 1483228800 0 0 /\
  GT2time_frac s_2017 0 = GtOk 1483228800 0 0 /\
  gt_canon s_leap 0 = Some s_2017 /\ gt_canon_fast14 s_leap 0 = Some s_leap /\ s_leap <> s_2017.
Proof. vm_compute. repeat split; congruence. Qed.

(* ------------------------------------------------------------------ *)
(* UTCTime *)

Lemma localtime_0 t : localtime t 0 = gmtime t.
Proof.
  unfold localtime. rewrite Z.add_0_r. pose proof (gmtime_gmtoff t) as H.
  destruct (gmtime t); cbn in *. subst. reflexivity.
Qed.

Lemma UT2time_res bs lg t a b : UT2time bs lg = GtOk t a b -> t <> -1.
Proof.
  unfold UT2time. destruct ((zlen bs <? 11) || (22 <=? zlen bs)); [discriminate|].
  unfold GT2time. intros H.
  destruct (GT2time_frac ((if 53 <? hd 0 bs then [49; 57] else [50; 48]) ++ bs) lg) as [t' fv fd| |] eqn:E;
    try discriminate.
  inversion H; subst. apply GT2time_frac_res in E. destruct E as [E _]. exact E.
Qed.

(* the canonicaliser UTCTime_encode_xer computes (and the patch uses for DER): a function of
   the instant, of the X.690 11.8 shape, idempotent, within UTCTime's window 1960..2059 *)
Theorem ut_canon_same_instant s1 lg1 s2 lg2 t a1 b1 a2 b2 :
  UT2time s1 lg1 = GtOk t a1 b1 -> UT2time s2 lg2 = GtOk t a2 b2 -> ut_canon s1 lg1 = ut_canon s2 lg2.
Proof. intros H1 H2. unfold ut_canon. rewrite H1, H2. reflexivity. Qed.

Theorem ut_canon_idempotent bs lg t a b : UT2time bs lg = GtOk t a b -> ut_min <= t < ut_max ->
  exists out ds, ut_canon bs lg = Some out /\ out = ds ++ [90] /\ digits_ok ds /\ length ds = 12%nat /\
    forall lg', ut_canon out lg' = Some out.
Proof.
  intros H Ht. pose proof (UT2time_res _ _ _ _ _ H) as Hne.
  destruct (ut_roundtrip_partial t 0 0 Ht Hne) as (txt & ds & Htxt & Heq & Hok & Hlen & _).
  rewrite localtime_0 in Htxt.
  exists txt, ds. split; [unfold ut_canon; rewrite H; exact Htxt|].
  split; [exact Heq|]. split; [exact Hok|]. split; [exact Hlen|]. intros lg'.
  destruct (ut_roundtrip_partial t 0 lg' Ht Hne) as (txt' & ds' & Htxt' & _ & _ & _ & Hback).
  rewrite localtime_0 in Htxt'. rewrite Htxt in Htxt'. inversion Htxt'; subst txt'.
  unfold ut_canon. rewrite Hback. exact Htxt.
Qed.

Definition u_2026_hm : list Z := str [50;54;48;49;48;49;49;50;48;48;90]%nat.                (* 2601011200Z *)
Definition u_2026 : list Z := str [50;54;48;49;48;49;49;50;48;48;48;48;90]%nat.            (* 260101120000Z *)
Definition u_2026_off : list Z := str [50;54;48;49;48;49;49;51;48;48;48;48;43;48;49;48;48]%nat. (* 260101130000+0100 *)

(* UTCTime_encode_der (fix 05 of notes/fixes/I): the DER contents depend on the instant only ... *)
Theorem ut_der_same_instant s1 lg1 s2 lg2 t a1 b1 a2 b2 :
  UT2time s1 lg1 = GtOk t a1 b1 -> UT2time s2 lg2 = GtOk t a2 b2 -> ut_min <= t < ut_max ->
  ut_der s1 lg1 = ut_der s2 lg2.
Proof.
  intros H1 H2 Ht. destruct (ut_canon_idempotent s1 lg1 t a1 b1 H1 Ht) as (out & _ & Hc & _).
  unfold ut_der. rewrite <- (ut_canon_same_instant _ _ _ _ _ _ _ _ _ H1 H2), Hc. reflexivity.
Qed.

(* ... have the X.690 11.8 shape (twelve digits and Z) and are a fixed point of the encoder under every zone setting *)
Theorem ut_der_shape_idempotent bs lg t a b : UT2time bs lg = GtOk t a b -> ut_min <= t < ut_max ->
  exists ds, ut_der bs lg = ds ++ [90] /\ digits_ok ds /\ length ds = 12%nat /\
    forall lg', ut_der (ut_der bs lg) lg' = ut_der bs lg.
Proof.
  intros H Ht. destruct (ut_canon_idempotent bs lg t a b H Ht) as (out & ds & Hc & Heq & Hok & Hlen & Hback).
  assert (Hd : ut_der bs lg = out) by (unfold ut_der; rewrite Hc; reflexivity).
  exists ds. rewrite Hd. split; [exact Heq|]. split; [exact Hok|]. split; [exact Hlen|].
  intros lg'. unfold ut_der. rewrite Hback. reflexivity.
Qed.

(* a text asn_UT2time does not read is written as it is stored *)
Theorem ut_der_unread_verbatim bs lg : ut_canon bs lg = None -> ut_der bs lg = bs.
Proof. intros H. unfold ut_der. rewrite H. reflexivity. Qed.

(* three spellings of one instant (the witnesses of the former finding C06-utctime-der-verbatim): one DER *)
Theorem ut_der_witnesses :
  UT2time u_2026_hm 0 = GtOk 1767268800 0 0 /\ UT2time u_2026 0 = GtOk 1767268800 0 0 /\
  UT2time u_2026_off 0 = GtOk 1767268800 0 0 /\
  ut_der u_2026_hm 0 = u_2026 /\ ut_der u_2026_off 0 = u_2026 /\ ut_der u_2026 0 = u_2026.
Proof. vm_compute. repeat split; congruence. Qed.

(* ------------------------------------------------------------------ *)
(* compare_struct of two GeneralizedTime values with equal instants *)

(* the repaired comparison is the order of the fraction values *)
Theorem frac_cmp_fix_nanos av ad bv bd : 0 <= ad <= 9 -> 0 <= bd <= 9 ->
  frac_cmp_fix av ad bv bd = (nanos av ad ?= nanos bv bd).
Proof.
  intros Ha Hb. unfold frac_cmp_fix, nanos.
  destruct (ad <=? 9) eqn:E1; [|lia]. destruct (bd <=? 9) eqn:E2; [|lia].
  assert (HA : 10 ^ ad * 10 ^ (9 - ad) = 10 ^ 9) by (rewrite <- Z.pow_add_r by lia; f_equal; lia).
  assert (HB : 10 ^ bd * 10 ^ (9 - bd) = 10 ^ 9) by (rewrite <- Z.pow_add_r by lia; f_equal; lia).
  assert (PA : 0 < 10 ^ (9 - ad)) by (apply Z.pow_pos_nonneg; lia).
  assert (PB : 0 < 10 ^ (9 - bd)) by (apply Z.pow_pos_nonneg; lia).
  set (A := 10 ^ ad) in *. set (B := 10 ^ bd) in *.
  set (A' := 10 ^ (9 - ad)) in *. set (B' := 10 ^ (9 - bd)) in *.
  rewrite (Zmult_compare_compat_r (av * B) (bv * A) (A' * B')) by nia.
  replace (av * B * (A' * B')) with (av * A' * (B * B')) by ring.
  replace (bv * A * (A' * B')) with (bv * B' * (A * A')) by ring.
  rewrite HA, HB. symmetry. apply Zmult_compare_compat_r. lia.
Qed.

(* the repaired C (C06-fix-9) IS that order, whatever the two digit counts *)
Theorem frac_cmp_c_value_order av ad bv bd : 0 <= ad -> 0 <= bd ->
  frac_cmp_c av ad bv bd = frac_cmp_fix av ad bv bd.
Proof.
  intros Ha Hb. unfold frac_cmp_c, frac_cmp_fix. destruct (ad =? bd) eqn:E; [|reflexivity].
  apply Z.eqb_eq in E. subst ad.
  apply Zmult_compare_compat_r. assert (0 < 10 ^ bd) by (apply Z.pow_pos_nonneg; lia). lia.
Qed.

Theorem frac_cmp_c_nanos av ad bv bd : 0 <= ad <= 9 -> 0 <= bd <= 9 ->
  frac_cmp_c av ad bv bd = (nanos av ad ?= nanos bv bd).
Proof.
  intros Ha Hb. rewrite frac_cmp_c_value_order by lia. apply frac_cmp_fix_nanos; assumption.
Qed.

(* equal exactly for one rational value, and antisymmetric *)
Theorem frac_cmp_c_eq_iff av ad bv bd : 0 <= ad -> 0 <= bd ->
  (frac_cmp_c av ad bv bd = Eq <-> av * 10 ^ bd = bv * 10 ^ ad).
Proof.
  intros Ha Hb. rewrite frac_cmp_c_value_order by lia. unfold frac_cmp_fix. apply Z.compare_eq_iff.
Qed.

Theorem frac_cmp_c_antisym av ad bv bd : 0 <= ad -> 0 <= bd ->
  frac_cmp_c bv bd av ad = CompOpp (frac_cmp_c av ad bv bd).
Proof.
  intros Ha Hb. rewrite !frac_cmp_c_value_order by lia. unfold frac_cmp_fix. apply Z.compare_antisym.
Qed.

(* the former witnesses of the defect: .5 against .50 (equal), no fraction against .0 (equal),
   .5 against .25, .25 against .3 *)
Theorem frac_cmp_c_witnesses :
  frac_cmp_c 5 1 50 2 = Eq /\ frac_cmp_c 0 0 0 1 = Eq /\
  frac_cmp_c 5 1 25 2 = Gt /\ frac_cmp_c 25 2 3 1 = Lt.
Proof. vm_compute. repeat split. Qed.
