(* Leaf/Decimal.v — decimal printing as done by snprintf("%d"/"%0wd"/"%lu"),
   used by the C17 models (dotted OID text, GeneralizedTime fields).
   No proofs in this file. *)
From Coq Require Import ZArith List.
Import ListNotations.
Local Open Scope Z_scope.

(* digits of v >= 0, most significant first; 20 rounds cover every 64-bit value *)
Fixpoint dec_loop (fuel : nat) (v : Z) (acc : list Z) : list Z :=
  match fuel with
  | O => acc
  | S k =>
      let acc' := (48 + v mod 10) :: acc in
      if v / 10 =? 0 then acc' else dec_loop k (v / 10) acc'
  end.

Definition dec_digits (v : Z) : list Z := dec_loop 20 v [].

(* "%0<w>d": zero padding to width w; a negative value gets its '-' first and
   the padding fills the remaining width *)
Definition fmt_d (w : nat) (n : Z) : list Z :=
  if n <? 0 then
    let ds := dec_digits (- n) in 45 :: repeat 48 (w - 1 - length ds) ++ ds
  else
    let ds := dec_digits n in repeat 48 (w - length ds) ++ ds.
